/-
Model of `crates/net/src/tcp/tcp_stream.rs` (`TcpStream<S>` as a `futures::Stream`), as coded.

* `RdSt`  = `ReadTcpState`  (`LenBytes{pos,bytes:[u8;2]}` → `Bytes{pos,bytes:Vec<u8>}`),
* `WrSt`  = `WriteTcpState` (`LenBytes{pos,length,bytes}` → `Bytes{pos,bytes}` → `Flushing`),
* `WSide` = `outbound_messages` (the mpsc receiver, a FIFO) + `send_state` + the write half of the socket,
* `Conn`  = the whole `TcpStream` together with the scripted socket it owns,
* `pollNext` = one call of `<TcpStream as Stream>::poll_next`: first the send loop, then the receive loop.

The socket is a script: a list of read events and a list of write events.  One model step
(`readStep`, one iteration of `writeLoop`) is exactly one `poll_read` / `poll_write[_vectored]` /
`poll_flush` call of the Rust code.  An exhausted script means "the socket would block and nobody wakes
the task" (`idle`); a scripted `pending` means `Poll::Pending` after which the task is woken again.

Representation choice: a read buffer `bytes` with cursor `pos` is represented by the filled prefix
`got = bytes[..pos]` and the buffer length (`2` resp. `len`); the unfilled zeroes behind `pos` are not
observable.  Bytes are `Nat` (< 256 on every parsed input).
-/
import HickoryVerif.Basic

set_option linter.unusedVariables false

namespace HickoryVerif.TcpFraming
open HickoryVerif

/-! ## scripted socket -/

/-- read half: what the next `poll_read` meets -/
inductive REv where
  /-- `bs` bytes are available now (`poll_read` takes `min(buf.len(), bs.length)` of them) -/
  | data (bs : Bytes)
  /-- `Poll::Pending`, the waker is woken at once -/
  | pending
  /-- the peer closed: `Ok(0)` from now on -/
  | eof
  /-- `Err(_)` -/
  | err
  deriving Repr, DecidableEq

/-- write half: what the next `poll_write[_vectored]` / `poll_flush` meets -/
inductive WEv where
  /-- `poll_write` takes `min(n, buf.len())` bytes (`poll_flush`: succeeds, event stays) -/
  | accept (n : Nat)
  | pending
  | err
  deriving Repr, DecidableEq

inductive RdRes where
  /-- `Poll::Ready(Ok(bs.length))`, the bytes copied into the buffer -/
  | ready (bs : Bytes)
  /-- `Poll::Pending`, woken -/
  | pending
  /-- `Poll::Pending`, never woken (script exhausted) -/
  | idle
  | err
  deriving Repr, DecidableEq

/-- `poll_read(cx, buf)` with `buf.len() = n` on the scripted socket. Empty `data` chunks are skipped;
an empty buffer on available data reads `Ok(0)` without consuming anything. -/
def sockRead : List REv → Nat → RdRes × List REv
  | [], _ => (.idle, [])
  | .pending :: s, _ => (.pending, s)
  | .err :: s, _ => (.err, s)
  | .eof :: s, _ => (.ready [], .eof :: s)
  | .data bs :: s, n =>
    if bs = [] then sockRead s n
    else if n = 0 then (.ready [], .data bs :: s)
    else if bs.length ≤ n then (.ready bs, s)
    else (.ready (bs.take n), .data (bs.drop n) :: s)

inductive WrRes where
  | wrote (bs : Bytes)
  | pending
  | idle
  | err
  deriving Repr, DecidableEq

/-- `poll_write(cx, buf)` -/
def sockWrite (ws : List WEv) (buf : Bytes) : WrRes × List WEv :=
  match ws with
  | [] => (.idle, [])
  | .accept n :: s => (.wrote (buf.take n), s)
  | .pending :: s => (.pending, s)
  | .err :: s => (.err, s)

/-- `poll_write_vectored(cx, bufs)`: either a real gather-write (`vec = true`), or the default
method of `futures_io::AsyncWrite` which writes the first non-empty buffer only. -/
def sockWriteVectored (vec : Bool) (ws : List WEv) (bufs : List Bytes) : WrRes × List WEv :=
  if vec then sockWrite ws bufs.flatten
  else sockWrite ws ((bufs.find? (fun b => !b.isEmpty)).getD [])

inductive FlRes where
  | ok | pending | idle | err
  deriving Repr, DecidableEq

/-- `poll_flush(cx)` -/
def sockFlush (ws : List WEv) : FlRes × List WEv :=
  match ws with
  | [] => (.idle, [])
  | .pending :: s => (.pending, s)
  | .err :: s => (.err, s)
  | .accept n :: s => (.ok, .accept n :: s)

/-! ## the read machine -/

/-- `ReadTcpState` -/
inductive RdSt where
  /-- `LenBytes { pos: got.length, bytes }`, `got = bytes[..pos]` -/
  | lenBytes (got : Bytes)
  /-- `Bytes { pos: got.length, bytes }`, `bytes.len() = len`, `got = bytes[..pos]` -/
  | datBytes (len : Nat) (got : Bytes)
  deriving Repr, DecidableEq

/-- `u16::from_be_bytes` -/
def u16be : Bytes → Nat
  | [a, b] => a * 256 + b
  | _ => 0

/-- `bytes[*pos..].len()`: the size of the buffer handed to `poll_read` -/
def RdSt.need : RdSt → Nat
  | .lenBytes got => 2 - got.length
  | .datBytes len got => len - got.length

/-- result of one pass through the body of `while ret_buf.is_none()` -/
inductive RdOut where
  /-- no message yet, loop again -/
  | cont
  /-- `ret_buf = Some(m)` → `Poll::Ready(Some(Ok(m)))` -/
  | msg (m : Bytes)
  /-- `ready!` returned `Poll::Pending` (task woken) -/
  | pending
  /-- `Poll::Pending` with nobody to wake the task -/
  | idle
  /-- `Poll::Ready(None)`: closed at the start of a message -/
  | endClean
  /-- `Err(BrokenPipe)`: "closed while reading length" / "closed while reading message" -/
  | errClosed
  /-- `poll_read` returned `Err`, passed on by `?` -/
  | ioErr
  deriving Repr, DecidableEq

/-- the `read == 0` branches -/
def RdSt.closed : RdSt → RdOut
  | .lenBytes [] => .endClean
  | .lenBytes _ => .errClosed
  | .datBytes _ _ => .errClosed

/-- `*pos += read` and the computation of `new_state`, for `read = bs.length > 0` bytes -/
def RdSt.absorb (st : RdSt) (bs : Bytes) : RdSt × RdOut :=
  match st with
  | .lenBytes got =>
    let got' := got ++ bs
    if got'.length < 2 then (.lenBytes got', .cont)
    else (.datBytes (u16be got') [], .cont)
  | .datBytes len got =>
    let got' := got ++ bs
    if got'.length < len then (.datBytes len got', .cont)
    else (.lenBytes [], .msg got')

/-- one `poll_read` call and what the loop body does with its result -/
def readStep (st : RdSt) (s : List REv) : RdSt × List REv × RdOut :=
  match sockRead s st.need with
  | (.pending, s') => (st, s', .pending)
  | (.idle, s') => (st, s', .idle)
  | (.err, s') => (st, s', .ioErr)
  | (.ready bs, s') =>
    if bs = [] then (st, s', st.closed)
    else
      let r := st.absorb bs
      (r.1, s', r.2)

/-- total size of a read script (termination measure) -/
def rsize : List REv → Nat
  | [] => 0
  | .data bs :: s => bs.length + 1 + rsize s
  | _ :: s => 1 + rsize s

theorem sockRead_le (s : List REv) (n : Nat) : rsize (sockRead s n).2 ≤ rsize s := by
  fun_induction sockRead s n <;> simp_all [rsize] <;> omega

theorem sockRead_ready_lt {s : List REv} {n : Nat} {bs : Bytes} {s' : List REv}
    (h : sockRead s n = (.ready bs, s')) (hb : bs ≠ []) : rsize s' < rsize s := by
  fun_induction sockRead s n <;> simp_all [rsize]
  · omega
  · obtain ⟨_, rfl⟩ := h; simp [rsize]; omega

theorem sockRead_pending_lt {s : List REv} {n : Nat} {s' : List REv}
    (h : sockRead s n = (.pending, s')) : rsize s' < rsize s := by
  fun_induction sockRead s n <;> simp_all [rsize]
  omega

theorem readStep_le (st : RdSt) (s : List REv) : rsize (readStep st s).2.1 ≤ rsize s := by
  have := sockRead_le s st.need
  unfold readStep
  split <;> simp_all
  split <;> simp_all

theorem readStep_cont_lt {st : RdSt} {s : List REv} {st' : RdSt} {s' : List REv}
    (h : readStep st s = (st', s', .cont)) : rsize s' < rsize s := by
  unfold readStep at h
  split at h
  · simp at h
  · simp at h
  · simp at h
  · rename_i bs s'' heq
    split at h
    · cases st with
      | lenBytes got => cases got <;> simp [RdSt.closed] at h
      | datBytes l g => simp [RdSt.closed] at h
    · rename_i hb
      simp at h
      obtain ⟨_, rfl, _⟩ := h
      exact sockRead_ready_lt heq hb

/-- the receive loop of `poll_next`: `poll_read` until a message is complete, the socket blocks,
closes or fails -/
def readLoop (st : RdSt) (s : List REv) : RdSt × List REv × RdOut :=
  match h : readStep st s with
  | (st', s', .cont) => readLoop st' s'
  | r => r
termination_by rsize s
decreasing_by exact readStep_cont_lt h

/-! ## the write machine -/

/-- `WriteTcpState` -/
inductive WrSt where
  | lenBytes (pos : Nat) (length : Bytes) (bytes : Bytes)
  | datBytes (pos : Nat) (bytes : Bytes)
  | flushing
  deriving Repr, DecidableEq

/-- `u16::to_be_bytes(buffer.len() as u16)` — the `as u16` cast truncates silently -/
def lenPrefix (n : Nat) : Bytes := [n % 65536 / 256, n % 256]

/-- the send half: `outbound_messages` (message, `dst == peer`), `send_state`, socket write half -/
structure WSide where
  queue : List (Bytes × Bool) := []
  send : Option WrSt := none
  ws : List WEv := []
  /-- every byte the socket accepted so far -/
  written : Bytes := []
  /-- successful `poll_flush` calls -/
  flushes : Nat := 0
  /-- futures mpsc: the handle used by `send` is parked (its next `try_send` fails "full") -/
  parked : Bool := false
  /-- futures mpsc `parked_queue`: `true` = the handle, `false` = a dropped `with_remote_addr` clone -/
  parkedQ : List Bool := []
  /-- messages `send` refused because the queue was full -/
  rejected : Nat := 0
  deriving Repr

/-- `BufDnsStreamHandle::new`: `DEFAULT_STREAM_BUFFER_SIZE` -/
def bufferSize : Nat := 32

/-- `Receiver::next_message` → `unpark_one`: popping a message un-parks the longest-parked sender -/
def WSide.unparkOne (w : WSide) : WSide :=
  match w.parkedQ with
  | [] => w
  | true :: r => { w with parked := false, parkedQ := r }
  | false :: r => { w with parkedQ := r }

@[simp] theorem unparkOne_queue (w : WSide) : w.unparkOne.queue = w.queue := by
  unfold WSide.unparkOne; split <;> rfl
@[simp] theorem unparkOne_send (w : WSide) : w.unparkOne.send = w.send := by
  unfold WSide.unparkOne; split <;> rfl
@[simp] theorem unparkOne_ws (w : WSide) : w.unparkOne.ws = w.ws := by
  unfold WSide.unparkOne; split <;> rfl
@[simp] theorem unparkOne_written (w : WSide) : w.unparkOne.written = w.written := by
  unfold WSide.unparkOne; split <;> rfl
@[simp] theorem unparkOne_flushes (w : WSide) : w.unparkOne.flushes = w.flushes := by
  unfold WSide.unparkOne; split <;> rfl

inductive WOut where
  /-- nothing left to send: fall through to the receive loop -/
  | done
  | pending
  | idle
  | err
  deriving Repr, DecidableEq

def WrSt.rank : Option WrSt → Nat
  | none => 0
  | some .flushing => 1
  | some _ => 2

/-- termination measure of the send loop -/
def WSide.measure (w : WSide) : Nat := 2 * w.ws.length + 3 * w.queue.length + WrSt.rank w.send

/-- "switch states" after a successful write in `LenBytes` -/
def WrSt.afterLen (pos : Nat) (length bytes : Bytes) : WrSt :=
  if pos < length.length then .lenBytes pos length bytes
  else if pos < length.length + bytes.length then .datBytes (pos - length.length) bytes
  else .flushing

/-- "switch states" after a successful write in `Bytes` -/
def WrSt.afterDat (pos : Nat) (bytes : Bytes) : WrSt :=
  if pos < bytes.length then .datBytes pos bytes else .flushing

@[simp] theorem rank_none : WrSt.rank none = 0 := rfl
@[simp] theorem rank_flushing : WrSt.rank (some .flushing) = 1 := rfl
@[simp] theorem rank_len (p : Nat) (l b : Bytes) : WrSt.rank (some (.lenBytes p l b)) = 2 := rfl
@[simp] theorem rank_dat (p : Nat) (b : Bytes) : WrSt.rank (some (.datBytes p b)) = 2 := rfl

theorem rank_afterLen (pos : Nat) (l b : Bytes) : WrSt.rank (some (WrSt.afterLen pos l b)) ≤ 2 := by
  unfold WrSt.afterLen
  split
  · simp
  · split <;> simp

theorem rank_afterDat (pos : Nat) (b : Bytes) : WrSt.rank (some (WrSt.afterDat pos b)) ≤ 2 := by
  unfold WrSt.afterDat; split <;> simp

/-- the send loop of `poll_next` (`loop { if send_state.is_some() {…} else {…} }`) -/
def writeLoop (vec : Bool) (w : WSide) : WSide × WOut :=
  match hs : w.send with
  | some (.lenBytes pos length bytes) =>
    match hw : sockWriteVectored vec w.ws [length.drop pos, bytes] with
    | (.pending, ws') => ({ w with ws := ws' }, .pending)
    | (.idle, ws') => ({ w with ws := ws' }, .idle)
    | (.err, ws') => ({ w with ws := ws' }, .err)
    | (.wrote bs, ws') =>
      writeLoop vec { w with send := some (WrSt.afterLen (pos + bs.length) length bytes), ws := ws',
                             written := w.written ++ bs }
  | some (.datBytes pos bytes) =>
    match hw : sockWrite w.ws (bytes.drop pos) with
    | (.pending, ws') => ({ w with ws := ws' }, .pending)
    | (.idle, ws') => ({ w with ws := ws' }, .idle)
    | (.err, ws') => ({ w with ws := ws' }, .err)
    | (.wrote bs, ws') =>
      writeLoop vec { w with send := some (WrSt.afterDat (pos + bs.length) bytes), ws := ws',
                             written := w.written ++ bs }
  | some .flushing =>
    match hw : sockFlush w.ws with
    | (.pending, ws') => ({ w with ws := ws' }, .pending)
    | (.idle, ws') => ({ w with ws := ws' }, .idle)
    | (.err, ws') => ({ w with ws := ws' }, .err)
    | (.ok, ws') => writeLoop vec { w with send := none, ws := ws', flushes := w.flushes + 1 }
  | none =>
    match hq : w.queue with
    | [] => (w, .done)
    | (m, dstOk) :: q =>
      if dstOk then
        writeLoop vec { w.unparkOne with queue := q, send := some (.lenBytes 0 (lenPrefix m.length) m) }
      else ({ w.unparkOne with queue := q }, .err)   -- "mismatched peer", the message is dropped
termination_by w.measure
decreasing_by
  · have := rank_afterLen (pos + bs.length) length bytes
    simp only [WSide.measure, hs, rank_len]
    unfold sockWriteVectored sockWrite at hw
    split at hw <;> split at hw <;> simp_all <;> omega
  · have := rank_afterDat (pos + bs.length) bytes
    simp only [WSide.measure, hs, rank_dat]
    unfold sockWrite at hw
    split at hw <;> simp_all <;> omega
  · simp only [WSide.measure, hs, rank_flushing, rank_none]
    unfold sockFlush at hw
    split at hw <;> simp_all
  · simp only [WSide.measure, hs, hq, rank_len, rank_none, List.length_cons, unparkOne_ws]
    omega

/-! ## the connection and `poll_next` -/

structure Conn where
  /-- does the socket implement a real `poll_write_vectored`? -/
  vec : Bool := true
  w : WSide := {}
  rd : RdSt := .lenBytes []
  rs : List REv := []
  deriving Repr

/-- what one `poll_next` returns -/
inductive Item where
  /-- `Ready(Some(Ok(m)))` -/
  | msg (m : Bytes)
  /-- `Pending`, the task has been woken -/
  | pending
  /-- `Pending`, nothing will wake the task (a scripted socket half is exhausted) -/
  | idle
  /-- `Ready(None)` -/
  | endClean
  /-- `Ready(Some(Err(_)))` -/
  | err
  deriving Repr, DecidableEq

def RdOut.toItem : RdOut → Item
  | .cont => .pending   -- unreachable: `readLoop` never returns `cont`
  | .msg m => .msg m
  | .pending => .pending
  | .idle => .idle
  | .endClean => .endClean
  | .errClosed => .err
  | .ioErr => .err

/-- `<TcpStream as Stream>::poll_next` -/
def pollNext (c : Conn) : Conn × Item :=
  match writeLoop c.vec c.w with
  | (w', .pending) => ({ c with w := w' }, .pending)
  | (w', .idle) => ({ c with w := w' }, .idle)
  | (w', .err) => ({ c with w := w' }, .err)
  | (w', .done) =>
    let r := readLoop c.rd c.rs
    ({ c with w := w', rd := r.1, rs := r.2.1 }, r.2.2.toItem)

/-- `BufDnsStreamHandle::send` = futures mpsc `try_send` on a channel of `bufferSize`: refused
("full") while the handle is parked; otherwise the message is queued and, if the queue now holds more
than `bufferSize` messages, the handle parks itself.  `dstOk = false`: sent through a fresh
`with_remote_addr(other)` clone, which is never parked beforehand and is dropped afterwards. -/
def Conn.enqueue (c : Conn) (m : Bytes) (dstOk : Bool := true) : Conn :=
  if dstOk && c.w.parked then { c with w := { c.w with rejected := c.w.rejected + 1 } }
  else if c.w.queue.length + 1 > bufferSize then
    { c with w := { c.w with queue := c.w.queue ++ [(m, dstOk)], parked := c.w.parked || dstOk,
                             parkedQ := c.w.parkedQ ++ [dstOk] } }
  else { c with w := { c.w with queue := c.w.queue ++ [(m, dstOk)] } }

/-- does `send` take the message? (`dstOk = false` uses a fresh clone, which is never parked) -/
def Conn.accepts (c : Conn) (dstOk : Bool) : Bool := !(dstOk && c.w.parked)

@[simp] theorem enqueue_rd (c : Conn) (m : Bytes) (ok : Bool) : (c.enqueue m ok).rd = c.rd := by
  unfold Conn.enqueue; split <;> (try split) <;> rfl
@[simp] theorem enqueue_rs (c : Conn) (m : Bytes) (ok : Bool) : (c.enqueue m ok).rs = c.rs := by
  unfold Conn.enqueue; split <;> (try split) <;> rfl
@[simp] theorem enqueue_vec (c : Conn) (m : Bytes) (ok : Bool) : (c.enqueue m ok).vec = c.vec := by
  unfold Conn.enqueue; split <;> (try split) <;> rfl
@[simp] theorem enqueue_send (c : Conn) (m : Bytes) (ok : Bool) : (c.enqueue m ok).w.send = c.w.send := by
  unfold Conn.enqueue; split <;> (try split) <;> rfl
@[simp] theorem enqueue_ws (c : Conn) (m : Bytes) (ok : Bool) : (c.enqueue m ok).w.ws = c.w.ws := by
  unfold Conn.enqueue; split <;> (try split) <;> rfl
@[simp] theorem enqueue_written (c : Conn) (m : Bytes) (ok : Bool) :
    (c.enqueue m ok).w.written = c.w.written := by
  unfold Conn.enqueue; split <;> (try split) <;> rfl
theorem enqueue_queue (c : Conn) (m : Bytes) (ok : Bool) :
    (c.enqueue m ok).w.queue = if c.accepts ok then c.w.queue ++ [(m, ok)] else c.w.queue := by
  unfold Conn.enqueue Conn.accepts
  split
  · rename_i h; simp [h]
  · rename_i h; simp only [h]; split <;> simp

def Conn.measure (c : Conn) : Nat := c.w.measure + rsize c.rs

/-! ## measure facts (termination of the consumer loop) -/

theorem readStep_progress_lt {st : RdSt} {s : List REv} {st' : RdSt} {s' : List REv} {o : RdOut}
    (h : readStep st s = (st', s', o)) (ho : o = .pending ∨ ∃ m, o = .msg m) : rsize s' < rsize s := by
  unfold readStep at h
  split at h
  · rename_i s'' heq
    simp at h; obtain ⟨_, rfl, _⟩ := h
    exact sockRead_pending_lt heq
  · simp at h; obtain ⟨_, _, rfl⟩ := h; simp at ho
  · simp at h; obtain ⟨_, _, rfl⟩ := h; simp at ho
  · rename_i bs s'' heq
    split at h
    · simp at h; obtain ⟨_, _, rfl⟩ := h
      cases st with
      | lenBytes got => cases got <;> simp [RdSt.closed] at ho
      | datBytes l g => simp [RdSt.closed] at ho
    · rename_i hb
      simp at h
      obtain ⟨_, rfl, _⟩ := h
      exact sockRead_ready_lt heq hb

theorem readLoop_le (st : RdSt) (s : List REv) : rsize (readLoop st s).2.1 ≤ rsize s := by
  fun_induction readLoop st s with
  | case1 st s st' s' h ih => have := readStep_cont_lt h; omega
  | case2 st s hne => exact readStep_le st s

theorem readLoop_ne_cont (st : RdSt) (s : List REv) : (readLoop st s).2.2 ≠ .cont := by
  fun_induction readLoop st s with
  | case1 st s st' s' h ih => exact ih
  | case2 st s hne =>
    intro ho
    exact hne (readStep st s).1 (readStep st s).2.1 (by rw [← ho])

theorem readLoop_progress_lt (st : RdSt) (s : List REv)
    (ho : (readLoop st s).2.2 = .pending ∨ ∃ m, (readLoop st s).2.2 = .msg m) :
    rsize (readLoop st s).2.1 < rsize s := by
  fun_induction readLoop st s with
  | case1 st s st' s' h ih => have := ih ho; have := readStep_cont_lt h; omega
  | case2 st s hne => exact readStep_progress_lt rfl ho

theorem sockWrite_len {ws : List WEv} {buf : Bytes} {r : WrRes} {ws' : List WEv}
    (h : sockWrite ws buf = (r, ws')) :
    ws'.length ≤ ws.length ∧ (r ≠ .idle → ws'.length + 1 = ws.length) := by
  unfold sockWrite at h
  split at h <;> simp_all <;> (obtain ⟨rfl, rfl⟩ := h; simp)

theorem sockWriteVectored_len {vec : Bool} {ws : List WEv} {bufs : List Bytes} {r : WrRes} {ws' : List WEv}
    (h : sockWriteVectored vec ws bufs = (r, ws')) :
    ws'.length ≤ ws.length ∧ (r ≠ .idle → ws'.length + 1 = ws.length) := by
  unfold sockWriteVectored at h
  split at h <;> exact sockWrite_len h

theorem sockFlush_len {ws : List WEv} {r : FlRes} {ws' : List WEv} (h : sockFlush ws = (r, ws')) :
    ws'.length ≤ ws.length ∧ (r = .ok → ws' = ws) ∧
      (r = .pending ∨ r = .err → ws'.length + 1 = ws.length) := by
  unfold sockFlush at h
  split at h <;> simp_all <;> (obtain ⟨rfl, rfl⟩ := h; simp)

theorem writeLoop_le (vec : Bool) (w : WSide) : (writeLoop vec w).1.measure ≤ w.measure := by
  fun_induction writeLoop vec w
  case case4 w pos length bytes hs bs ws' hw ih =>
    have := rank_afterLen (pos + bs.length) length bytes
    have := sockWriteVectored_len hw
    simp at this
    simp_all [WSide.measure]; omega
  case case8 w pos bytes hs bs ws' hw ih =>
    have := rank_afterDat (pos + bs.length) bytes
    have := sockWrite_len hw
    simp at this
    simp_all [WSide.measure]; omega
  case case12 w hs ws' hw ih =>
    have := sockFlush_len hw
    simp at this
    obtain ⟨_, rfl⟩ := this
    simp_all [WSide.measure]; omega
  case case14 =>
    simp_all [WSide.measure]
    omega
  all_goals simp_all [WSide.measure]
  all_goals first
    | omega
    | (have := sockWriteVectored_len ‹sockWriteVectored _ _ _ = _›; simp at this; omega)
    | (have := sockWrite_len ‹sockWrite _ _ = _›; simp at this; omega)
    | (have := sockFlush_len ‹sockFlush _ = _›; simp at this; omega)

theorem writeLoop_pending_lt (vec : Bool) (w : WSide) (h : (writeLoop vec w).2 = .pending) :
    (writeLoop vec w).1.measure < w.measure := by
  fun_induction writeLoop vec w
  case case4 w pos length bytes hs bs ws' hw ih =>
    have := rank_afterLen (pos + bs.length) length bytes
    have := sockWriteVectored_len hw
    simp at this
    simp_all [WSide.measure]; omega
  case case8 w pos bytes hs bs ws' hw ih =>
    have := rank_afterDat (pos + bs.length) bytes
    have := sockWrite_len hw
    simp at this
    simp_all [WSide.measure]; omega
  case case12 w hs ws' hw ih =>
    have := sockFlush_len hw
    simp at this
    obtain ⟨_, rfl⟩ := this
    have := ih h
    simp_all [WSide.measure]; omega
  case case14 w hs m q hq ih =>
    have := ih h
    simp only [WSide.measure, unparkOne_ws, rank_len, hs, hq, rank_none, List.length_cons] at this ⊢
    omega
  all_goals simp_all [WSide.measure]
  all_goals first
    | omega
    | (have := sockWriteVectored_len ‹sockWriteVectored _ _ _ = _›; simp at this; omega)
    | (have := sockWrite_len ‹sockWrite _ _ = _›; simp at this; omega)
    | (have := sockFlush_len ‹sockFlush _ = _›; simp at this; omega)

theorem pollNext_progress_lt {c c' : Conn} {it : Item} (h : pollNext c = (c', it))
    (hi : it = .pending ∨ ∃ m, it = .msg m) : c'.measure < c.measure := by
  unfold pollNext at h
  have hle := writeLoop_le c.vec c.w
  split at h
  · rename_i w' hw
    simp at h; obtain ⟨rfl, _⟩ := h
    have := writeLoop_pending_lt c.vec c.w (by rw [hw])
    simp [hw] at this
    simp [Conn.measure]; omega
  · simp at h; obtain ⟨_, rfl⟩ := h; simp at hi
  · simp at h; obtain ⟨_, rfl⟩ := h; simp at hi
  · rename_i w' hw
    simp at h; obtain ⟨rfl, rfl⟩ := h
    simp [hw] at hle
    have hne := readLoop_ne_cont c.rd c.rs
    have := readLoop_progress_lt c.rd c.rs (by
      generalize (readLoop c.rd c.rs).2.2 = o at hi hne
      cases o <;> simp_all [RdOut.toItem])
    simp [Conn.measure]; omega

/-! ## the consumer -/

/-- poll until the stream ends, fails, or nothing will wake the task any more -/
def drain (c : Conn) : List Item × Conn :=
  match h : pollNext c with
  | (c', .msg m) => let r := drain c'; (.msg m :: r.1, r.2)
  | (c', .pending) => let r := drain c'; (.pending :: r.1, r.2)
  | (c', it) => ([it], c')
termination_by c.measure
decreasing_by
  · exact pollNext_progress_lt h (Or.inr ⟨m, rfl⟩)
  · exact pollNext_progress_lt h (Or.inl rfl)

/-- what the consumer does before it drains the stream -/
inductive Act where
  /-- `handle.send(m)`; `dstOk = false`: through `with_remote_addr(other)` -/
  | send (m : Bytes) (dstOk : Bool)
  /-- poll once (spurious polls are legal) -/
  | poll
  deriving Repr, DecidableEq

def Item.terminal : Item → Bool
  | .endClean => true
  | .err => true
  | _ => false

/-- run the consumer program, then drain; the trace of every `poll_next` result and the final state -/
def runProg (c : Conn) : List Act → List Item × Conn
  | [] => drain c
  | .send m ok :: as => runProg (c.enqueue m ok) as
  | .poll :: as =>
    let r := pollNext c
    if r.2.terminal then ([r.2], r.1)
    else
      let t := runProg r.1 as
      (r.2 :: t.1, t.2)

end HickoryVerif.TcpFraming
