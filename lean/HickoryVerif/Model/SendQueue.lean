/-
Model of the send half of `UdpStream::poll_next` (crates/net/src/udp/udp_stream.rs), the stream
behind `Server::register_socket` / `handle_udp`: the outbound queue filled by the
`BufDnsStreamHandle`s of the request handlers is drained before anything is received,

    while let Poll::Ready(Some(message)) = outbound_messages.poll_peek(cx) {
        if let Err(e) = ready!(socket.poll_send_to(cx, message.bytes(), addr)) { warn!(..) }   // dropped
        assert!(outbound_messages.poll_next(cx).is_ready());                                   // popped
    }

Messages are natural numbers (identities of responses); the socket is a script of results of
successive `poll_send_to` calls.
-/
namespace HickoryVerif
namespace SendQueue

/-- result of one `poll_send_to` -/
inductive SendRes where
  | ok          -- `Ready(Ok(_))`
  | err         -- `Ready(Err(_))` (EMSGSIZE, ENETUNREACH, …)
  | pending     -- `Pending` (the socket is not writable yet; `ready!` returns)
  deriving DecidableEq, Repr, Inhabited

structure Udp where
  /-- outbound queue, head first -/
  queue : List Nat
  /-- handed to the socket successfully, in order -/
  sent : List Nat
  /-- dropped after a failed send, in order -/
  dropped : List Nat
  deriving DecidableEq, Repr, Inhabited

/-- the `while let` loop of one `poll_next`: returns the state and the unused rest of the script.
It stops when the queue is empty (then the stream goes on to receive) or at a `Pending` send.
An exhausted script means "the socket accepts everything". -/
def sendLoop : List SendRes → Udp → Udp × List SendRes
  | rs, ⟨[], s, d⟩ => (⟨[], s, d⟩, rs)
  | [], ⟨m :: q, s, d⟩ => sendLoop [] ⟨q, s ++ [m], d⟩
  | .pending :: rs, ⟨m :: q, s, d⟩ => (⟨m :: q, s, d⟩, rs)          -- peeked, not popped
  | .ok :: rs, ⟨m :: q, s, d⟩ => sendLoop rs ⟨q, s ++ [m], d⟩        -- sent, popped
  | .err :: rs, ⟨m :: q, s, d⟩ => sendLoop rs ⟨q, s, d ++ [m]⟩       -- "dropping response", popped
termination_by rs u => u.queue.length

/-- polls repeated until the queue is empty (`fuel` polls at most) -/
def pollAll : Nat → List SendRes → Udp → Udp
  | 0, _, u => u
  | fuel + 1, rs, u =>
    match sendLoop rs u with
    | (u', rs') => if u'.queue.isEmpty then u' else pollAll fuel rs' u'

/-- verdict on the `k`-th queued message: the `k`-th script entry that is not `Pending` -/
def verdicts (rs : List SendRes) : List SendRes := rs.filter (· != .pending)

end SendQueue
end HickoryVerif
