/-
Model of the server's request gate and of the catalog dispatch (C11):

* `ServerContext::handle_request` + `error_response_handler`   crates/server/src/server/mod.rs
* `AccessControl::allow` / `InnerAccessControl::allow`          crates/server/src/access.rs
* `Catalog::{handle_request, lookup, update, find}`, the free functions `lookup`,
  `zone_transfer`, `send_error_response`, and the header/rcode part of `build_response`
                                                                crates/server/src/zone_handler/catalog.rs
* `Header::read`, `Queries::read`, `Metadata::response_from_request`
                                                                crates/proto/src/op/{header,message_request}.rs

The model reads the header and the question out of the raw request bytes itself (the question
name through the C04 model `Name.readName`).  Whether the *rest* of the message parses and which
EDNS version it carries is a parameter (`Body`), computed by the real parser in the harness
(record decoding is C01's business).  What a zone handler answers is data too (`Handler`): a
scripted control-flow value, or `LRes.zone` = "whatever the in-memory zone content gives"
(C10's business).  The outcome is `Gate.drop`, one `Gate.reply`, or a panic site.
-/
import HickoryVerif.Model.NameWire

namespace HickoryVerif
namespace ServerGate

/-! ## `AccessControl` (crates/server/src/access.rs) -/

inductive Family where
  | v4 | v6
  deriving DecidableEq, Repr, Inhabited

def Family.bits : Family → Nat
  | .v4 => 32
  | .v6 => 128

/-- an address: family + the address as a natural number (`u32` / `u128`) -/
structure Ip where
  fam : Family
  addr : Nat
  deriving DecidableEq, Repr, Inhabited

/-- an `IpNet`: family, address (host bits allowed, as `IpNet` keeps them) and prefix length -/
structure Prefix where
  fam : Family
  addr : Nat
  len : Nat
  deriving DecidableEq, Repr, Inhabited

/-- `IpAddr::to_canonical`: an IPv4-mapped IPv6 address `::ffff:a.b.c.d` becomes `a.b.c.d`;
nothing else changes (IPv4-compatible `::a.b.c.d` stays IPv6). -/
def toCanonical (ip : Ip) : Ip :=
  match ip.fam with
  | .v4 => ip
  | .v6 => if ip.addr / 2 ^ 32 = 0xFFFF then { fam := .v4, addr := ip.addr % 2 ^ 32 } else ip

/-- the network contains the address: same family and equal top `len` bits -/
def Prefix.contains (p : Prefix) (ip : Ip) : Bool :=
  p.fam == ip.fam &&
    p.addr / 2 ^ (p.fam.bits - p.len) == ip.addr / 2 ^ (p.fam.bits - p.len)

/-- `PrefixSet::get_lpm(ip).map(|p| p.prefix_len())`: length of the longest prefix of the set
that contains the address. -/
def lpm : List Prefix → Ip → Option Nat
  | [], _ => none
  | p :: ps, ip =>
    match lpm ps ip with
    | none => if p.contains ip then some p.len else none
    | some k => if p.contains ip && decide (k < p.len) then some p.len else some k

/-- `InnerAccessControl::allow` on the two prefix sets of one address family. -/
def innerAllow (deny allow : List Prefix) (ip : Ip) : Bool :=
  match lpm deny ip, lpm allow ip with
  | some denied, some allowed => decide (allowed > denied)
  | some _, none => false
  | none, some _ => true
  | none, none =>
    match !deny.isEmpty, !allow.isEmpty with
    | true, _ => true        -- there are deny entries, but this isn't one
    | false, true => false   -- there are only allow entries, but this isn't one
    | false, false => true   -- there are no entries

structure Acl where
  deny : List Prefix
  allow : List Prefix
  deriving Repr, Inhabited

/-- the per-family `PrefixSet` (`insert_deny` / `insert_allow` route by family) -/
def famSet (s : List Prefix) (f : Family) : List Prefix := s.filter (fun p => p.fam == f)

/-- `AccessControl::allow` -/
def Acl.allows (acl : Acl) (ip : Ip) : Bool :=
  let c := toCanonical ip
  innerAllow (famSet acl.deny c.fam) (famSet acl.allow c.fam) c

/-! ## header and question (`Header::read`, `Queries::read`) -/

structure Header where
  id : Nat
  qr : Bool
  opcode : Nat
  aa : Bool
  tc : Bool
  rd : Bool
  ra : Bool
  ad : Bool
  cd : Bool
  rcodeLow : Nat
  qd : Nat
  an : Nat
  ns : Nat
  ar : Nat
  deriving DecidableEq, Repr, Inhabited

/-- `Header::read`: fails exactly when fewer than twelve bytes are available. -/
def readHeader : Bytes → Option Header
  | i0 :: i1 :: f0 :: f1 :: q0 :: q1 :: a0 :: a1 :: n0 :: n1 :: r0 :: r1 :: _ =>
    some {
      id := i0 * 256 + i1
      qr := f0 / 128 % 2 == 1
      opcode := f0 / 8 % 16
      aa := f0 / 4 % 2 == 1
      tc := f0 / 2 % 2 == 1
      rd := f0 % 2 == 1
      ra := f1 / 128 % 2 == 1
      ad := f1 / 32 % 2 == 1
      cd := f1 / 16 % 2 == 1
      rcodeLow := f1 % 16
      qd := q0 * 256 + q1
      an := a0 * 256 + a1
      ns := n0 * 256 + n1
      ar := r0 * 256 + r1 }
  | _ => none

/-- `OpCode::from_u8` yields a named variant (Query 0, Status 2, Notify 4, Update 5);
everything else is `OpCode::Unknown`. -/
def knownOpcode (op : Nat) : Bool := op == 0 || op == 2 || op == 4 || op == 5

def OP_QUERY : Nat := 0
def OP_UPDATE : Nat := 5

/-! response codes used by the gate -/
def RC_NOERROR : Nat := 0
def RC_FORMERR : Nat := 1
def RC_SERVFAIL : Nat := 2
def RC_NXDOMAIN : Nat := 3
def RC_NOTIMP : Nat := 4
def RC_REFUSED : Nat := 5
def RC_NOTAUTH : Nat := 9
def RC_BADVERS : Nat := 16

def TYPE_SOA : Nat := 6
def TYPE_AXFR : Nat := 252

/-- the one question of a request: `Queries { inner, original }` -/
structure Question where
  /-- the name as read (`Query::name`; always fully qualified) -/
  name : Name
  qtype : Nat
  qclass : Nat
  /-- `Queries::original`: the bytes of the question section as received -/
  raw : Bytes
  deriving DecidableEq, Repr, Inhabited

def readU16 (b : Bytes) (p : Nat) : Option Nat :=
  match b[p]?, b[p + 1]? with
  | some x, some y => some (x * 256 + y)
  | _, _ => none

/-- `Queries::read(decoder, header.counts.queries)` with the decoder just after the header:
QDCOUNT must be 1 (RFC 9619), then `Name::read`, two `u16`.  `original` is the slice consumed —
unless the name was compressed (the slice is not `plain_len + 4` long; a pointer at offset 12 can
only lead into the header): then it is rebuilt as the plain wire form of the decoded name (letter
case as received) followed by the last four octets of the slice (fix cb5609e). -/
def readQueries (buf : Bytes) (qd : Nat) : Outcome Question :=
  if qd ≠ 1 then .err
  else match Name.readName buf 12 with
    | .ok (n, p) =>
      match readU16 buf p, readU16 buf (p + 2) with
      | some t, some c =>
        let original := (buf.drop 12).take (p + 4 - 12)
        let raw :=
          if original.length ≠ n.encodedLen + 4 then
            Name.wire n ++ original.drop (original.length - 4)
          else original
        .ok { name := n, qtype := t, qclass := c, raw := raw }
      | _, _ => .err
    | .err => .err
    | .panic s => .panic s

/-- `Queries::read` as it was before fix cb5609e: `original` always the slice consumed.  Kept for
the regression example `echo_counterexample_prefix` (finding C11.CompressedQuestionEcho). -/
def readQueriesPreFix (buf : Bytes) (qd : Nat) : Outcome Question :=
  if qd ≠ 1 then .err
  else match Name.readName buf 12 with
    | .ok (n, p) =>
      match readU16 buf p, readU16 buf (p + 2) with
      | some t, some c =>
        .ok { name := n, qtype := t, qclass := c, raw := (buf.drop 12).take (p + 4 - 12) }
      | _, _ => .err
    | .err => .err
    | .panic s => .panic s

/-- What the real decoder says about the rest of the message (`MessageRequest::read_with_queries`):
it fails, or it succeeds and the request carries no OPT / an OPT with this EDNS version. -/
inductive Body where
  | bad
  | ok (edns : Option Nat)
  deriving DecidableEq, Repr, Inhabited

/-! ## zone handlers and the catalog -/

inductive ZType where
  | primary | secondary | external
  deriving DecidableEq, Repr, Inhabited

/-- the `Result<AuthLookup, LookupError>` inside a `LookupControlFlow`, as far as the response
header depends on it: `Ok(_)` (a plain answer or a referral), `Err(LookupError::ResponseCode(rc))`,
or `zone` = decided by the content of a real in-memory zone (not modelled here). -/
inductive LRes where
  | ok
  /-- `Ok(records)` whose first record is the NS RRset of a delegation point (owner ≠ origin):
  a referral (fix af8bb96) -/
  | referral
  | err (rc : Nat)
  | zone
  deriving DecidableEq, Repr, Inhabited

/-- `LookupControlFlow` -/
inductive Flow where
  | skip
  | cont (r : LRes)
  | brk (r : LRes)
  deriving DecidableEq, Repr, Inhabited

/-- A zone handler as data. -/
structure Handler where
  ztype : ZType
  /-- result of `search` -/
  search : Flow
  /-- `consult`: `none` is the trait's default (hand back `last_result`) -/
  consult : Option Flow
  /-- `update`: 0 for `Ok(_)`, otherwise the `Err(rcode)` -/
  update : Nat
  /-- `zone_transfer`: `none` = "ask the next handler" -/
  xfer : Option LRes
  deriving DecidableEq, Repr, Inhabited

structure Zone where
  /-- position in the configuration (names the zone in the call log) -/
  idx : Nat
  /-- the `LowerName` key -/
  origin : Name
  handlers : List Handler
  deriving DecidableEq, Repr, Inhabited

/-- `HashMap<LowerName, Vec<Arc<dyn ZoneHandler>>>` as an association list -/
abbrev Catalog := List Zone

/-- `impl PartialEq for LowerName` is `Name::eq_case` -/
def keyEq (a b : Name) : Bool := Name.eqCase a b

/-- `Catalog::upsert` (`HashMap::insert`): replaces the value of an equal key. -/
def upsert (cat : Catalog) (z : Zone) : Catalog :=
  let z := { z with origin := z.origin.toLowercase }     -- `LowerName::new`
  if cat.any (fun y => keyEq y.origin z.origin) then
    cat.map (fun y => if keyEq y.origin z.origin then z else y)
  else cat ++ [z]

/-- `Catalog::remove` (`HashMap::remove`) -/
def removeZone (cat : Catalog) (origin : Name) : Catalog :=
  cat.filter (fun y => !keyEq y.origin origin.toLowercase)

/-- `Catalog::contains` -/
def containsZone (cat : Catalog) (origin : Name) : Bool :=
  cat.any (fun y => keyEq y.origin origin.toLowercase)

/-- `self.handlers.get(name)` -/
def get (cat : Catalog) (n : Name) : Option Zone := cat.find? (fun z => keyEq z.origin n)

/-- `Catalog::find`: exact match, else recurse on `base_name()` until the root.  A name that is
not the root and whose `base_name()` is not shorter (the relative empty name) recurses forever
in the Rust; the wire parser never produces one. -/
def find (cat : Catalog) (n : Name) : Outcome (Option Zone) :=
  match get cat n with
  | some z => .ok (some z)
  | none =>
    if n.isRoot then .ok none
    else match n.baseName with
      | .ok b =>
        if _h : b.labels.length < n.labels.length then find cat b
        else .panic "Catalog::find:unbounded-recursion"
      | .err => .err
      | .panic s => .panic s
termination_by n.labels.length

/-- one call of a handler method made while serving a request: zone index, handler index -/
inductive Call where
  | search (z h : Nat)
  | consult (z h : Nat)
  | update (z h : Nat)
  | xfer (z h : Nat)
  deriving DecidableEq, Repr, Inhabited

/-- The one response, as far as the property looks at it. -/
structure Reply where
  /-- the QR bit of the response header (`MessageType::Response` in every path) -/
  qr : Bool
  /-- full response code (header low bits + OPT high bits); `none`: decided by zone content -/
  rcode : Option Nat
  id : Nat
  opcode : Nat
  rd : Bool
  cd : Bool
  aa : Bool
  ra : Bool
  /-- the question section is the request's question bytes (QDCOUNT 1); otherwise QDCOUNT 0 -/
  echo : Bool
  /-- the response carries an OPT record -/
  opt : Bool
  /-- the zone that answered (configuration index) -/
  via : Option Nat
  calls : List Call
  deriving DecidableEq, Repr, Inhabited

/-- outcome of one request -/
inductive Gate where
  | drop
  | reply (r : Reply)
  | panic (site : String)
  deriving DecidableEq, Repr, Inhabited

/-- `error_response_handler`: `MessageResponseBuilder::{new(queries, None), no_queries(None)}
.error_msg(&header, rcode)` — `Metadata::response_from_request` copies id, opcode, RD, CD;
no EDNS even if the request had one. -/
def gateError (h : Header) (q : Option Question) (rc : Nat) : Reply :=
  { qr := true, rcode := some rc, id := h.id, opcode := h.opcode, rd := h.rd, cd := h.cd, aa := false,
    ra := false, echo := q.isSome, opt := false, via := none, calls := [] }

/-- `send_error_response` of the catalog: question echoed, the response EDNS attached when the
request had EDNS (the high rcode bits go into the OPT). -/
def catError (h : Header) (hasEdns : Bool) (rc : Nat) (via : Option Nat) (calls : List Call) :
    Reply :=
  { qr := true, rcode := some rc, id := h.id, opcode := h.opcode, rd := h.rd, cd := h.cd, aa := false,
    ra := false, echo := true, opt := hasEdns, via := via, calls := calls }

/-- response code of `build_authoritative_response` / `build_forwarded_response` -/
def builtRcode (zt : ZType) (rd : Bool) (r : LRes) : Option Nat :=
  match zt with
  | .primary | .secondary =>
    match r with
    | .ok | .referral => some RC_NOERROR
    | .err rc =>
      if rc = RC_REFUSED ∨ rc = RC_NOTAUTH then some rc
      else if rc = RC_NXDOMAIN then some RC_NXDOMAIN
      else some RC_NOERROR        -- "TODO: there are probably other error cases …"
    | .zone => none
  | .external =>
    if !rd then some RC_REFUSED
    else match r with
      | .ok | .referral => some RC_NOERROR
      | .err rc => if rc = RC_NXDOMAIN then some RC_NXDOMAIN else some RC_SERVFAIL
      | .zone => none

/-- the response built from a final lookup result by the handler that ran `search`;
authoritative zones set AA unless the result is a referral (fix af8bb96) -/
def builtReply (h : Header) (hasEdns : Bool) (z : Zone) (hd : Handler) (r : LRes)
    (calls : List Call) : Reply :=
  { qr := true, rcode := builtRcode hd.ztype h.rd r, id := h.id, opcode := h.opcode, rd := h.rd, cd := h.cd,
    aa := hd.ztype != .external && r != .referral, ra := hd.ztype == .external, echo := true,
    opt := hasEdns,
    via := some z.idx, calls := calls }

/-- the `consult` loop: every handler but the one at `self` is consulted, in order, whatever
the intermediate result is (a `Break` does not stop it). -/
def consultAll (zi self : Nat) : List (Nat × Handler) → Flow → List Call → Flow × List Call
  | [], r, cs => (r, cs)
  | (i, hd) :: rest, r, cs =>
    if i = self then consultAll zi self rest r cs
    else
      let r' := match hd.consult with
        | none => r
        | some f => f
      consultAll zi self rest r' (cs ++ [.consult zi i])

/-- the free function `lookup` of catalog.rs: first handler that does not `Skip` decides. -/
def runChain (h : Header) (hasEdns : Bool) (z : Zone) (all : List (Nat × Handler)) :
    List (Nat × Handler) → List Call → Reply
  | [], cs => catError h hasEdns RC_SERVFAIL (some z.idx) cs
  | (i, hd) :: rest, cs =>
    let cs := cs ++ [.search z.idx i]
    match hd.search with
    | .skip => runChain h hasEdns z all rest cs
    | .brk r => builtReply h hasEdns z hd r cs
    | .cont r =>
      match consultAll z.idx i all (.cont r) cs with
      | (.skip, cs') => catError h hasEdns RC_SERVFAIL (some z.idx) cs'   -- "impossible skip"
      | (.cont r', cs') => builtReply h hasEdns z hd r' cs'
      | (.brk r', cs') => builtReply h hasEdns z hd r' cs'

/-- the free function `zone_transfer` of catalog.rs -/
def runXfer (h : Header) (hasEdns : Bool) (z : Zone) : List (Nat × Handler) → List Call → Reply
  | [], cs => catError h hasEdns RC_SERVFAIL (some z.idx) cs
  | (i, hd) :: rest, cs =>
    let cs := cs ++ [.xfer z.idx i]
    match hd.xfer with
    | none => runXfer h hasEdns z rest cs
    | some r =>
      let (rc, aa) : Option Nat × Bool := match r with
        | .ok | .referral => (some RC_NOERROR, true)
        | .err rc =>
          (if rc = RC_REFUSED ∨ rc = RC_NOTAUTH then some rc
           else if rc = RC_NXDOMAIN then some RC_NXDOMAIN else some RC_NOERROR, false)
        | .zone => (none, false)
      { qr := true, rcode := rc, id := h.id, opcode := h.opcode, rd := h.rd, cd := h.cd, aa := aa, ra := false,
        echo := true, opt := hasEdns, via := some z.idx, calls := cs }

/-- `handlers.iter().enumerate()` -/
def indexedFrom : Nat → List Handler → List (Nat × Handler)
  | _, [] => []
  | i, hd :: rest => (i, hd) :: indexedFrom (i + 1) rest

def indexed (hs : List Handler) : List (Nat × Handler) := indexedFrom 0 hs

/-- `Catalog::lookup` -/
def catLookup (cat : Catalog) (h : Header) (q : Question) (hasEdns : Bool) : Gate :=
  match find cat q.name.toLowercase with
  | .ok none => .reply (catError h hasEdns RC_REFUSED none [])
  | .ok (some z) =>
    let hs := indexed z.handlers
    if q.qtype = TYPE_AXFR then .reply (runXfer h hasEdns z hs [])
    else .reply (runChain h hasEdns z hs hs [])
  | .err => .panic "Catalog::find:err"
  | .panic s => .panic s

/-- `Catalog::update`: only the first handler of the zone is asked; the response metadata is
`Metadata::new(id, Response, Update)` (RD/CD not copied). -/
def catUpdate (cat : Catalog) (h : Header) (q : Question) (hasEdns : Bool) : Gate :=
  if q.qtype ≠ TYPE_SOA then .reply (catError h hasEdns RC_FORMERR none [])
  else match find cat q.name.toLowercase with
    | .ok (some z) =>
      match z.handlers with
      | hd :: _ =>
        let (rc, cs) : Nat × List Call := match hd.ztype with
          | .secondary => (RC_NOTIMP, [])
          | .primary => (hd.update, [.update z.idx 0])
          | .external => (RC_NOTAUTH, [])
        .reply { qr := true, rcode := some rc, id := h.id, opcode := OP_UPDATE, rd := false, cd := false,
                 aa := false, ra := false, echo := true, opt := hasEdns, via := some z.idx,
                 calls := cs }
      | [] => .reply (catError h hasEdns RC_SERVFAIL (some z.idx) [])
    | .ok none => .reply (catError h hasEdns RC_SERVFAIL none [])
    | .err => .panic "Catalog::find:err"
    | .panic s => .panic s

/-- `req_edns.version() > our_version` with `our_version = 0` -/
def ednsTooNew : Option Nat → Bool
  | some v => decide (v > 0)
  | none => false

/-- `<Catalog as RequestHandler>::handle_request` -/
def catalogHandle (cat : Catalog) (h : Header) (q : Question) (edns : Option Nat) : Gate :=
  if ednsTooNew edns then .reply (catError h true RC_BADVERS none [])
  else if h.qr then
    -- `MessageType::Response`: never reached through `ServerContext::handle_request`
    .reply (catError h edns.isSome RC_FORMERR none [])
  else if h.opcode = OP_QUERY then catLookup cat h q edns.isSome
  else if h.opcode = OP_UPDATE then catUpdate cat h q edns.isSome
  else .reply (catError h edns.isSome RC_NOTIMP none [])

/-- What `MessageResponse::encode` sends when emitting the response fails with anything but "does
not fit" (e.g. a zone record holding a character-string of more than 255 octets): a bare header,
`Metadata::new(id, Response, OpCode::Query)` with SERVFAIL — whatever the request's opcode and
question were.  Not part of `handleRequest` (which describes responses whose encoding succeeds);
see `Proofs/C11Send.lean`, finding C11.EncodeFallbackDropsQuestion. -/
def encodeFallback (r : Reply) : Reply :=
  { qr := true, rcode := some RC_SERVFAIL, id := r.id, opcode := OP_QUERY, rd := false, cd := false,
    aa := false, ra := false, echo := false, opt := false, via := r.via, calls := r.calls }

structure Config where
  acl : Acl
  catalog : Catalog
  deriving Repr, Inhabited

/-- `ServerContext::handle_request` for one raw message. -/
def handleRequest (cfg : Config) (src : Ip) (buf : Bytes) (body : Body) : Gate :=
  match readHeader buf with
  | none => .drop                                  -- shorter than a header
  | some h =>
    if h.qr then .drop                             -- a response: never answered
    else if !knownOpcode h.opcode then .reply (gateError h none RC_NOTIMP)
    else match readQueries buf h.qd with
      | .err => .reply (gateError h none RC_FORMERR)
      | .panic s => .panic s
      | .ok q =>
        if !cfg.acl.allows src then .reply (gateError h (some q) RC_REFUSED)
        else match body with
          | .bad => .reply (gateError h (some q) RC_FORMERR)
          | .ok edns => catalogHandle cfg.catalog h q edns

/-- the name bytes of the question are the uncompressed wire form of the decoded name -/
def plainQuestion (q : Question) : Bool := q.raw.take (q.raw.length - 4) == Name.wire q.name

end ServerGate
end HickoryVerif
