/-
The loop of `try_send` as it was BEFORE fix 92faead ("a name server pool lookup must not outlive its
deadline by a whole server round"): the deadline was read only at the top of each round and when capping
the back-off sleep; a round started before the deadline ran until every request of its batch had ended
by itself.  Kept only for the regression example `prefix_completion_overrun` (Proofs/C18Time.lean).
-/
import HickoryVerif.Model.Pool

namespace HickoryVerif.Pool.PreFix
open HickoryVerif.Pool

def processEvents (cfg : Cfg) : PState → List Event → PState × Option Res
  | st, [] => (st, none)
  | st, ev :: evs =>
    match processEvent cfg { st with clock := ev.fin } ev with
    | (st', some r) => (st', some r)
    | (st', none) => processEvents cfg st' evs

def round (cfg : Cfg) (deadline : Nat) (st : PState) : RoundOut :=
  if st.clock ≥ deadline then .done (.err .timeout) st
  else
    let b := takeBatch cfg st.disableUdp (max cfg.ncr 1) st.queue []
    if b.1.isEmpty then
      if !st.busy.isEmpty && st.backoff < BACKOFF_LIMIT then
        let remaining := deadline - st.clock
        if remaining = 0 then .done (.err .timeout) st
        else
          .next { st with
            clock := st.clock + min st.backoff remaining
            queue := b.2 ++ st.busy.filter (allows cfg st.disableUdp)
            busy := []
            backoff := st.backoff * 2 }
      else .done (.err st.err) st
    else
      let s := sendBatch cfg st.disableUdp st.clock b.1 st.conns
      let st1 := { st with queue := b.2, conns := s.2.1, log := st.log ++ s.2.2 }
      match processEvents cfg st1 (sortEvents s.1) with
      | (st2, some r) => .done r st2
      | (st2, none) => .next st2

def run (cfg : Cfg) (deadline : Nat) : Nat → PState → Option (Res × PState)
  | 0, _ => none
  | fuel + 1, st =>
    match round cfg deadline st with
    | .done r st' => some (r, st')
    | .next st' => run cfg deadline fuel st'

def trySend (cfg : Cfg) (rrNext t0 : Nat) (conns : List Conn) (fuel : Nat) : Option (Res × PState) :=
  run cfg (t0 + cfg.timeout) fuel (initState cfg rrNext t0 conns)

end HickoryVerif.Pool.PreFix
