/-
Model of the DNSSEC part of the authoritative path (DO bit on a zone signed with one key and an
NSEC chain), as coded:

* `crates/server/src/store/in_memory/inner.rs`  — `InnerInMemory::closest_nsec`
* `crates/server/src/store/in_memory/mod.rs`    — `InMemoryZoneHandler::nsec_records`
* `crates/server/src/zone_handler/catalog.rs`   — the `lookup_options.dnssec_ok` branches of
  `build_authoritative_response` (`has_wildcard_match`, NSEC attachment) and
  `LookupOptions::rrset_with_rrigs` (RRSIGs follow their RRset)

The zone is the store *after* `secure_zone` (the harness passes it on the case line): the NSEC
RRsets and the DNSKEY are ordinary RRsets, `sigLabels` of every RRset is the `labels` field of
its RRSIG.  Signature bytes, key tags, validity times are not modelled (C05/C06).
NSEC3 (`proof`, `closest_encloser_proof`, `find_cover`) is not modelled.
-/
import HickoryVerif.Model.AuthZone

namespace HickoryVerif.AuthZone
open HickoryVerif

abbrev T_RRSIG : Nat := 46
abbrev T_NSEC : Nat := 47
abbrev T_DNSKEY : Nat := 48

def asName (n : LName) : Name := { labels := n, fqdn := true }

/-- `<` on `LowerName` / `Name` (`Name::cmp`, the C04 model) -/
def nameLt (a b : LName) : Bool := Name.cmp (asName a) (asName b) == .lt

/-- `InnerInMemory::closest_nsec`: walking the store backwards, the first NSEC RRset whose owner
is not after `name` and whose next name is after `name` or wraps around -/
def closestNsec (z : Zone) (name : LName) : Option RRset :=
  z.reverse.find? fun r =>
    r.type == T_NSEC && !(nameLt name r.name) &&
    match r.rdatas.head? with
    | some rd =>
      match rd.target with
      | some next => nameLt name next || nameLt next r.name
      | none => false
    | none => false

/-- the `while` loop of `nsec_records`: climbs from `name.base_name()` to the closest encloser
(the longest ancestor inside the zone that owns records or has a descendant that does; the origin
at the latest) and returns its child on the way down to `name` (`next_closer`) -/
def nextCloser (z : Zone) (o : LName) : LName → LName → LName
  | nc, [] => nc
  | nc, l :: rest =>
    if zoneOf o (l :: rest) && (l :: rest) != o && !(z.any fun r => zoneOf (l :: rest) r.name) then
      nextCloser z o (l :: rest) rest
    else nc

/-- `LowerName::into_wildcard` -/
def intoWildcard (n : LName) : LName :=
  match n with
  | [] => []
  | _ :: rest => star :: rest

/-- `InMemoryZoneHandler::nsec_records`: the NSEC of the name itself, or the NSEC covering it
plus the NSEC matching or covering the wildcard at the closest encloser -/
def nsecRecords (z : Zone) (o name : LName) : List RRset :=
  match getRR z name T_NSEC with
  | some r => [r]
  | none =>
    let closest := closestNsec z name
    let wildcard := intoWildcard (nextCloser z o name name.tail)
    let wildcardExists := z.any fun r => r.name == wildcard
    let wproof := if wildcard != name && !wildcardExists then closestNsec z wildcard else none
    match closest, wproof with
    | some c, some w => if w != c then [w, c] else [c]
    | none, some p => [p]
    | some p, none => [p]
    | none, none => []

/-- `has_wildcard_match`: some RRSIG of the answer has fewer labels than its owner -/
def hasWildcardMatch (answers : List RRset) : Bool :=
  answers.any fun rr =>
    match rr.sigLabels with
    | some l => l < Name.numLabels (asName rr.name)
    | none => false

/-- `build_authoritative_response` with the DO bit (`dnssecOk`) and `nx_proof_kind() ==
Some(Nsec)` (`nsec`) -/
def buildAuthoritativeS (z : Zone) (origin : LName) (q : Query) (dnssecOk nsec : Bool) : Answer :=
  match lookupAnswers z origin q.name q.type with
  | .error .refused => { rcode := .refused, aa := true, answers := [], authority := [] }
  | .error e =>
    let nsecs := if dnssecOk && nsec then nsecRecords z origin q.name else []
    let soa := okAnswers (lookupAnswers z origin origin T_SOA)
    { rcode := if e == .nxDomain then .nxDomain else .noError, aa := true,
      answers := [], authority := nsecs ++ soa }
  | .ok (_, answers, _) =>
    let ref := isReferral origin answers
    let ns :=
      if q.type == T_SOA && !ref then okAnswers (lookupAnswers z origin origin T_NS)
      else if nsec && dnssecOk && hasWildcardMatch answers then nsecRecords z origin q.name
      else []
    if ref then
      { rcode := .noError, aa := false, answers := [], authority := answers ++ ns }
    else
      { rcode := .noError, aa := true, answers := answers, authority := ns }

def answerImplS (z : Zone) (origin : LName) (q : Query) (dnssecOk nsec : Bool) : Answer :=
  if zoneOf origin q.name then buildAuthoritativeS z origin q dnssecOk nsec
  else { rcode := .refused, aa := false, answers := [], authority := [] }

def respondS (z : Zone) (origin : LName) (q : Query) (dnssecOk nsec : Bool) : Response :=
  let a := answerImplS z origin q dnssecOk nsec
  let adds :=
    if zoneOf origin q.name then
      match lookup z origin q.name q.type with
      | .ok l => l.additionals.getD []
      | .error _ => []
    else []
  { a with additional := adds }

end HickoryVerif.AuthZone
