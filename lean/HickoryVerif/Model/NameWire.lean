/-
Wire form of names: `impl BinDecodable for Name` (`read_inner`) and the uncompressed
`Name::emit` path (crates/proto/src/rr/domain/name.rs).  The compressing encoder is in
`Model/Encoder.lean`.

`readLabels buf pos nameStart ptrMax acc` is one run of the `loop` in `read_inner` with the
current decoder positioned at absolute index `pos` of `buf` (a `BinDecoder` is a buffer and a
position; `clone(location)` re-positions on the same buffer).  The recursion is well-founded on
`(nameStart, buf.length - pos)`: following a pointer strictly decreases `nameStart` — this is
the "pointers must point strictly backwards" rule and is *the* reason decoding terminates.
-/
import HickoryVerif.Model.Name
set_option linter.unusedVariables false

namespace HickoryVerif
namespace Name

/-- Returns the decoded name and the index just after the bytes consumed from the decoder the
loop was entered with (after the root octet, or after the first pointer). -/
def readLabels (buf : Bytes) (pos nameStart : Nat) (ptrMax : Option Nat) (acc : Name) :
    Outcome (Name × Nat) :=
  -- "this protects against overlapping labels when chasing pointers"
  if (match ptrMax with | some m => decide (pos ≥ m) | none => false) then .err else
  match buf[pos]? with
  | none => .err                                   -- InsufficientBytes
  | some b =>
    if b = 0 then
      .ok ({ acc with fqdn := true }, pos + 1)     -- Root: set_fqdn(true); pop()
    else if b / 64 = 3 then
      -- Pointer: read_u16, mask, must be strictly before name_start
      match buf[pos + 1]? with
      | none => .err
      | some b1 =>
        let loc := (b * 256 + b1) % 16384
        if hlt : loc < nameStart then
          if loc > buf.length then .panic "decoder.clone:slice" else
          match readLabels buf loc loc (some nameStart) acc with
          | .ok (n, _) => .ok (n, pos + 2)
          | .err => .err
          | .panic s => .panic s
        else .err
    else if b / 64 = 0 then
      -- Label: read_character_data, extend_name
      if hfit : pos + 1 + b ≤ buf.length then
        match acc.extendName ((buf.drop (pos + 1)).take b) with
        | .ok acc' => readLabels buf (pos + 1 + b) nameStart ptrMax acc'
        | .err => .err
        | .panic s => .panic s
      else .err
    else .err                                      -- UnrecognizedLabelCode
termination_by (nameStart, buf.length - pos)
decreasing_by
  · exact Prod.Lex.left _ _ hlt
  · apply Prod.Lex.right
    have : b ≠ 0 := by assumption
    omega

/-- `Name::read` at absolute index `pos` of `buf`.  The trailing `name.len() >= 255` test of
`read_inner` is kept (it is unreachable, see `Proofs/C04`). -/
def readName (buf : Bytes) (pos : Nat) : Outcome (Name × Nat) :=
  match readLabels buf pos pos none new with
  | .ok (n, p) => if n.len ≥ 255 then .err else .ok (n, p)
  | .err => .err
  | .panic s => .panic s

/-- bytes of one label on the wire -/
def emitLabel (l : Bytes) : Bytes := l.length :: l

/-- uncompressed wire form (`NameEncoding::Uncompressed`), ignoring the length checks. -/
def wire (n : Name) : Bytes := (n.labels.map emitLabel).flatten ++ [0]

/-- `Name::emit` without compression: label > 63 is an error, total > 255 is an error. -/
def emitUncompressed (n : Name) : Outcome Bytes :=
  if n.labels.any (fun l => l.length > 63) then .err
  else if (wire n).length > 255 then .err
  else .ok (wire n)

end Name
end HickoryVerif
