/-
Model of `DnsMultiplexer` (crates/net/src/xfer/dns_multiplexer.rs) together with the caller's end of
each request (`DnsResponseStream` over `mpsc::Receiver`, crates/net/src/xfer/mod.rs) as one
sequential state machine.

* `send`          — `send_message`: panic after shutdown, `Busy` at `max_active_requests`,
                    `next_random_query_id` (≤ 100 draws, each must be ∉ `active_requests`, else
                    "id space exhausted"), `stream_handle.send` (bounded channel), insert;
* `poll`          — `Stream::poll_next`: `drop_cancelled` (receiver gone / timeout), the
                    `is_shutdown && active.is_empty()` exit, the QoS loop (≤ 100 frames: parse,
                    route by id with `try_send`, unknown id and undecodable frames dropped,
                    stream error / end ⇒ every active request fails, `is_shutdown`), self-wake
                    iff exactly 100 frames were read;
* `recv`/`cancel` — the caller polls / drops its response stream;
* `deliver`/`drain`/`advance`/`shutdown` — the environment: a frame becomes ready on the stream,
                    the stream takes the buffered outbound messages, time passes,
                    `DnsRequestSender::shutdown`.

The ids the RNG draws are a parameter of `send` (`draws`), so theorems quantify over every RNG.
Response contents are abstracted to `(id, tag)`; the question section is not inspected on this
path (the code does not look at it).  Core Lean only.
-/
import HickoryVerif.Basic

namespace HickoryVerif.Mux

abbrev Id := Nat
/-- index of a `send_message` call = identity of the caller -/
abbrev Req := Nat

/-- `QOS_MAX_RECEIVE_MSGS` -/
def QOS_MAX_RECEIVE_MSGS : Nat := 100
/-- tries of `next_random_query_id` -/
def ID_TRIES : Nat := 100
/-- `mpsc::channel(QUERY_RESPONSE_BUFFER_SIZE = 8)` with one sender holds 8 + 1 items -/
def CHAN_CAP : Nat := 9
/-- `mpsc::channel(DEFAULT_STREAM_BUFFER_SIZE = 32)` with one sender holds 32 + 1 messages -/
def OUT_CAP : Nat := 33

/-- what sits in a caller's completion channel -/
inductive Item where
  /-- `Ok(response)`: the id in the response's header and a tag standing for its content -/
  | resp (id : Id) (tag : Nat)
  /-- `Err(NetError::Timeout)` — `DnsResponseStream` turns it into end-of-stream -/
  | errTimeout
  /-- any other `Err(_)` -/
  | errOther
  deriving DecidableEq, Repr, Inhabited

/-- the channel between the multiplexer (`ActiveRequest.completion`) and one caller -/
structure Chan where
  queue : List Item := []
  /-- the caller dropped its `DnsResponseStream` -/
  rxClosed : Bool := false
  /-- the `ActiveRequest` (the only `Sender`) was dropped -/
  txClosed : Bool := false
  deriving DecidableEq, Repr, Inhabited

/-- `Sender::try_send`: fails (silently, `ignore_send`) when the receiver is gone or the buffer is full -/
def Chan.trySend (c : Chan) (x : Item) : Chan :=
  if c.rxClosed || c.queue.length ≥ CHAN_CAP then c else { c with queue := c.queue ++ [x] }

/-- `complete_with_error(self, e)`: `try_send(Err(e))`, then the sender is dropped -/
def Chan.completeWithError (c : Chan) (x : Item) : Chan := { c.trySend x with txClosed := true }

/-- one entry of `active_requests` -/
structure Active where
  id : Id
  req : Req
  /-- `timeout: BoxFuture` — its deadline is fixed when it is first polled (`async fn delay_for`) -/
  deadline : Option Nat := none
  /-- `verifier: Option<TSigVerifier>` is set (a signer is configured and `should_sign_message` held).
  Frames are modelled unsigned, so `verifier.verify` of whatever is routed to this request fails. -/
  signed : Bool := false
  deriving DecidableEq, Repr, Inhabited

/-- the caller side of one `send_message` call -/
structure Caller where
  req : Req
  /-- id the request went out with (`none`: `send_message` returned an error stream) -/
  assigned : Option Id
  chan : Chan
  deriving DecidableEq, Repr, Inhabited

/-- one item of the underlying `DnsClientStream` -/
inductive Frame where
  /-- `Some(Ok(bytes))`: does it decode, is it a response, header id, content tag -/
  | msg (parses isResponse : Bool) (id : Id) (tag : Nat)
  /-- `Some(Err(e))` -/
  | err
  /-- `None` -/
  | eof
  deriving DecidableEq, Repr, Inhabited

structure State where
  active : List Active := []
  callers : List Caller := []
  isShutdown : Bool := false
  /-- messages waiting in `stream_handle`'s channel -/
  outQ : Nat := 0
  /-- frames ready on the stream, oldest first -/
  inbox : List Frame := []
  now : Nat := 0
  /-- `timeout_duration` (ms) -/
  timeout : Nat := 5000
  /-- `max_active_requests` -/
  maxActive : Nat := 32
  deriving Repr, Inhabited

def State.activeIds (s : State) : List Id := s.active.map (·.id)

def State.caller? (s : State) (r : Req) : Option Caller := s.callers.find? (·.req == r)

/-- apply `f` to the channel of caller `r` -/
def updChan (cs : List Caller) (r : Req) (f : Chan → Chan) : List Caller :=
  cs.map fun c => if c.req == r then { c with chan := f c.chan } else c

/-! ### `send_message` -/

/-- `next_random_query_id` on the sequence of values the RNG produces -/
def nextId (activeIds : List Id) (draws : List Id) : Option Id :=
  (draws.take ID_TRIES).find? fun id => !activeIds.contains id

inductive SendResult where
  | sent (id : Id)
  /-- an error stream: `Busy`, id space exhausted, or the outbound buffer is full -/
  | err
  /-- the caller index was already used (not an operation of the code; driver misuse) -/
  | bad
  deriving DecidableEq, Repr

def errorCaller (r : Req) : Caller :=
  { req := r, assigned := none, chan := { queue := [.errOther], txClosed := true } }

/-- `encodable`: does `request.to_vec()` succeed (a TXT character-string over 255 octets, for one, does not) -/
def send (s : State) (r : Req) (draws : List Id) (encodable : Bool := true) (signed : Bool := false) :
    Outcome (State × SendResult) :=
  if s.isShutdown then .panic "can not send messages after stream is shutdown"
  else if (s.caller? r).isSome then .ok (s, .bad)
  else if s.active.length ≥ s.maxActive then
    .ok ({ s with callers := s.callers ++ [errorCaller r] }, .err)
  else
    match nextId s.activeIds draws with
    | none => .ok ({ s with callers := s.callers ++ [errorCaller r] }, .err)
    | some id =>
      -- `match request.to_vec() { Err(error) => return NetError::from(error).into() }`: nothing registered
      if !encodable then .ok ({ s with callers := s.callers ++ [errorCaller r] }, .err)
      else if s.outQ ≥ OUT_CAP then
        .ok ({ s with callers := s.callers ++ [errorCaller r] }, .err)
      else
        .ok ({ s with
                active := s.active ++ [{ id := id, req := r, signed := signed }]
                callers := s.callers ++ [{ req := r, assigned := some id, chan := {} }]
                outQ := s.outQ + 1 }, .sent id)

/-! ### `poll_next` -/

/-- `ActiveRequest::is_canceled`: `completion.is_closed()` -/
def isCanceled (cs : List Caller) (r : Req) : Bool :=
  match cs.find? (·.req == r) with
  | some c => c.chan.rxClosed
  | none => true

/-- `drop_cancelled` for one entry: `(keep?, callers')` -/
def dropOne (now timeout : Nat) (cs : List Caller) (a : Active) : Option Active × List Caller :=
  let canceled := isCanceled cs a.req
  let dl := a.deadline.getD (now + timeout)
  if now ≥ dl then (none, updChan cs a.req (·.completeWithError .errTimeout))
  else if canceled then (none, updChan cs a.req (·.completeWithError .errOther))
  else (some { a with deadline := some dl }, cs)

def dropCancelled (now timeout : Nat) : List Active → List Caller → List Active × List Caller
  | [], cs => ([], cs)
  | a :: as, cs =>
    let (keep, cs') := dropOne now timeout cs a
    let (rest, cs'') := dropCancelled now timeout as cs'
    (match keep with | some a' => a' :: rest | none => rest, cs'')

/-- `stream_closed_close_all` -/
def closeAll : List Active → List Caller → List Caller
  | [], cs => cs
  | a :: as, cs => closeAll as (updChan cs a.req (·.completeWithError .errOther))

/-- what is offered to the caller of `a` for a response frame: the response, or — the request was
signed and the (unsigned) frame fails `verifier.verify` — the verification error -/
def routed (a : Active) (id : Id) (tag : Nat) : Item := if a.signed then .errOther else .resp id tag

/-- one decoded or undecoded message frame: route by id -/
def route (active : List Active) (cs : List Caller) (parses isResponse : Bool) (id : Id) (tag : Nat) :
    List Caller :=
  if parses && isResponse then
    match active.find? (·.id == id) with
    | some a => updChan cs a.req (·.trySend (routed a id tag))
    | none => cs            -- "unexpected request_id"
  else cs                   -- "error decoding message"

structure PollResult where
  /-- `Poll::Ready(None)` (true) or `Poll::Pending` (false) -/
  done : Bool
  /-- `cx.waker().wake_by_ref()` was called -/
  wake : Bool
  /-- the underlying stream returned `Poll::Pending` during this call (so it holds our waker) -/
  streamPending : Bool
  deriving DecidableEq, Repr

/-- the `for i in 0..QOS_MAX_RECEIVE_MSGS` loop; `fuel` iterations left, `got` = messages_received -/
def qosLoop : Nat → Nat → State → State × Nat × Option PollResult
  | 0, got, s => (s, got, none)
  | fuel + 1, got, s =>
    match s.inbox with
    | [] => (s, got, some { done := false, wake := false, streamPending := true })   -- `Poll::Pending => break`
    | .msg p r id tag :: rest =>
      qosLoop fuel (got + 1) { s with inbox := rest, callers := route s.active s.callers p r id tag }
    | _ :: rest =>           -- `Some(Err(e))` / `None`
      ({ s with inbox := rest, callers := closeAll s.active s.callers, active := [], isShutdown := true },
        got, some { done := true, wake := false, streamPending := false })

def poll (s : State) : State × PollResult :=
  let (act, cs) := dropCancelled s.now s.timeout s.active s.callers
  let s := { s with active := act, callers := cs }
  if s.isShutdown && s.active.isEmpty then (s, { done := true, wake := false, streamPending := false })
  else
    match qosLoop QOS_MAX_RECEIVE_MSGS 0 s with
    | (s', _, some r) => (s', r)
    | (s', got, none) =>
      -- the loop ran out: `if messages_received == QOS_MAX_RECEIVE_MSGS { wake }`
      (s', { done := false, wake := got == QOS_MAX_RECEIVE_MSGS, streamPending := false })

/-! ### the caller's end (`DnsResponseStream::poll_next` on the `Receiver` / `Error` variants) -/

inductive RecvResult where
  | ok (id : Id) (tag : Nat)   -- `Some(Ok(response))`
  | err                        -- `Some(Err(e))`
  | ended                      -- `None`
  | pending                    -- `Poll::Pending`
  | noreq                      -- no such live caller (never sent, or dropped)
  deriving DecidableEq, Repr

def Chan.recv (c : Chan) : Chan × RecvResult :=
  match c.queue with
  | .resp id tag :: q => ({ c with queue := q }, .ok id tag)
  | .errOther :: q => ({ c with queue := q }, .err)
  | .errTimeout :: q => ({ c with queue := q }, .ended)   -- `Err(NetError::Timeout) => Ready(None)`
  | [] => (c, if c.txClosed then .ended else .pending)

def recv (s : State) (r : Req) : State × RecvResult :=
  match s.caller? r with
  | none => (s, .noreq)
  | some c =>
    if c.chan.rxClosed then (s, .noreq)
    else
      let (_, res) := c.chan.recv
      ({ s with callers := updChan s.callers r fun ch => ch.recv.1 }, res)

/-- the caller drops its response stream: the channel closes and what was buffered is discarded -/
def cancel (s : State) (r : Req) : State :=
  { s with callers := updChan s.callers r fun ch => { ch with rxClosed := true, queue := [] } }

/-! ### histories -/

inductive Op where
  | send (r : Req) (draws : List Id) (encodable : Bool := true) (signed : Bool := false)
  | deliver (f : Frame)
  | poll
  | recv (r : Req)
  | cancel (r : Req)
  | advance (dt : Nat)
  | drain
  | shutdown
  deriving Repr

/-- one step; a panicking `send` (after shutdown) leaves the state as it was -/
def step (s : State) : Op → State
  | .send r draws enc sg => match send s r draws enc sg with
    | .ok (s', _) => s'
    | _ => s
  | .deliver f => { s with inbox := s.inbox ++ [f] }
  | .poll => (poll s).1
  | .recv r => (recv s r).1
  | .cancel r => cancel s r
  | .advance dt => { s with now := s.now + dt }
  | .drain => { s with outQ := 0 }
  | .shutdown => { s with isShutdown := true }

def run (s : State) (ops : List Op) : State := ops.foldl step s

/-- `DnsMultiplexer::new(..).with_timeout(t).with_max_active_requests(m)` -/
def init (timeout maxActive : Nat) : State := { timeout := timeout, maxActive := maxActive }

end HickoryVerif.Mux
