/-
Model of `hickory_server::store::sqlite::SqliteZoneHandler::{verify_prerequisites, pre_scan,
update_records, update}` (crates/server/src/store/sqlite/mod.rs), statement by statement.

`update` = authorise → prerequisites → prescan → `update_records(.., true)`.  Authorisation
(TSIG) belongs to C13 and enters here as a boolean.  The journal side of `update_records`
is in `Model/Journal.lean`; this file returns the SOA row the live path appends.
-/
import HickoryVerif.Model.Zone

namespace HickoryVerif.Upd
open HickoryVerif

/-- response codes the update path produces -/
inductive Rc where
  | formErr | servFail | nxDomain | notImp | refused | yxDomain | yxRRSet | nxRRSet | notAuth | notZone
  deriving DecidableEq, Repr, Inhabited

/-- `Result<T, ResponseCode>` plus the Rust panic sites -/
inductive URes (α : Type) where
  | ok (a : α)
  | rc (c : Rc)
  | panic (site : String)
  deriving DecidableEq, Repr, Inhabited

structure Cfg where
  origin : Name          -- lower-cased, fqdn
  zclass : Nat := C_IN
  deriving DecidableEq, Repr, Inhabited

/-! ### `verify_prerequisites` -/

def prereqOne (c : Cfg) (z : Zone) (r : Rec) : Option Rc :=
  let name := r.name.toLowercase
  if r.ttl ≠ 0 then some .formErr
  else if !(Name.zoneOf c.origin r.name) then some .notZone
  else if r.cls = C_ANY then
    if r.isEmptyData then
      if r.rtype = T_ANY then
        if (lookupRecs z name T_ANY).isEmpty then some .nxDomain else none
      else
        if (lookupRecs z name r.rtype).isEmpty then some .nxRRSet else none
    else some .formErr
  else if r.cls = C_NONE then
    if r.isEmptyData then
      if r.rtype = T_ANY then
        if !(lookupRecs z name T_ANY).isEmpty then some .yxDomain else none
      else
        if !(lookupRecs z name r.rtype).isEmpty then some .yxRRSet else none
    else some .formErr
  else if r.cls = c.zclass then
    if !((lookupRecs z name r.rtype).any fun rr => rr.eqv r) then some .nxRRSet else none
  else some .formErr

/-- `verify_prerequisites`: `none` = `Ok(())` -/
def verifyPrereqs (c : Cfg) (z : Zone) : List Rec → Option Rc
  | [] => none
  | r :: rs =>
    match prereqOne c z r with
    | some e => some e
    | none => verifyPrereqs c z rs

/-! ### `pre_scan` -/

def prescanOne (c : Cfg) (r : Rec) : Option Rc :=
  if !(Name.zoneOf c.origin r.name) then some .notZone
  else if r.cls = c.zclass then
    if r.rtype = T_ANY ∨ r.rtype = T_AXFR ∨ r.rtype = T_IXFR then some .formErr else none
  else if r.cls = C_ANY then
    if r.ttl ≠ 0 then some .formErr
    else if !r.isEmptyData then some .formErr
    else if r.rtype = T_AXFR ∨ r.rtype = T_IXFR then some .formErr
    else none
  else if r.cls = C_NONE then
    if r.ttl ≠ 0 then some .formErr
    else if r.rtype = T_ANY ∨ r.rtype = T_AXFR ∨ r.rtype = T_IXFR then some .formErr
    else none
  else some .formErr

def preScan (c : Cfg) : List Rec → Option Rc
  | [] => none
  | r :: rs =>
    match prescanOne c r with
    | some e => some e
    | none => preScan c rs

/-! ### `update_records` -/

/-- the `retain` predicate of "delete all RRsets from a name" (as repaired: SOA / NS are kept
only at the origin) -/
def anyKeep (c : Cfg) (rr : Rec) (k : Key) : Bool :=
  k.1 ≠ rr.name.toLowercase ∨ ((k.2 = T_SOA ∨ k.2 = T_NS) ∧ k.1 = c.origin)

/-- One iteration of the `for rr in records` loop: the zone afterwards and `some updated?`
(`none` = `return Err(FormErr)`; the zone keeps what earlier iterations did). -/
def applyRR (c : Cfg) (z : Zone) (rr : Rec) : Zone × Option Bool :=
  if rr.cls = c.zclass then
    -- 4a1b96f: an SOA add away from the origin is ignored (`continue`)
    if rr.rtype = T_SOA ∧ rr.name.toLowercase ≠ c.origin then (z, some false)
    else ((upsert c.zclass z rr).1, some (upsert c.zclass z rr).2)
  else if rr.cls = C_ANY then
    if (rr.rtype = T_SOA ∨ rr.rtype = T_NS) ∧ rr.name.toLowercase = c.origin then (z, some false)
    else if rr.rtype = T_ANY then
      (z.filter fun e => anyKeep c rr e.1,
       some ((z.filter fun e => anyKeep c rr e.1).length < z.length))
    else if rr.isEmptyData then
      (z.erase rr.key, some (z.get rr.key).isSome)
    else (z, none)
  else if rr.cls = C_NONE then
    match z.get rr.key with
    | some rs =>
      if (rsRemove rs rr).2 then
        -- d90c741: an emptied RRset is removed from the map
        (if (rsRemove rs rr).1 = [] then z.erase rr.key else z.set rr.key (rsRemove rs rr).1, some true)
      else (z, some false)
    | none => (z, some false)
  else (z, none)

/-- the whole loop, threading `updated` -/
def applyAll (c : Cfg) : Zone → List Rec → Bool → Zone × Option Bool
  | z, [], upd => (z, some upd)
  | z, rr :: rest, upd =>
    match applyRR c z rr with
    | (z', some u) => applyAll c z' rest (u || upd)
    | (z', none) => (z', none)

/-- `update_records(records, auto)` without the journal writes.  Third component: the post-update
SOA row that the live path appends to the journal. -/
def updateRecords (c : Cfg) (z : Zone) (recs : List Rec) (auto : Bool) :
    Zone × URes Bool × Option Rec :=
  match applyAll c z recs false with
  | (z1, none) => (z1, .rc .formErr, none)
  | (z1, some updated) =>
    if !(updated && auto) then (z1, .ok false, none)
    else
      match incrementSoaSerial c.zclass c.origin z1 with
      | (z2, .panic s) => (z2, .panic s, none)
      | (z2, .err) => (z2, .rc .servFail, none)
      | (z2, .ok _) =>
        match soaRecord z2 c.origin with
        | none => (z2, .rc .servFail, none)
        | some soa => (z2, .ok true, some soa)

/-- which stage answered -/
inductive Stage where
  | auth | prereq | prescan | apply
  deriving DecidableEq, Repr, Inhabited

structure Msg where
  prereqs : List Rec
  updates : List Rec
  deriving DecidableEq, Repr, Inhabited

/-- `ZoneHandler::update` for `SqliteZoneHandler` (dnssec feature on) -/
def update (c : Cfg) (authorized : Bool) (z : Zone) (m : Msg) :
    Zone × Stage × URes Bool × Option Rec :=
  if !authorized then (z, .auth, .rc .refused, none)
  else match verifyPrereqs c z m.prereqs with
    | some e => (z, .prereq, .rc e, none)
    | none =>
      match preScan c m.updates with
      | some e => (z, .prescan, .rc e, none)
      | none =>
        let r := updateRecords c z m.updates true
        (r.1, .apply, r.2.1, r.2.2)

/-- run a history of authorised messages; the zone after the last one -/
def runAll (c : Cfg) : Zone → List Msg → Zone
  | z, [] => z
  | z, m :: ms => runAll c (update c true z m).1 ms

end HickoryVerif.Upd
