/-
Model of the signature-acceptance logic of the validator (crates/net/src/dnssec/mod.rs):

* `SerialNumber::partial_cmp` (crates/proto/src/rr/serial_number.rs) — RFC 1982 comparison as coded,
  including the undefined case at distance 2³¹;
* `RrsigValidity::check` — every test in source order;
* `verify_rrset_with_dnskey` — key proof, revoked, zone key, algorithm, validity, empty RRset,
  RRSIG class, then `DNSKEY::verify_rrsig` = `TBS::from_input` (model: `Tbs.tbsImpl`) + the
  signature check, which is an **oracle parameter** `sigValid key tbs signature`;
* `RRSIG::authenticated_ttl` (crates/proto/src/dnssec/rdata/rrsig.rs);
* `DNSKEY::calculate_key_tag`, `zone_key`, `revoke` (dnssec/rdata/dnskey.rs);
* `verify_rrsig_with_keys` — NSEC/NSEC3 wildcard-labels rejection, only the signer's own DNSKEYs
  (207ce2a), key-tag collision cap, the loop over keys with the all-insecure inheritance; the
  signer-must-be-the-owner's-zone test of `verify_default_rrset` (207ce2a) is in `freshVerdict`;
* `ValidationCache::{get,insert}` + the part of `verify_rrsets` that consults it, as a state machine
  over an explicit monotonic clock `inst` (the code's `Instant::now()`, in seconds) next to the
  validator's wall clock `now` (`Time::current_time() as u32`).  `validate` / `runHistory` are the
  cache as it is since the repairs /repo 411522f (an entry of a Secure verdict records when the
  signature was checked and how long it stayed valid; `get` refuses outside that span) and a831deb
  (the key hashes the exact wire RDATA); `validatePreFix` / `runHistoryPreFix` are the cache before
  them, kept for the regression theorems of `Proofs/C06PreFix.lean`.

Times are `Nat`s below 2³² (`now`, inception, expiration) — the wrap-around is explicit in
`serialCmp`; `authenticated_ttl` uses plain `u32::saturating_sub`, which is `Nat` subtraction.
-/
import HickoryVerif.Model.Tbs

namespace HickoryVerif
namespace SigCheck
open Tbs

/-- `SERIAL_BITS_HALF` = 2³¹ -/
def HALF : Nat := 2147483648
/-- 2³² -/
def M32 : Nat := 4294967296

/-- `impl PartialOrd for SerialNumber` (RFC 1982 §3.2), `None` when the distance is exactly 2³¹ -/
def serialCmp (i1 i2 : Nat) : Option Ordering :=
  if i1 = i2 then some .eq
  else if (i1 < i2 ∧ i2 - i1 < HALF) ∨ (i1 > i2 ∧ i1 - i2 > HALF) then some .lt
  else if (i1 < i2 ∧ i2 - i1 > HALF) ∨ (i1 > i2 ∧ i1 - i2 < HALF) then some .gt
  else none

/-- `a <= b` through `partial_cmp` -/
def serialLe (a b : Nat) : Bool :=
  match serialCmp a b with
  | some .lt => true
  | some .eq => true
  | _ => false

/-- `a >= b` through `partial_cmp` -/
def serialGe (a b : Nat) : Bool :=
  match serialCmp a b with
  | some .gt => true
  | some .eq => true
  | _ => false

/-- `hickory_proto::dnssec::Proof` -/
inductive Proof where
  | secure | insecure | bogus | indeterminate
  deriving Repr, DecidableEq, Inhabited

/-- a DNSKEY record: owner name + RDATA fields (protocol is always emitted as 3) -/
structure Dnskey where
  owner : Name
  flags : Nat
  algorithm : Nat
  pubkey : Bytes
  deriving Repr, DecidableEq, Inhabited

/-- `DNSKEY::zone_key` : flags bit 0x0100 -/
def Dnskey.zoneKey (k : Dnskey) : Bool := k.flags / 256 % 2 == 1
/-- `DNSKEY::revoke` : flags bit 0x0080 -/
def Dnskey.revoke (k : Dnskey) : Bool := k.flags / 128 % 2 == 1
/-- `DNSKEY::emit` -/
def Dnskey.rdata (k : Dnskey) : Bytes := be16 k.flags ++ [3, k.algorithm] ++ k.pubkey

/-- the accumulator loop of `calculate_key_tag_internal`: even positions are the high octet -/
def keyTagAcc : Bytes → Bool → Nat
  | [], _ => 0
  | b :: rest, even => (if even then b * 256 else b) + keyTagAcc rest (!even)

/-- `DNSKEY::calculate_key_tag_internal` (RFC 4034 Appendix B) -/
def keyTag (rdata : Bytes) : Nat :=
  let ac := keyTagAcc rdata true
  (ac + ac / 65536) % 65536

/-- an RRSIG record: owner, class, TTL, the `SigInput` fields and the signature -/
structure Rrsig where
  owner : Name
  cls : Nat
  ttl : Nat
  input : SigInput
  sig : Bytes
  deriving Repr, DecidableEq, Inhabited

/-- `RrsigValidity` -/
inductive Validity where
  | expiredRrsig | validRrsig | wrongDnskey | wrongRrsig
  deriving Repr, DecidableEq, Inhabited

/-- `RrsigValidity::check(rrsig, key, rrset, dnskey, current_time)`; `keyName`/`keyType` are the
`RrKey` (the name is a `LowerName`).  `calculate_key_tag` cannot fail for a key below 64 KiB. -/
def rrsigValidityCheck (rrsig : Rrsig) (keyName : Name) (keyType : Nat) (records : List Record)
    (dnskey : Dnskey) (now : Nat) : Validity :=
  if records.any (fun r => r.cls != 1) then .wrongRrsig
  else if !(Name.eq rrsig.owner keyName && rrsig.input.typeCovered == keyType
      && decide (keyName.numLabels ≥ rrsig.input.numLabels)) then .wrongRrsig
  else if !(serialLe rrsig.input.inception rrsig.input.expiration) then .expiredRrsig
  else if !(serialLe now rrsig.input.expiration && serialGe now rrsig.input.inception) then .expiredRrsig
  else if !(Name.eq rrsig.input.signer dnskey.owner && rrsig.input.algorithm == dnskey.algorithm
      && rrsig.input.keyTag == keyTag dnskey.rdata && dnskey.zoneKey) then .wrongDnskey
  else .validRrsig

/-- `RRSIG::authenticated_ttl(record, current_time)` -/
def authenticatedTtl (rrsig : Rrsig) (first : Record) (now : Nat) : Nat :=
  min (min first.ttl rrsig.input.originalTtl) (rrsig.input.expiration - now)

/-- The signature oracle: `sigValid key tbs signature` stands for
`decode_public_key(key)?.verify(tbs, signature).is_ok()` (ring).  Never modelled. -/
abbrev SigOracle := Dnskey → Bytes → Bytes → Bool

/-- `verify_rrset_with_dnskey`; `Except.error p` is `Err(ProofError { proof: p, .. })`. -/
def verifyRrsetWithDnskey (sigValid : SigOracle) (dnskey : Dnskey) (dnskeyProof : Proof)
    (rrsig : Rrsig) (keyName : Name) (keyType : Nat) (records : List Record) (now : Nat) :
    Except Proof (Proof × Option Nat) :=
  if dnskeyProof ≠ .secure then .error dnskeyProof
  else if dnskey.revoke then .error .bogus
  else if !dnskey.zoneKey then .error .bogus
  else if dnskey.algorithm ≠ rrsig.input.algorithm then .error .bogus
  else if rrsigValidityCheck rrsig keyName keyType records dnskey now ≠ .validRrsig then .error .bogus
  else
    match records with
    | [] => .ok (.bogus, none)
    | first :: _ =>
      if rrsig.cls ≠ 1 then .error .bogus
      else
        match tbsImpl keyName 1 rrsig.input records with
        | .ok tbs =>
          if sigValid dnskey tbs rrsig.sig then .ok (.secure, some (authenticatedTtl rrsig first now))
          else .error .bogus
        | _ => .error .bogus

/-! ### `verify_rrsig_with_keys` -/

/-- `MAX_KEY_TAG_COLLISIONS` -/
def MAX_KEY_TAG_COLLISIONS : Nat := 2

/-- the `filter_map` with `tag_count`: a key is skipped once more than `MAX_KEY_TAG_COLLISIONS`
keys with its tag have been seen (`seen` = tags of the keys before it) -/
def filterTagCollisions (seen : List Nat) : List (Dnskey × Proof) → List (Dnskey × Proof)
  | [] => []
  | (k, p) :: rest =>
    let tag := keyTag k.rdata
    let n := (seen.filter (· == tag)).length + 1
    if n > MAX_KEY_TAG_COLLISIONS then filterTagCollisions (tag :: seen) rest
    else (k, p) :: filterTagCollisions (tag :: seen) rest

/-- the `for dnskey in dnskeys` loop with its `all_insecure` accumulator -/
def keysLoop (sigValid : SigOracle) (rrsig : Rrsig) (keyName : Name) (keyType : Nat)
    (records : List Record) (now : Nat) (allInsecure : Option Bool) :
    List (Dnskey × Proof) → Option (Proof × Option Nat)
  | [] => if allInsecure.getD false then some (.insecure, none) else none
  | (k, p) :: rest =>
    match p with
    | .secure =>
      match verifyRrsetWithDnskey sigValid k p rrsig keyName keyType records now with
      | .ok r => some r
      | .error _ => keysLoop sigValid rrsig keyName keyType records now (some false) rest
    | .insecure =>
      keysLoop sigValid rrsig keyName keyType records now
        (match allInsecure with | none => some true | some b => some b) rest
    | _ => keysLoop sigValid rrsig keyName keyType records now (some false) rest

/-- `verify_rrsig_with_keys(dnskey_message, rrsig, key, rrset, current_time)`; `dnskeys` are the
DNSKEY answers of the (already validated) DNSKEY response with their proofs. -/
def verifyRrsigWithKeys (sigValid : SigOracle) (dnskeys : List (Dnskey × Proof)) (rrsig : Rrsig)
    (keyName : Name) (keyType : Nat) (records : List Record) (now : Nat) :
    Option (Proof × Option Nat) :=
  if (keyType == 47 || keyType == 50) && keyName.numLabels != rrsig.input.numLabels then none
  else
    -- since /repo 207ce2a: only DNSKEYs owned by the signer are considered at all
    let own := dnskeys.filter (fun kp => Name.eq kp.1.owner rrsig.input.signer)
    keysLoop sigValid rrsig keyName keyType records now none (filterTagCollisions [] own)

/-! ### the validation cache (`ValidationCache`, `verify_rrsets`) -/

/-- what is cached: `Result<RrsetProof, ProofError>` reduced to (is_ok, proof, adjusted_ttl) -/
structure Verdict where
  isOk : Bool
  proof : Proof
  adjustedTtl : Option Nat
  deriving Repr, DecidableEq, Inhabited

/-- the cache key is the `u64` of `RrsetVerificationContext::key()`; it is modelled by the byte
stream fed to the hasher (query name/class/type, RRset key, and for every record and RRSIG its
owner name (case-folded), class and the exact uncompressed wire RDATA — **no TTL, no time**),
assuming the hash is injective on these streams. -/
abbrev CacheKey := Bytes

structure CacheEntry where
  key : CacheKey
  /-- `Instant` (seconds of the monotonic clock) until which the entry is served -/
  expires : Nat
  verdict : Verdict
  /-- `signature_span`: for a Secure verdict backed by an RRSIG, the validator time at which the
  signature was checked and the seconds it remained valid from then on (ignored by the pre-repair
  `get`) -/
  sigSpan : Option (Nat × Nat) := none
  deriving Repr, DecidableEq, Inhabited

abbrev Cache := List CacheEntry

/-- optional configured `positive_validation_ttl` / `negative_validation_ttl` ranges (seconds) -/
structure CacheConfig where
  positive : Option (Nat × Nat) := none
  negative : Option (Nat × Nat) := none
  deriving Repr, DecidableEq, Inhabited

/-- the live entry for `key`, if any: `ValidationCache::get` considers an entry only while
`Instant::now() < expires` -/
def cacheGetE (c : Cache) (key : CacheKey) (inst : Nat) : Option CacheEntry :=
  match c.find? (fun e => e.key == key) with
  | some e => if inst < e.expires then some e else none
  | none => none

/-- `Duration::clamp(min, max)`; panics when `min > max` (`assert!(min <= max)`) -/
def clampDur (x lo hi : Nat) : Nat := if x < lo then lo else if x > hi then hi else x

/-- the monotonic lifetime `ValidationCache::insert` gives an entry: the first record's TTL, clamped
into the configured range for positive (`Ok`) / negative (`Err`) results (the signature's remaining
validity is enforced separately, through `sigSpan`) -/
def cacheLifetime (cfg : CacheConfig) (v : Verdict) (firstTtl : Nat) : Nat :=
  match (if v.isOk then cfg.positive else cfg.negative) with
  | some (lo, hi) => clampDur firstTtl lo hi
  | none => firstTtl

/-- One RRset validation request as `verify_rrsets` sees it (non-DNSKEY RRset, one RRSIG, the DNSKEY
lookup answered with `dnskeys`). -/
structure Request where
  ck : CacheKey
  dnskeys : List (Dnskey × Proof)
  rrsig : Rrsig
  keyName : Name
  keyType : Nat
  records : List Record
  /-- validator wall clock, `Time::current_time() as u32` -/
  now : Nat
  /-- monotonic clock (`Instant::now()`), seconds -/
  inst : Nat
  /-- no RRSIG of the RRset is a candidate at all (`rrsig` is then meaningless); set by
  `MultiRequest.toRequest` -/
  skip : Bool := false
  /-- the DNSKEY lookup for the RRSIG fails (`Err(ProofErrorKind::Net)`: upstream error, validation depth
  exceeded): the RRset is Bogus for this response and the verdict is **not** cached -/
  netError : Bool := false
  deriving Repr, Inhabited

/-- `MAX_RRSIGS_PER_RRSET` -/
def MAX_RRSIGS_PER_RRSET : Nat := 8

/-- the `filter_map` of `verify_default_rrset` on the RRSIG at index `i` of the (unfiltered)
`rrset.signatures`: it is a candidate (a DNSKEY lookup is made for it) unless its signer is not the
owner or an ancestor of it (207ce2a), it covers a DS RRset and names the DS owner itself (4f49cf9), or
`i > MAX_RRSIGS_PER_RRSET` -/
def isCandidate (keyName : Name) (keyType : Nat) (i : Nat) (sig : Rrsig) : Bool :=
  sig.input.signer.zoneOf keyName &&
    !(keyType == 43 && !keyName.isRoot && Name.eq sig.input.signer keyName) &&
    !(decide (i > MAX_RRSIGS_PER_RRSET))

/-- no DNSKEY lookup is made for this request (the RRSIG is skipped by `verify_default_rrset`) -/
def noLookup (r : Request) : Bool :=
  r.skip || !(isCandidate r.keyName r.keyType 0 r.rrsig)

/-- `verify_default_rrset` for one RRSIG: skipped without a lookup (Bogus), or the DNSKEY lookup
succeeded: `Some(..)` → `Ok(RrsetProof)`, `None` → `Err(RrsigsUnverified)` with proof Bogus. -/
def freshVerdict (sigValid : SigOracle) (r : Request) : Verdict :=
  -- since /repo 207ce2a: an RRSIG whose signer is not the owner or an ancestor of it is skipped without
  -- a DNSKEY lookup (→ `Err(RrsigsNotPresent)`, Bogus); since 4f49cf9 also an RRSIG over a DS RRset
  -- (type 43) that names the DS owner itself as signer
  if noLookup r || r.netError then { isOk := false, proof := .bogus, adjustedTtl := none }
  else
    match verifyRrsigWithKeys sigValid r.dnskeys r.rrsig r.keyName r.keyType r.records r.now with
    | some (p, ttl) => { isOk := true, proof := p, adjustedTtl := ttl }
    | none => { isOk := false, proof := .bogus, adjustedTtl := none }

/-- the `signature_span` recorded with a Secure verdict (`rrsig_index` is always `Some` for an `Ok`
Secure result of `verify_default_rrset`): validated at `now`, the signature remains valid
`expiration.saturating_sub(now)` seconds -/
def spanOf (v : Verdict) (r : Request) : Option (Nat × Nat) :=
  if v.isOk && v.proof == .secure then some (r.now, r.rrsig.input.expiration - r.now) else none

/-- the entry `ValidationCache::insert` creates for the fresh verdict `v` of request `r` whose first
record has TTL `t` -/
def entryOf (cfg : CacheConfig) (r : Request) (v : Verdict) (t : Nat) : CacheEntry :=
  { key := r.ck, expires := r.inst + cacheLifetime cfg v t, verdict := v, sigSpan := spanOf v r }

/-- `ValidationCache::insert` (no entry when the RRset has no record) -/
def cacheInsert (cfg : CacheConfig) (c : Cache) (r : Request) (v : Verdict) : Cache :=
  match r.records.head?.map (·.ttl) with
  | none => c
  | some t => entryOf cfg r v t :: c.filter (fun e => !(e.key == r.ck))

/-- the cache part of `verify_rrsets` for one RRset, generic in what `get` does with a live entry
(`serve entry request`: `none` = treat as a miss): returns the new cache, the verdict, and whether
it was freshly computed. -/
def validateG (sigValid : SigOracle) (cfg : CacheConfig) (serve : CacheEntry → Request → Option Verdict)
    (c : Cache) (r : Request) : Cache × Verdict × Bool :=
  match (cacheGetE c r.ck r.inst).bind (fun e => serve e r) with
  | some v => (c, v, false)
  | none =>
    let v := freshVerdict sigValid r
    -- "These could be transient errors that should be retried": a `Net` error is not cached
    (if !(noLookup r) && r.netError then c else cacheInsert cfg c r v, v, true)

/-- a whole history, oldest request first; returns the per-request (verdict, fresh) list -/
def runHistoryG (sigValid : SigOracle) (cfg : CacheConfig) (serve : CacheEntry → Request → Option Verdict) :
    Cache → List Request → List (Verdict × Bool)
  | _, [] => []
  | c, r :: rs =>
    let (c', v, fresh) := validateG sigValid cfg serve c r
    (v, fresh) :: runHistoryG sigValid cfg serve c' rs

/-- `ValidationCache::get` on a live entry: a Secure verdict is served only while the validator's
clock is inside the span its signature was valid for (serial distance from the time of the check, so
a clock that was set back is a miss too), with at most the rest of that span as TTL -/
def serve (e : CacheEntry) (r : Request) : Option Verdict :=
  match e.sigSpan with
  | some (validatedAt, lifetime) =>
    let elapsed := (r.now + M32 - validatedAt) % M32      -- `current_time.wrapping_sub(validated_at)`
    if elapsed > lifetime then none
    else
      match e.verdict.adjustedTtl with
      | some t => some { e.verdict with adjustedTtl := some (min t (lifetime - elapsed)) }
      | none => some e.verdict
  | none => some e.verdict

/-- **the code as it is** -/
def validate (sigValid : SigOracle) (cfg : CacheConfig) (c : Cache) (r : Request) :
    Cache × Verdict × Bool := validateG sigValid cfg serve c r

def runHistory (sigValid : SigOracle) (cfg : CacheConfig) (c : Cache) (hist : List Request) :
    List (Verdict × Bool) := runHistoryG sigValid cfg serve c hist

/-! #### the cache before the repairs 411522f / a831deb (regression model)

`get` returned the stored verdict of a live entry, whatever the validator's clock said. -/

def servePreFix (e : CacheEntry) (_ : Request) : Option Verdict := some e.verdict

def validatePreFix (sigValid : SigOracle) (cfg : CacheConfig) (c : Cache) (r : Request) :
    Cache × Verdict × Bool := validateG sigValid cfg servePreFix c r

def runHistoryPreFix (sigValid : SigOracle) (cfg : CacheConfig) (c : Cache) (hist : List Request) :
    List (Verdict × Bool) := runHistoryG sigValid cfg servePreFix c hist

/-! #### decidable classes of the two pre-repair deviations (regression; mirrored by the harness:
both flags are printed on every history line and must stay 0) -/

/-- class `validation-cache-outlives-signature`: a Secure verdict served from the cache while the
validator's clock is outside the RRSIG's window, or with a TTL above the remaining signature
lifetime (`expiration.wrapping_sub(now)`) -/
def outlivesSignature (r : Request) (v : Verdict) (fresh : Bool) : Bool :=
  !fresh && v.proof == .secure &&
    (!(serialLe r.now r.rrsig.input.expiration && serialGe r.now r.rrsig.input.inception) ||
     (match v.adjustedTtl with
      | some t => decide (t > (r.rrsig.input.expiration + M32 - r.now) % M32)
      | none => false))

/-- class `validation-cache-key-folds-rdata-case`: same cache key, different signed RDATA -/
def sameKeyOtherRdata (r' r : Request) : Bool :=
  r'.ck == r.ck && r'.rrsig == r.rrsig &&
    r'.records.map (fun x => canonBytes x.data) != r.records.map (fun x => canonBytes x.data)

/-! #### several RRSIGs per RRset, and the validator's clock

`verify_default_rrset` builds one verification future per *candidate* RRSIG, each carrying its index
`i` into the unfiltered `rrset.signatures` (`enumerate` before `filter_map`), and takes the first
future that completes with `Ok(_)` (`select_ok`) — with DNSKEY lookups that are answered at once this
is the first candidate in list order, **even when it yields `Ok(None)`** (no key verifies it).  The
reported `rrsig_index` is used by `ValidationCache::insert` (signature span of
`rrset.signatures[rrsig_index]`) and by `update_rrset` (which RRSIG record gets the proof and TTL).

`verify_response` reads `Time::current_time()` (a `u64`) and converts it with `as u32`: the validator's
clock is the wall clock modulo 2³². -/

/-- a validation request with all RRSIGs of the RRset (message order) and the 64-bit wall clock -/
structure MultiRequest where
  ck : CacheKey
  dnskeys : List (Dnskey × Proof)
  rrsigs : List Rrsig
  keyName : Name
  keyType : Nat
  records : List Record
  /-- `Time::current_time()`, seconds since the epoch, `u64` -/
  clock : Nat
  inst : Nat
  /-- every DNSKEY lookup fails -/
  netError : Bool := false
  /-- the name of the original query when that query asks for type DNSKEY (the RRset under validation
  arrived in the response to it) -/
  origDnskey : Option Name := none
  deriving Repr, Inhabited

/-- "Break verification cycle": the DNSKEY query this RRSIG needs (its signer's name, type DNSKEY) is
the original query itself — `verify_default_rrset` skips the RRSIG without a lookup -/
def cycleSkip (orig : Option Name) (sig : Rrsig) : Bool :=
  match orig with
  | some n => Name.eq sig.input.signer n
  | none => false

/-- the RRSIGs for which `verify_default_rrset` makes a DNSKEY lookup (`filter_map` over the enumerated,
unfiltered list) -/
def MultiRequest.candidate (m : MultiRequest) (i : Nat) (sig : Rrsig) : Bool :=
  isCandidate m.keyName m.keyType i sig && !cycleSkip m.origDnskey sig

/-- the DNSKEY lookup for this RRSIG ends in `Err` (→ `ProofErrorKind::Net`): upstream failure, or the
response carries no DNSKEY record at the signer's name (`verify_response`, since /repo 2bee91e: such a
response does not answer the question → Bogus → `Err`) -/
def MultiRequest.lookupFails (m : MultiRequest) (sig : Rrsig) : Bool :=
  m.netError || !(m.dnskeys.any fun kp => Name.eq kp.1.owner sig.input.signer)

/-- the first RRSIG satisfying `p`, with its index into the unfiltered list -/
def firstCandidate (p : Nat → Rrsig → Bool) : Nat → List Rrsig → Option (Nat × Rrsig)
  | _, [] => none
  | i, sig :: rest =>
    if p i sig then some (i, sig) else firstCandidate p (i + 1) rest

/-- `current_time() as u32` -/
def clock32 (t : Nat) : Nat := t % M32

/-- the single-RRSIG request the code effectively evaluates, and the `rrsig_index` it reports.
`future::select_ok` over the candidates' lookups: the first one (list order; the scripted upstream
answers at once) whose lookup is `Ok` decides — also with `Ok(None)`; a lookup that ends in `Err` passes
the turn to the next candidate, and when every lookup fails the result is that (Net) error. -/
def MultiRequest.toRequest (m : MultiRequest) : Request × Option Nat :=
  match firstCandidate (fun i sig => m.candidate i sig && !m.lookupFails sig) 0 m.rrsigs with
  | some (i, sig) =>
    ({ ck := m.ck, dnskeys := m.dnskeys, rrsig := sig, keyName := m.keyName, keyType := m.keyType,
       records := m.records, now := clock32 m.clock, inst := m.inst }, some i)
  | none =>
    match firstCandidate m.candidate 0 m.rrsigs with
    | some (i, sig) =>
      ({ ck := m.ck, dnskeys := m.dnskeys, rrsig := sig, keyName := m.keyName, keyType := m.keyType,
         records := m.records, now := clock32 m.clock, inst := m.inst, netError := true }, some i)
    | none =>
      ({ ck := m.ck, dnskeys := m.dnskeys, rrsig := default, keyName := m.keyName, keyType := m.keyType,
         records := m.records, now := clock32 m.clock, inst := m.inst, skip := true }, none)

/-- one step of `verify_rrsets` for an RRset with several RRSIGs: new cache, verdict, fresh?, and the
index (into the unfiltered list) of the RRSIG that gets the proof — `None` for an `Err` result -/
def validateM (sigValid : SigOracle) (cfg : CacheConfig) (c : Cache) (m : MultiRequest) :
    Cache × Verdict × Bool × Option Nat :=
  let (r, idx) := m.toRequest
  let (c', v, fresh) := validate sigValid cfg c r
  (c', v, fresh, if v.isOk then idx else none)

/-- `VerifiedRrset::update_rrset` : the TTL every record of the RRset leaves with -/
def updatedTtl (v : Verdict) (recordTtl : Nat) : Nat :=
  match v.proof, v.adjustedTtl with
  | .secure, some t => t
  | _, _ => recordTtl

end SigCheck
end HickoryVerif
