/-
Model of the message encoders of hickory-proto / hickory-server, statement by statement, on the
data types of `Model/Wire.lean` (the decoder's observation of a `Message`):

  op/header.rs            `impl BinEncodable for Header`
  op/query.rs             `impl BinEncodable for Query`
  rr/record.rs            `impl BinEncodable for Record<R>`   (RDLENGTH place / back-patch)
  rr/record_data.rs       `impl BinEncodable for RData`       (dispatch)
  rr/rdata/{a,aaaa,name,mx,soa,txt,srv,hinfo,null,opt,tsig}.rs   RDATA emitters, with the
                          `with_rdata_behavior` class each of them selects
  op/edns.rs              `impl From<&Edns> for Record`
  op/message.rs           `count_was_truncated`, `emit_message_parts`, `Message::emit`, `to_vec`
  op/message_request.rs   `QueriesEmitAndCount::emit`
  server zone_handler/message_response.rs   `MessageResponse::encode` (limit selection, SERVFAIL
                          header-only fallback), `destructive_emit`

RDATA emitters modelled (`RData.emitModelled`): A, AAAA, NS/CNAME/PTR/ANAME, MX, SOA, TXT, SRV,
HINFO, NULL, Unknown, OPT (DAU / client-subnet / NSID / unknown options), TSIG, ZERO, Update0.
Every other variant answers `panic "unmodelled-rdata-emit"`; drivers test `Message.emitModelled`
first and the harness marks such cases implementation-only.

Arithmetic reading of the bit operations: the header flag octets and the OPT TTL are sums of
disjoint bit fields (`op < 16`, `rcode` low nibble, `version < 256`, …), which is what `|` and `<<`
compute on in-range values; the decoded values the drivers feed in are always in range.
-/
import HickoryVerif.Model.Wire
import HickoryVerif.Model.NameEmit
import HickoryVerif.Model.EncoderCombinators

namespace HickoryVerif
namespace Wire

/-- `Ok(())` without touching the encoder -/
def emitNothing (e : Enc) : ERes Unit := .ok () e

/-- a failing step with an error other than `MaxBufferSizeExceeded` -/
def emitErrOther (e : Enc) : ERes Unit := .err .other e

/-- run the steps in order with `?` -/
def seqAll : List (Enc → ERes Unit) → Enc → ERes Unit
  | [] => emitNothing
  | f :: fs => Enc.seq f (seqAll fs)

/-! ## header -/

/-- the two flag octets of `Header::emit` -/
def flagOctet2 (md : Metadata) : Nat :=
  (if md.qr then 128 else 0) + (md.op % 16) * 8 + (if md.aa then 4 else 0) + (if md.tc then 2 else 0) +
    (if md.rd then 1 else 0)

def flagOctet3 (md : Metadata) : Nat :=
  (if md.ra then 128 else 0) + (if md.ad then 32 else 0) + (if md.cd then 16 else 0) + md.rcode % 16

/-- `impl BinEncodable for Header` : seven separate emits -/
def emitHeader (md : Metadata) (c : Counts) : Enc → ERes Unit :=
  seqAll [fun e => e.emitU16 md.id, fun e => e.emitU8 (flagOctet2 md), fun e => e.emitU8 (flagOctet3 md),
          fun e => e.emitU16 c.qd, fun e => e.emitU16 c.an, fun e => e.emitU16 c.ns, fun e => e.emitU16 c.ar]

/-- the twelve octets `emitHeader` writes -/
def headerBytes (md : Metadata) (c : Counts) : Bytes :=
  [md.id / 256 % 256, md.id % 256, flagOctet2 md % 256, flagOctet3 md % 256,
   c.qd / 256 % 256, c.qd % 256, c.an / 256 % 256, c.an % 256,
   c.ns / 256 % 256, c.ns % 256, c.ar / 256 % 256, c.ar % 256]

/-! ## query -/

/-- `impl BinEncodable for Query` (feature `mdns` off) -/
def emitQuery (q : Query) : Enc → ERes Unit :=
  seqAll [fun e => Name.emit e q.name, fun e => e.emitU16 q.qtype, fun e => e.emitU16 q.qclass]

/-! ## RDATA -/

/-- `i32::to_be_bytes` as an unsigned 32-bit value -/
def i32ToU32 (i : Int) : Nat := (i % 4294967296).toNat

/-- `AAAA::emit` : eight `u16` emits -/
def emitPairs : Bytes → Enc → ERes Unit
  | a :: b :: rest => Enc.seq (fun e => e.emitU16 (a * 256 + b)) (emitPairs rest)
  | _ => emitNothing

/-- `ClientSubnet::addr_len` -/
def subnetAddrLen (sp : Nat) : Nat := sp / 8 + (if sp % 8 > 0 then 1 else 0)

/-- `EdnsOption::len` (`as u16` casts) -/
def optValLen : OptVal → Nat
  | .dau algs => algs.length % 65536
  | .subnet _ sp _ _ => 4 + subnetAddrLen sp
  | .nsid d => d.length % 65536
  | .unknown _ d => d.length % 65536

/-- `impl BinEncodable for EdnsOption` -/
def emitOptVal : OptVal → Enc → ERes Unit
  | .dau algs => seqAll (algs.map fun a => fun e => e.emitU8 a)
  | .subnet family sp scope addr =>
    seqAll [fun e => e.emitU16 family, fun e => e.emitU8 sp, fun e => e.emitU8 scope,
            fun e => if subnetAddrLen sp ≤ addr.length then e.emitSlice (addr.take (subnetAddrLen sp))
                     else .err .other e]
  | .nsid d => fun e => e.emitSlice d
  | .unknown _ d => fun e => e.emitSlice d

/-- the loop of `OPT::emit` -/
def emitOptEntries (os : List OptEntry) : Enc → ERes Unit :=
  seqAll (os.map fun o =>
    seqAll [fun e => e.emitU16 o.code, fun e => e.emitU16 (optValLen o.val), emitOptVal o.val])

/-- `RecordTypeSet::emit` for a set without `original_encoding`: the `BTreeMap<u8, Vec<u8>>` of window →
bitmap (bitmap length = index of the highest type's octet + 1, bits OR-ed in), windows in increasing order -/
def freshWindows (types : List Nat) : List (Nat × Bytes) :=
  (List.range 256).filterMap fun w =>
    let lows := (types.filter fun t => t / 256 % 256 = w).map (· % 256)
    if lows.isEmpty then none
    else
      let n := lows.foldl (fun m l => max m (l / 8 + 1)) 0
      some (w, (List.range n).map fun i =>
        ((List.range 8).filter fun j => lows.contains (i * 8 + j)).foldl (fun acc j => acc + 2 ^ (7 - j)) 0)

/-- `impl BinEncodable for RecordTypeSet`: the original encoding verbatim when there is one -/
def emitTypeSet (ts : TypeSet) : Enc → ERes Unit :=
  match ts.orig with
  | some bs => fun e => e.emitSlice bs
  | none =>
    seqAll ((freshWindows ts.types).map fun wb =>
      seqAll ([fun e => e.emitU8 wb.1, fun e => e.emitU8 (wb.2.length % 256)] ++ wb.2.map fun b => fun e => e.emitU8 b))

/-- consecutive chunks of `n` octets (the last one may be shorter) -/
def chunks (n : Nat) : Nat → Bytes → List Bytes
  | 0, _ => []
  | _, [] => []
  | fuel + 1, l => l.take (max n 1) :: chunks n fuel (l.drop (max n 1))

/-- `impl BinEncodable for SvcParamValue`, the part between the length place and its back-patch:
`Mandatory` / `Alpn` refuse an empty list; `IpHint` emits address by address (`A`: one slice of four
octets, `AAAA`: eight `u16`) -/
def emitSvcVal : SvcVal → Enc → ERes Unit
  | .mandatory keys => fun e =>
    if keys.isEmpty then .err .other e else seqAll (keys.map fun k => fun e1 => e1.emitU16 k) e
  | .alpn ids => fun e =>
    if ids.isEmpty then .err .other e else seqAll (ids.map fun a => fun e1 => e1.emitCharacterData a) e
  | .noDefaultAlpn => emitNothing
  | .port p => fun e => e.emitU16 p
  | .ipv4hint addrs => seqAll ((chunks 4 addrs.length addrs).map fun a => fun e => e.emitSlice a)
  | .ech d => fun e => e.emitSlice d
  | .ipv6hint addrs => seqAll ((chunks 16 addrs.length addrs).map emitPairs)
  | .unknown d => fun e => e.emitSlice d

/-- the parameter loop of `SVCB::emit`: keys must be strictly increasing (`SvcParams out of order`) -/
def emitSvcParams : Option Nat → List (Nat × SvcVal) → Enc → ERes Unit
  | _, [] => emitNothing
  | last, (k, v) :: rest => fun e =>
    if (match last with | some lk => decide (k ≤ lk) | none => false) then .err .other e
    else Enc.seq (fun e1 => e1.emitU16 k) (Enc.seq (Enc.lenPrefixedTry (emitSvcVal v)) (emitSvcParams (some k) rest)) e

/-- has `RData::emit` a model for this variant? -/
def RData.emitModelled : RData → Bool
  | .a _ | .aaaa _ | .name _ | .mx _ _ | .soa _ _ _ _ _ _ _ | .txt _ | .srv _ _ _ _ | .hinfo _ _
  | .null _ | .unknown _ _ | .opt _ | .update0 _ | .zero | .tsig _ _ _ _ _ _ _
  | .ds _ _ _ _ | .dnskey _ _ _ _ | .tlsa _ _ _ _ | .sshfp _ _ _ | .openpgpkey _ | .cert _ _ _ _
  | .nsec3param _ _ _ | .caa _ _ _ _ | .key _ _ _ _ | .naptr _ _ _ _ _ _
  | .sig _ _ _ _ _ _ _ _ _ | .nsec _ _ | .nsec3 _ _ _ _ _ _ | .csync _ _ _ | .svcb _ _ _ => true
  | _ => false

/-- `impl BinEncodable for RData` for a record of type `t` (the type selects the
`with_rdata_behavior` class of the name-only variants) -/
def emitRData (t : Nat) : RData → Enc → ERes Unit
  | .a b => fun e => e.emitSlice b
  | .aaaa b => emitPairs b
  | .name n =>
    -- name_rdata!(CNAME | NS | PTR, StandardRecord); name_rdata!(ANAME, Other)
    fun e => e.withRdataBehavior (if t = 65305 then .other else .standardRecord) fun e1 => Name.emit e1 n
  | .mx p n =>
    fun e => e.withRdataBehavior .standardRecord
      (seqAll [fun e1 => e1.emitU16 p, fun e1 => Name.emit e1 n])
  | .soa m r serial refresh retry expire minimum =>
    fun e => e.withRdataBehavior .standardRecord
      (seqAll [fun e1 => Name.emit e1 m, fun e1 => Name.emit e1 r, fun e1 => e1.emitU32 serial,
               fun e1 => e1.emitU32 (i32ToU32 refresh), fun e1 => e1.emitU32 (i32ToU32 retry),
               fun e1 => e1.emitU32 (i32ToU32 expire), fun e1 => e1.emitU32 minimum])
  | .txt ss => seqAll (ss.map fun s => fun e => e.emitCharacterData s)
  | .srv p w port n =>
    fun e => e.withRdataBehavior .canonical
      (seqAll [fun e1 => e1.emitU16 p, fun e1 => e1.emitU16 w, fun e1 => e1.emitU16 port,
               fun e1 => Name.emit e1 n])
  | .hinfo c o => seqAll [fun e => e.emitCharacterData c, fun e => e.emitCharacterData o]
  | .null d => fun e => e.emitSlice d
  | .unknown _ d => fun e => e.emitSlice d
  | .opt os => fun e => e.withRdataBehavior .other (emitOptEntries os)
  | .update0 _ => emitNothing
  | .zero => emitNothing
  | .tsig alg time fudge mac oid err other =>
    fun e => e.withRdataBehavior .other
      (seqAll [fun e1 => Name.emit e1 alg,
               fun e1 => if time / 4294967296 > 65535 then .err .other e1 else e1.emitU16 (time / 4294967296),
               fun e1 => e1.emitU32 (time % 4294967296), fun e1 => e1.emitU16 fudge,
               fun e1 => if mac.length > 65535 then .err .other e1 else e1.emitU16 mac.length,
               fun e1 => e1.emitSlice mac, fun e1 => e1.emitU16 oid, fun e1 => e1.emitU16 err,
               fun e1 => if other.length > 65535 then .err .other e1 else e1.emitU16 other.length,
               fun e1 => e1.emitSlice other])
  -- the name-free "blob" family (stage 3): fixed fields, then the rest of the RDATA as it is
  | .ds tag alg dt digest =>                                 -- DS / CDS (`None` algorithm = 0)
    seqAll [fun e => e.emitU16 tag, fun e => e.emitU8 alg, fun e => e.emitU8 dt, fun e => e.emitSlice digest]
  | .dnskey _ flags alg key =>                               -- DNSKEY / CDNSKEY: protocol is always 3
    seqAll [fun e => e.emitU16 flags, fun e => e.emitU8 3, fun e => e.emitU8 alg, fun e => e.emitSlice key]
  | .tlsa u sel m d =>                                       -- TLSA / SMIMEA
    seqAll [fun e => e.emitU8 u, fun e => e.emitU8 sel, fun e => e.emitU8 m, fun e => e.emitSlice d]
  | .sshfp a f d => seqAll [fun e => e.emitU8 a, fun e => e.emitU8 f, fun e => e.emitSlice d]
  | .openpgpkey d => fun e => e.emitSlice d
  | .cert ct tag alg d =>
    fun e => e.withRdataBehavior .other
      (seqAll [fun e1 => e1.emitU16 ct, fun e1 => e1.emitU16 tag, fun e1 => e1.emitU8 alg,
               fun e1 => e1.emitSlice d])
  | .nsec3param optOut iter salt =>                          -- hash algorithm 1; `salt().len() as u8`
    seqAll [fun e => e.emitU8 1, fun e => e.emitU8 (if optOut then 1 else 0), fun e => e.emitU16 iter,
            fun e => e.emitU8 (salt.length % 256), fun e => e.emitSlice salt]
  | .caa critical reserved tag value =>                      -- `flags()`, `emit_tag` (len > 255: Err)
    fun e => e.withRdataBehavior .other
      (seqAll [fun e1 => e1.emitU8 (reserved % 128 + (if critical then 128 else 0)),
               fun e1 => if tag.length > 255 then .err .other e1 else e1.emitU8 tag.length,
               fun e1 => e1.emitSlice tag, fun e1 => e1.emitSlice value])
  | .key flags proto alg k =>                                -- `flags()` reassembles the accepted flags word
    seqAll [fun e => e.emitU16 flags, fun e => e.emitU8 proto, fun e => e.emitU8 alg, fun e => e.emitSlice k]
  -- name-bearing, never compressed (`RDataEncoding::Canonical`)
  | .naptr order pref flags services regexp n =>
    fun e => e.withRdataBehavior .canonical
      (seqAll [fun e1 => e1.emitU16 order, fun e1 => e1.emitU16 pref, fun e1 => e1.emitCharacterData flags,
               fun e1 => e1.emitCharacterData services, fun e1 => e1.emitCharacterData regexp,
               fun e1 => Name.emit e1 n])
  | .sig covered alg labels ottl exp inc tag signer sg =>    -- SIG / RRSIG: `SigInput::emit`, then the signature
    fun e => e.withRdataBehavior .canonical
      (seqAll [fun e1 => e1.withRdataBehavior .canonical
                 (seqAll [fun e2 => e2.emitU16 covered, fun e2 => e2.emitU8 alg, fun e2 => e2.emitU8 labels,
                          fun e2 => e2.emitU32 ottl, fun e2 => e2.emitU32 exp, fun e2 => e2.emitU32 inc,
                          fun e2 => e2.emitU16 tag, fun e2 => Name.emit e2 signer]),
               fun e1 => e1.emitSlice sg])
  -- the type-bitmap family: `RecordTypeSet::emit` writes the original encoding back
  | .nsec next ts =>                                         -- RFC 6840 5.1: never compressed, case kept
    fun e => e.withRdataBehavior .other (seqAll [fun e1 => Name.emit e1 next, emitTypeSet ts])
  | .nsec3 optOut iter salt hash _ ts =>                      -- hash algorithm 1; `len() as u8` twice
    seqAll [fun e => e.emitU8 1, fun e => e.emitU8 (if optOut then 1 else 0), fun e => e.emitU16 iter,
            fun e => e.emitU8 (salt.length % 256), fun e => e.emitSlice salt,
            fun e => e.emitU8 (hash.length % 256), fun e => e.emitSlice hash, emitTypeSet ts]
  | .csync serial flags ts =>                                 -- `flags()` reassembles the decoded word
    seqAll [fun e => e.emitU32 serial, fun e => e.emitU16 flags, emitTypeSet ts]
  | .svcb prio target ps =>                                   -- SVCB / HTTPS
    fun e => e.withRdataBehavior .other
      (seqAll [fun e1 => e1.emitU16 prio, fun e1 => Name.emit e1 target, emitSvcParams none ps])
  | _ => fun _ => .panic "unmodelled-rdata-emit"

/-! ## record -/

/-- `impl BinEncodable for Record<R>` (feature `mdns` off) -/
def emitRecord (r : Record) : Enc → ERes Unit :=
  seqAll [fun e => Name.emit e r.name, fun e => e.emitU16 r.rtype, fun e => e.emitU16 r.cls,
          fun e => e.emitU32 r.ttl,
          Enc.lenPrefixed (if r.rdata.isUpdate then emitNothing else emitRData r.rtype r.rdata)]

/-- `impl From<&Edns> for Record` -/
def recordOfEdns (ed : Edns) : Record :=
  { name := Name.root, rtype := T_OPT, cls := max ed.maxPayload 512,
    ttl := (ed.rcodeHigh % 256) * 16777216 + (ed.version % 256) * 65536 +
      (if ed.dnssecOk then 32768 + ed.z % 32768 else ed.z % 32768),
    rdata := .opt ed.options }

/-! ## message -/

/-- `count_was_truncated` -/
def countWasTruncated : ERes Nat → ERes (Nat × Bool)
  | .ok count e => if count > 65535 then .err .other e else .ok (count, false) e
  | .err (.notAllWritten count) e => if count > 65535 then .err .other e else .ok (count, true) e
  | .err k e => .err k e
  | .panic s => .panic s

/-- `ResponseCode::high` -/
def rcodeHigh (rcode : Nat) : Nat := (rcode / 16) % 256

/-- one more record appended to the additional section with its own `emit_iter` (the OPT record
built from the `Edns`, then the TSIG record): `count_was_truncated(encoder.emit_iter([rec]))?`,
`additional_count.0 += count.0` (a `u16` addition), `additional_count.1 |= count.1` -/
def emitExtra (rec : Option Record) (acc : Nat × Bool) (e : Enc) : ERes (Nat × Bool) :=
  match rec with
  | some r =>
    match countWasTruncated (e.emitIter [emitRecord r]) with
    | .ok (c, t) e' =>
      if acc.1 + c > 65535 then .panic "emit_message_parts:u16-add-overflow"
      else .ok (acc.1 + c, acc.2 || t) e'
    | .err k e' => .err k e'
    | .panic s => .panic s
  | none => .ok acc e

/-- `emit_message_parts`; `queries` is the `EmitAndCount` of the question section. -/
def emitMessageParts (md : Metadata) (queries : Enc → ERes Nat)
    (answers authorities additionals : List Record) (edns : Option Edns) (sig : Option Record)
    (e : Enc) : ERes (Metadata × Counts) :=
  match e.place 12 with
  | .panic s => .panic s
  | .err k e => .err k e
  | .ok start e =>
  match queries e with
  | .panic s => .panic s
  | .err k e => .err k e
  | .ok queryCount e =>
  match countWasTruncated (e.emitIter (answers.map emitRecord)) with
  | .panic s => .panic s
  | .err k e => .err k e
  | .ok (anC, anT) e =>
  match countWasTruncated (e.emitIter (authorities.map emitRecord)) with
  | .panic s => .panic s
  | .err k e => .err k e
  | .ok (nsC, nsT) e =>
  match countWasTruncated (e.emitIter (additionals.map emitRecord)) with
  | .panic s => .panic s
  | .err k e => .err k e
  | .ok (arC0, arT0) e =>
  -- EDNS: `edns.set_rcode_high(metadata.response_code.high())`, one more `emit_iter`
  match emitExtra (edns.map fun ed => recordOfEdns { ed with rcodeHigh := rcodeHigh md.rcode }) (arC0, arT0) e with
  | .panic s => .panic s
  | .err k e => .err k e
  | .ok (arC1, arT1) e =>
  match emitExtra sig (arC1, arT1) e with
  | .panic s => .panic s
  | .err k e => .err k e
  | .ok (arC, arT) e =>
  if queryCount > 65535 then .err .other e else
  let counts : Counts := { qd := queryCount, an := anC, ns := nsC, ar := arC }
  let finalMd : Metadata := { md with tc := md.tc || anT || nsT || arT }
  match e.placeReplace start 12 (emitHeader finalMd counts) with
  | .ok _ e => .ok (finalMd, counts) e
  | .err k e => .err k e
  | .panic s => .panic s

/-- `impl BinEncodable for Message` -/
def emitMessage (m : Message) (e : Enc) : ERes (Metadata × Counts) :=
  emitMessageParts m.md (fun e => e.emitIter (m.queries.map emitQuery))
    m.answers m.authorities m.additionals m.edns m.signature e

/-- every record of the message has a modelled RDATA emitter -/
def Message.emitModelled (m : Message) : Bool :=
  (m.answers ++ m.authorities ++ m.additionals ++ m.signature.toList).all fun r => r.rdata.emitModelled

/-- `Message::emit` into a fresh `Vec` under `set_max_size(limit)` (`Message::to_vec` is the case
`limit = 65535`): the bytes on `Ok`. -/
def emitLimited (m : Message) (limit : Nat) : Outcome Bytes :=
  match emitMessage m ((Enc.new []).setMaxSize limit) with
  | .ok _ e => .ok e.buf
  | .err _ _ => .err
  | .panic s => .panic s

def toVec (m : Message) : Outcome Bytes := emitLimited m 65535

/-! ## class predicates of the two known by-design deviations of C02 -/

/-- C02.BadVersBadSigAlias : the response code is 16, which is BADVERS (RFC 6891) and BADSIG
(RFC 2845) at once; `ResponseCode::from` decodes it as BADSIG -/
def BadVersAlias (m : Message) : Bool := m.md.rcode == 16

/-- C02.ReencodeExceeds64K : `to_vec` of a message without TC comes back with TC, i.e. records were
dropped at the 65 535-octet limit -/
def ReencodeTruncates (m : Message) : Bool :=
  match emitMessage m ((Enc.new []).setMaxSize 65535) with
  | .ok (md', _) _ => md'.tc && !m.md.tc
  | _ => false

/-! ## the server's response encoder -/

/-- `QueriesEmitAndCount::emit` : the question bytes as the client sent them, remembered as one
compression candidate -/
def emitOriginalQueries (original : Option Bytes) (e : Enc) : ERes Nat :=
  match original with
  | none => .ok 0 e
  | some bs =>
    let originalOffset := e.offset
    match e.emitSlice bs with
    | .ok _ e1 =>
      if e1.nameEncoding = .compressed then
        match e1.storeLabelPointer originalOffset (originalOffset + bs.length) with
        | .ok e2 => .ok 1 e2
        | .err => .panic "unreachable"
        | .panic s => .panic s
      else .ok 1 e1
    | .err k e1 => .err k e1
    | .panic s => .panic s

/-- the parts of a `MessageResponse` (`authorities` already chained with `soa`) -/
structure Response where
  md : Metadata
  queries : Option Bytes
  answers : List Record
  authorities : List Record
  additionals : List Record
  signature : Option Record
  edns : Option Edns
  deriving Repr, DecidableEq, Inhabited

/-- `Protocol` as far as `encode` distinguishes it -/
inductive Proto where
  | udp
  | other
  deriving Repr, DecidableEq, Inhabited

/-- the `set_max_size` argument chosen by `MessageResponse::encode` -/
def responseLimit (proto : Proto) (edns : Option Edns) : Nat :=
  match proto with
  | .udp => match edns with
    | some ed => ed.maxPayload
    | none => 512
  | .other => 65535

/-- the response EDNS `Catalog::handle_request` derives from the request's (zone_handler/catalog.rs:
`Edns::new()`, `set_dnssec_ok(req.dnssec_ok)`, `set_max_payload(req.max_payload().max(512))`,
`set_version(0)`; no NSID configured) -/
def responseEdns (req : Option Edns) : Option Edns :=
  req.map fun r =>
    { rcodeHigh := 0, version := 0, dnssecOk := r.dnssecOk, z := 0,
      maxPayload := max (max r.maxPayload 512) 512, options := [] }

/-- the header-only SERVFAIL of the fallback path -/
def servfailMd (id : Nat) : Metadata :=
  { id := id, qr := true, op := 0, aa := false, tc := false, rd := false, ra := false, ad := false,
    cd := false, rcode := 2 }

/-- `MessageResponse::encode(protocol)` : the bytes handed to the stream -/
def encodeResponse (r : Response) (proto : Proto) : Outcome Bytes :=
  match emitMessageParts r.md (emitOriginalQueries r.queries) r.answers r.authorities r.additionals
      r.edns r.signature ((Enc.new []).setMaxSize (responseLimit proto r.edns)) with
  | .ok _ e => .ok e.buf
  | .panic s => .panic s
  | .err _ _ =>
    -- bytes.clear(); a fresh encoder with max 512; header.emit(&mut encoder)?
    match emitHeader (servfailMd r.md.id) { qd := 0, an := 0, ns := 0, ar := 0 } ((Enc.new []).setMaxSize 512) with
    | .ok _ e => .ok e.buf
    | .err _ _ => .err
    | .panic s => .panic s

end Wire
end HickoryVerif
