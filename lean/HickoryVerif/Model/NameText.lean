/-
Presentation form of names: `Name::to_ascii` (`write_labels::<LabelEncAscii>`,
`Label::write_ascii`) and `Name::from_ascii` (`from_encoded_str::<LabelEncAscii>`,
`Label::from_ascii`).  Text is a list of byte values; `from_ascii` is only modelled on ASCII
input (any non-ASCII character makes the real function fail: it is either rejected at once or
ends up in a label that `Label::from_ascii` refuses; the harness checks that separately).
-/
import HickoryVerif.Model.Name

namespace HickoryVerif
namespace Name

def isAlnum (c : Nat) : Bool :=
  (48 ≤ c && c ≤ 57) || (65 ≤ c && c ≤ 90) || (97 ≤ c && c ≤ 122)

/-- `is_safe_ascii(c, is_first, for_encoding)` on a byte. -/
def isSafeAscii (c : Nat) (isFirst forEncoding : Bool) : Bool :=
  if c ≥ 128 then false
  else if isAlnum c then true
  else if c = 45 then !isFirst          -- '-'
  else if c = 95 then true              -- '_'
  else if c = 42 then isFirst           -- '*'
  else if c = 46 then !forEncoding      -- '.'
  else false

def octDigit (n : Nat) : Nat := 48 + n % 8

/-- `escape_non_ascii` of `Label::write_ascii`. -/
def escapeByte (b : Nat) (isFirst : Bool) : Bytes :=
  if isSafeAscii b isFirst true then [b]
  else if b > 0x20 ∧ b < 0x7f then [92, b]
  else [92, octDigit (b / 64), octDigit (b / 8), octDigit b]

/-- `Label::write_ascii` -/
def writeLabel : Bytes → Bytes
  | [] => []
  | b :: rest => escapeByte b true ++ (rest.map (escapeByte · false)).flatten

/-- `Name::write_labels::<_, LabelEncAscii>` (labels joined by '.', trailing '.' iff fqdn). -/
def writeAscii (n : Name) : Bytes :=
  let body := match n.labels with
    | [] => []
    | l :: ls => writeLabel l ++ (ls.map (fun l => 46 :: writeLabel l)).flatten
  body ++ (if n.fqdn then [46] else [])

/-- `Label::from_ascii` on an ASCII byte string. -/
def labelFromAscii (s : Bytes) : Outcome Bytes :=
  if s.length > 63 then .err
  else if s = [42] then .ok [42]
  else match s with
    | [] => .err
    | c :: rest =>
      if c < 128 ∧ rest.all (· < 128) ∧ isSafeAscii c true false ∧
          rest.all (isSafeAscii · false false)
      then labelFromRaw s else .err

inductive PState where
  | label | esc1 | esc2 (i : Nat) | esc3 (i ii : Nat)
  deriving Repr, DecidableEq

def isDigit (c : Nat) : Bool := 48 ≤ c && c ≤ 57
/-- `char::to_digit(8)` -/
def toDigit8 (c : Nat) : Option Nat := if 48 ≤ c ∧ c ≤ 55 then some (c - 48) else none
/-- ASCII `is_control() || is_whitespace()` -/
def isCtlOrSpace (c : Nat) : Bool := c ≤ 32 || c = 127

/-- the character loop of `from_encoded_str`; `label` is the label under construction. -/
def parseLoop : List Nat → PState → Bytes → Name → Outcome (Name × Bytes)
  | [], _, label, name => .ok (name, label)
  | ch :: rest, st, label, name =>
    if ch ≥ 128 then .err else
    match st with
    | .label =>
      if ch = 46 then
        match (labelFromAscii label).bind name.extendName with
        | .ok name' => parseLoop rest .label [] name'
        | .err => .err
        | .panic s => .panic s
      else if ch = 92 then parseLoop rest .esc1 label name
      else if !isCtlOrSpace ch then parseLoop rest .label (label ++ [ch]) name
      else .err
    | .esc1 =>
      if isDigit ch then
        match toDigit8 ch with
        | some d => parseLoop rest (.esc2 d) label name
        | none => .err
      else parseLoop rest .label (label ++ [ch]) name
    | .esc2 i =>
      if isDigit ch then
        match toDigit8 ch with
        | some d => parseLoop rest (.esc3 i d) label name
        | none => .err
      else .err
    | .esc3 i ii =>
      if isDigit ch then
        match toDigit8 ch with
        | some d =>
          let val := i * 64 + ii * 8 + d
          -- a value ≥ 128 becomes a non-ASCII `char`, which `Label::from_ascii` rejects later;
          -- represented by the out-of-range byte value itself (≥ 128 fails `labelFromAscii`).
          parseLoop rest .label (label ++ [val]) name
        | none => .err
      else .err

/-- `Name::from_ascii` (origin = None). -/
def parseAscii (s : Bytes) : Outcome Name :=
  if s = [46] then .ok root else
  match parseLoop s .label [] new with
  | .ok (name, label) =>
    if !label.isEmpty then
      -- `label.is_empty() && !local.is_empty()` is false here: not fqdn
      (labelFromAscii label).bind name.extendName
    else if !s.isEmpty then .ok { name with fqdn := true }
    else .ok name
  | .err => .err
  | .panic p => .panic p

end Name
end HickoryVerif
