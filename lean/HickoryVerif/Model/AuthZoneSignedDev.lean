/-
Signed stage (DO=1, NSEC): what a denial proof has to contain (RFC 4035 §3.1.3, §5.4 — the NSEC
owner / next-name interval in canonical order), and the decidable predicates delimiting where
the modelled code (`Model/AuthZoneSigned.lean`) attaches less than that.

* (`nxNoWildcardDenial` — NXDOMAIN whose NSECs do not cover `*.<closest encloser>` — was repaired
  in /repo f7c9c53; the predicate stays as a definition for the regression theorem
  `fixed_nsec_no_wildcard_denial`, it is no class any more)
* `soaQueryWildcardNoProof` QTYPE SOA answered through a wildcard: the "SOA queries also get the
                            NS" branch replaces the branch that attaches the NSEC;
* `wildcardExpansionNotProven`  a wildcard-expanded RRset in the answer (possibly behind a CNAME)
                            whose owner is not covered by any NSEC attached: `nsec_records` is
                            always asked for the *query* name.
-/
import HickoryVerif.Model.AuthZoneSigned
import HickoryVerif.Spec.Rfc1034
import HickoryVerif.Spec.CanonicalOrder

namespace HickoryVerif.AuthZone.SDev
open HickoryVerif HickoryVerif.AuthZone HickoryVerif.Spec.Rfc1034

/-- RFC 4034 §6.1 canonical order on absolute names (`Spec/CanonicalOrder.lean`) -/
def canonLt (a b : LName) : Bool := Spec.canonCompare (asName a) (asName b) == .lt

/-- the NSEC RRset `r` proves that no name exists strictly between its owner and its next name,
and `x` lies in that interval (the last NSEC of the chain wraps around to the apex) -/
def covers (r : RRset) (x : LName) : Bool :=
  r.type == T_NSEC &&
  match r.rdatas.head?.bind (·.target) with
  | some next => canonLt r.name x && (canonLt x next || !canonLt r.name next)
  | none => false

/-- owners of wildcard-expanded RRsets: the RRSIG has fewer labels than the owner -/
def expandedOwners (answers : List RRset) : List LName :=
  (answers.filter fun rr =>
    match rr.sigLabels with
    | some l => l < Name.numLabels (asName rr.name)
    | none => false).map (·.name)

def nxNoWildcardDenial (z : Zone) (o : LName) (q : Query) : Bool :=
  let a := answerImplS z o q true true
  a.rcode == .nxDomain && !a.authority.any fun r => covers r (star :: closestEncloser z q.name)

def expansionNotProven (z : Zone) (o : LName) (q : Query) : Bool :=
  let a := answerImplS z o q true true
  a.rcode == .noError && (expandedOwners a.answers).any fun x => !a.authority.any fun r => covers r x

def soaQueryWildcardNoProof (z : Zone) (o : LName) (q : Query) : Bool :=
  q.type == T_SOA && expansionNotProven z o q

def wildcardExpansionNotProven (z : Zone) (o : LName) (q : Query) : Bool :=
  q.type != T_SOA && expansionNotProven z o q

/-- every RRset of the store is signed (`sign_zone` signs all of them) -/
def allSigned (z : Zone) : Bool := z.all (·.sigLabels.isSome)

end HickoryVerif.AuthZone.SDev
