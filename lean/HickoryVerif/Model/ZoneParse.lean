/-
Model of the zone-file parser `hickory_proto::serialize::txt::zone::Parser::parse`
(crates/proto/src/serialize/txt/zone.rs) with everything it calls:

* `parse_ttl` (serialize/txt/mod.rs) — units, `u32` overflow;
* `Name::parse` = `from_encoded_str::<LabelEncUtf8>` with an origin (rr/domain/name.rs) and
  `Label::from_utf8` (label.rs).  `Label::from_utf8` runs IDNA (`idna::Uts46::to_ascii`, STD3 deny
  list, hyphens allowed, no length check) — modelled **for ASCII labels that do not start with
  `xn--`**: such a label is accepted iff all its characters are letters, digits, `-` or `.`, and is
  lower-cased; a label starting with `_` bypasses IDNA (`Label::from_ascii`, case kept).  A label
  with a character ≥ 128 or an `xn--` prefix is *outside the model* (`ZR.unmodelled`).
* `DNSClass::from_str`, `RecordType::from_str`;
* `RData::from_tokens` for A, AAAA, NS, CNAME, PTR, ANAME, MX, SOA, SRV, TXT, HINFO, CAA (incl. the std
  `Ipv4Addr`/`Ipv6Addr`/`u16` `FromStr` parsers); the types `from_tokens` refuses are modelled as
  the error they are; HINFO, CAA, TLSA, SMIMEA, DS and SSHFP are modelled too (hex data = all remaining tokens
  joined, `joinToks`), so are CERT (base64 data = all remaining items joined, fix 1479f5a) and
  OPENPGPKEY (one base64 item); CSYNC, HTTPS, NAPTR, OPENPGPKEY, SMIMEA, SSHFP, SVCB,
  TLSA are `unmodelled`;
* `Context::insert`, `Ttl::take`, `RecordSet::from` / `RecordSet::insert` (rr/rr_set.rs).

`$INCLUDE` is modelled up to the file system: a relative path is the error it is with
`path = None`; an absolute path is `unmodelled`.

The `BTreeMap<RrKey, RecordSet>` is an association list in insertion order; both sides of the
correspondence sort the dump.
-/
import HickoryVerif.Model.ZoneLex
import HickoryVerif.Model.NameText

namespace HickoryVerif.ZoneParse
open HickoryVerif HickoryVerif.ZoneLex

/-- result of a modelled function: `Outcome` plus "outside the model" -/
inductive ZR (α : Type) where
  | ok (a : α)
  | err
  | unmodelled
  | panic (site : String)
  deriving Repr, DecidableEq, Inhabited

namespace ZR
def bind {α β} (x : ZR α) (f : α → ZR β) : ZR β :=
  match x with
  | ok a => f a
  | err => err
  | unmodelled => unmodelled
  | panic s => panic s

instance : Monad ZR where
  pure := ZR.ok
  bind := ZR.bind

def ofOutcome {α} : Outcome α → ZR α
  | .ok a => .ok a
  | .err => .err
  | .panic s => .panic s

def ofOption {α} : Option α → ZR α
  | some a => .ok a
  | none => .err

def isPanic {α} : ZR α → Bool
  | panic _ => true
  | _ => false

@[simp] theorem bind_ok {α β} (a : α) (f : α → ZR β) : (ok a).bind f = f a := rfl
@[simp] theorem bind_err {α β} (f : α → ZR β) : (err : ZR α).bind f = err := rfl
@[simp] theorem bind_unmodelled {α β} (f : α → ZR β) : (unmodelled : ZR α).bind f = unmodelled := rfl
@[simp] theorem bind_panic {α β} (s : String) (f : α → ZR β) :
    (panic s : ZR α).bind f = panic s := rfl
@[simp] theorem pure_eq {α} (a : α) : (pure a : ZR α) = ok a := rfl
@[simp] theorem bind_eq {α β} (x : ZR α) (f : α → ZR β) : (x >>= f) = x.bind f := rfl
end ZR

/-! ### numbers -/

def isDigit (c : Nat) : Bool := 48 ≤ c && c ≤ 57

def digitsVal (ds : List Nat) : Nat := ds.foldl (fun acc d => acc * 10 + (d - 48)) 0

def U32_MAX : Nat := 4294967295

/-- multiplier of a `parse_ttl` unit letter -/
def ttlUnit (c : Nat) : Option Nat :=
  if c = 83 ∨ c = 115 then some 1
  else if c = 77 ∨ c = 109 then some 60
  else if c = 72 ∨ c = 104 then some 3600
  else if c = 68 ∨ c = 100 then some 86400
  else if c = 87 ∨ c = 119 then some 604800
  else none

/-- the `for (i, c) in ttl_str.char_indices()` loop of `parse_ttl`; `st` = the digits since `start` -/
def parseTtlGo : Str → Option (List Nat) → Nat → Option Nat
  | [], st, value =>
    match st with
    | some ds =>
      let number := digitsVal ds
      if number > U32_MAX then none
      else if value + number > U32_MAX then none else some (value + number)
    | none => some value
  | c :: rest, st, value =>
    if isDigit c then parseTtlGo rest (some (st.getD [] ++ [c])) value
    else
      match st, ttlUnit c with
      | some ds, some mult =>
        let number := digitsVal ds
        if number > U32_MAX then none
        else if number * mult > U32_MAX then none
        else if value + number * mult > U32_MAX then none
        else parseTtlGo rest none (value + number * mult)
      | _, _ => none

/-- `parse_ttl` (`none` = `Err(ParseTime)`) -/
def parseTtl (s : Str) : Option Nat :=
  if s.isEmpty then none else parseTtlGo s none 0

/-- `u16::from_str` : optional `+`, at least one ASCII digit, value ≤ 65535 -/
def parseU16 (s : Str) : Option Nat :=
  let ds := match s with
    | 43 :: rest => rest
    | _ => s
  if ds.isEmpty then none
  else if ds.all isDigit then
    let v := digitsVal ds
    if v > 65535 then none else some v
  else none

/-- `u8::from_str` -/
def parseU8 (s : Str) : Option Nat :=
  match parseU16 s with
  | some v => if v > 255 then none else some v
  | none => none

/-! ### `Ipv4Addr::from_str`, `Ipv6Addr::from_str` (core::net::parser) -/

def hexVal (c : Nat) : Option Nat :=
  if 48 ≤ c ∧ c ≤ 57 then some (c - 48)
  else if 97 ≤ c ∧ c ≤ 102 then some (c - 87)
  else if 65 ≤ c ∧ c ≤ 70 then some (c - 55)
  else none

def digitVal (radix : Nat) (c : Nat) : Option Nat :=
  if radix = 16 then hexVal c else if 48 ≤ c ∧ c ≤ 57 then some (c - 48) else none

/-- the digit loop of `Parser::read_number` : (value, digit count, rest); `none` once the count
exceeds `maxDigits` -/
def readDigits (radix maxDigits : Nat) : Str → Nat → Nat → Option (Nat × Nat × Str)
  | [], acc, cnt => some (acc, cnt, [])
  | c :: rest, acc, cnt =>
    match digitVal radix c with
    | some d =>
      if cnt + 1 > maxDigits then none
      else readDigits radix maxDigits rest (acc * radix + d) (cnt + 1)
    | none => some (acc, cnt, c :: rest)

/-- `Parser::read_number(radix, Some(max_digits), allow_zero_prefix)` with result bound `limit` -/
def readNumber (radix maxDigits : Nat) (allowZero : Bool) (limit : Nat) (s : Str) :
    Option (Nat × Str) :=
  let leadingZero := s.head? == some 48
  match readDigits radix maxDigits s 0 0 with
  | none => none
  | some (v, cnt, rest) =>
    if cnt = 0 then none
    else if !allowZero && leadingZero && cnt > 1 then none
    else if v > limit then none
    else some (v, rest)

/-- `read_separator(sep, index, inner)` -/
def readSep (sep : Nat) (index : Nat) (inner : Str → Option (α × Str)) (s : Str) :
    Option (α × Str) :=
  if index > 0 then
    match s with
    | c :: rest => if c = sep then inner rest else none
    | [] => none
  else inner s

/-- `Parser::read_ipv4_addr` : four decimal octets -/
def readIpv4 (s : Str) : Option (List Nat × Str) := do
  let (a, s) ← readSep 46 0 (readNumber 10 3 false 255) s
  let (b, s) ← readSep 46 1 (readNumber 10 3 false 255) s
  let (c, s) ← readSep 46 2 (readNumber 10 3 false 255) s
  let (d, s) ← readSep 46 3 (readNumber 10 3 false 255) s
  pure ([a, b, c, d], s)

/-- `Ipv4Addr::from_str` -/
def parseIpv4 (s : Str) : Option (List Nat) :=
  if s.length > 15 then none
  else match readIpv4 s with
    | some (o, []) => some o
    | _ => none

/-- `read_groups` of `read_ipv6_addr` : reads up to `limit - i` more groups;
result (groups read so far, an embedded IPv4 was read, rest) -/
def readGroups (limit : Nat) : Nat → Nat → List Nat → Str → (List Nat × Bool × Str)
  | 0, _, acc, s => (acc, false, s)
  | fuel + 1, i, acc, s =>
    if i ≥ limit then (acc, false, s) else
    let v4 := if i + 1 < limit then readSep 58 i readIpv4 s else none
    match v4 with
    | some ([a, b, c, d], s') => (acc ++ [a * 256 + b, c * 256 + d], true, s')
    | _ =>
      match readSep 58 i (readNumber 16 4 true 65535) s with
      | some (g, s') => readGroups limit fuel (i + 1) (acc ++ [g]) s'
      | none => (acc, false, s)

/-- `Parser::read_ipv6_addr` -/
def readIpv6 (s : Str) : Option (List Nat × Str) :=
  let (head, headV4, s1) := readGroups 8 8 0 [] s
  if head.length = 8 then some (head, s1)
  else if headV4 then none
  else
    match s1 with
    | 58 :: 58 :: s2 =>
      let limit := 8 - (head.length + 1)
      let (tail, _, s3) := readGroups limit limit 0 [] s2
      some (head ++ List.replicate (8 - head.length - tail.length) 0 ++ tail, s3)
    | _ => none

/-- `Ipv6Addr::from_str` -/
def parseIpv6 (s : Str) : Option (List Nat) :=
  match readIpv6 s with
  | some (g, []) => some g
  | _ => none

/-! ### names -/

def isLdhDot (c : Nat) : Bool := Name.isAlnum c || c = 45 || c = 46

/-- does some `.`-separated part of the (ASCII) label start with `xn--`, in any case? -/
def punyAt : Str → Bool
  | a :: b :: c :: d :: _ => (a = 120 || a = 88) && (b = 110 || b = 78) && c = 45 && d = 45
  | _ => false

def hasPunyPart : Str → Bool → Bool
  | [], _ => false
  | c :: rest, atStart =>
    (atStart && punyAt (c :: rest)) || hasPunyPart rest (c = 46)

/-- `Label::from_utf8` -/
def labelFromUtf8 (s : Str) : ZR Bytes :=
  if s = [42] then .ok [42]
  else if s.head? = some 95 then .ofOutcome (Name.labelFromAscii s)
  else if s.any (· ≥ 128) then .unmodelled
  else if hasPunyPart s true then .unmodelled
  else if s.all isLdhDot then .ofOutcome (Name.labelFromAscii (s.map Name.lowerByte))
  else .err

/-- `name.append_label(E::to_label(&label)?)?` -/
def pushLabel (name : Name) (label : Str) : ZR Name :=
  (labelFromUtf8 label).bind fun l => .ofOutcome (name.extendName l)

/-- the character loop of `from_encoded_str::<LabelEncUtf8>` (states as in `Name.PState`) -/
def nameLoop : Str → Name.PState → Str → Name → ZR (Name × Str)
  | [], _, label, name => .ok (name, label)
  | ch :: rest, st, label, name =>
    if ch ≥ 128 then .unmodelled else
    match st with
    | .label =>
      if ch = 46 then
        (pushLabel name label).bind fun name' => nameLoop rest .label [] name'
      else if ch = 92 then nameLoop rest .esc1 label name
      else if !Name.isCtlOrSpace ch then nameLoop rest .label (label ++ [ch]) name
      else .err
    | .esc1 =>
      if Name.isDigit ch then
        match Name.toDigit8 ch with
        | some d => nameLoop rest (.esc2 d) label name
        | none => .err
      else nameLoop rest .label (label ++ [ch]) name
    | .esc2 i =>
      if Name.isDigit ch then
        match Name.toDigit8 ch with
        | some d => nameLoop rest (.esc3 i d) label name
        | none => .err
      else .err
    | .esc3 i ii =>
      if Name.isDigit ch then
        match Name.toDigit8 ch with
        | some d => nameLoop rest .label (label ++ [i * 64 + ii * 8 + d]) name
        | none => .err
      else .err

/-- `Name::parse(local, origin)` -/
def parseName (s : Str) (origin : Option Name) : ZR Name :=
  if s = [46] then .ok Name.root else
  (nameLoop s .label [] Name.new).bind fun (name, label) =>
    let name' : ZR Name := if !label.isEmpty then pushLabel name label else .ok name
    name'.bind fun name =>
      if label.isEmpty && !s.isEmpty then .ok { name with fqdn := true }
      else match origin with
        | some o => .ofOutcome (name.appendDomain o)
        | none => .ok name

/-! ### classes, types, record data -/

def upper (s : Str) : Str := s.map fun c => if 97 ≤ c ∧ c ≤ 122 then c - 32 else c

/-! mnemonics as character codes (no `String`, so that the kernel can evaluate the model) -/

/-- `DNSClass::from_str` (on the upper-cased token) → class code -/
def classOfStr (s : Str) : Option Nat :=
  if s = [73, 78] then some 1            -- IN
  else if s = [67, 72] then some 3       -- CH
  else if s = [72, 83] then some 4       -- HS
  else if s = [78, 79, 78, 69] then some 254   -- NONE
  else if s = [65, 78, 89] ∨ s = [42] then some 255   -- ANY, *
  else none

inductive RType where
  | a | aaaa | aname | cname | mx | ns | ptr | soa | srv | txt | hinfo | caa | tlsa | smimea | ds | sshfp | cert | openpgpkey
  /-- known mnemonic whose `from_tokens` is an unconditional error -/
  | refused
  /-- known, parseable, not modelled -/
  | other
  deriving DecidableEq, Repr, Inhabited

def RType.code : RType → Nat
  | .a => 1 | .ns => 2 | .cname => 5 | .soa => 6 | .ptr => 12 | .mx => 15 | .txt => 16
  | .aaaa => 28 | .srv => 33 | .aname => 65305 | .hinfo => 13 | .caa => 257
  | .tlsa => 52 | .smimea => 53 | .ds => 43 | .sshfp => 44 | .cert => 37 | .openpgpkey => 61
  | .refused => 0 | .other => 0

/-- mnemonics `RecordType::from_str` knows and `RData::from_tokens` refuses unconditionally -/
def refusedNames : List Str :=
  [[65, 88, 70, 82],  -- AXFR
   [67, 68, 78, 83, 75, 69, 89],  -- CDNSKEY
   [67, 68, 83],  -- CDS
   [68, 78, 83, 75, 69, 89],  -- DNSKEY
   [75, 69, 89],  -- KEY
   [78, 83, 69, 67],  -- NSEC
   [78, 83, 69, 67, 51],  -- NSEC3
   [78, 83, 69, 67, 51, 80, 65, 82, 65, 77],  -- NSEC3PARAM
   [78, 85, 76, 76],  -- NULL
   [82, 82, 83, 73, 71],  -- RRSIG
   [83, 73, 71],  -- SIG
   [84, 83, 73, 71],  -- TSIG
   [65, 78, 89],  -- ANY
   [42]  -- *
  ]

/-- mnemonics that are parseable by hickory and not modelled here -/
def otherNames : List Str :=
  [[67, 83, 89, 78, 67],
   [72, 84, 84, 80, 83],
   [78, 65, 80, 84, 82],
   [83, 86, 67, 66]]
  -- CSYNC, HTTPS, NAPTR, SVCB

/-- `RecordType::from_str` (on the upper-cased token) -/
def typeOfStr (s : Str) : Option RType :=
  if s = [65] then some .a
  else if s = [65, 65, 65, 65] then some .aaaa
  else if s = [65, 78, 65, 77, 69] then some .aname
  else if s = [67, 78, 65, 77, 69] then some .cname
  else if s = [77, 88] then some .mx
  else if s = [78, 83] then some .ns
  else if s = [80, 84, 82] then some .ptr
  else if s = [83, 79, 65] then some .soa
  else if s = [83, 82, 86] then some .srv
  else if s = [84, 88, 84] then some .txt
  else if s = [72, 73, 78, 70, 79] then some .hinfo
  else if s = [67, 65, 65] then some .caa
  else if s = [84, 76, 83, 65] then some .tlsa
  else if s = [83, 77, 73, 77, 69, 65] then some .smimea
  else if s = [68, 83] then some .ds
  else if s = [83, 83, 72, 70, 80] then some .sshfp
  else if s = [67, 69, 82, 84] then some .cert
  else if s = [79, 80, 69, 78, 80, 71, 80, 75, 69, 89] then some .openpgpkey
  else if refusedNames.contains s then some .refused
  else if otherNames.contains s then some .other
  else none

inductive RData where
  | a (octets : List Nat)
  | aaaa (groups : List Nat)
  | name (t : RType) (n : Name)                 -- NS, CNAME, PTR, ANAME
  | mx (pref : Nat) (n : Name)
  | soa (mname rname : Name) (serial refresh retry expire minimum : Nat)
  | srv (prio weight port : Nat) (n : Name)
  | txt (strs : List Bytes)
  | hinfo (cpu os : Bytes)
  | caa (critical : Bool) (reserved : Nat) (tag value : Bytes)
  | tlsa (smimea : Bool) (usage selector matching : Nat) (data : Bytes)
  | ds (tag alg dtype : Nat) (digest : Bytes)
  | sshfp (alg fptype : Nat) (fp : Bytes)
  | cert (ctype tag alg : Nat) (data : Bytes)
  | openpgpkey (key : Bytes)
  deriving DecidableEq, Repr, Inhabited

/-- derived `PartialEq` of `RData`: embedded names compare with `Name::eq` (case-insensitive) -/
def RData.eqv : RData → RData → Bool
  | .a x, .a y => x == y
  | .aaaa x, .aaaa y => x == y
  | .name t n, .name t' n' => t == t' && Name.eq n n'
  | .mx p n, .mx p' n' => p == p' && Name.eq n n'
  | .soa m r x1 x2 x3 x4 x5, .soa m' r' y1 y2 y3 y4 y5 =>
    Name.eq m m' && Name.eq r r' && x1 == y1 && x2 == y2 && x3 == y3 && x4 == y4 && x5 == y5
  | .srv p w q n, .srv p' w' q' n' => p == p' && w == w' && q == q' && Name.eq n n'
  | .txt x, .txt y => x == y
  | .hinfo c o, .hinfo c' o' => c == c' && o == o'
  | .caa c r t v, .caa c' r' t' v' => c == c' && r == r' && t == t' && v == v'
  | .tlsa s u l m d, .tlsa s' u' l' m' d' => s == s' && u == u' && l == l' && m == m' && d == d'
  | .ds t g y d, .ds t' g' y' d' => t == t' && g == g' && y == y' && d == d'
  | .sshfp g y f, .sshfp g' y' f' => g == g' && y == y' && f == f'
  | .cert c t g d, .cert c' t' g' d' => c == c' && t == t' && g == g' && d == d'
  | .openpgpkey k, .openpgpkey k' => k == k'
  | _, _ => false

/-- UTF-8 encoding of one scalar value -/
def utf8Char (c : Nat) : Bytes :=
  if c < 0x80 then [c]
  else if c < 0x800 then [0xC0 + c / 64, 0x80 + c % 64]
  else if c < 0x10000 then [0xE0 + c / 4096, 0x80 + c / 64 % 64, 0x80 + c % 64]
  else [0xF0 + c / 262144, 0x80 + c / 4096 % 64, 0x80 + c / 64 % 64, 0x80 + c % 64]

def utf8 (s : Str) : Bytes := (s.map utf8Char).flatten

/-! ### hexadecimal data: "all remaining tokens, concatenated" -/

/-- the RDATA items that make up one piece of data: `iter.fold(String::new(), push_str)` /
`tokens.collect::<String>()` -/
def joinToks (ts : List Str) : Str := ts.flatten

/-- pairs of hex digit values → bytes -/
def hexPairs : List Nat → Bytes
  | a :: b :: rest => (a * 16 + b) :: hexPairs rest
  | _ => []

/-- `sshfp::HEX.decode` (data-encoding: symbols 0-9a-f, A-F translated, blank/TAB/CR/LF ignored,
an odd number of digits is an error) -/
def hexDecodeLoose (s : Str) : Option Bytes :=
  let digits := s.filter fun c => !(c = 32 || c = 9 || c = 13 || c = 10)
  match digits.mapM hexVal with
  | some vs => if vs.length % 2 = 0 then some (hexPairs vs) else none
  | none => none

/-- `u8::from_str_radix(two chars, 16)` : two hex digits, or `+` and one hex digit -/
def hexByte2 (a b : Nat) : Option Nat :=
  if a = 43 then hexVal b else
  match hexVal a, hexVal b with
  | some x, some y => some (x * 16 + y)
  | _, _ => none

/-- the `while s.len() >= 2` loop of `DS::from_tokens` (a trailing odd digit is dropped) -/
def dsDigest : Str → Option Bytes
  | a :: b :: rest => (hexByte2 a b).bind fun v => (dsDigest rest).map (v :: ·)
  | _ => some []

/-- DNSSEC algorithm mnemonics of RFC 4034 appendix A.1 accepted by `DS::from_tokens` -/
def dsAlgorithm (s : Str) : Option Nat :=
  if s = [82, 83, 65, 77, 68, 53] then some 1
  else if s = [68, 72] then some 2
  else if s = [68, 83, 65] then some 3
  else if s = [69, 67, 67] then some 4
  else if s = [82, 83, 65, 83, 72, 65, 49] then some 5
  else if s = [73, 78, 68, 73, 82, 69, 67, 84] then some 252
  else if s = [80, 82, 73, 86, 65, 84, 69, 68, 78, 83] then some 253
  else if s = [80, 82, 73, 86, 65, 84, 69, 79, 73, 68] then some 254
  else parseU8 s

/-! ### base64 data (`data_encoding::BASE64`: padded, trailing bits checked, nothing ignored) -/

def b64Val (c : Nat) : Option Nat :=
  if 65 ≤ c ∧ c ≤ 90 then some (c - 65)
  else if 97 ≤ c ∧ c ≤ 122 then some (c - 71)
  else if 48 ≤ c ∧ c ≤ 57 then some (c + 4)
  else if c = 43 then some 62
  else if c = 47 then some 63
  else none

/-- one block of four characters: 4, 3 or 2 symbols followed by `=` padding; the bits that do not
make a whole octet must be zero -/
def b64Block (a b c d : Nat) : Option Bytes :=
  if d ≠ 61 then
    match b64Val a, b64Val b, b64Val c, b64Val d with
    | some w, some x, some y, some z => some [w * 4 + x / 16, x % 16 * 16 + y / 4, y % 4 * 64 + z]
    | _, _, _, _ => none
  else if c ≠ 61 then
    match b64Val a, b64Val b, b64Val c with
    | some w, some x, some y => if y % 4 = 0 then some [w * 4 + x / 16, x % 16 * 16 + y / 4] else none
    | _, _, _ => none
  else if b ≠ 61 then
    match b64Val a, b64Val b with
    | some w, some x => if x % 16 = 0 then some [w * 4 + x / 16] else none
    | _, _ => none
  else none                                   -- three or four `=` : Padding error

/-- `BASE64.decode` : the length must be a multiple of 4; every block is decoded on its own (a
padded block may be followed by further blocks) -/
def base64Decode : Str → Option Bytes
  | [] => some []
  | a :: b :: c :: d :: rest => (b64Block a b c d).bind fun x => (base64Decode rest).map (x ++ ·)
  | _ => none                                 -- Length error

def nextTok (what : List Str) : ZR (Str × List Str) :=
  match what with
  | t :: rest => .ok (t, rest)
  | [] => .err                                 -- MissingToken

def I32_MAX : Nat := 2147483647

/-- `RData::from_tokens(rtype, tokens, origin)` -/
def rdataFromTokens (t : RType) (toks : List Str) (origin : Option Name) : ZR RData :=
  match t with
  | .a => (nextTok toks).bind fun (s, _) => (ZR.ofOption (parseIpv4 s)).bind fun o => .ok (.a o)
  | .aaaa => (nextTok toks).bind fun (s, _) => (ZR.ofOption (parseIpv6 s)).bind fun g => .ok (.aaaa g)
  | .aname | .cname | .ns | .ptr =>
    (nextTok toks).bind fun (s, _) => (parseName s origin).bind fun n => .ok (.name t n)
  | .mx =>
    (nextTok toks).bind fun (p, r) => (ZR.ofOption (parseU16 p)).bind fun p =>
    (nextTok r).bind fun (s, _) => (parseName s origin).bind fun n => .ok (.mx p n)
  | .soa =>
    (nextTok toks).bind fun (m, r) => (parseName m origin).bind fun m =>
    (nextTok r).bind fun (rn, r) => (parseName rn origin).bind fun rn =>
    (nextTok r).bind fun (x, r) => (ZR.ofOption (parseTtl x)).bind fun serial =>
    (nextTok r).bind fun (x, r) => (ZR.ofOption (parseTtl x)).bind fun refresh =>
    if refresh > I32_MAX then .err else
    (nextTok r).bind fun (x, r) => (ZR.ofOption (parseTtl x)).bind fun retry =>
    if retry > I32_MAX then .err else
    (nextTok r).bind fun (x, r) => (ZR.ofOption (parseTtl x)).bind fun expire =>
    if expire > I32_MAX then .err else
    (nextTok r).bind fun (x, _) => (ZR.ofOption (parseTtl x)).bind fun minimum =>
    .ok (.soa m rn serial refresh retry expire minimum)
  | .srv =>
    (nextTok toks).bind fun (x, r) => (ZR.ofOption (parseU16 x)).bind fun prio =>
    (nextTok r).bind fun (x, r) => (ZR.ofOption (parseU16 x)).bind fun weight =>
    (nextTok r).bind fun (x, r) => (ZR.ofOption (parseU16 x)).bind fun port =>
    (nextTok r).bind fun (s, _) => (parseName s origin).bind fun n => .ok (.srv prio weight port n)
  | .txt => .ok (.txt (toks.map utf8))
  | .hinfo =>
    (nextTok toks).bind fun (cpu, r) => (nextTok r).bind fun (os, _) => .ok (.hinfo (utf8 cpu) (utf8 os))
  | .caa =>
    (nextTok toks).bind fun (fl, r) => (nextTok r).bind fun (tag, r) => (nextTok r).bind fun (value, _) =>
    (ZR.ofOption (parseU8 fl)).bind fun flags =>
      .ok (.caa (decide (flags ≥ 128)) (flags % 128) (utf8 tag) (utf8 value))
  | .tlsa | .smimea =>
    (nextTok toks).bind fun (u, r) => (ZR.ofOption (parseU8 u)).bind fun usage =>
    (nextTok r).bind fun (x, r) => (ZR.ofOption (parseU8 x)).bind fun selector =>
    (nextTok r).bind fun (x, r) => (ZR.ofOption (parseU8 x)).bind fun matching =>
    (ZR.ofOption (hexDecodeLoose (joinToks r))).bind fun data =>
      if data.isEmpty then .err else .ok (.tlsa (t = .smimea) usage selector matching data)
  | .ds =>
    (nextTok toks).bind fun (tg, r) => (nextTok r).bind fun (al, r) => (nextTok r).bind fun (dt, r) =>
    (ZR.ofOption (parseU16 tg)).bind fun tag => (ZR.ofOption (dsAlgorithm al)).bind fun alg =>
    (ZR.ofOption (parseU8 dt)).bind fun dtype =>
      let s := joinToks r
      if s.isEmpty then .err
      else if s.any (· ≥ 128) then .err        -- not a char boundary / not a hex digit
      else (ZR.ofOption (dsDigest s)).bind fun d => .ok (.ds tag alg dtype d)
  | .sshfp =>
    (nextTok toks).bind fun (x, r) => (ZR.ofOption (parseU8 x)).bind fun alg =>
    (nextTok r).bind fun (x, r) => (ZR.ofOption (parseU8 x)).bind fun fpt =>
    (nextTok r).bind fun (fp, r) =>
      if fp.isEmpty then .err else
      (ZR.ofOption (hexDecodeLoose fp)).bind fun d =>
        if !r.isEmpty then .err else .ok (.sshfp alg fpt d)     -- "too many fields for SSHFP"
  | .cert =>
    (nextTok toks).bind fun (x, r) => (ZR.ofOption (parseU16 x)).bind fun ctype =>
    (nextTok r).bind fun (x, r) => (ZR.ofOption (parseU16 x)).bind fun tag =>
    (nextTok r).bind fun (x, r) => (ZR.ofOption (parseU8 x)).bind fun alg =>
      -- all remaining items, concatenated (RFC 4398 2.2; fix 1479f5a); none at all is an error
      if r.isEmpty then .err
      else (ZR.ofOption (base64Decode (joinToks r))).bind fun d => .ok (.cert ctype tag alg d)
  | .openpgpkey =>
    (nextTok toks).bind fun (k, r) => (ZR.ofOption (base64Decode k)).bind fun d =>
      if !r.isEmpty then .err else .ok (.openpgpkey d)          -- "too many fields for OPENPGPKEY"
  | .refused => .err
  | .other => .unmodelled

/-! ### records, record sets, the context -/

structure Rec where
  name : Name
  cls : Nat
  ttl : Nat
  data : RData
  deriving DecidableEq, Repr, Inhabited

/-- `impl PartialEq for Record` : name, class, data — not the TTL -/
def Rec.eqv (a b : Rec) : Bool := Name.eq a.name b.name && a.cls == b.cls && a.data.eqv b.data

structure RSet where
  name : Name
  rtype : RType
  cls : Nat
  ttl : Nat
  records : List Rec
  deriving DecidableEq, Repr, Inhabited

/-- `RecordSet::from(record)` -/
def RSet.ofRec (t : RType) (r : Rec) : RSet :=
  { name := r.name, rtype := t, cls := r.cls, ttl := r.ttl, records := [r] }

/-- indices of the records whose data equals `d` (`to_replace`) -/
def toReplace (records : List Rec) (d : RData) : List Nat :=
  (List.range records.length).filter fun i =>
    match records[i]? with
    | some rr => rr.data.eqv d
    | none => false

/-- the `for i in to_replace` loop of `RecordSet::insert`:
result (records, ttl, replaced, returned-false-early) -/
def replaceLoop (record : Rec) : List Nat → List Rec → Nat → Bool → ZR (List Rec × Nat × Bool × Bool)
  | [], records, ttl, replaced => .ok (records, ttl, replaced, false)
  | i :: is, records, ttl, replaced =>
    match records[i]? with
    | none => .panic "rr_set:index"
    | some rr =>
      -- `Record::eq` ignores the TTL; a new TTL replaces the RR (fix 4cf469c)
      if rr.eqv record && rr.ttl == record.ttl then .ok (records, ttl, replaced, true)   -- `return false`
      else
        -- push(record.clone()); swap_remove(i); self.ttl = record.ttl
        replaceLoop record is (records.set i record) record.ttl true

/-- `self.records.first()` is the same record, TTL included -/
def sameFirst (records : List Rec) (record : Rec) : Bool :=
  match records.head? with
  | some ex => ex.eqv record && ex.ttl == record.ttl
  | none => false

/-- `RecordSet::insert(record, 0)` (as repaired by 24305ec and 4cf469c).  The three `assert!`s are
panic sites. -/
def RSet.insert (rs : RSet) (t : RType) (record : Rec) : ZR RSet :=
  if !Name.eq record.name rs.name then .panic "rr_set:assert_eq-name"
  else if t ≠ rs.rtype then .panic "rr_set:assert_eq-type"
  else
    -- replacing a CNAME/ANAME by an identical one (TTL included) is not an update (fix 24305ec)
    if (t = .cname ∨ t = .aname) ∧ rs.records.length ≤ 1 ∧ sameFirst rs.records record then .ok rs else
    let cleared : ZR (List Rec) :=
      if t = .cname ∨ t = .aname then
        if rs.records.length > 1 then .panic "rr_set:assert-cname-len" else .ok []
      else .ok rs.records       -- (SOA never reaches `insert`: the parser refuses a second SOA)
    cleared.bind fun records =>
      (replaceLoop record (toReplace records record.data) records rs.ttl false).bind
        fun (records', ttl', replaced, early) =>
          if early then .ok { rs with ttl := ttl', records := records' }
          else if !replaced then .ok { rs with ttl := record.ttl, records := records' ++ [record] }
          else .ok { rs with ttl := ttl', records := records' }

structure Ttl where
  default : Option Nat := none
  last : Option Nat := none
  this : Option Nat := none
  deriving DecidableEq, Repr, Inhabited

/-- `Ttl::take` -/
def Ttl.take (t : Ttl) : Option Nat × Ttl :=
  match t.this with
  | some v => (some v, { t with this := none, last := some v })
  | none =>
    match t.default with
    | some v => (some v, t)
    | none =>
      match t.last with
      | some v => (some v, t)
      | none => (none, t)

/-- key of the record map: `RrKey { name: LowerName, record_type }` -/
abbrev Key := List Bytes × Nat

structure Ctx where
  origin : Option Name
  records : List (Key × RSet) := []
  cls : Nat := 1
  currentName : Option Name := none
  rtype : Option RType := none
  ttl : Ttl := {}
  deriving Repr, Inhabited

def keyOf (n : Name) (t : RType) : Key := (n.labels.map Name.lowerLabel, t.code)

def mapSet (m : List (Key × RSet)) (k : Key) (v : RSet) : List (Key × RSet) :=
  m.map fun (k', v') => if k' = k then (k', v) else (k', v')

/-- the `self.records.entry(RrKey::new(..))` part of `Context::insert` -/
def mapInsert (m : List (Key × RSet)) (t : RType) (record : Rec) : ZR (List (Key × RSet)) :=
  let key := keyOf record.name t
  match m.lookup key with
  | some rs =>
    if t = .soa then .err                       -- "SOA is already specified"
    else (rs.insert t record).bind fun rs' => .ok (mapSet m key rs')
  | none => .ok (m ++ [(key, RSet.ofRec t record)])

/-- `Context::insert` -/
def Ctx.insert (cx : Ctx) (parts : List Str) : ZR Ctx :=
  match cx.rtype with
  | none => .err
  | some t =>
    (rdataFromTokens t parts cx.origin).bind fun rdata =>
      match cx.currentName with
      | none => .err
      | some name =>
        match cx.ttl.take with
        | (none, _) => .err
        | (some ttl, ttl') =>
          let record : Rec := { name := { name with fqdn := true }, cls := cx.cls, ttl := ttl, data := rdata }
          (mapInsert cx.records t record).bind fun m => .ok { cx with ttl := ttl', records := m }

inductive PState where
  | startLine | ttlClassType | ttl | origin
  | record (parts : List Str)
  | include (path : Option Str)
  deriving DecidableEq, Repr, Inhabited

/-- the body of `while let Some(t) = lexer.next_token()?` for one token -/
def onToken (cx : Ctx) (st : PState) (t : Token) : ZR (Ctx × PState) :=
  match st with
  | .startLine =>
    let cx := { cx with rtype := none }
    match t with
    | .include => .ok (cx, .include none)
    | .origin => .ok (cx, .origin)
    | .ttl => .ok (cx, .ttl)
    | .charData d =>
      (parseName d cx.origin).bind fun n => .ok ({ cx with currentName := some n }, .ttlClassType)
    | .at => .ok ({ cx with currentName := cx.origin }, .ttlClassType)
    | .blank => .ok (cx, .ttlClassType)
    | .eol => .ok (cx, .startLine)
    | .list _ => .err
  | .ttl =>
    match t with
    | .charData d =>
      match parseTtl d with
      | some v => .ok ({ cx with ttl := { cx.ttl with default := some v } }, .startLine)
      | none => .err
    | _ => .err
  | .origin =>
    match t with
    | .charData d => (parseName d none).bind fun n => .ok ({ cx with origin := some n }, .startLine)
    | _ => .err
  | .include path =>
    match t, path with
    | .charData d, none => .ok (cx, .include (some d))
    | .eol, some p =>
      -- `stack > MAX_INCLUDE_LEVEL` is never true at depth 1; `path` is `None`
      if p.head? = some 47 then .unmodelled      -- absolute: `fs::read_to_string`
      else .err                                  -- "Relative $INCLUDE is not supported"
    | .charData _, some _ => .err
    | _, _ => .err
  | .ttlClassType =>
    match t with
    | .charData d =>
      match parseTtl d with
      | some v => .ok ({ cx with ttl := { cx.ttl with this := some v } }, .ttlClassType)
      | none =>
        let u := upper d
        match classOfStr u with
        | some c => .ok ({ cx with cls := c }, .ttlClassType)
        | none =>
          match typeOfStr u with
          | some ty => .ok ({ cx with rtype := some ty }, .record [])
          | none => .err
    | .eol => .ok (cx, .startLine)
    | _ => .err
  | .record parts =>
    match t with
    | .eol => (cx.insert parts).bind fun cx' => .ok (cx', .startLine)
    | .charData p => .ok (cx, .record (parts ++ [p]))
    | .list l => .ok (cx, .record (parts ++ l))
    | _ => .err

/-- the token loop of `Parser::parse`.  Every `Some(token)` the lexer returns has consumed at
least one character (`Proofs/C20.lean : nextToken_progress`); the defensive branch that turns
"no progress" into `panic "hang:…"` is therefore dead (`no_panic`), and the loop terminates on the
length of the remaining text without any cap. -/
def parseLoop (lx : Lexer) (cx : Ctx) (st : PState) : ZR (Ctx × PState) :=
  match nextToken lx with
  | .err => .err
  | .panic s => .panic s
  | .ok (none, _) => .ok (cx, st)
  | .ok (some t, lx') =>
    if h : lx'.txt.length < lx.txt.length then
      match onToken cx st t with
      | .ok (cx', st') => parseLoop lx' cx' st'
      | .err => .err
      | .unmodelled => .unmodelled
      | .panic s => .panic s
    else .panic "hang:parse-loop"
termination_by lx.txt.length

/-- the end of `Parser::parse`: "Extra flush at the end for the case of missing endline", then the
`$ORIGIN was not specified` check -/
def finish (r : Ctx × PState) : ZR (Name × List (Key × RSet)) :=
  let cx' : ZR Ctx := match r.2 with
    | .record parts => r.1.insert parts
    | _ => .ok r.1
  cx'.bind fun cx =>
    match cx.origin with
    | some o => .ok (o, cx.records)
    | none => .err

/-- the context `Parser::new(_, None, origin)` starts with (`origin.set_fqdn(true)`) -/
def initCtx (origin : Option Name) : Ctx :=
  { origin := origin.map fun o => { o with fqdn := true } }

/-- `Parser::new(text, None, Some(origin)).parse()` : (final origin, record sets in insertion order) -/
def parse (text : Str) (origin : Option Name) : ZR (Name × List (Key × RSet)) :=
  (parseLoop (Lexer.new text) (initCtx origin) .startLine).bind finish

end HickoryVerif.ZoneParse
