/-
`LowerName` (crates/proto/src/rr/lower_name.rs), `RrKey` (rr_key.rs) and the `Label`-level identity and
order (`impl Ord/PartialEq/Hash for Label`, label.rs) — the forms in which names are used as keys of the
zone map (`BTreeMap<RrKey, _>`) and of the catalog.

A `LowerName` wraps a `Name` that was lower-cased once (`LowerName::new` = `Name::to_lowercase`) and
then compares / hashes it case-SENSITIVELY (`eq_case`, `cmp_case`, raw label octets).  The model
represents a `LowerName` by the wrapped `Name`.
-/
import HickoryVerif.Model.Name

namespace HickoryVerif.LowerName
open HickoryVerif HickoryVerif.Name

/-- `LowerName::new`, `From<Name>`, `From<&Name>` -/
def new (n : Name) : Name := n.toLowercase

/-- `impl PartialEq for LowerName` : `self.0.eq_case(&other.0)` -/
def eq (a b : Name) : Bool := Name.eqCase a b

/-- `impl Ord for LowerName` : `self.0.cmp_case(&other.0)` -/
def cmp (a b : Name) : Ordering := Name.cmpCase a b

/-- bytes fed to the hasher by `impl Hash for LowerName`: every label's octets as they are, no flag,
no separators. -/
def hashInput (n : Name) : Bytes := n.labels.flatten

/-- `Name::zone_of_case` (`zone_of_with(.., <[u8]>::eq)`), used by `LowerName::zone_of` -/
def zoneOfCase (z n : Name) : Bool := z.labels.reverse.isPrefixOf n.labels.reverse

/-- `impl Ord for RrKey` : name first, then the record type's code -/
def rrKeyCmp (a b : Name × Nat) : Ordering :=
  match cmp a.1 b.1 with
  | .eq => compare a.2 b.2
  | o => o

/-- `Name::eq_ignore_root` : labels equal up to ASCII case, fqdn flag ignored -/
def eqIgnoreRoot (a b : Name) : Bool := cmpLabels true a b == .eq

/-- `Name::eq_ignore_root_case` -/
def eqIgnoreRootCase (a b : Name) : Bool := cmpLabels false a b == .eq

/-! ### `Label` : `impl Ord` (`cmp_with_f::<CaseInsensitive>`), `PartialEq` (`eq_ignore_ascii_case`), `Hash` -/

/-- `Label::cmp_with_f` : zip the octets, then the lengths -/
def labelCmp (ci : Bool) (a b : Bytes) : Ordering := cmpLabel ci a b

/-- `impl PartialEq for Label` : `self.eq_ignore_ascii_case(other)` -/
def labelEq (a b : Bytes) : Bool := lowerLabel a == lowerLabel b

/-- bytes fed to the hasher by `impl Hash for Label` : every octet lower-cased -/
def labelHashInput (a : Bytes) : Bytes := lowerLabel a

end HickoryVerif.LowerName
