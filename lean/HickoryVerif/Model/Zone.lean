/-
Model of the in-memory zone store that dynamic update works on:

* `hickory_proto::rr::rr_set.rs`        — `RecordSet::{insert, remove}`
* `hickory_proto::rr::record.rs`        — `impl PartialEq for Record` (TTL is *not* compared)
* `hickory_proto::rr::rr_key.rs`        — `RrKey` (lower-cased name, type) and its order
* `hickory_server::store::in_memory::inner.rs` — `upsert`, `increment_soa_serial`, `serial`,
  `inner_lookup`, `inner_lookup_wildcard`, `replace_any`

The zone (`BTreeMap<RrKey, Arc<RecordSet>>`) is an association list kept in key order by
`Zone.set` (= erase, then insert at the sorted position — a `BTreeMap` has one position per key).
RDATA is opaque (`bytes` = the wire form), except SOA whose serial the code reads and bumps, and
the RFC 2136 "empty" RDATA (`RData::Update0`).  Integers are `Nat`; the one place where u32
wrap-around matters (`SOA::increment_serial` = `wrapping_add(1)`, and the RFC 1982 comparison of
`SerialNumber`) is explicit.  The model mirrors the code after the repairs 23d5f1e, aeeb945,
24305ec, 4cf469c, 1375dd7 (and 4a1b96f, d90c741 in `Model/Update.lean`).  Not modelled: RRSIGs / DNSSEC signing (the handler under test has DNSSEC off), ANAME.
-/
import HickoryVerif.Model.Name

namespace HickoryVerif.Upd
open HickoryVerif

/-! ### codes (checked against the implementation by the correspondence run) -/
def T_A : Nat := 1
def T_NS : Nat := 2
def T_CNAME : Nat := 5
def T_SOA : Nat := 6
def T_NULL : Nat := 10
def T_DS : Nat := 43
def T_NSEC : Nat := 47
def T_NSEC3 : Nat := 50
def T_IXFR : Nat := 251
def T_AXFR : Nat := 252
def T_ANY : Nat := 255
def T_ANAME : Nat := 65305
def C_IN : Nat := 1
def C_NONE : Nat := 254
def C_ANY : Nat := 255
def U32_MAX : Nat := 4294967295

/-- RDATA.  `empty` is `RData::Update0(rtype)` (RDLENGTH 0); `soa serial rest` is an SOA whose
other six fields are abstracted to one value; `bytes` is any other RDATA, compared as a whole. -/
inductive RData where
  | empty
  | soa (serial : Nat) (rest : Nat)
  | bytes (b : Bytes)
  deriving DecidableEq, Repr, Inhabited

/-- the form of an RDATA under which `RData::eq` is plain equality (see `Rec.dataEq`) -/
def RData.norm (rtype : Nat) : RData → RData
  | .bytes b => .bytes (if rtype = 2 ∨ rtype = 5 then b.map Name.lowerByte else b)
  | d => d

structure Rec where
  name : Name
  rtype : Nat
  cls : Nat
  ttl : Nat
  rdata : RData
  deriving DecidableEq, Repr, Inhabited

/-- `RrKey` : (`LowerName`, `RecordType`) -/
abbrev Key := Name × Nat

namespace Rec
/-- `RrKey::new(LowerName::from(&rr.name), rr.record_type())` -/
def key (r : Rec) : Key := (r.name.toLowercase, r.rtype)
/-- `rr.data == other.data` (derived `PartialEq` of `RData`: variant, i.e. the type, and fields).
A domain name inside RDATA is a `Name`, whose `==` ignores ASCII case: the RDATA of NS and CNAME
(one uncompressed name; a length octet ≤ 63 is never a letter) is compared lower-cased
(`RData.norm`), every other opaque RDATA octet for octet. -/
def dataEq (a b : Rec) : Bool :=
  a.rtype == b.rtype && RData.norm a.rtype a.rdata == RData.norm b.rtype b.rdata
/-- `impl PartialEq for Record`: NAME (case-insensitive), CLASS, RDATA — TTL excluded. -/
def eqv (a b : Rec) : Bool := Name.eq a.name b.name && a.cls == b.cls && a.dataEq b
/-- `RData::Update0(_) | RData::NULL(..)` — what the update code accepts as "empty RDATA" -/
def isEmptyData (r : Rec) : Bool := r.rdata == .empty || r.rtype == T_NULL
end Rec

/-- `impl Ord for RrKey` : name (`Name::cmp`, case-insensitive), then the type code. -/
def Key.cmp (a b : Key) : Ordering :=
  match Name.cmp a.1 b.1 with
  | .eq => compare a.2 b.2
  | o => o

/-- the `records: Vec<Record>` of a `RecordSet` (RRSIGs, ttl and serial fields are not modelled) -/
abbrev RSet := List Rec

abbrev Zone := List (Key × RSet)

namespace Zone

def get : Zone → Key → Option RSet
  | [], _ => none
  | (k', v) :: rest, k => if k' = k then some v else get rest k

def erase (z : Zone) (k : Key) : Zone := z.filter (fun e => e.1 ≠ k)

def insertSorted (k : Key) (v : RSet) : Zone → Zone
  | [] => [(k, v)]
  | (k', v') :: rest =>
    if Key.cmp k k' = .lt then (k, v) :: (k', v') :: rest
    else (k', v') :: insertSorted k v rest

/-- `BTreeMap::insert` / writing through `entry()` / `get_mut()` -/
def set (z : Zone) (k : Key) (v : RSet) : Zone := insertSorted k v (z.erase k)

/-- record types of the keys at `name` inside `RrKey(name, Unknown(0)) ..= RrKey(name, Unknown(65535))`
(inclusive since 1375dd7: every u16 type, i.e. every key at the name), in map order -/
def typesAt (z : Zone) (name : Name) : List Nat :=
  (z.filter (fun e => e.1.1 = name)).map (·.1.2)

end Zone

/-! ### `RecordSet::insert` -/

/-- `SerialNumber(i1) < SerialNumber(i2)` (`impl PartialOrd for SerialNumber`, RFC 1982 §3.2):
`partial_cmp == Some(Less)`; at distance exactly 2³¹ neither value is less than the other. -/
def serialNumberLt (i1 i2 : Nat) : Bool :=
  decide ((i1 < i2 ∧ i2 - i1 < 2147483648) ∨ (i1 > i2 ∧ i1 - i2 > 2147483648))

/-- the `to_replace` loop.  `none`: an element with equal RDATA is `==` the new record and has the
same TTL ⇒ `return false`.  `some (recs, replaced)`: every element with equal RDATA replaced in place. -/
def replaceDup (r : Rec) : List Rec → Option (List Rec × Bool)
  | [] => some ([], false)
  | x :: xs =>
    if x.dataEq r then
      if x.eqv r && x.ttl == r.ttl then none
      else (replaceDup r xs).map fun p => (r :: p.1, true)
    else (replaceDup r xs).map fun p => (x :: p.1, p.2)

/-- The SOA / CNAME / ANAME pre-step of `RecordSet::insert`: `none` = `return false`,
`some recs` = the records to continue with (cleared for SOA / CNAME / ANAME). -/
def insertPre (rs : RSet) (r : Rec) : Option RSet :=
  if r.rtype = T_SOA then
    match rs with
    | [] => some []
    | ex :: _ =>
      match ex.rdata, r.rdata with
      | .soa se _, .soa sn _ => if !(serialNumberLt se sn) then none else some []
      | _, _ => none
  else if r.rtype = T_CNAME ∨ r.rtype = T_ANAME then
    match rs with
    | ex :: _ => if ex.eqv r && ex.ttl == r.ttl then none else some []   -- identical: not an update
    | [] => some []
  else some rs

/-- `RecordSet::insert` on a clone: `(new records, true)` or `(unchanged, false)`. -/
def rsInsert (rs : RSet) (r : Rec) : RSet × Bool :=
  match insertPre rs r with
  | none => (rs, false)
  | some recs =>
    match replaceDup r recs with
    | none => (rs, false)
    | some (ys, true) => (ys, true)
    | some (ys, false) => (ys ++ [r], true)

/-- `RecordSet::remove` -/
def rsRemove (rs : RSet) (r : Rec) : RSet × Bool :=
  if r.rtype = T_NS ∧ rs.length ≤ 1 then (rs, false)
  else if r.rtype = T_SOA then (rs, false)
  else
    let rs' := rs.filter (fun x => !(x.dataEq r))
    if rs'.length < rs.length then (rs', true) else (rs, false)

/-! ### `InnerInMemory::upsert` -/

def isNsec (up occ : Nat) : Bool :=
  up == T_NSEC || up == T_NSEC3 || occ == T_NSEC || occ == T_NSEC3

def labelDisallow (up occ chk : Nat) : Bool :=
  (up == chk && occ != chk) || (up != chk && occ == chk)

/-- `multiple_records_at_label_disallowed` -/
def upsertBlocked (z : Zone) (r : Rec) : Bool :=
  (z.typesAt r.name.toLowercase).any fun t => !isNsec r.rtype t && labelDisallow r.rtype t T_CNAME

/-- `InnerInMemory::upsert` : returns the new zone and "inserted". -/
def upsert (zclass : Nat) (z : Zone) (r : Rec) : Zone × Bool :=
  if zclass ≠ r.cls then (z, false)
  else if upsertBlocked z r then (z, false)
  else
    match z.get r.key with
    | some rs =>
      let p := rsInsert rs r
      if p.2 then (z.set r.key p.1, true) else (z, false)
    | none =>
      -- `entry(..).or_insert_with(RecordSet::new)`: the fresh set stays in the map either way
      let p := rsInsert [] r
      (z.set r.key p.1, p.2)

/-- `InnerInMemory::inner_soa` → the SOA serial, 0 when there is none (`serial()`). -/
def soaRecord (z : Zone) (origin : Name) : Option Rec :=
  match z.get (origin, T_SOA) with
  | some (r :: _) => some r
  | _ => none

def serial (z : Zone) (origin : Name) : Nat :=
  match soaRecord z origin with
  | some r => match r.rdata with
    | .soa s _ => s
    | _ => 0
  | none => 0

/-- `InnerInMemory::increment_soa_serial` : the SOA RRset is removed, the serial bumped with
`wrapping_add(1)` (`u32::MAX` → 0), the record upserted again. -/
def incrementSoaSerial (zclass : Nat) (origin : Name) (z : Zone) : Zone × Outcome Nat :=
  let k : Key := (origin, T_SOA)
  match z.get k with
  | none => (z, .ok 0)
  | some [] => (z.erase k, .ok 0)
  | some (r :: _) =>
    match r.rdata with
    | .soa s rest =>
      ((upsert zclass (z.erase k) { r with rdata := .soa ((s + 1) % 4294967296) rest }).1,
        .ok ((s + 1) % 4294967296))
    | _ => (z.erase k, .panic "increment_soa_serial:not-soa")

/-! ### the query-path lookup that `verify_prerequisites` uses -/

/-- `Name::base_name` on an fqdn name -/
def parentName (n : Name) : Name := { labels := n.labels.drop 1, fqdn := true }

/-- the delegation walk at the head of `inner_lookup`: `some ns` = referral found,
`none` = reached the apex (`break`) or the root. Walks `name`, its parent, … (not the root). -/
def delegationWalk (z : Zone) (qtype : Nat) (qname : Name) : List Bytes → Option RSet
  | [] => none
  | l :: ls =>
    let search : Name := { labels := l :: ls, fqdn := true }
    let hasSoa := (z.get (search, T_SOA)).isSome
    let dsExact := qtype == T_DS && search == qname
    match z.get (search, T_NS), hasSoa with
    | some ns, false => if dsExact then delegationWalk z qtype qname ls else some ns
    | some _, true => none
    | none, _ => delegationWalk z qtype qname ls

/-- the range scan of `inner_lookup`: first key at `name` whose type is the query type or CNAME
(ANAME covering A/AAAA is in the code; ANAME is outside the modelled universe but mirrored). -/
def exactFind (z : Zone) (name : Name) (qtype : Nat) : Option RSet :=
  (z.find? fun e => e.1.1 = name ∧ e.1.2 < 65535 ∧
      (e.1.2 = qtype ∨ e.1.2 = T_CNAME ∨ ((qtype = T_A ∨ qtype = 28) ∧ e.1.2 = T_ANAME))).map (·.2)

/-- `inner_lookup` for a name that is itself a wildcard (no further wildcard step) -/
def lookupNoWild (z : Zone) (name : Name) (qtype : Nat) : Option RSet :=
  match delegationWalk z qtype name name.labels with
  | some ns => some ns
  | none => exactFind z name qtype

/-- `inner_lookup_wildcard`: tries `*.<drop 1>`, `*.<drop 2>`, …, `*.` -/
def wildcardWalk (z : Zone) (qtype : Nat) : List Bytes → Option RSet
  | [] => none
  | _ :: rest =>
    match lookupNoWild z { labels := [42] :: rest, fqdn := true } qtype with
    | some rs => some rs
    | none => wildcardWalk z qtype rest

/-- `inner_lookup`; the records of a wildcard answer are re-owned by the query name. -/
def innerLookup (z : Zone) (name : Name) (qtype : Nat) : Option RSet :=
  match lookupNoWild z name qtype with
  | some rs => some rs
  | none =>
    if name.isWildcard || name.labels.isEmpty then none
    else (wildcardWalk z qtype name.labels).map fun rs => rs.map fun r => { r with name := name }

/-- `replace_any` (RFC 8482): the inclusive range `..=` also sees type 65535 -/
def replaceAny (z : Zone) (name : Name) : Nat :=
  let ts := (z.filter fun e => e.1.1 = name).map (·.1.2)
  match ts.find? (fun t => t = T_CNAME ∨ t = T_A ∨ t = 28 ∨ t = 15) with
  | some t => t
  | none => ts.headD T_A

/-- The records `lookup(name, qtype, ..).unwrap_or_default().iter()` shows to
`verify_prerequisites`.  For a CNAME answer to a non-CNAME query the code appends the chased
chain; those extra records are owned by other names (the chase stops on a name already seen), so
they change neither emptiness (the first CNAME set is part of the chain) nor `any(rr == require)`:
only the first set is modelled. -/
def lookupRecs (z : Zone) (name : Name) (qtype : Nat) : List Rec :=
  if qtype = T_AXFR then []
  else
    let qt := if qtype = T_ANY then replaceAny z name else qtype
    (innerLookup z name qt).getD []

end HickoryVerif.Upd
