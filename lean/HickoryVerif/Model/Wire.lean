/-
Model of the wire decoders of hickory-proto, statement by statement:

  op/header.rs            `Header::read`
  op/query.rs             `Query::read`
  rr/record.rs            `Record::read`          (OPT root-owner check, class overloading,
                                                   RDLENGTH check, `split_off`, `Update0`)
  rr/record_data.rs       `RData::read`           (dispatch + "all bytes consumed" check)
  rr/rdata/{a,aaaa,name,mx,soa,txt,srv,hinfo,null,opt}.rs   (tier-1 RDATA codecs)
  op/message.rs           `Message::read_records`, `Message::read`
  op/edns.rs              `Edns::from(&Record)`
  op/message_request.rs   `Queries::read`, `MessageRequest::read` (the server's request path,
                          crates/server/src/server/request_handler.rs `Request::from_bytes`)

  rr/rdata/{tsig,cert,csync,tlsa,smimea,sshfp,openpgpkey}.rs, rr/record_type_set.rs,
  rr/rdata/{caa,naptr,svcb,https}.rs, dnssec/rdata/{ds,cds,dnskey,cdnskey,key,sig,rrsig,nsec,nsec3,nsec3param}.rs,
  `DNSSECRData::read`

Record types and classes are their 16-bit codes.  RDATA codecs that are not modelled yet are
*not* totalised away: they are a parameter `opq : Nat → Rd Bytes` of every function here (the
driver instantiates it with a reader that answers `panic "unmodelled:<type>"`, so a case that
reaches one can never silently agree with the implementation; the harness marks such cases
implementation-only).  `unmodelled` lists those type codes.

Panic sites made explicit (besides those of Model/Decoder.lean):
  * `RData::read`       : `decoder.index() - start_idx`            (usize subtraction)
  * `read_records`      : `record.map(..).unwrap()` (TSIG arm; the closure matches the same
                          variant as the arm, so it is `Some` by construction — no branch)
  * `DNSSECRData::read` : `panic!("not a dnssec RecordType")`
  * `KeyTrust::from(u16)`, `KeyUsage::from(u16)` : `panic!("All other bit fields ..")`
  * `TSIG::read_data`   : `end_idx - decoder.index()`
  * `Edns::from(&Record)`: `assert!(record_type == OPT)`, `panic!("rr_type doesn't match ..")`
-/
import HickoryVerif.Model.Decoder

namespace HickoryVerif
namespace Wire
open Rd

/-! ## decoded values -/

/-- `EdnsOption` -/
inductive OptVal where
  /-- `DAU(SupportedAlgorithms)`: the algorithm codes of the set bits, in bit order -/
  | dau (algs : List Nat)
  /-- `Subnet(ClientSubnet)`: family, source prefix, scope prefix, the 4 / 16 address octets -/
  | subnet (family sp scope : Nat) (addr : Bytes)
  | nsid (d : Bytes)
  | unknown (code : Nat) (d : Bytes)
  deriving Repr, DecidableEq, Inhabited

/-- one `(EdnsCode, EdnsOption)` pair of `OPT::options` -/
structure OptEntry where
  code : Nat
  val : OptVal
  deriving Repr, DecidableEq, Inhabited

/-- `SvcParamValue` -/
inductive SvcVal where
  | mandatory (keys : List Nat)
  | alpn (ids : List Bytes)
  | noDefaultAlpn
  | port (p : Nat)
  | ipv4hint (addrs : Bytes)
  | ech (d : Bytes)
  | ipv6hint (addrs : Bytes)
  | unknown (d : Bytes)
  deriving Repr, DecidableEq, Inhabited

/-- `RecordTypeSet` (rr/record_type_set.rs): the set of type codes (`types`, sorted as the `BTreeSet`
iterates) and `original_encoding` — the bitmap octets the set was decoded from, which `emit` writes back
verbatim; `none` for a set built with `RecordTypeSet::new`, which `emit` encodes afresh.  Equality in
hickory compares `types` only. -/
structure TypeSet where
  types : List Nat
  orig : Option Bytes := none
  deriving Repr, DecidableEq, Inhabited

/-- `RData` -/
inductive RData where
  | a (b : Bytes)
  | aaaa (b : Bytes)
  /-- NS / CNAME / PTR / ANAME -/
  | name (n : Name)
  | mx (pref : Nat) (n : Name)
  | soa (mname rname : Name) (serial : Nat) (refresh retry expire : Int) (minimum : Nat)
  | txt (ss : List Bytes)
  | srv (prio weight port : Nat) (n : Name)
  | hinfo (cpu os : Bytes)
  | null (d : Bytes)
  | unknown (code : Nat) (d : Bytes)
  | opt (os : List OptEntry)
  | update0 (t : Nat)
  | zero
  /-- TSIG; the algorithm is observed through `TsigAlgorithm::to_name()`, which gives back the
  decoded name (made relative) for known and unknown algorithms alike -/
  | tsig (alg : Name) (time fudge : Nat) (mac : Bytes) (oid err : Nat) (other : Bytes)
  /-- DS / CDS -/
  | ds (tag alg dt : Nat) (digest : Bytes)
  /-- DNSKEY / CDNSKEY (`cd`): for CDNSKEY with algorithm 0 the key bytes are not observable -/
  | dnskey (cd : Bool) (flags alg : Nat) (key : Bytes)
  /-- SIG / RRSIG -/
  | sig (covered alg labels ottl expiration inception tag : Nat) (signer : Name) (sig : Bytes)
  | nsec (next : Name) (types : TypeSet)
  /-- `b32` is `next_hashed_owner_name_base32`: the base32hex label computed by
  `NSEC3::with_record_type_set` on the decode path, `none` when it is not a valid label -/
  | nsec3 (optOut : Bool) (iterations : Nat) (salt hash : Bytes) (b32 : Option Bytes) (types : TypeSet)
  | nsec3param (optOut : Bool) (iterations : Nat) (salt : Bytes)
  | cert (ctype tag alg : Nat) (d : Bytes)
  | csync (serial flags : Nat) (types : TypeSet)
  /-- TLSA / SMIMEA -/
  | tlsa (usage selector matching : Nat) (d : Bytes)
  | sshfp (alg fp : Nat) (d : Bytes)
  | openpgpkey (d : Bytes)
  /-- KEY: `flags()` reassembles trust | usage | signatory, which is the accepted flags word -/
  | key (flags proto alg : Nat) (k : Bytes)
  | caa (critical : Bool) (reserved : Nat) (tag value : Bytes)
  | naptr (order pref : Nat) (flags services regexp : Bytes) (replacement : Name)
  /-- SVCB / HTTPS -/
  | svcb (prio : Nat) (target : Name) (params : List (Nat × SvcVal))
  /-- a record type whose codec is not modelled: whatever the parameter reader returned -/
  | opaque (t : Nat) (v : Bytes)
  deriving Repr, DecidableEq, Inhabited

structure Query where
  name : Name
  qtype : Nat
  qclass : Nat
  deriving Repr, DecidableEq, Inhabited

structure Record where
  name : Name
  rtype : Nat
  cls : Nat
  ttl : Nat
  rdata : RData
  deriving Repr, DecidableEq, Inhabited

/-- `Metadata` (`op` is the 4-bit opcode, `rcode` the (extended) response code as `u16`) -/
structure Metadata where
  id : Nat
  qr : Bool
  op : Nat
  aa : Bool
  tc : Bool
  rd : Bool
  ra : Bool
  ad : Bool
  cd : Bool
  rcode : Nat
  deriving Repr, DecidableEq, Inhabited

structure Counts where
  qd : Nat
  an : Nat
  ns : Nat
  ar : Nat
  deriving Repr, DecidableEq, Inhabited

structure Edns where
  rcodeHigh : Nat
  version : Nat
  dnssecOk : Bool
  z : Nat
  maxPayload : Nat
  options : List OptEntry
  deriving Repr, DecidableEq, Inhabited

structure Message where
  md : Metadata
  queries : List Query
  answers : List Record
  authorities : List Record
  additionals : List Record
  signature : Option Record
  edns : Option Edns
  deriving Repr, DecidableEq, Inhabited

/-- `MessageRequest` : exactly one query, kept with its original bytes -/
structure Request where
  md : Metadata
  query : Query
  original : Bytes
  answers : List Record
  authorities : List Record
  additionals : List Record
  signature : Option Record
  edns : Option Edns
  deriving Repr, DecidableEq, Inhabited

/-! ## record-type codes used by the control flow -/

def T_OPT : Nat := 41
def T_SIG : Nat := 24
def T_TSIG : Nat := 250
def OP_UPDATE : Nat := 5

/-- type codes whose RDATA codec has no model yet (they go through the parameter `opq`) -/
def unmodelled : List Nat := []

/-- `RecordType::is_dnssec` -/
def isDnssec (t : Nat) : Bool := [48, 60, 59, 43, 25, 47, 50, 51, 46, 24, 250].contains t

/-! ## header, query -/

/-- `Header::read` -/
def readHeader : Rd (Metadata × Counts) := do
  let id ← readU16
  let b2 ← pop
  let b3 ← pop
  let md : Metadata :=
    { id := id
      qr := decide (b2 / 128 = 1)
      op := (b2 / 8) % 16
      aa := decide ((b2 / 4) % 2 = 1)
      tc := decide ((b2 / 2) % 2 = 1)
      rd := decide (b2 % 2 = 1)
      ra := decide (b3 / 128 = 1)
      ad := decide ((b3 / 32) % 2 = 1)
      cd := decide ((b3 / 16) % 2 = 1)
      rcode := b3 % 16 }
  let qd ← readU16
  let an ← readU16
  let ns ← readU16
  let ar ← readU16
  pure (md, { qd := qd, an := an, ns := ns, ar := ar })

/-- `Query::read` (feature `mdns` off) -/
def readQuery : Rd Query := do
  let n ← Rd.name
  let t ← readU16
  let c ← readU16
  pure { name := n, qtype := t, qclass := c }

/-! ## RDATA codecs -/

/-- `TXT::read_data` on the bytes left in the (clamped) decoder:
`while !decoder.is_empty() { strings.push(read_character_data()?) }`.
Second component: loop iterations. -/
def parseTxt : Bytes → Outcome (List Bytes) × Nat
  | [] => (.ok [], 0)
  | b :: rest =>
    if _h : b ≤ rest.length then
      match parseTxt (rest.drop b) with
      | (.ok ss, k) => (.ok (rest.take b :: ss), k + 1)
      | (.err, k) => (.err, k + 1)
      | (.panic s, k) => (.panic s, k + 1)
    else (.err, 1)
termination_by l => l.length
decreasing_by simp only [List.length_drop, List.length_cons]; omega

/-- `SupportedAlgorithms::from(&[u8])` observed through `iter()`: bit order is
RSASHA1(5) RSASHA256(8) RSASHA1NSEC3SHA1(7) RSASHA512(10) ECDSAP256(13) ECDSAP384(14) ED25519(15) -/
def dauAlgs (d : Bytes) : List Nat := [5, 8, 7, 10, 13, 14, 15].filter fun a => d.contains a

/-- `ClientSubnet::read` on the option bytes (trailing bytes are ignored by the code) -/
def parseSubnet (d : Bytes) : Outcome OptVal :=
  match d with
  | f0 :: f1 :: sp :: scope :: rest =>
    let family := f0 * 256 + f1
    if family = 1 ∨ family = 2 then
      let width := if family = 1 then 4 else 16
      let addrLen := sp / 8 + (if sp % 8 > 0 then 1 else 0)
      if addrLen > width then .err
      else if addrLen > rest.length then .err
      else .ok (.subnet family sp scope (rest.take addrLen ++ List.replicate (width - addrLen) 0))
    else .err                                             -- UnknownAddressFamily
  | _ => .err                                             -- InsufficientBytes

/-- `EdnsOption::try_from((code, data))` -/
def mkOpt (code : Nat) (d : Bytes) : Outcome OptEntry :=
  if code = 5 then .ok { code := code, val := .dau (dauAlgs d) }
  else if code = 8 then (parseSubnet d).map fun v => { code := code, val := v }
  else if code = 3 then
    if d.length > 65535 then .err else .ok { code := code, val := .nsid d }
  else .ok { code := code, val := .unknown code d }

/-- The state machine of `OPT::read_data` on the bytes left in the decoder (`total` of them at
the start).  Leaving the `while !decoder.is_empty()` loop in a state other than `ReadCode`
clears the options and still returns `Ok`.  `acc` is reversed.  Second component: iterations
(the `Data` state pops one byte per iteration). -/
def parseOpt (total : Nat) : Bytes → List OptEntry → Outcome (List OptEntry) × Nat
  | [], acc => (.ok acc.reverse, 0)
  | [_], _ => (.err, 1)                                  -- ReadCode: read_u16 fails
  | [_, _], _ => (.ok [], 1)                             -- left in state Code: cleared
  | [_, _, _], _ => (.err, 2)                            -- Code: read_u16 (length) fails
  | c0 :: c1 :: l0 :: l1 :: rest, acc =>
    let code := c0 * 256 + c1
    let len := l0 * 256 + l1
    if len > total then (.err, 2)
    else if len = 0 then
      match mkOpt code [] with
      | .ok o =>
        let r := parseOpt total rest (o :: acc)
        (r.1, r.2 + 2)
      | .err => (.err, 2)
      | .panic s => (.panic s, 2)
    else if _h : rest.length < len then (.ok [], 2 + rest.length)   -- left in state Data: cleared
    else
      match mkOpt code (rest.take len) with
      | .ok o =>
        let r := parseOpt total (rest.drop len) (o :: acc)
        (r.1, r.2 + 2 + len)
      | .err => (.err, 2 + len)
      | .panic s => (.panic s, 2 + len)
termination_by l _ => l.length
decreasing_by
  all_goals simp only [List.length_drop, List.length_cons]
  all_goals omega

/-! ### `RecordTypeSet::read_data` (the "type bit maps" of NSEC / NSEC3 / CSYNC) -/

/-- `BTreeSet::insert` on the sorted list of type codes -/
def insertSorted (a : Nat) : List Nat → List Nat
  | [] => [a]
  | x :: xs => if a < x then a :: x :: xs else if a = x then x :: xs else x :: insertSorted a xs

/-- the type codes of the set bits of one bitmap octet (`base` = code of its most significant bit) -/
def bitsOf (b base : Nat) : List Nat :=
  (List.range 8).filterMap fun i => if (b / 2 ^ (7 - i)) % 2 = 1 then some (base + i) else none

inductive BmState where
  | window
  | len (w : Nat)
  | rtype (w len left : Nat)
  deriving Repr, DecidableEq, Inhabited

/-- the byte-wise state machine; the state it ends in is not checked by the code.  `u8` checked
arithmetic: `(len - left) * 8` overflows (→ `Err`) only when a bit is set in that octet; `left - 1`
underflows (→ `Err`) when the bitmap length octet was 0. -/
def parseBitmap : Bytes → BmState → List Nat → Outcome (List Nat)
  | [], _, acc => .ok acc
  | b :: rest, .window, acc => parseBitmap rest (.len b) acc
  | b :: rest, .len w, acc => parseBitmap rest (.rtype w b b) acc
  | b :: rest, .rtype w len left, acc =>
    if b ≠ 0 ∧ (len - left) * 8 > 255 then .err                  -- checked_mul(8)
    else
      let acc' := (bitsOf b (w * 256 + (len - left) * 8)).foldl (fun s x => insertSorted x s) acc
      if left = 0 then .err                                        -- checked_sub(1)
      else if left - 1 = 0 then parseBitmap rest .window acc'
      else parseBitmap rest (.rtype w len (left - 1)) acc'

/-- read everything left, run a pure parser `(result, iterations)` on it -/
def toEnd {α} (p : Bytes → Outcome α × Nat) : Rd α := do
  let d ← readVecToEnd
  let r := p d
  tick r.2
  lift r.1

/-- `RecordTypeSet::read_data`: consumes the rest of the decoder, one iteration per octet; the octets
read are kept as `original_encoding` -/
def readTypeSet : Rd TypeSet :=
  toEnd fun d => ((parseBitmap d .window []).map fun ts => { types := ts, orig := some d }, d.length)

/-- `TSIG::read_data` -/
def readTsig : Rd RData := do
  let left ← remaining
  let idx0 ← index
  let endIdx := left + idx0                                  -- checked_add: cannot overflow usize
  let alg ← Rd.name                                          -- TsigAlgorithm::read: set_fqdn(false)
  let th ← readU16
  let tl ← readU32
  let fudge ← readU16
  let macSize ← readU16
  let idx ← index
  if ¬ (idx + macSize + 6 ≤ endIdx) then
    if endIdx < idx then Rd.panic "TSIG::read_data:end_idx-sub" else fail
  else
    let mac ← readSlice macSize
    let oid ← readU16
    let err ← readU16
    let otherLen ← readU16
    let idx ← index
    if ¬ (idx + otherLen = endIdx) then
      if endIdx < idx then Rd.panic "TSIG::read_data:end_idx-sub" else fail
    else
      let other ← readSlice otherLen
      pure (.tsig { alg with fqdn := false } (th * 4294967296 + tl) fudge mac oid err other)

/-! ### `NSEC3::with_record_type_set`: `Label::from_ascii(BASE32_DNSSEC.encode(hash)).ok()` -/

/-- the base32hex alphabet `0-9a-v` -/
def b32Char (v : Nat) : Nat := if v < 10 then 48 + v else 87 + v

/-- one input octet: `acc` holds `nbits < 5` pending bits; emits one or two characters -/
def b32Step (st : Nat × Nat × Bytes) (b : Nat) : Nat × Nat × Bytes :=
  let acc := st.1 * 256 + b
  let n := st.2.1 + 8
  let c1 := acc / 2 ^ (n - 5)
  let acc := acc % 2 ^ (n - 5)
  let n := n - 5
  if n ≥ 5 then
    (acc % 2 ^ (n - 5), n - 5, st.2.2 ++ [b32Char c1, b32Char (acc / 2 ^ (n - 5))])
  else (acc, n, st.2.2 ++ [b32Char c1])

/-- `data_encoding::BASE32_DNSSEC.encode` (no padding) -/
def b32Encode (d : Bytes) : Bytes :=
  let st := d.foldl b32Step (0, 0, [])
  if st.2.1 = 0 then st.2.2 else st.2.2 ++ [b32Char (st.1 * 2 ^ (5 - st.2.1))]

/-- `Label::from_ascii(..).ok()` on base32hex text: every character is acceptable, so only the
length decides (1..=63 characters, i.e. a hash of 1..=39 octets) -/
def b32Label (hash : Bytes) : Option Bytes :=
  let e := b32Encode hash
  if e.length = 0 ∨ e.length > 63 then none else some e

/-- NSEC3 / NSEC3PARAM common head: hash algorithm (only 1 is known), flags (only opt-out), iterations, salt -/
def readNsec3Head : Rd (Bool × Nat × Bytes) := do
  let alg ← pop
  if alg ≠ 1 then fail                                       -- UnknownNsec3HashAlgorithm
  else
    let flags ← pop
    if flags / 2 ≠ 0 then fail                               -- UnrecognizedNsec3Flags
    else
      let iter ← readU16
      let saltLen ← pop
      let left ← remaining
      if saltLen > left then fail
      else
        let salt ← readSlice saltLen
        pure (decide (flags % 2 = 1), iter, salt)

/-! ### SVCB / HTTPS parameters (each value is decoded from its own length-delimited slice) -/

/-- `String::from_utf8`: well-formed UTF-8 (no overlong forms, no surrogates, ≤ U+10FFFF) -/
def validUtf8 : Bytes → Bool
  | [] => true
  | b0 :: rest =>
    if b0 < 128 then validUtf8 rest
    else if 194 ≤ b0 ∧ b0 ≤ 223 then
      match rest with
      | b1 :: r => if 128 ≤ b1 ∧ b1 ≤ 191 then validUtf8 r else false
      | _ => false
    else if 224 ≤ b0 ∧ b0 ≤ 239 then
      match rest with
      | b1 :: b2 :: r =>
        let lo := if b0 = 224 then 160 else 128
        let hi := if b0 = 237 then 159 else 191
        if lo ≤ b1 ∧ b1 ≤ hi ∧ 128 ≤ b2 ∧ b2 ≤ 191 then validUtf8 r else false
      | _ => false
    else if 240 ≤ b0 ∧ b0 ≤ 244 then
      match rest with
      | b1 :: b2 :: b3 :: r =>
        let lo := if b0 = 240 then 144 else 128
        let hi := if b0 = 244 then 143 else 191
        if lo ≤ b1 ∧ b1 ≤ hi ∧ 128 ≤ b2 ∧ b2 ≤ 191 ∧ 128 ≤ b3 ∧ b3 ≤ 191 then validUtf8 r else false
      | _ => false
    else false

/-- `Mandatory::read`: u16 keys while anything is left -/
def svcKeys : Bytes → Outcome (List Nat)
  | [] => .ok []
  | [_] => .err
  | a :: b :: rest => (svcKeys rest).map fun ks => (a * 256 + b) :: ks

/-- `Alpn::read`: character-strings while anything is left, each valid UTF-8 -/
def svcAlpns : Bytes → Outcome (List Bytes)
  | [] => .ok []
  | n :: rest =>
    if _h : n ≤ rest.length then
      if validUtf8 (rest.take n) then (svcAlpns (rest.drop n)).map fun xs => rest.take n :: xs
      else .err                                              -- Utf8
    else .err
termination_by l => l.length
decreasing_by simp only [List.length_drop, List.length_cons]; omega

/-- `SvcParamValue::read` on the parameter's slice (a `port` value is exactly two octets: /repo fix
for C02-F3, `if len != 2 { return Err(IncorrectRDataLengthRead) }`) -/
def svcValue (key : Nat) (d : Bytes) : Outcome SvcVal :=
  if key = 0 then
    match svcKeys d with
    | .ok [] => .err                                         -- SvcParamMissingValue
    | .ok ks => .ok (.mandatory ks)
    | .err => .err
    | .panic s => .panic s
  else if key = 1 then
    match svcAlpns d with
    | .ok [] => .err
    | .ok xs => .ok (.alpn xs)
    | .err => .err
    | .panic s => .panic s
  else if key = 2 then (if d.length > 0 then .err else .ok .noDefaultAlpn)
  else if key = 3 then
    match d with
    | [a, b] => .ok (.port (a * 256 + b))
    | _ => .err                                              -- `len != 2`
  else if key = 4 then (if d.length % 4 = 0 then .ok (.ipv4hint d) else .err)
  else if key = 5 then .ok (.ech d)
  else if key = 6 then (if d.length % 16 = 0 then .ok (.ipv6hint d) else .err)
  else .ok (.unknown d)

/-- the `while decoder.len() >= 4` loop of `SVCB::read_data`; second component: octets consumed -/
def svcParams : Bytes → Option Nat → List (Nat × SvcVal) → Outcome (List (Nat × SvcVal)) × Nat
  | k0 :: k1 :: l0 :: l1 :: rest, last, acc =>
    let key := k0 * 256 + k1
    let len := l0 * 256 + l1
    if _h : len > rest.length then (.err, 4)
    else
      match svcValue key (rest.take len) with
      | .ok v =>
        if (match last with | some lk => decide (lk ≥ key) | none => false) then (.err, 4 + len)   -- SvcParamsOutOfOrder
        else
          let r := svcParams (rest.drop len) (some key) (acc ++ [(key, v)])
          (r.1, r.2 + 4 + len)
      | .err => (.err, 4 + len)
      | .panic s => (.panic s, 4 + len)
  | _, _, acc => (.ok acc, 0)
termination_by l _ _ => l.length
decreasing_by simp only [List.length_drop, List.length_cons]; omega

/-- `[0-9a-zA-Z]` -/
def isAlnum (c : Nat) : Bool := (48 ≤ c && c ≤ 57) || (97 ≤ c && c ≤ 122) || (65 ≤ c && c ≤ 90)

/-- `read_tag` of caa.rs: `len` characters, each alphanumeric -/
def readTag : Nat → Bytes → Rd Bytes
  | 0, acc => pure acc
  | n + 1, acc => do
    let c ← pop
    if isAlnum c then readTag n (acc ++ [c]) else fail       -- CaaTagInvalid

/-- `DNSSECRData::read` (after `RData::read` has already taken TSIG) -/
def readDnssec (t : Nat) : Rd RData :=
  if t = 43 then do                                          -- DS
    let tag ← readU16; let alg ← pop; let dt ← pop
    let d ← readVecToEnd
    pure (.ds tag alg dt d)
  else if t = 59 then do                                     -- CDS (algorithm 0 = None)
    let tag ← readU16; let alg ← pop; let dt ← pop
    let d ← readVecToEnd
    pure (.ds tag alg dt d)
  else if t = 48 then do                                     -- DNSKEY
    let flags ← readU16
    let proto ← pop
    if proto ≠ 3 then fail                                   -- DnsKeyProtocolNot3
    else
      let alg ← pop
      let k ← readVecToEnd
      pure (.dnskey false flags alg k)
  else if t = 60 then do                                     -- CDNSKEY
    let flags ← readU16
    let proto ← pop
    if proto ≠ 3 then fail
    else
      let alg ← pop
      let k ← readVecToEnd
      pure (.dnskey true flags alg k)
  else if t = 46 ∨ t = 24 then do                            -- RRSIG / SIG
    let covered ← readU16
    let alg ← pop
    let labels ← pop
    let ottl ← readU32
    let exp ← readU32
    let inc ← readU32
    let tag ← readU16
    let signer ← Rd.name
    let sg ← readVecToEnd
    pure (.sig covered alg labels ottl exp inc tag signer sg)
  else if t = 47 then do                                     -- NSEC
    let next ← Rd.name
    let ts ← readTypeSet
    pure (.nsec next ts)
  else if t = 50 then do                                     -- NSEC3
    let (optOut, iter, salt) ← readNsec3Head
    let hashLen ← pop
    let left ← remaining
    if hashLen > left then fail
    else
      let hash ← readSlice hashLen
      let ts ← readTypeSet
      pure (.nsec3 optOut iter salt hash (b32Label hash) ts)
  else if t = 51 then do                                     -- NSEC3PARAM
    let (optOut, iter, salt) ← readNsec3Head
    pure (.nsec3param optOut iter salt)
  else if t = 25 then do                                     -- KEY
    let flags ← readU16
    -- `flags & 0b0010_1100_1111_0000 == 0`
    if (flags / 8192) % 2 ≠ 0 ∨ (flags / 1024) % 4 ≠ 0 ∨ (flags / 16) % 16 ≠ 0 then fail   -- KeyFlagsReserved
    -- `KeyTrust::from` / `KeyUsage::from`: a `match` on two masked bits with a `panic!` default arm
    else if (flags / 16384) % 4 > 3 then Rd.panic "KeyTrust::from:All other bit fields should have been cleared"
    else if (flags / 256) % 4 > 3 then Rd.panic "KeyUsage::from:All other bit fields should have been cleared"
    else if (flags / 4096) % 2 = 1 then fail                 -- ExtendedKeyFlagsUnsupported
    else
      let proto ← pop
      let alg ← pop
      let k ← readVecToEnd
      pure (.key flags proto alg k)
  else Rd.panic "DNSSECRData::read:not a dnssec RecordType"

/-- the `match record_type { .. }` of `RData::read` -/
def readRDataBody (opq : Nat → Rd Bytes) (t : Nat) : Rd RData :=
  if t = 1 then do                                           -- A
    let a ← pop; let b ← pop; let c ← pop; let d ← pop
    pure (.a [a, b, c, d])
  else if t = 28 then do                                     -- AAAA: eight read_u16
    let a ← readU16; let b ← readU16; let c ← readU16; let d ← readU16
    let e ← readU16; let f ← readU16; let g ← readU16; let h ← readU16
    pure (.aaaa [a / 256, a % 256, b / 256, b % 256, c / 256, c % 256, d / 256, d % 256,
                 e / 256, e % 256, f / 256, f % 256, g / 256, g % 256, h / 256, h % 256])
  else if t = 65305 ∨ t = 5 ∨ t = 2 ∨ t = 12 then do         -- ANAME CNAME NS PTR
    let n ← Rd.name
    pure (.name n)
  else if t = 15 then do                                     -- MX
    let p ← readU16
    let n ← Rd.name
    pure (.mx p n)
  else if t = 6 then do                                      -- SOA
    let m ← Rd.name
    let r ← Rd.name
    let serial ← readU32
    let refresh ← readI32
    let retry ← readI32
    let expire ← readI32
    let minimum ← readU32
    pure (.soa m r serial refresh retry expire minimum)
  else if t = 16 then do                                     -- TXT
    let ss ← toEnd parseTxt
    pure (.txt ss)
  else if t = 33 then do                                     -- SRV
    let p ← readU16; let w ← readU16; let port ← readU16
    let n ← Rd.name
    pure (.srv p w port n)
  else if t = 13 then do                                     -- HINFO
    let cpu ← readCharacterData
    let os ← readCharacterData
    pure (.hinfo cpu os)
  else if t = 10 then do                                     -- NULL
    let d ← readVecToEnd
    pure (.null d)
  else if t = 41 then do                                     -- OPT
    let total ← remaining
    let os ← toEnd fun d => parseOpt total d []
    pure (.opt os)
  else if t = 0 then pure .zero                              -- ZERO
  else if t = 250 then readTsig                              -- TSIG
  else if t = 37 then do                                     -- CERT
    let left ← remaining
    if left ≤ 5 then fail
    else
      let ct ← readU16; let tag ← readU16; let alg ← pop
      let d ← readVecToEnd
      pure (.cert ct tag alg d)
  else if t = 62 then do                                     -- CSYNC
    let serial ← readU32
    let flags ← readU16
    if (flags % 256) / 4 ≠ 0 then fail                       -- `flags & 0b1111_1100 == 0` (low octet only)
    else
      let ts ← readTypeSet
      pure (.csync serial flags ts)
  else if t = 52 ∨ t = 53 then do                            -- TLSA / SMIMEA
    let u ← pop; let sel ← pop; let m ← pop
    let d ← readVecToEnd
    pure (.tlsa u sel m d)
  else if t = 44 then do                                     -- SSHFP
    let a ← pop; let f ← pop
    let d ← readVecToEnd
    pure (.sshfp a f d)
  else if t = 61 then do                                     -- OPENPGPKEY
    let d ← readVecToEnd
    pure (.openpgpkey d)
  else if t = 257 then do                                    -- CAA
    let flags ← pop
    let tagLen ← pop
    if tagLen = 0 ∨ tagLen > 15 then fail                    -- CaaTagInvalid
    else
      let tag ← readTag tagLen []
      let v ← readVecToEnd
      pure (.caa (decide (flags / 128 = 1)) (flags % 128) tag v)
  else if t = 35 then do                                     -- NAPTR
    let order ← readU16
    let pref ← readU16
    let flags ← readCharacterData
    if !flags.all isAlnum then fail                          -- NaptrFlagsInvalid
    else
      let services ← readCharacterData
      let regexp ← readCharacterData
      let n ← Rd.name
      pure (.naptr order pref flags services regexp n)
  else if t = 64 ∨ t = 65 then do                            -- SVCB / HTTPS
    let prio ← readU16
    let target ← Rd.name
    let ps ← parsePrefix fun d => svcParams d none []
    pure (.svcb prio target ps)
  else if isDnssec t then readDnssec t                       -- `r if r.is_dnssec()`
  else if unmodelled.contains t then do
    let v ← opq t
    pure (.opaque t v)
  else do                                                    -- Unknown: NULL::read_data
    let d ← readVecToEnd
    pure (.unknown t d)

/-- `RData::read(decoder, record_type)` : dispatch, then the "all bytes consumed" check, which
runs (and wins) even when the codec returned an error. -/
def readRData (opq : Nat → Rd Bytes) (t : Nat) : Rd RData := do
  let start ← index
  if t = 255 ∨ t = 252 ∨ t = 251 then fail                   -- ANY AXFR IXFR: early return Err
  else
    let result ← attempt (readRDataBody opq t)
    let idx ← index
    if idx < start then Rd.panic "RData::read:index-sub"
    else
      let empty ← isEmpty
      if !empty then fail
      else match result with
        | some v => pure v
        | none => fail

/-- the CLASS field in `Record::read`: overloaded for OPT, whose owner must be the root -/
def readClass (n : Name) (t : Nat) : Rd Nat :=
  if t = T_OPT then
    if !n.isRoot then fail                                   -- EdnsNameNotRoot
    else do
      let v ← readU16
      pure (max v 512)                                       -- DNSClass::for_opt
  else readU16

/-- `Record::read` -/
def readRecord (opq : Nat → Rd Bytes) : Rd Record := do
  let n ← Rd.name
  let t ← readU16
  let cls ← readClass n t
  let ttl ← readU32
  let rdlen ← readU16
  let left ← remaining
  if rdlen > left then fail                                  -- IncorrectRDataLengthRead
  else if rdlen = 0 then
    pure { name := n, rtype := t, cls := cls, ttl := ttl, rdata := .update0 t }
  else do
    let rd ← splitOff rdlen (readRData opq t)
    pure { name := n, rtype := t, cls := cls, ttl := ttl, rdata := rd }

/-! ## message -/

def RData.isUpdate : RData → Bool
  | .update0 _ => true
  | _ => false

/-- `Edns::from(&Record)` -/
def ednsFrom (r : Record) : Outcome Edns :=
  if r.rtype ≠ T_OPT then .panic "Edns::from:assert"
  else
    let mk (os : List OptEntry) : Edns :=
      { rcodeHigh := r.ttl / 16777216
        version := (r.ttl / 65536) % 256
        dnssecOk := decide ((r.ttl % 65536) / 32768 = 1)
        z := r.ttl % 32768
        maxPayload := r.cls
        options := os }
    match r.rdata with
    | .update0 _ => .ok (mk [])
    | .null _ => .ok (mk [])
    | .opt os => .ok (mk os)
    | _ => .panic "Edns::from:rr_type"

/-- accumulator of `read_records`: records, edns, sig -/
abbrev RecAcc := List Record × Option Edns × Option Record

/-- `Message::read_records` -/
def readRecords (opq : Nat → Rd Bytes) (isAdditional : Bool) (op : Nat) :
    Nat → RecAcc → Rd RecAcc
  | 0, acc => pure acc
  | count + 1, (recs, edns, sig) => do
    tick
    let r ← readRecord opq
    if op ≠ OP_UPDATE ∧ r.rtype ≠ T_OPT ∧ r.rdata.isUpdate then fail       -- InvalidEmptyRecord
    else if sig.isSome then fail                                            -- RecordAfterSig
    else if !isAdditional ∧ (r.rtype = T_OPT ∨ r.rtype = T_SIG ∨ r.rtype = T_TSIG) then fail
    else if !isAdditional then readRecords opq isAdditional op count (recs ++ [r], edns, sig)
    else
      match r.rdata with
      | .tsig _ _ _ _ _ _ _ =>
        -- `record.map(|data| match data { RData::TSIG(t) => Some(t), _ => None }).unwrap()`
        readRecords opq isAdditional op count (recs, edns, some r)
      | .opt _ =>
        if edns.isSome then fail                                            -- DuplicateEdns
        else do
          let e ← lift (ednsFrom r)
          readRecords opq isAdditional op count (recs, some e, sig)
      | .update0 t =>
        if t = T_OPT then
          if edns.isSome then fail
          else do
            let e ← lift (ednsFrom r)
            readRecords opq isAdditional op count (recs, some e, sig)
        else readRecords opq isAdditional op count (recs ++ [r], edns, sig)
      | _ => readRecords opq isAdditional op count (recs ++ [r], edns, sig)

/-- the query loop of `Message::read` -/
def readQueries : Nat → List Query → Rd (List Query)
  | 0, acc => pure acc
  | count + 1, acc => do
    tick
    let q ← readQuery
    readQueries count (acc ++ [q])

/-- `Metadata::merge_response_code` -/
def mergeRcode (md : Metadata) (edns : Option Edns) : Metadata :=
  match edns with
  | some e => { md with rcode := e.rcodeHigh * 16 + md.rcode % 16 }
  | none => md

/-- `Message::read` -/
def readMessage (opq : Nat → Rd Bytes) : Rd Message := do
  let (md, counts) ← readHeader
  let queries ← readQueries counts.qd []
  let (answers, _, _) ← readRecords opq false md.op counts.an ([], none, none)
  let (authorities, _, _) ← readRecords opq false md.op counts.ns ([], none, none)
  let (additionals, edns, sig) ← readRecords opq true md.op counts.ar ([], none, none)
  pure { md := mergeRcode md edns, queries := queries, answers := answers,
         authorities := authorities, additionals := additionals, signature := sig, edns := edns }

/-- `Queries::read`, first half: the query and the octets it occupied (`slice_from(queries_start)`) -/
def readQueryRaw : Rd (Query × Bytes) := do
  let start ← index
  let q ← readQuery
  let raw ← sliceFrom start
  pure (q, raw)

/-- `Queries::read`, second half: the question is kept for the echo in plain wire form when it was
received compressed (crates/proto fix cb5609e "echo a compressed question name in uncompressed
form"); `&original[original.len() - 4..]` is a slice index. -/
def echoBytes (q : Query) (raw : Bytes) : Rd Bytes :=
  if raw.length ≠ q.name.encodedLen + 4 then
    if raw.length < 4 then Rd.panic "Queries::read:original[len-4..]"
    else pure (Name.wire q.name ++ raw.drop (raw.length - 4))
  else pure raw

/-- `Request::from_bytes` = `Header::read`, `Queries::read`, `MessageRequest::read_with_queries` -/
def readRequest (opq : Nat → Rd Bytes) : Rd Request := do
  let (md, counts) ← readHeader
  if counts.qd ≠ 1 then fail                                               -- BadQueryCount
  else
    let (q, raw) ← readQueryRaw
    let original ← echoBytes q raw
    let (answers, _, _) ← readRecords opq false md.op counts.an ([], none, none)
    let (authorities, _, _) ← readRecords opq false md.op counts.ns ([], none, none)
    let (additionals, edns, sig) ← readRecords opq true md.op counts.ar ([], none, none)
    pure { md := mergeRcode md edns, query := q, original := original, answers := answers,
           authorities := authorities, additionals := additionals, signature := sig, edns := edns }

end Wire
end HickoryVerif
