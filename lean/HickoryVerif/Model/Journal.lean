/-
Model of the sqlite journal of `SqliteZoneHandler` as a log of rows
(crates/server/src/store/sqlite/{mod.rs, persistence.rs}).

A row is one `Record` as `Journal::iter` yields it (the row codec `Record::emit` / `Record::read`
is the identity on the records used here; that round trip is C02's subject and is re-checked by
the correspondence run, which reads the rows back from the real file).  Every
`Journal::insert_record` is its own sqlite commit, so the reachable on-disk states are exactly
the prefixes of the row list (sqlite's durability itself is trusted, not modelled).

Order of effects in `update_records(records, true)` (read from the code):
  1. `journal.insert_records(serial, records)` — *all* update rows, before anything is applied;
  2. the in-memory loop;  3. `increment_soa_serial` (only if something changed);
  4. `journal.insert_record(new_serial, soa)` — the post-update SOA row.
A message that changes nothing leaves its rows in the journal but no SOA row.
-/
import HickoryVerif.Model.Update

namespace HickoryVerif.Upd
open HickoryVerif

abbrev Journal := List Rec

/-- `Record::update0(Name::new(), 0, RecordType::AXFR)` as read back from the file (root name) -/
def axfrMarker : Rec := { name := Name.root, rtype := T_AXFR, cls := C_IN, ttl := 0, rdata := .empty }

/-- `persist_to_journal`: the marker, then every record of every RRset in map order -/
def persist (z : Zone) (j : Journal) : Journal :=
  j ++ axfrMarker :: z.flatMap (·.2)

/-- RDATA octets of a row as far as they can matter for the size limit (SOA / empty RDATA are small) -/
def rdataLen : RData → Nat
  | .bytes b => b.length
  | _ => 0

/-- `Journal::insert_record` encodes the row with `BinEncoder::new` (`max_size = u16::MAX`): a record
whose stand-alone wire form — owner name, TYPE, CLASS, TTL, RDLENGTH (10 octets), RDATA — exceeds
65 535 octets makes it fail.  (No DNS message can carry such an RR; a caller of the Rust API can.) -/
def rowFits (r : Rec) : Bool := decide (r.name.encodedLen + 10 + rdataLen r.rdata ≤ 65535)

/-- `Journal::insert_records`: row by row, each its own commit; stops at the first row that fails -/
def insertRows (j : Journal) : List Rec → Journal × Bool
  | [] => (j, true)
  | r :: rs => if rowFits r then insertRows (j ++ [r]) rs else (j, false)

/-- live `update_records(records, true)` with the journal attached: if a row cannot be written the
answer is SERVFAIL, the zone is untouched — and the rows before it stay in the journal -/
def liveUpdateRecords (c : Cfg) (z : Zone) (j : Journal) (recs : List Rec) :
    Zone × Journal × URes Bool :=
  match insertRows j recs with
  | (j1, false) => (z, j1, .rc .servFail)
  | (j1, true) =>
    let r := updateRecords c z recs true
    (r.1, j1 ++ r.2.2.toList, r.2.1)

/-- `ZoneHandler::update` with the journal attached -/
def updateJ (c : Cfg) (z : Zone) (j : Journal) (m : Msg) : Zone × Journal × Stage × URes Bool :=
  match verifyPrereqs c z m.prereqs with
  | some e => (z, j, .prereq, .rc e)
  | none =>
    match preScan c m.updates with
    | some e => (z, j, .prescan, .rc e)
    | none =>
      let r := liveUpdateRecords c z j m.updates
      (r.1, r.2.1, .apply, r.2.2)

/-- one iteration of `recover_with_journal`: `none` = `Err(PersistenceError::Recovery)` -/
def recoverRow (c : Cfg) (z : Zone) (row : Rec) : Option Zone :=
  if row.rtype = T_AXFR then some []
  else
    match updateRecords c z [row] false with
    | (z', .ok _, _) => some z'
    | _ => none

/-- `recover_with_journal` on an empty handler -/
def recoverFrom (c : Cfg) : Zone → Journal → Option Zone
  | z, [] => some z
  | z, row :: rows =>
    match recoverRow c z row with
    | some z' => recoverFrom c z' rows
    | none => none

def recover (c : Cfg) (j : Journal) : Option Zone := recoverFrom c [] j

/-- zone and journal after a history of authorised messages -/
def runJ (c : Cfg) : Zone → Journal → List Msg → Zone × Journal
  | z, j, [] => (z, j)
  | z, j, m :: ms => let r := updateJ c z j m; runJ c r.1 r.2.1 ms

end HickoryVerif.Upd
