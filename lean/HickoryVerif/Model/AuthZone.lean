/-
Model of the authoritative lookup path of hickory-server, as coded:

* `crates/server/src/store/in_memory/inner.rs`  — `InnerInMemory::{inner_lookup,
  inner_lookup_wildcard, chase_cnames, additional_search, replace_any}`
* `crates/server/src/store/in_memory/mod.rs`    — `InMemoryZoneHandler::lookup`, `maybe_next_name`
* `crates/server/src/zone_handler/catalog.rs`   — `Catalog::find`/`lookup`,
  `build_authoritative_response` (sections, AA, SOA / NS attachment, referral detection)

The store `BTreeMap<RrKey, Arc<RecordSet>>` is a list of RRsets *in the map's iteration order*
(owner in `Name::cmp` order, then type code); a key is (lower-cased owner, type).  Names are
`LName` = lower-cased labels, first label first, always absolute (`LowerName`).  An rdata is
abstract except for the domain name it embeds (`target`, for CNAME / NS / MX) — that is all the
lookup path ever inspects; `tag` tells rdatas of one RRset apart.

Not modelled: ANAME/SRV additional processing (`maybe_next_name` arms for ANAME and SRV and the
ANAME answer rewriting in `lookup`), AXFR, chained zone handlers, TTLs.
-/
import HickoryVerif.Model.Name

namespace HickoryVerif.AuthZone
open HickoryVerif

abbrev LName := List Bytes

/-- the label `*` -/
abbrev star : Bytes := [42]

abbrev T_A : Nat := 1
abbrev T_NS : Nat := 2
abbrev T_CNAME : Nat := 5
abbrev T_SOA : Nat := 6
abbrev T_MX : Nat := 15
abbrev T_TXT : Nat := 16
abbrev T_AAAA : Nat := 28
abbrev T_DS : Nat := 43
abbrev T_ANY : Nat := 255
abbrev T_ANAME : Nat := 65305
abbrev T_SRV : Nat := 33
abbrev T_AXFR : Nat := 252

/-- `chase_cnames::MAX_CNAME_DEPTH` -/
abbrev MAX_CNAME_DEPTH : Nat := 8

structure RData where
  tag : Nat
  target : Option LName
  /-- NSEC: the type bitmap (type codes, ascending) -/
  types : List Nat := []
  deriving DecidableEq, Repr, Inhabited

structure RRset where
  name : LName
  type : Nat
  rdatas : List RData
  /-- signed zones: the `labels` field of the RRset's RRSIG (`RecordSet::rrsigs`, one signer);
  `none` in an unsigned zone -/
  sigLabels : Option Nat := none
  deriving DecidableEq, Repr, Inhabited

abbrev Zone := List RRset

/-- `LowerName::from(&Name)` -/
def lowerName (n : LName) : LName := n.map Name.lowerLabel

/-- `self.records.get(&RrKey::new(name, type))` -/
def getRR (z : Zone) (n : LName) (t : Nat) : Option RRset :=
  z.find? fun r => r.name == n && r.type == t

/-- `self.records.contains_key(..)` -/
def has (z : Zone) (n : LName) (t : Nat) : Bool := (getRR z n t).isSome

/-- `LowerName::zone_of` : `zone` is `n` or an ancestor of `n` -/
def zoneOf (zone n : LName) : Bool := zone.isSuffixOf n

/-! ### `inner_lookup` -/

/-- The delegation walk at the head of `inner_lookup`: from `name` upwards (bottom-up), the
first owner of an NS RRset without SOA is returned as the delegation — except at `name` itself
for a DS query; an owner of NS *and* SOA stops the walk; the root stops the walk.
`none` = no delegation, continue with the range scan. -/
def walk (z : Zone) (qname : LName) (qtype : Nat) : LName → Option RRset
  | [] => none
  | l :: rest =>
    match getRR z (l :: rest) T_NS, has z (l :: rest) T_SOA with
    | some ns, false =>
      if qtype == T_DS && (l :: rest) == qname then walk z qname qtype rest else some ns
    | some _, true => none
    | none, _ => walk z qname qtype rest

/-- `aname_covers_type` -/
def anameCovers (keyType qtype : Nat) : Bool :=
  (qtype == T_A || qtype == T_AAAA) && keyType == T_ANAME

/-- the `range(..).find(..)` over all types at `name`: the first RRset in type-code order whose
type is the queried one, CNAME, or an ANAME covering an address query -/
def scan (z : Zone) (name : LName) (qtype : Nat) : Option RRset :=
  z.find? fun r => r.name == name &&
    (r.type == qtype || r.type == T_CNAME || anameCovers r.type qtype)

/-- `inner_lookup` up to (excluding) the wildcard fallback -/
def lookupExact (z : Zone) (name : LName) (qtype : Nat) : Option RRset :=
  match walk z name qtype name with
  | some ns => some ns
  | none => scan z name qtype

/-- the `loop` of `inner_lookup_wildcard`; the argument is the current wildcard name without its
leading `*`.  `inner_lookup(&wildcard, ..)` is `lookupExact` because the nested
`inner_lookup_wildcard` returns `None` on a wildcard name.  Climbs parent by parent up to `*.` —
it does not stop at the closest encloser.  Returns the wildcard name that matched and the RRset. -/
def wildClimb (z : Zone) (qtype : Nat) : LName → Option (LName × RRset)
  | [] => (lookupExact z [star] qtype).map fun rr => ([star], rr)
  | l :: rest =>
    match lookupExact z (star :: l :: rest) qtype with
    | some rr => some (star :: l :: rest, rr)
    | none => wildClimb z qtype rest

/-- `name.is_wildcard()` -/
def isWildcardName (n : LName) : Bool :=
  match n with
  | l :: _ => l == star
  | [] => false

/-- the wildcard owner `inner_lookup_wildcard` ends up using for `name` (if any) with its RRset -/
def wildSource (z : Zone) (name : LName) (qtype : Nat) : Option (LName × RRset) :=
  match name with
  | [] => none
  | l :: rest => if l == star then none else wildClimb z qtype rest

/-- `inner_lookup_wildcard`: the RRset found is re-owned by the query name (with DO its RRSIGs
are cloned and re-owned too: `sigLabels` keeps the wildcard's label count). -/
def innerLookupWildcard (z : Zone) (name : LName) (qtype : Nat) : Option RRset :=
  (wildSource z name qtype).map fun (_, rr) =>
    { name := name, type := rr.type, rdatas := rr.rdatas, sigLabels := rr.sigLabels }

/-- `InnerInMemory::inner_lookup` -/
def innerLookup (z : Zone) (name : LName) (qtype : Nat) : Option RRset :=
  match lookupExact z name qtype with
  | some r => some r
  | none => innerLookupWildcard z name qtype

/-! ### `chase_cnames` -/

/-- What `chase_cnames` appends after `last`; `fuel = MAX_CNAME_DEPTH - chain.len()`. -/
def chaseFrom (z : Zone) (qtype : Nat) : Nat → List LName → RRset → List RRset
  | 0, _, _ => []
  | fuel + 1, seen, last =>
    match last.rdatas.head? with
    | none => []
    | some rd =>
      if last.type != T_CNAME then [] else
      match rd.target with
      | none => []
      | some next =>
        if seen.contains next then [] else
        match innerLookup z next qtype with
        | some rr =>
          if rr.type == T_CNAME then rr :: chaseFrom z qtype fuel (next :: seen) rr else [rr]
        | none => []

/-- `chase_cnames` -/
def chaseCnames (z : Zone) (name : LName) (first : RRset) (qtype : Nat) : List RRset :=
  first :: chaseFrom z qtype (MAX_CNAME_DEPTH - 1) [name] first

/-! ### additional section -/

/-- the (record set type, query type) pairs for which `maybe_next_name` continues: NS, MX, SRV
for their own type; ANAME for A, AAAA and ANAME queries -/
def nextNameApplies (rrType qtype : Nat) : Bool :=
  (rrType == qtype && (qtype == T_NS || qtype == T_MX || qtype == T_SRV)) ||
  (rrType == T_ANAME && (qtype == T_A || qtype == T_AAAA || qtype == T_ANAME))

/-- `maybe_next_name`: the name embedded in the first record (the rdata variant always matches
the RRset type in a store built by `upsert`) -/
def maybeNextName (rr : RRset) (qtype : Nat) : Option LName :=
  if nextNameApplies rr.type qtype then
    rr.rdatas.head?.bind (·.target)
  else none

/-- the `while let Some(search) = next_name.take()` loop of `additional_search` for one query
type.  The Rust loop has no counter: it ends because `names` grows; `fuel` only makes the
definition structural (`Proofs/C10.lean: addLoop_fuel_irrelevant`). -/
def addLoop (z : Zone) (qt : Nat) : Nat → List LName → LName → List RRset → List RRset
  | 0, _, _, adds => adds
  | fuel + 1, names, search, adds =>
    if names.contains search then adds else
    match innerLookup z search qt with
    | none => adds
    | some a =>
      let adds' := if adds.contains a then adds else adds ++ [a]
      let next := if a.type == T_CNAME then a.rdatas.head?.bind (·.target) else maybeNextName a qt
      match next with
      | none => adds'
      | some n => addLoop z qt fuel (search :: names) n adds'

/-- all names embedded in rdatas of the zone -/
def targets (z : Zone) : List LName := z.flatMap fun r => r.rdatas.filterMap (·.target)

def addFuel (z : Zone) : Nat := (targets z).length + 2

/-- `additional_search` -/
def additionalSearch (z : Zone) (origName : LName) (origType : Nat) (next : LName) :
    Option (List RRset) :=
  let qts :=
    if origType == T_ANAME || origType == T_NS || origType == T_MX || origType == T_SRV then [T_A, T_AAAA]
    else [origType]
  let adds := qts.foldl (fun adds qt =>
    addLoop z qt (addFuel z) (if qt == origType then [origName] else []) next adds) []
  if adds.isEmpty then none else some adds

/-! ### `InMemoryZoneHandler::lookup` -/

/-- `replace_any` (RFC 8482 §4.1: one RRset stands in for ANY) -/
def replaceAny (z : Zone) (name : LName) : Nat :=
  let here := z.filter (·.name == name)
  match here.find? fun r => r.type == T_CNAME || r.type == T_A || r.type == T_AAAA || r.type == T_MX with
  | some r => r.type
  | none =>
    match here with
    | r :: _ => r.type
    | [] => T_A

inductive LookupErr where
  | nameExists | nxDomain | refused
  deriving DecidableEq, Repr

/-- answers of `lookup` without the additional section -/
def lookupAnswers (z : Zone) (origin name : LName) (qtype0 : Nat) :
    Except LookupErr (Nat × List RRset × Option RRset) :=
  let qtype := if qtype0 == T_ANY then replaceAny z name else qtype0
  match innerLookup z name qtype with
  | some a =>
    if a.type == T_CNAME && qtype != T_CNAME then
      let chain := chaseCnames z name a qtype
      let terminal := chain.getLast?.filter (·.type != T_CNAME)
      .ok (qtype, chain, terminal)
    else .ok (qtype, [a], some a)
  | none =>
    .error (if z.any (fun r => r.name == name || zoneOf name r.name) then .nameExists
            else if zoneOf origin name then .nxDomain else .refused)

structure Lookup where
  answers : List RRset
  additionals : Option (List RRset)
  deriving Repr

/-- `InMemoryZoneHandler::lookup` -/
def lookup (z : Zone) (origin name : LName) (qtype0 : Nat) : Except LookupErr Lookup :=
  match lookupAnswers z origin name qtype0 with
  | .error e => .error e
  | .ok (qtype, answers, terminal) =>
    let adds := (terminal.bind (maybeNextName · qtype)).bind fun n =>
      additionalSearch z name qtype n
    .ok { answers, additionals := adds }

/-! ### `build_authoritative_response` and `Catalog::lookup` -/

inductive Rcode where
  | noError | nxDomain | refused
  deriving DecidableEq, Repr

structure Query where
  name : LName
  type : Nat
  deriving DecidableEq, Repr

/-- what the property speaks about: rcode, AA, answer and authority section (as RRsets) -/
structure Answer where
  rcode : Rcode
  aa : Bool
  answers : List RRset
  authority : List RRset
  deriving DecidableEq, Repr

structure Response extends Answer where
  additional : List RRset
  deriving Repr

/-- `is_referral` of `build_authoritative_response` (as repaired by /repo af8bb96): the first
record of the lookup result is an NS record whose owner is not the zone origin — the NS RRset of
a delegation point — whatever the query type -/
def isReferral (origin : LName) (answers : List RRset) : Bool :=
  match answers with
  | r :: _ => r.type == T_NS && r.name != origin
  | [] => false

def okAnswers : Except LookupErr (Nat × List RRset × Option RRset) → List RRset
  | .ok (_, a, _) => a
  | .error _ => []

/-- `build_authoritative_response` without the additional section (DO clear / unsigned zone):
AA is cleared on a referral, the apex NS RRset accompanies a successful SOA lookup only -/
def buildAuthoritative (z : Zone) (origin : LName) (q : Query) : Answer :=
  match lookupAnswers z origin q.name q.type with
  | .error .refused => { rcode := .refused, aa := true, answers := [], authority := [] }
  | .error e =>
    let soa := okAnswers (lookupAnswers z origin origin T_SOA)
    { rcode := if e == .nxDomain then .nxDomain else .noError, aa := true,
      answers := [], authority := soa }
  | .ok (_, answers, _) =>
    let ref := isReferral origin answers
    let ns := if q.type == T_SOA && !ref then okAnswers (lookupAnswers z origin origin T_NS) else []
    if ref then
      { rcode := .noError, aa := false, answers := [], authority := answers ++ ns }
    else
      { rcode := .noError, aa := true, answers := answers, authority := ns }

/-- `Catalog::find` with one zone + `Catalog::lookup` + `build_authoritative_response`:
the answer of the server to query `q` (already lower-cased). -/
def answerImpl (z : Zone) (origin : LName) (q : Query) : Answer :=
  if zoneOf origin q.name then buildAuthoritative z origin q
  else { rcode := .refused, aa := false, answers := [], authority := [] }

/-- the same with the additional section -/
def respond (z : Zone) (origin : LName) (q : Query) : Response :=
  let a := answerImpl z origin q
  let adds :=
    if zoneOf origin q.name then
      match lookup z origin q.name q.type with
      | .ok l => l.additionals.getD []
      | .error _ => []
    else []
  { a with additional := adds }

end HickoryVerif.AuthZone
