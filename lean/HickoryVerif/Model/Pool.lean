/-
Model of `NameServerPool::send` / `PoolState::try_send` (crates/resolver/src/name_server_pool.rs)
and of the part of `NameServer::send_inner` / `ConnectionPolicy` (name_server.rs) that decides which
connection an exchange uses.

Everything asynchronous is modelled as the sequential state machine it implements, over a virtual
clock in milliseconds.  The behaviour of every upstream server is a PARAMETER: per protocol a script
of steps `(reply, latency)`, one step consumed per exchange, the last one repeating.

What is mirrored, statement by statement:

* ordering of the servers (`UserProvidedOrder`, `RoundRobin` with the `next` counter, `QueryStatistics`
  as a stable sort on an SRTT rank that is a parameter),
* the `loop` of `try_send`: deadline test at the top of every round and — since fix 92faead — a race of
  every wait for a reply against the remaining budget (the pre-fix loop is kept in
  `Model/PoolPreFix.lean` for the regression example), batches of
  `max(num_concurrent_reqs, 1)` servers allowed by the protocol policy (servers the policy excludes
  are popped and dropped), all requests of a batch sent with the policy value of the batch start,
  replies handled in completion order, truncated reply ⇒ `disable_udp`, error "truncated", server
  pushed to the FRONT of the queue; case mismatch ⇒ the same without touching the error; `Busy` ⇒ busy
  list; `Io | NoConnections | Timeout | untrusted NXDOMAIN` ⇒ continue; anything else returns at once;
  `most_specific`; the busy list re-queued after a back-off sleep of `min(backoff, remaining)` that
  doubles from 20 ms while `< 300 ms`,
* `NameServer::send_inner`: reuse of a live connection allowed by the policy (UDP before TCP), else a
  new connection for the first allowed configured protocol (UDP before TCP); a reply that is a DNS
  message keeps the connection, a transport error kills it; a connection-closed error on a REUSED
  connection is retried once on another connection,
* `send`: the in-flight de-duplication map with creator-side clean-up (`Dedup` below).

Not modelled: SRTT arithmetic (enters as the rank parameter), opportunistic encryption, the answer
address filter, metrics, the retry layer above the pool (`RetryDnsHandle`).
-/
import HickoryVerif.Basic

namespace HickoryVerif.Pool

inductive Proto | udp | tcp
  deriving DecidableEq, Repr, Inhabited

/-- what one exchange with an upstream server yields -/
inductive Reply
  | ans   -- NoError with an answer
  | nx    -- NXDOMAIN, empty answer section
  | nd    -- NoError, empty answer section (NODATA)
  | sf    -- SERVFAIL
  | rf    -- REFUSED
  | tc    -- truncated response
  | to    -- `NetError::Timeout` (the stream's own timeout fired)
  | io    -- `NetError::Io`, not a connection-closed kind (unreachable / refused)
  | rst   -- `NetError::Io(ConnectionReset)`: `is_connection_closed()`
  | busy  -- `NetError::Busy`
  | cm    -- `NetError::QueryCaseMismatch`
  | cf    -- establishing the connection fails (`new_connection` / its future yields `NetError::Io`)
  deriving DecidableEq, Repr, Inhabited

/-- `Ok(response)` at `handle.send(..).first_answer()`: the connection becomes `Established` -/
def Reply.isResponse : Reply → Bool
  | .ans | .nx | .nd | .sf | .rf | .tc => true
  | _ => false

structure Step where
  reply : Reply
  lat : Nat
  deriving DecidableEq, Repr, Inhabited

structure Server where
  /-- `NameServerConfig::trust_negative_responses` -/
  trust : Bool
  /-- SRTT rank (number of failures recorded before the lookup); only `QueryStatistics` reads it -/
  warm : Nat
  udp : Option (List Step)
  tcp : Option (List Step)
  deriving Repr, Inhabited

/-- dynamic state of one `NameServer`: script positions and live connections -/
structure Conn where
  posU : Nat := 0
  posT : Nat := 0
  liveU : Bool := false
  liveT : Bool := false
  deriving DecidableEq, Repr, Inhabited

inductive Strategy | user | rr | qs
  deriving DecidableEq, Repr, Inhabited

structure Cfg where
  servers : List Server
  strategy : Strategy
  /-- `num_concurrent_reqs` -/
  ncr : Nat
  /-- `ResolverOpts::timeout` in ms -/
  timeout : Nat
  deriving Repr, Inhabited

/-- the first back-off sleep, `Duration::from_millis(20)` -/
def BACKOFF_START : Nat := 20
/-- back-off stops once it reaches `Duration::from_millis(300)` -/
def BACKOFF_LIMIT : Nat := 300

/-! ## `NameServer::send_inner` -/

def stepAt (script : List Step) (pos : Nat) : Step :=
  script.getD (min pos (script.length - 1)) ⟨.io, 1⟩

inductive Choice
  | reused (p : Proto)
  | fresh (p : Proto)
  | none
  deriving DecidableEq, Repr

/-- `connected_mut_client`: `select_connection` over the live connections, else
`select_connection_config` over the configured protocols; `allows_protocol` excludes UDP when
`disable_udp`.  Both selections are `min_by` over a comparator that puts UDP before everything else,
so neither the order of the configured protocols nor the order of the connection table matters. -/
def choose (s : Server) (c : Conn) (disableUdp : Bool) : Choice :=
  if c.liveU && !disableUdp then .reused .udp
  else if c.liveT then .reused .tcp
  else if s.udp.isSome && !disableUdp then .fresh .udp
  else if s.tcp.isSome then .fresh .tcp
  else .none

/-- one request/response on protocol `p` starting at `t`: reply, end time, new connection state -/
def exchange (s : Server) (c : Conn) (p : Proto) (t : Nat) : Reply × Nat × Conn :=
  match p with
  | .udp =>
    let st := stepAt (s.udp.getD []) c.posU
    (st.reply, t + st.lat, { c with posU := c.posU + 1, liveU := st.reply.isResponse })
  | .tcp =>
    let st := stepAt (s.tcp.getD []) c.posT
    (st.reply, t + st.lat, { c with posT := c.posT + 1, liveT := st.reply.isResponse })

structure Xch where
  proto : Proto
  start : Nat
  deriving DecidableEq, Repr, Inhabited

structure SendOut where
  /-- `none` = `NetError::NoConnections` (no protocol left under the policy) -/
  reply : Option Reply
  proto : Proto
  fin : Nat
  conn : Conn
  log : List Xch
  /-- connection state if the request is dropped before its first reply (the lookup returned on
  another server's reply): the script step is consumed, the connection exists (`Init`) -/
  cancelConn : Conn
  deriving Repr, Inhabited

/-- one pass of the loop of `send_inner`, no reconnect -/
def inFlight (c : Conn) : Proto → Conn
  | .udp => { c with posU := c.posU + 1, liveU := true }
  | .tcp => { c with posT := c.posT + 1, liveT := true }

def nsSendOnce (s : Server) (c : Conn) (disableUdp : Bool) (t : Nat) : SendOut :=
  match choose s c disableUdp with
  | .none => ⟨none, .udp, t, c, [], c⟩
  | .fresh p =>
    let r := exchange s c p t
    -- a connection attempt that is dropped before it fails leaves no connection behind
    ⟨some r.1, p, r.2.1, r.2.2, [⟨p, t⟩], if r.1 = .cf then r.2.2 else inFlight c p⟩
  | .reused p =>
    let r := exchange s c p t
    ⟨some r.1, p, r.2.1, r.2.2, [⟨p, t⟩], inFlight c p⟩

/-- `send_inner`: `reconnect_budget = 1`, spent when a REUSED connection fails closed -/
def nsSend (s : Server) (c : Conn) (disableUdp : Bool) (t : Nat) : SendOut :=
  match choose s c disableUdp with
  | .reused p =>
    let r := exchange s c p t
    if r.1 = .rst then
      let o := nsSendOnce s r.2.2 disableUdp r.2.1
      { o with log := ⟨p, t⟩ :: o.log, cancelConn := inFlight c p }
    else ⟨some r.1, p, r.2.1, r.2.2, [⟨p, t⟩], inFlight c p⟩
  | _ => nsSendOnce s c disableUdp t

/-! ## `try_send` -/

inductive Err | noconn | timeout | io | busy | msg | nx | nodata | rcode
  deriving DecidableEq, Repr, Inhabited

inductive Res
  | ans (srv : Nat) (p : Proto)
  | err (e : Err)
  deriving DecidableEq, Repr, Inhabited

def Err.isNoRecords : Err → Bool
  | .nx | .nodata => true
  | _ => false

/-- `most_specific(previous, current)` -/
def mostSpecific (prev cur : Err) : Err :=
  if prev.isNoRecords then prev
  else if cur.isNoRecords then cur
  else if prev = .io ∧ cur = .io then prev
  else if prev = .io then cur
  else if cur = .io then prev
  else if prev = .timeout then prev
  else if cur = .timeout then cur
  else prev

structure PState where
  queue : List Nat
  busy : List Nat
  backoff : Nat
  disableUdp : Bool
  err : Err
  clock : Nat
  conns : List Conn
  /-- upstream exchanges started so far: (server, protocol, start) -/
  log : List (Nat × Xch)
  deriving DecidableEq, Repr, Inhabited

def server (cfg : Cfg) (i : Nat) : Server := cfg.servers.getD i ⟨true, 0, none, none⟩

/-- `ConnectionPolicy::allows_server` -/
def allows (cfg : Cfg) (disableUdp : Bool) (i : Nat) : Bool :=
  (server cfg i).tcp.isSome || ((server cfg i).udp.isSome && !disableUdp)

/-- the `while !servers.is_empty() && par_servers.len() < max(ncr, 1)` loop: returns the batch and
the rest of the queue; servers the policy excludes are popped and dropped -/
def takeBatch (cfg : Cfg) (disableUdp : Bool) (n : Nat) : List Nat → List Nat → List Nat × List Nat
  | [], acc => (acc, [])
  | i :: q, acc =>
    if acc.length < n then
      if allows cfg disableUdp i then takeBatch cfg disableUdp n q (acc ++ [i])
      else takeBatch cfg disableUdp n q acc
    else (acc, i :: q)

structure Event where
  srv : Nat
  reply : Option Reply
  proto : Proto
  fin : Nat
  /-- the server's connection state if this request is dropped un-answered -/
  cancelConn : Conn := {}
  deriving Repr, Inhabited

/-- all requests of a batch are created at the batch start with the same policy value -/
def sendBatch (cfg : Cfg) (disableUdp : Bool) (t : Nat) :
    List Nat → List Conn → List Event × List Conn × List (Nat × Xch)
  | [], conns => ([], conns, [])
  | i :: is, conns =>
    let o := nsSend (server cfg i) (conns.getD i {}) disableUdp t
    let r := sendBatch cfg disableUdp t is (conns.set i o.conn)
    (⟨i, o.reply, o.proto, o.fin, o.cancelConn⟩ :: r.1, r.2.1, o.log.map (fun x => (i, x)) ++ r.2.2)

/-- `FuturesUnordered` yields in completion order (stable: batch order on ties) -/
def insertEv (e : Event) : List Event → List Event
  | [] => [e]
  | x :: xs => if e.fin ≤ x.fin then e :: x :: xs else x :: insertEv e xs

def sortEvents : List Event → List Event
  | [] => []
  | e :: es => insertEv e (sortEvents es)

/-- the body of `while let Some((server, result)) = requests.next().await` for one reply -/
def processEvent (cfg : Cfg) (st : PState) (ev : Event) : PState × Option Res :=
  match ev.reply with
  | none => ({ st with err := mostSpecific st.err .noconn }, none)
  | some .ans => (st, some (.ans ev.srv ev.proto))
  | some .tc =>
    ({ st with disableUdp := true, err := .msg, queue := ev.srv :: st.queue }, none)
  | some .cm => ({ st with queue := ev.srv :: st.queue, disableUdp := true }, none)
  | some .busy => ({ st with busy := st.busy ++ [ev.srv], err := mostSpecific st.err .busy }, none)
  | some .io => ({ st with err := mostSpecific st.err .io }, none)
  | some .rst => ({ st with err := mostSpecific st.err .io }, none)
  | some .cf => ({ st with err := mostSpecific st.err .io }, none)
  | some .to => ({ st with err := mostSpecific st.err .timeout }, none)
  | some .nx =>
    if (server cfg ev.srv).trust then (st, some (.err .nx))
    else ({ st with err := mostSpecific st.err .nx }, none)
  | some .nd => (st, some (.err .nodata))
  | some .sf => (st, some (.err .rcode))
  | some .rf => (st, some (.err .rcode))

/-- `while let Some((server, result)) = { select(requests.next(), Timer::delay_for(remaining)) … }`
(since fix 92faead): every wait for the next reply of the batch is raced against what is left of the
deadline.  A reply that arrives by the deadline is handled; when the next reply would arrive later the
timer wins, the requests still in flight are abandoned and `try_send` returns `Timeout` AT the deadline. -/
def processEvents (cfg : Cfg) (deadline : Nat) : PState → List Event → PState × Option Res
  | st, [] => (st, none)
  | st, ev :: evs =>
    if deadline < ev.fin then ({ st with clock := max st.clock deadline }, some (.err .timeout))
    else
      match processEvent cfg { st with clock := ev.fin } ev with
      | (st', some r) => (st', some r)
      | (st', none) => processEvents cfg deadline st' evs

/-- the replies `processEvents` never gets to see because an earlier one, or the deadline, ended the
lookup -/
def unprocessed (cfg : Cfg) (deadline : Nat) : PState → List Event → List Event
  | _, [] => []
  | st, ev :: evs =>
    if deadline < ev.fin then ev :: evs
    else
      match processEvent cfg { st with clock := ev.fin } ev with
      | (_, some _) => evs
      | (st', none) => unprocessed cfg deadline st' evs

/-- returning from `try_send` drops the requests still in flight: their futures are cancelled, the
connections they opened stay in the server's table -/
def cancelInFlight (st : PState) (evs : List Event) : PState :=
  { st with conns := evs.foldl (fun cs ev => cs.set ev.srv ev.cancelConn) st.conns }

inductive RoundOut
  | done (r : Res) (st : PState)
  | next (st : PState)
  deriving Repr, Inhabited

def RoundOut.state : RoundOut → PState
  | .done _ st => st
  | .next st => st

/-- one iteration of the `loop` of `try_send` -/
def round (cfg : Cfg) (deadline : Nat) (st : PState) : RoundOut :=
  if st.clock ≥ deadline then .done (.err .timeout) st
  else
    let b := takeBatch cfg st.disableUdp (max cfg.ncr 1) st.queue []
    if b.1.isEmpty then
      if !st.busy.isEmpty && st.backoff < BACKOFF_LIMIT then
        let remaining := deadline - st.clock
        if remaining = 0 then .done (.err .timeout) st
        else
          .next { st with
            clock := st.clock + min st.backoff remaining
            queue := b.2 ++ st.busy.filter (allows cfg st.disableUdp)
            busy := []
            backoff := st.backoff * 2 }
      else .done (.err st.err) st
    else
      let s := sendBatch cfg st.disableUdp st.clock b.1 st.conns
      -- (an exchange after a reconnect is only started if the first one ended by the deadline)
      let st1 := { st with queue := b.2, conns := s.2.1,
                           log := st.log ++ s.2.2.filter (fun e => e.2.start ≤ deadline) }
      match processEvents cfg deadline st1 (sortEvents s.1) with
      | (st2, some r) => .done r (cancelInFlight st2 (unprocessed cfg deadline st1 (sortEvents s.1)))
      | (st2, none) => .next st2

/-- the loop, with an explicit bound on the number of rounds (`none` = bound exhausted; `terminates`
in Proofs/C18 shows a bound that always suffices when latencies are positive) -/
def run (cfg : Cfg) (deadline : Nat) : Nat → PState → Option (Res × PState)
  | 0, _ => none
  | fuel + 1, st =>
    match round cfg deadline st with
    | .done r st' => some (r, st')
    | .next st' => run cfg deadline fuel st'

/-! ### ordering strategies -/

def rotateLeft (l : List Nat) (k : Nat) : List Nat := l.drop k ++ l.take k

def insertByWarm (cfg : Cfg) (i : Nat) : List Nat → List Nat
  | [] => [i]
  | x :: xs => if (server cfg i).warm < (server cfg x).warm then i :: x :: xs else x :: insertByWarm cfg i xs

/-- stable sort by SRTT rank (`sort_by_cached_key`) -/
def sortByWarm (cfg : Cfg) : List Nat → List Nat
  | [] => []
  | i :: is => insertByWarm cfg i (sortByWarm cfg is)

/-- the order in which `try_send` queues the servers; `rrNext` is the pool's `next` counter -/
def order (cfg : Cfg) (rrNext : Nat) : List Nat :=
  let idx := List.range cfg.servers.length
  match cfg.strategy with
  | .user => idx
  | .qs => sortByWarm cfg idx
  | .rr =>
    let c := if cfg.ncr > 1 then cfg.ncr else 1
    if c < idx.length then rotateLeft idx (rrNext % idx.length) else idx

/-- value of the `next` counter after `pre` earlier lookups -/
def rrNextAfter (cfg : Cfg) (pre : Nat) : Nat :=
  let c := if cfg.ncr > 1 then cfg.ncr else 1
  if c < cfg.servers.length then pre * c else 0

def initState (cfg : Cfg) (rrNext : Nat) (t0 : Nat) (conns : List Conn) : PState :=
  { queue := order cfg rrNext, busy := [], backoff := BACKOFF_START, disableUdp := false,
    err := .noconn, clock := t0, conns := conns, log := [] }

/-- `try_send` started at `t0`: `deadline = Instant::now() + options.timeout` -/
def trySend (cfg : Cfg) (rrNext t0 : Nat) (conns : List Conn) (fuel : Nat) : Option (Res × PState) :=
  run cfg (t0 + cfg.timeout) fuel (initState cfg rrNext t0 conns)

/-! ## `send`: the answer address filter

After the (shared) lookup, `send` drops the address records the configured `AccessControlSet` denies:
an answer that loses all its answer records becomes `NoRecordsFound(NXDomain)`; the pool is NOT asked
again.  The scripted servers answer from one network per protocol, so the filter is a pair of flags. -/

def filterRes (denyUdp denyTcp : Bool) : Res → Res
  | .ans i .udp => if denyUdp then .err .nx else .ans i .udp
  | .ans i .tcp => if denyTcp then .err .nx else .ans i .tcp
  | r => r

/-! ## consecutive lookups on one pool, and the retry layer above it

`RetryDnsHandle` (crates/net/src/xfer/retry_dns_handle.rs, what `options.attempts` configures) re-sends
a failed request through the pool: never after `NoConnections` or a negative response, without
counting after `Busy`, otherwise while attempts remain.  Every (re)send is a new `try_send`: the
round-robin counter advances and the servers keep their connections and script positions.
(Requests still in flight when a lookup returns are dropped: `cancelInFlight`.) -/

structure Pool where
  conns : List Conn
  rrNext : Nat
  clock : Nat
  log : List (Nat × Xch)
  deriving Repr, Inhabited

/-- one `NameServerPool::send` at `p.clock` -/
def Pool.lookup (cfg : Cfg) (p : Pool) (fuel : Nat) : Option (Res × Pool) :=
  match trySend cfg p.rrNext p.clock p.conns fuel with
  | none => none
  | some (r, st) =>
    let c := if cfg.ncr > 1 then cfg.ncr else 1
    some (r, { conns := st.conns, rrNext := if c < cfg.servers.length then p.rrNext + c else p.rrNext,
               clock := st.clock, log := p.log ++ st.log })

/-- `RetrySendStream::poll_next` with `remaining_attempts = attempts` -/
def Pool.retry (cfg : Cfg) (fuel : Nat) : Nat → Nat → Pool → Option (Res × Pool)
  | 0, _, _ => none
  | sends + 1, remaining, p =>
    match p.lookup cfg fuel with
    | none => none
    | some (.ans i pr, p') => some (.ans i pr, p')
    | some (.err e, p') =>
      if remaining = 0 then some (.err e, p')
      else if e = .noconn || e = .nx || e = .nodata then some (.err e, p')
      else if e = .busy then Pool.retry cfg fuel sends remaining p'
      else Pool.retry cfg fuel sends (remaining - 1) p'

/-- `RetrySendStream` over any handle: `outs` are the results of the successive sends (the last one
repeating); returns the final result and the number of sends.  `Busy` is re-sent without counting. -/
def retryPlain : Nat → Nat → Nat → List (Option Err) → Option (Option Err × Nat)
  | 0, _, _, _ => none
  | fuel + 1, remaining, sent, outs =>
    match outs with
    | [] => none
    | o :: rest =>
      let rest' := if rest.isEmpty then [o] else rest
      match o with
      | none => some (none, sent + 1)
      | some e =>
        if remaining = 0 then some (some e, sent + 1)
        else if e = .noconn || e = .nx || e = .nodata then some (some e, sent + 1)
        else if e = .busy then retryPlain fuel remaining (sent + 1) rest'
        else retryPlain fuel (remaining - 1) (sent + 1) rest'

/-- `m` lookups one after the other, `gap` ms apart; `attempts = none`: straight through the pool -/
def Pool.seq (cfg : Cfg) (fuel : Nat) (attempts : Option Nat) (gap : Nat) :
    Nat → Pool → List (Res × Nat) → Option (List (Res × Nat) × Pool)
  | 0, p, acc => some (acc.reverse, p)
  | m + 1, p, acc =>
    match (match attempts with
      | none => p.lookup cfg fuel
      | some a => Pool.retry cfg fuel (a + 2) a p) with
    | none => none
    | some (r, p') => Pool.seq cfg fuel attempts gap m { p' with clock := p'.clock + gap } ((r, p'.clock) :: acc)

/-! ## `send`: de-duplication of identical in-flight queries

`active_requests : HashMap<CacheKey, SharedLookup>` for ONE key.  A caller that finds an entry awaits
a clone of the shared lookup; otherwise it starts a lookup (`try_send`), inserts it and becomes its
*creator*.  Only the creator removes the entry — when its own future finishes or is dropped
(`ActiveRequestCleanup`).  A shared lookup keeps running as long as one clone is awaited. -/

inductive DEv
  | call (c : Nat)       -- caller `c` polls `send` for the first time
  | finish (l : Nat)     -- lookup `l` completes; everybody awaiting it returns its result
  | cancel (c : Nat)     -- caller `c`'s future is dropped
  deriving DecidableEq, Repr

structure Waiter where
  caller : Nat
  lookup : Nat
  creator : Bool
  deriving DecidableEq, Repr

structure Dedup where
  /-- lookup registered in the map for this key -/
  active : Option Nat := none
  /-- lookups (`try_send` invocations) started so far; they are numbered 1, 2, … -/
  started : Nat := 0
  waiting : List Waiter := []
  /-- (caller, lookup whose result it received) -/
  served : List (Nat × Nat) := []
  deriving Repr

def Dedup.step (d : Dedup) : DEv → Dedup
  | .call c =>
    match d.active with
    | some l => { d with waiting := d.waiting ++ [⟨c, l, false⟩] }
    | none =>
      { d with active := some (d.started + 1), started := d.started + 1,
               waiting := d.waiting ++ [⟨c, d.started + 1, true⟩] }
  | .finish l =>
    let done := d.waiting.filter (fun w => w.lookup = l)
    { d with
      waiting := d.waiting.filter (fun w => w.lookup ≠ l)
      served := d.served ++ done.map (fun w => (w.caller, l))
      -- the creator returns and its guard removes the key
      active := if done.any (fun w => w.creator) then none else d.active }
  | .cancel c =>
    { d with
      waiting := d.waiting.filter (fun w => w.caller ≠ c)
      -- dropping the creator's future drops its guard: the key is removed although the shared
      -- lookup may still be running for the other waiters
      active := if d.waiting.any (fun w => w.caller = c && w.creator) then none else d.active }

def Dedup.run (d : Dedup) (evs : List DEv) : Dedup := evs.foldl Dedup.step d

/-! ## `send`: the sharing map, task by task

`Dedup` above lets a finished lookup serve all its waiters in one step.  The real tasks are polled one
by one, can be dropped at any point and can be resumed late, so this finer machine has explicit
schedules.  State of the map for ONE key:

* `entry`: the lookup registered in `active_requests`;
* a lookup is *released* once its upstream answer is available, *done* once a task awaiting it has been
  polled after that (the `Shared` future then holds the result for every clone);
* every alive task awaits one lookup and knows whether it is its creator.  As in the code, ONLY the
  creator holds an `ActiveRequestCleanup`: it removes the key (unconditionally) when the creator
  returns or is dropped; a waiter's return or drop never touches the map. -/

inductive SEv
  | start (x : Nat)     -- task `x` calls `send` and is polled once
  | drop (x : Nat)      -- task `x`'s future is dropped
  | release (l : Nat)   -- the upstream answer of lookup `l` becomes available
  | poll (x : Nat)      -- task `x` is polled (possibly long after its lookup finished)
  deriving DecidableEq, Repr

structure Task where
  id : Nat
  lookup : Nat
  creator : Bool
  deriving DecidableEq, Repr

structure Share where
  entry : Option Nat := none
  /-- lookups (= `try_send` invocations = upstream exchanges of a one-server pool) started: 1, 2, … -/
  started : Nat := 0
  released : List Nat := []
  tasks : List Task := []
  /-- (task, lookup whose result it returned), in the order of returning -/
  served : List (Nat × Nat) := []
  deriving DecidableEq, Repr

def Share.step (s : Share) : SEv → Share
  | .start x =>
    match s.entry with
    | some l =>
      -- joins the registered lookup; its first poll already returns if the answer is available
      if l ∈ s.released then { s with served := s.served ++ [(x, l)] }
      else { s with tasks := s.tasks ++ [⟨x, l, false⟩] }
    | none =>
      let l := s.started + 1
      if l ∈ s.released then
        -- creates, is answered in its first poll, returns: guard dropped, key removed again
        { s with started := l, served := s.served ++ [(x, l)] }
      else { s with started := l, entry := some l, tasks := s.tasks ++ [⟨x, l, true⟩] }
  | .drop x =>
    { s with
      tasks := s.tasks.filter (fun t => t.id ≠ x)
      entry := if s.tasks.any (fun t => t.id = x && t.creator) then none else s.entry }
  | .release l => { s with released := l :: s.released }
  | .poll x =>
    match s.tasks.find? (fun t => t.id = x) with
    | none => s
    | some t =>
      if t.lookup ∈ s.released then
        { s with
          tasks := s.tasks.filter (fun t => t.id ≠ x)
          served := s.served ++ [(x, t.lookup)]
          entry := if t.creator then none else s.entry }
      else s

def Share.run (s : Share) (evs : List SEv) : Share := evs.foldl Share.step s

end HickoryVerif.Pool
