/-
C11 ∘ C01: the server gate fed with the verdict of the *modelled* request decoder.

`ServerContext::handle_request` calls `MessageRequest::read_with_queries` on the decoder it has
already moved past the header and the question.  `Model/ServerGate.lean` takes the verdict of
that call as a parameter (`Body`); here it is computed from the request bytes by the C01 model of
`Request::from_bytes` (`Wire.readRequest` = `Header::read`, `Queries::read`,
`read_with_queries` with every RDATA codec modelled), so that the composed function `serve` has
no parameter left that comes from the real decoder.
-/
import HickoryVerif.Model.ServerGate
import HickoryVerif.Model.Wire

namespace HickoryVerif
namespace ServerGate

/-- verdict of the request decoder on the whole message: it fails, or it succeeds and the request
carries no OPT / an OPT with this EDNS version.  (A panic outcome is mapped to `bad`; there is
none: `C01.readRequest_no_panic`.) -/
def bodyOf (buf : Bytes) : Body :=
  match Rd.run (Wire.readRequest (fun _ => Rd.fail)) buf 0 with
  | .ok (r, _) => .ok (r.edns.map (·.version))
  | .err => .bad
  | .panic _ => .bad

/-- `ServerContext::handle_request` for one raw message, nothing taken from the real decoder. -/
def serve (cfg : Config) (src : Ip) (buf : Bytes) : Gate := handleRequest cfg src buf (bodyOf buf)

/-- The other public way in: `Request::from_bytes` (header, question, body — `Err` if any of them
fails) followed by `<Catalog as RequestHandler>::handle_request` on the result, without the gate of
`ServerContext` in front (no QR / opcode gate, no access list).  `none`: `from_bytes` failed. -/
def catalogEntry (cat : Catalog) (buf : Bytes) : Option Gate :=
  match readHeader buf with
  | none => none
  | some h =>
    match readQueries buf h.qd with
    | .ok q =>
      (match bodyOf buf with
       | .bad => none
       | .ok edns => some (catalogHandle cat h q edns))
    | _ => none

/-- what the two decoders say about the message once header and question are readable — printed
on every reply line so that the body verdict is compared with the real decoder's even where a
gate in front of it (opcode, access list) decides the response -/
def bodyToken (buf : Bytes) : String :=
  match readHeader buf with
  | none => "na"
  | some h =>
    match readQueries buf h.qd with
    | .ok _ =>
      (match bodyOf buf with
       | .bad => "bad"
       | .ok none => "ok:-"
       | .ok (some v) => "ok:" ++ toString v)
    | _ => "na"

end ServerGate
end HickoryVerif
