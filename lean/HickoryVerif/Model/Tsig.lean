/-
Model of the TSIG code (C13), over raw message bytes:

* `TSIG::emit_tsig_for_mac`, `signed_bitmessage_to_buf`      crates/proto/src/rr/rdata/tsig.rs
* `TSigner::verify_message_byte`, `encode_response_tbs`,
  `TSigResponseContext::sign`, `TSigVerifier::verify`        crates/proto/src/rr/tsig.rs
* `SqliteZoneHandler::{authorized_tsig, authorize_update,
  authorize_axfr}`                                            crates/server/src/store/sqlite/mod.rs
* the dispatch of `Catalog::handle_request` as far as it decides whether one of the two
  guarded operations (UPDATE, AXFR) reaches the zone handler   crates/server/src/zone_handler/catalog.rs

The HMAC is never computed: every signer carries an oracle `macOK tbs tag` ("`hmac::verify(key,
tbs, tag)` succeeds").  In the correspondence run the harness evaluates it with the real HMAC.

This is the code *after* the repairs cdba272 / 46a3964 / 84e713d in /repo: no arithmetic or
assertion panic site is left in this path (`counts.answers as usize + counts.authorities as usize`;
a TSIG among the first ARCOUNT − 1 additional records is an `Err`; `time.saturating_sub(fudge)`),
the header is digested as received, and a TSIG RR whose CLASS is not ANY or whose TTL is not 0 is
rejected.  The remaining `debug_assert!(sig.is_none())` after the answer/authority records cannot
fire: `read_records(.., is_additional = false, ..)` never returns a signature
(`C13.readRecords_nonadd_state`).
-/
import HickoryVerif.Model.TsigWalk

set_option linter.unusedVariables false

namespace HickoryVerif
namespace Tsig

/-! ### TSIG variables -/

/-- `Name::emit` under `NameEncoding::UncompressedLowercase`.  (The two error branches of
`Name::emit` — label > 63, name > 255 — are unreachable for a name that was decoded from the
wire or configured through `Name`'s constructors: C04 `constructors_bounded`.) -/
def lowerWire (n : Name) : Bytes := Name.wire n.toLowercase

/-- `TSIG::emit_tsig_for_mac(encoder, key_name)`:
key name, CLASS = ANY (constant), TTL = 0 (constant), algorithm name, 48-bit time, fudge, error,
other len, other data.  Neither the MAC, the MAC size nor the original id are part of it. -/
def tsigVars (keyName : Name) (d : TsigData) : Bytes :=
  lowerWire keyName ++ [0, 255] ++ [0, 0, 0, 0] ++ lowerWire d.algName ++ be48 d.time ++
    be16 d.fudge ++ be16 d.error ++ be16 d.other.length ++ d.other

/-- the `else` branch for later messages of a chain: time and fudge only -/
def tsigTimers (d : TsigData) : Bytes := be48 d.time ++ be16 d.fudge

/-- `(previous_hash.len() as u16).emit; emit_slice(previous_hash)` -/
def prevPart : Option Bytes → Bytes
  | none => []
  | some m => be16 m.length ++ m

/-! ### `signed_bitmessage_to_buf` -/

/-- The three `read_records` calls of `signed_bitmessage_to_buf`, started after the question
section at `pos`; returns the TSIG record (its `start` is `end_data`). -/
def locateSig (buf : Bytes) (h : Hdr) (pos : Nat) (rdok : Bool) : Outcome SigRec :=
  if rdok = false then .err else
  match readRecords buf false (h.opcode == 5) (h.an + h.ns) pos none none with
  | .ok (p1, _, _) =>
    match readRecords buf true (h.opcode == 5) (h.ar - 1) p1 none none with
    | .ok (p2, sig2, _) =>
      if sig2.isSome then .err else        -- "TSIG signature record must be the last record …"
      match readRecords buf true (h.opcode == 5) 1 p2 none none with
      | .ok (_, some s, _) =>
        if s.rclass ≠ 255 ∨ s.ttl ≠ 0 then .err     -- "TSIG record must have class ANY and TTL 0"
        else .ok s
      | .ok (_, none, _) => .err                    -- "TSIG signature record not found"
      | .err => .err
      | .panic s => .panic s
    | .err => .err
    | .panic s => .panic s
  | .err => .err
  | .panic s => .panic s

/-- the TBS bytes once the TSIG record is known:
previous MAC (length-prefixed) ‖ the received header with id := Original ID and ARCOUNT − 1
(`hdrDigest`) ‖ the received octets `[12, start of TSIG RR)` verbatim ‖ TSIG variables. -/
def tbsOf (buf : Bytes) (h : Hdr) (s : SigRec) (prev : Option Bytes) (first : Bool) : Bytes :=
  prevPart prev ++ hdrDigest buf s.data.oid (h.ar - 1) ++
    (buf.drop 12).take (s.start - 12) ++
    (if first then tsigVars s.name s.data else tsigTimers s.data)

/-- `signed_bitmessage_to_buf(message, previous_hash, first_message)` -/
def signedBitmessageToBuf (buf : Bytes) (prev : Option Bytes) (first : Bool) (rdok : Bool) :
    Outcome (Bytes × SigRec) :=
  match readHdr buf with
  | none => .err
  | some h =>
    if h.ar = 0 then .err else                      -- "missing tsig from response …"
    match skipQueries buf h.qd 12 with
    | .ok pos =>
      match locateSig buf h pos rdok with
      | .ok s => .ok (tbsOf buf h s prev first, s)
      | .err => .err
      | .panic m => .panic m
    | .err => .err
    | .panic m => .panic m

/-! ### algorithms -/

/-- ASCII of the three supported algorithm names (`TsigAlgorithm::from_name` matches the
presentation form case-sensitively; these names are single labels without special characters) -/
def algLabel (bits : Nat) : Bytes :=
  [104, 109, 97, 99, 45, 115, 104, 97] ++     -- "hmac-sha"
    (if bits = 256 then [50, 53, 54] else if bits = 384 then [51, 56, 52] else [53, 49, 50])

/-- `tsig.algorithm == signer.algorithm` for a supported signer algorithm (256 / 384 / 512) -/
def algIs (n : Name) (bits : Nat) : Bool := n.labels == [algLabel bits]

/-- `TsigAlgorithm::output_len` -/
def outLen (bits : Nat) : Nat := bits / 8

/-! ### `TSigner::verify_message_byte` -/

/-- a configured `TSigner`: key name, algorithm (256/384/512), fudge, and the MAC oracle of its
key (`hmac::verify(key, tbs, tag).is_ok()`) -/
structure Signer where
  name : Name
  alg : Nat
  fudge : Nat
  macOK : Bytes → Bytes → Bool

structure Verified where
  mac : Bytes
  time : Nat
  lo : Nat
  hi : Nat
  deriving Repr, DecidableEq

def verifyMessageByte (sg : Signer) (buf : Bytes) (prev : Option Bytes) (first rdok : Bool) :
    Outcome Verified :=
  match signedBitmessageToBuf buf prev first rdok with
  | .ok (tbv, r) =>
    if (Name.eq r.name sg.name && algIs r.data.algName sg.alg) = false then .err   -- TsigWrongKey
    else if r.data.mac.length < outLen sg.alg then .err                             -- truncated
    else if sg.macOK tbv r.data.mac = false then .err                               -- HmacInvalid
    -- `time.saturating_sub(fudge)` is the truncated subtraction of `Nat`
    else .ok { mac := r.data.mac, time := r.data.time,
               lo := r.data.time - r.data.fudge, hi := r.data.time + r.data.fudge }
  | .err => .err
  | .panic m => .panic m

/-! ### client: `TSigVerifier::verify` -/

structure Verifier where
  signer : Signer
  previous : Bytes
  remoteTime : Nat
  requestTime : Nat

/-- Returns the updated verifier on acceptance.  (The final `DnsResponse::from_buffer` re-parses
bytes that `signed_bitmessage_to_buf` has already walked; its outcome is the `parseOK` bit.) -/
def Verifier.verify (v : Verifier) (buf : Bytes) (rdok parseOK : Bool) : Outcome Verifier :=
  match verifyMessageByte v.signer buf (some v.previous) (v.remoteTime == 0) rdok with
  | .ok r =>
    if r.time ≥ v.remoteTime ∧ r.lo ≤ v.requestTime ∧ v.requestTime < r.hi then
      if parseOK then .ok { v with previous := r.mac, remoteTime := r.time } else .err
    else .err
  | .err => .err
  | .panic m => .panic m

/-- One `TSigVerifier` fed a sequence of messages (a multi-message reply): a rejected message
leaves the verifier as it was (the Rust updates `previous_signature` / `remote_time` only on
acceptance), an accepted one chains its MAC and time into the state.  Returns the final state and
the verdict per message. -/
def Verifier.verifySeq (v : Verifier) : List (Bytes × Bool × Bool) → Outcome (Verifier × List Bool)
  | [] => .ok (v, [])
  | (buf, rdok, parseOK) :: rest =>
    match v.verify buf rdok parseOK with
    | .ok v' =>
      match v'.verifySeq rest with
      | .ok (vf, vs) => .ok (vf, true :: vs)
      | .err => .err
      | .panic m => .panic m
    | .err =>
      match v.verifySeq rest with
      | .ok (vf, vs) => .ok (vf, false :: vs)
      | .err => .err
      | .panic m => .panic m
    | .panic m => .panic m

/-! ### client: `DnsMultiplexer::poll_next` for ONE outstanding signed request -/

/-- what the multiplexer does with one received message, seen from the caller's response stream -/
inductive Delivery where
  /-- nothing reaches the caller: the message does not decode as a response
  (`DnsResponse::from_buffer` fails, debug log only) or carries another id -/
  | dropped
  /-- `Ok(response)` -/
  | ok
  /-- `Err(..)` (the verifier rejected the message); the request stays active -/
  | err
  deriving Repr, DecidableEq

/-- One received message for the active request `reqId` whose `ActiveRequest.verifier` is `v`
(a signed request always has one: it is created by `finalize` in `send_message` and lives in the
`ActiveRequest` until the request is dropped; `verify` is called through `&mut`, so a failure leaves
it in place, unchanged).  `parseOK` = `DnsResponse::from_buffer(buffer).is_ok()`. -/
def muxStep (v : Verifier) (reqId : Nat) (buf : Bytes) (rdok parseOK : Bool) :
    Outcome (Verifier × Delivery) :=
  if parseOK = false then .ok (v, .dropped)
  else if rd16 buf 0 ≠ some reqId then .ok (v, .dropped)
  else
    match v.verify buf rdok parseOK with
    | .ok v' => .ok (v', .ok)
    | .err => .ok (v, .err)
    | .panic m => .panic m

/-- `UdpRequest::send` after the datagram was sent, for a request carrying a verifier: up to three
received datagrams (all from the name server's address; the source check is C16's) are examined.
A datagram that does not decode as a response ends the attempt with an error
(`DnsResponse::from_buffer(..)?`); one with another id or with a question that is not among the
request's is skipped; the first one that gets through is handed to `TSigVerifier::verify` and its
verdict IS the result — no header bit (TC, AA, RA, rcode …) short-cuts the verification.  When the
socket has nothing more (scripted: an I/O error) or three datagrams were skipped: error.
`qok` = "every question of the response is among the request's questions". -/
def udpRecv (v : Verifier) (reqId : Nat) :
    Nat → List (Bytes × Bool × Bool × Bool) → Outcome (Option Verifier)
  | 0, _ => .ok none                                 -- "udp receive attempts exceeded"
  | _, [] => .ok none                                -- recv_from error
  | k + 1, (buf, rdok, parseOK, qok) :: rest =>
    if parseOK = false then .ok none
    else if rd16 buf 0 ≠ some reqId then udpRecv v reqId k rest
    else if qok = false then udpRecv v reqId k rest
    else
      match v.verify buf rdok parseOK with
      | .ok v' => .ok (some v')
      | .err => .ok none
      | .panic m => .panic m

/-- `UdpRequest::send` for a request that is NOT signed (`should_sign_message` is false, or no
signer is configured): the first datagram that passes the id and question checks is returned as
it is. -/
def udpRecvPlain (reqId : Nat) : Nat → List (Bytes × Bool × Bool × Bool) → Bool
  | 0, _ => false
  | _, [] => false
  | k + 1, (buf, _, parseOK, qok) :: rest =>
    if parseOK = false then false
    else if rd16 buf 0 ≠ some reqId then udpRecvPlain reqId k rest
    else if qok = false then udpRecvPlain reqId k rest
    else true

/-- `DnsMultiplexer::poll_next` for a request without verifier: a decodable response with the
request's id is delivered `Ok` -/
def muxStepPlain (reqId : Nat) (buf : Bytes) (parseOK : Bool) : Delivery :=
  if parseOK = false then .dropped
  else if rd16 buf 0 ≠ some reqId then .dropped
  else .ok

/-- a history of received messages on one request id -/
def muxRun (v : Verifier) (reqId : Nat) :
    List (Bytes × Bool × Bool) → Outcome (Verifier × List Delivery)
  | [] => .ok (v, [])
  | (buf, rdok, parseOK) :: rest =>
    match muxStep v reqId buf rdok parseOK with
    | .ok (v', d) =>
      match muxRun v' reqId rest with
      | .ok (vf, ds) => .ok (vf, d :: ds)
      | .err => .err
      | .panic m => .panic m
    | .err => .err
    | .panic m => .panic m

/-! ### client: which requests are signed (`TSigner::should_sign_message`) -/

/-- the query types of the `qd` questions starting at `pos` (`none` if they cannot be read) -/
def queryTypes (buf : Bytes) : Nat → Nat → Option (List Nat)
  | 0, _ => some []
  | k + 1, pos =>
    match readQuery buf pos with
    | .ok (_, t, _, p) => (queryTypes buf k p).map (t :: ·)
    | _ => none

/-- `should_sign_message`: opcode UPDATE (5) or NOTIFY (4), or some question of type AXFR (252) or
IXFR (251).  Everything else leaves the client unsigned (and unverified). -/
def shouldSign (buf : Bytes) : Option Bool :=
  match readHdr buf with
  | none => none
  | some h =>
    match queryTypes buf h.qd 12 with
    | none => none
    | some ts => some (h.opcode == 5 || h.opcode == 4 || ts.any (fun t => t == 252 || t == 251))

/-! ### server: response TSIG -/

/-- what `TSigResponseContext::sign` will attach to the reply -/
inductive RespKind where
  /-- MAC over `encode_response_tbs`; `error` = 0 or 18 (BADTIME) -/
  | signed (sg : Signer) (requestMac : Bytes) (error : Nat)
  /-- unsigned, error 16 (BADSIG), signer's name / algorithm / fudge -/
  | badSig (sg : Signer)
  /-- unsigned, error 17 (BADKEY), the unknown key name echoed, hmac-sha256, fudge 300 -/
  | unknownKey (keyName : Name)

/-- `TSigner::encode_response_tbs(previous_mac, encoded_response, stub)` -/
def encodeResponseTbs (sg : Signer) (requestMac resp : Bytes) (stub : TsigData) : Bytes :=
  be16 requestMac.length ++ requestMac ++ resp ++ tsigVars sg.name stub

/-- `TSIG::stub(oid, time, signer)` with an optional error -/
def stubOf (sg : Signer) (oid time error : Nat) : TsigData :=
  { algName := { labels := [algLabel sg.alg], fqdn := false }
    time := time, fudge := sg.fudge, mac := [], oid := oid, error := error, other := [] }

/-! ### server: request parse summary (`Request::from_bytes`) -/

structure Req where
  hdr : Hdr
  qname : Name
  qtype : Nat
  qclass : Nat
  sig : Option SigRec
  edns : Option Nat

/-- `Header::read` + `MessageRequest::read`: exactly one question, three `read_records` calls. -/
def parseRequest (buf : Bytes) (rdok : Bool) : Outcome Req :=
  match readHdr buf with
  | none => .err
  | some h =>
    if h.qd ≠ 1 then .err else                     -- BadQueryCount
    match readQuery buf 12 with
    | .ok (qn, qt, qc, pos) =>
      if rdok = false then .err else
          match readRecords buf false (h.opcode == 5) h.an pos none none with
      | .ok (p1, _, _) =>
        match readRecords buf false (h.opcode == 5) h.ns p1 none none with
        | .ok (p2, _, _) =>
          match readRecords buf true (h.opcode == 5) h.ar p2 none none with
          | .ok (_, sig, edns) =>
            .ok { hdr := h, qname := qn, qtype := qt, qclass := qc, sig := sig, edns := edns }
          | .err => .err
          | .panic s => .panic s
        | .err => .err
        | .panic s => .panic s
      | .err => .err
      | .panic s => .panic s
    | .err => .err
    | .panic s => .panic s

/-! ### server: authorisation -/

inductive AxfrPolicy where
  | deny | allowAll | allowSigned
  deriving Repr, DecidableEq

structure ZoneCfg where
  origin : Name
  allowUpdate : Bool
  axfr : AxfrPolicy
  signers : List Signer
  /-- the zone is served by `InMemoryZoneHandler` / `FileZoneHandler` instead of
  `SqliteZoneHandler`: no TSIG processing at all — `zone_transfer` admits an AXFR iff its policy is
  `AllowAll`, `update` is the trait default (`NotImp`) -/
  inMemory : Bool := false
  /-- `ZoneType` of the handler: 0 Primary, 1 Secondary, 2 External.  `Catalog::update` applies an
  UPDATE only to a Primary zone (Secondary ⇒ NOTIMP "forwarding not yet implemented", anything else
  ⇒ NOTAUTH), without consulting the handler; transfers and queries do not look at it. -/
  zoneType : Nat := 0

/-- result of an authorisation: `rcode = 0` is `Ok(())` -/
structure Auth where
  rcode : Nat
  resp : Option RespKind

def Auth.ok (a : Auth) : Bool := a.rcode == 0

def NOTIMP : Nat := 4
def REFUSED : Nat := 5
def NOTAUTH : Nat := 9
def BADSIG : Nat := 16
def BADKEY : Nat := 17
def BADTIME : Nat := 18

/-- `SqliteZoneHandler::authorized_tsig(tsig, request, now)` -/
def authorizedTsig (cfg : ZoneCfg) (tsig : SigRec) (buf : Bytes) (now : Nat) (rdok : Bool) :
    Outcome Auth :=
  match cfg.signers.find? (fun sg => Name.eq sg.name tsig.name) with
  | none => .ok { rcode := NOTAUTH, resp := some (.unknownKey tsig.name) }
  | some sg =>
    match verifyMessageByte sg buf none true rdok with
    | .ok r =>
      if r.lo ≤ now ∧ now < r.hi then
        .ok { rcode := 0, resp := some (.signed sg tsig.data.mac 0) }
      else
        .ok { rcode := NOTAUTH, resp := some (.signed sg tsig.data.mac BADTIME) }
    | .err => .ok { rcode := NOTAUTH, resp := some (.badSig sg) }
    | .panic m => .panic m

/-- `SqliteZoneHandler::authorize_update(request, now)`, preceded by the zone-type gate of
`Catalog::update` (which answers for a non-Primary zone without calling the handler) -/
def authorizeUpdate (cfg : ZoneCfg) (req : Req) (buf : Bytes) (now : Nat) (rdok : Bool) :
    Outcome Auth :=
  if cfg.zoneType = 1 then .ok { rcode := NOTIMP, resp := none } else
  if cfg.zoneType ≠ 0 then .ok { rcode := NOTAUTH, resp := none } else
  if cfg.inMemory then .ok { rcode := NOTIMP, resp := none } else
  if cfg.allowUpdate = false then .ok { rcode := REFUSED, resp := none } else
  match req.sig with
  | some tsig => authorizedTsig cfg tsig buf now rdok
  | none => .ok { rcode := REFUSED, resp := none }

/-- `SqliteZoneHandler::authorize_axfr(request, now)` -/
def authorizeAxfr (cfg : ZoneCfg) (req : Req) (buf : Bytes) (now : Nat) (rdok : Bool) :
    Outcome Auth :=
  if cfg.inMemory then
    (if cfg.axfr = .allowAll then .ok { rcode := 0, resp := none }
     else .ok { rcode := REFUSED, resp := none }) else
  match cfg.axfr with
  | .deny => .ok { rcode := REFUSED, resp := none }
  | .allowAll => .ok { rcode := 0, resp := none }
  | .allowSigned =>
    match req.sig with
    | some tsig => authorizedTsig cfg tsig buf now rdok
    | none => .ok { rcode := REFUSED, resp := none }

/-! ### server: `Catalog::handle_request` as far as the two guarded operations go -/

/-- what the catalog does with a parsed request, for a catalog holding the single zone `cfg` -/
inductive Dispatch where
  /-- EDNS version > 0 ⇒ BADVERS, QR = 1 ⇒ FORMERR, other opcode ⇒ NOTIMP, UPDATE whose zone
  type is not SOA ⇒ FORMERR, name outside the zone, ordinary query: none of them reaches
  `update` / `zone_transfer` -/
  | other
  | update
  | axfr
  deriving Repr, DecidableEq

def dispatch (cfg : ZoneCfg) (req : Req) : Dispatch :=
  if (match req.edns with | some v => decide (v > 0) | none => false) then .other
  else if req.hdr.isResponse then .other
  else if req.hdr.opcode = 5 then
    if req.qtype = 6 ∧ Name.zoneOf cfg.origin req.qname then .update else .other
  else if req.hdr.opcode = 0 then
    if req.qtype = 252 ∧ Name.zoneOf cfg.origin req.qname then .axfr else .other
  else .other

/-- The decision of the server for one request.
`effect = true`: the update section is handed to `verify_prerequisites / pre_scan /
update_records` (UPDATE), resp. the zone's records are put into the answer (AXFR). -/
structure Decision where
  kind : Dispatch
  effect : Bool
  rcode : Nat
  resp : Option RespKind

def serve (cfg : ZoneCfg) (buf : Bytes) (now : Nat) (rdok : Bool) : Outcome (Option Decision) :=
  match parseRequest buf rdok with
  | .err => .ok none                               -- never reaches the catalog
  | .panic m => .panic m
  | .ok req =>
    match dispatch cfg req with
    | .other => .ok (some { kind := .other, effect := false, rcode := 0, resp := none })
    | .update =>
      match authorizeUpdate cfg req buf now rdok with
      | .ok a => .ok (some { kind := .update, effect := a.ok, rcode := a.rcode, resp := a.resp })
      | .err => .err
      | .panic m => .panic m
    | .axfr =>
      match authorizeAxfr cfg req buf now rdok with
      | .ok a => .ok (some { kind := .axfr, effect := a.ok, rcode := a.rcode, resp := a.resp })
      | .err => .err
      | .panic m => .panic m

/-- What the catalog finally sends.  Every TSIG the server attaches carries `time = now`; a clock of
2⁴⁸ s or more does not fit the 48-bit field: `TSIG::emit` fails ("invalid time, overflow 48 bit
counter"), `signer.sign` / the encoding of the signed reply fails, and the catalog answers SERVFAIL,
unsigned, without records — for an UPDATE *after* `update_records` has run (the zone keeps the
change), for an AXFR instead of the zone data. -/
def SERVFAIL : Nat := 2

def respond (now : Nat) (d : Decision) : Decision :=
  if d.resp.isSome ∧ now ≥ 281474976710656 then
    { d with rcode := SERVFAIL, resp := none,
             effect := (if d.kind = .axfr then false else d.effect) }
  else d

/-! ### decidable class of the recorded finding -/

/-- `C13.ClockBeyond48Bits`: the server clock does not fit the 48-bit time of a TSIG; `respond`
then turns every reply that should carry a TSIG into an unsigned SERVFAIL — after an accepted
update has been applied. -/
def ClockBeyond48Bits (now : Nat) : Prop := now ≥ 281474976710656
instance (now : Nat) : Decidable (ClockBeyond48Bits now) := by
  unfold ClockBeyond48Bits; exact inferInstance

/-- `C13.ReplyTruncatedAfterSigning`: the reply is MAC'ed over its unlimited encoding
(`unsignedLen` octets) but sent under the transport's size limit; with the TSIG RR it does not
fit, so records covered by the MAC are dropped before sending.  (The size-limited encoder itself
is modelled in C03; here only the class of the recorded finding.) -/
def ReplyTruncatedAfterSigning (limit unsignedLen tsigLen : Nat) : Prop :=
  unsignedLen + tsigLen > limit
instance (a b c : Nat) : Decidable (ReplyTruncatedAfterSigning a b c) := by
  unfold ReplyTruncatedAfterSigning; exact inferInstance

end Tsig
end HickoryVerif
