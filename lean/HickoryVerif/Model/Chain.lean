/-
C07 — model of the DNSSEC validator's decision logic (`crates/net/src/dnssec/mod.rs`):
`DnssecDnsHandle::send` / `verify_response` / `verify_rrsets` / `verify_dnskey_rrset` / `verify_dnskey` /
`verify_default_rrset` / `verify_rrsig_with_keys` / `find_ds_records` / `fetch_ds_records`, and the
server's mapping of the outcome (`build_forwarded_response`: Bogus → SERVFAIL unless CD, Secure → AD).

The model mirrors the code as it is, including the place where the Rust panics
(`dnskey_proofs.pop().unwrap()` on an empty DNSKEY RRset) and the branches that make up the findings
recorded for this property.  What is *not* modelled but taken as a parameter (`Env`):

* the upstream `up : Query → Resp` (the wrapped `DnsHandle`; a function of the query — the harness'
  scripted upstream answers a repeated query identically),
* `anchor`  — `TrustAnchors::contains(dnskey.public_key())`,
* `covers`  — `DS::covers(name, dnskey)`,
* `sigRes`  — the whole of `verify_rrset_with_dnskey` for a key whose proof is Secure (RRSIG validity
  window, owner/type/labels/signer/tag checks and the signature itself — property C06),
* `nsec`    — `verify_nsec` / `verify_nsec3` on the selected records (properties C08 / C09).

The per-record TTL adjustment and the `ValidationCache` are not modelled (C06).  The model corresponds
to the validator with the cache switched off (`validation_cache_size(0)`), which is how the harness
runs the implementation for the comparison; it runs every case a second time with the default cache
and evaluates the property's oracle on both outcomes.  The cache is visible only in validation loops
that run into the depth backstop (a verdict computed with little depth left is reused where more is left).

Names are lists of lower-case labels (leftmost first, `[]` is the root); the harness generates
lower-case names only.  Fuel = the code's `request_depth` budget: `validate (max_request_depth + 1) 0`.
-/
import HickoryVerif.Basic
import HickoryVerif.Generated.Consts

namespace HickoryVerif.Chain

/-! ## vocabulary -/

abbrev DName := List String

namespace DName
def isRoot (n : DName) : Bool := n.isEmpty
/-- `Name::base_name` (the root's base name is the root) -/
def baseName : DName → DName
  | [] => []
  | _ :: t => t
/-- `Name::num_labels`: a leading `*` is not counted -/
def numLabels : DName → Nat
  | "*" :: t => t.length
  | n => n.length
end DName

/-- `Name::zone_of` on lower-case names: `z` is a suffix of `n` -/
def zoneOf (z n : DName) : Bool := z.length ≤ n.length && n.drop (n.length - z.length) == z

inductive Proof where
  | secure | insecure | bogus | indet
  deriving DecidableEq, Repr, Inhabited

def tNS : Nat := 2
def tSOA : Nat := 6
def tDS : Nat := 43
def tRRSIG : Nat := 46
def tNSEC : Nat := 47
def tDNSKEY : Nat := 48
def tNSEC3 : Nat := 50

/-- A resource record as far as the decision logic looks at it.  `rid` identifies the record's
content (owner, class, type, RDATA — not the TTL); the oracles are indexed by it. -/
structure Rec where
  name : DName
  rtype : Nat
  rid : Nat
  /-- RRSIG: type covered -/
  covered : Nat := 0
  /-- RRSIG: signer name -/
  signer : DName := []
  /-- RRSIG: labels field -/
  labels : Nat := 0
  /-- DNSKEY: `calculate_key_tag()`; DS: key tag field; NSEC / NSEC3: 1 iff the type bitmap has SOA -/
  tag : Nat := 0
  /-- DNSKEY / DS: algorithm code; NSEC3: 1 iff the record wraps around (owner hash > next hashed owner) — used by a
  finding-class predicate only -/
  alg : Nat := 0
  /-- DNSKEY / DS: `algorithm().is_supported()` -/
  algSupp : Bool := false
  /-- DS: `digest_type().is_supported()` -/
  digSupp : Bool := false  -- (for DNSKEY records: the flags make the key usable — zone-key bit set, REVOKE clear; class predicate only)
  proof : Proof := .indet
  deriving DecidableEq, Repr, Inhabited

structure Msg where
  rcode : Nat
  an : List Rec
  ns : List Rec
  ad : List Rec
  deriving DecidableEq, Repr, Inhabited

def Msg.sec (m : Msg) : Nat → List Rec
  | 0 => m.an
  | 1 => m.ns
  | _ => m.ad

def Msg.all (m : Msg) : List Rec := m.an ++ m.ns ++ m.ad

structure Query where
  name : DName
  qtype : Nat
  deriving DecidableEq, Repr, Inhabited

/-- What the wrapped handle returns for a query. -/
inductive UpOut where
  /-- `Ok(response)` -/
  | ok (m : Msg)
  /-- `Err(NoRecordsFound { authorities, response_code, .. })` (the resolver's name-server layer) -/
  | noRecords (m : Msg)
  /-- any other `Err` -/
  | fail
  /-- (driver only) the query does not occur in the replayed trace -/
  | missing
  deriving Repr, Inhabited, DecidableEq

structure Resp where
  /-- index of the exchange in the trace (keys the oracle tables) -/
  qid : Nat
  out : UpOut
  deriving Repr, Inhabited, DecidableEq

/-- `verify_rrset_with_dnskey` for a Secure key: `Ok((Secure, _))`, `Ok((Bogus, None))` (empty RRset), `Err(_)` -/
inductive SigRes where
  | secure | bogus | err
  deriving DecidableEq, Repr, Inhabited

/-- An RRset occurrence: section `sec` of the response to exchange `qid`, owner, type. -/
structure GroupId where
  qid : Nat
  sec : Nat
  name : DName
  rtype : Nat
  deriving DecidableEq, Repr, Inhabited

structure Env where
  up : Query → Resp
  anchor : Nat → Bool
  covers : Nat → Nat → Bool
  sigRes : Nat → Nat → GroupId → SigRes
  /-- exchange, bit mask of the selected authority records, bit mask of the Secure answer RRSIGs -/
  nsec : Nat → Nat → Nat → Proof

/-- Result of `DnssecDnsHandle::send`. `abort` is a Rust panic (`"panic"`) or, in the driver, a
query outside the replayed trace (`"missing"`). -/
inductive Res where
  | ok (m : Msg)
  | errUp
  | errDepth
  | errNsec (p : Proof)
  | abort (why : String)
  deriving Repr, Inhabited, DecidableEq

/-! ## RRset grouping (`RrsetMap::new`) -/

def Rec.isSig (r : Rec) : Bool := r.rtype == tRRSIG
/-- the type an RRSIG is filed under is the type it covers -/
def Rec.gtype (r : Rec) : Nat := if r.isSig then r.covered else r.rtype

abbrev GKey := DName × Nat

def Rec.gkey (r : Rec) : GKey := (r.name, r.gtype)

def groupKeys (sec : List Rec) : List GKey := (sec.map Rec.gkey).eraseDups

def groupRecs (sec : List Rec) (k : GKey) : List Rec :=
  sec.filter fun r => !r.isSig && r.gkey == k

def groupSigs (sec : List Rec) (k : GKey) : List Rec :=
  sec.filter fun r => r.isSig && r.gkey == k

/-- Verdict for one RRset: `Ok(RrsetProof { proof, rrsig_index })` or `Err(ProofError { proof })`
(both end in `update_rrset`), or a panic. -/
inductive GV where
  | done (p : Proof) (idx : Option Nat)
  | abort (why : String)
  deriving Repr, Inhabited, DecidableEq

/-! ## `fetch_ds_records` -/

inductive DsFetch where
  | ok (ds : List Rec)
  | err (p : Proof)
  | abort (why : String)
  deriving Repr, Inhabited

/-- the `for record in all_records` loop: supported records, `all_unknown` -/
def dsScan : List Rec → List Rec × Option Bool → List Rec × Option Bool
  | [], st => st
  | r :: rest, (sup, au) =>
    if (!r.algSupp || !r.digSupp) && (r.proof == .secure || r.proof == .insecure) then
      dsScan rest (sup, match au with | none => some true | some b => some b)
    else
      dsScan rest (sup ++ [r], some false)

def fetchDs (sub : Query → Res) (zone : DName) : DsFetch :=
  match sub ⟨zone, tDS⟩ with
  | .abort w => .abort w
  | .ok m =>
    let dss := m.an.filter (·.rtype == tDS)
    if dss.any (·.proof == .secure) then
      let (sup, au) := dsScan dss ([], none)
      if au.getD false then .err .insecure
      else if !sup.isEmpty then .ok sup
      else .err .bogus
    else if m.an.isEmpty then
      -- only a negative response is a denial of the DS RRset (fix aabfc01):
      -- "marking zone as insecure based on secure NSEC/NSEC3 proof or insecure parent zone"
      .err .insecure
    else .err .bogus
  | _ => .err .bogus

/-! ## `find_ds_records` -/

inductive FindDs where
  | ok
  | err (p : Proof)
  | abort (why : String)
  deriving Repr, Inhabited

/-- the unvalidated NS walk up to the zone cut -/
def findZone (env : Env) : DName → Except (Option String) DName
  | [] => .error none
  | l :: rest =>
    match (env.up ⟨l :: rest, tNS⟩).out with
    | .ok m =>
      if m.all.any (fun r => r.rtype == tNS && r.name == l :: rest) then .ok (l :: rest)
      else findZone env rest
    | .noRecords _ => findZone env rest
    | .fail => .error none
    | .missing => .error (some "missing")

def findDs (env : Env) (sub : Query → Res) (name : DName) : FindDs :=
  match findZone env name with
  | .error none => .err .bogus
  | .error (some w) => .abort w
  | .ok zone =>
    match fetchDs sub zone with
    | .ok _ => .ok
    | .err p => .err p
    | .abort w => .abort w

/-! ## `verify_dnskey` -/

def verifyDnskey (env : Env) (k : Rec) (ds : List Rec) : Proof :=
  if !k.algSupp then .insecure
  else
    let cands := (ds.filter (·.proof == .secure)).filter fun d => d.alg == k.alg && d.tag == k.tag
    if (cands.take Generated.MAX_KEY_TAG_COLLISIONS).any (fun d => env.covers d.rid k.rid) then .secure
    else .bogus

/-! ## `verify_dnskey_rrset` -/

def sigByKeys (env : Env) (gid : GroupId) (keyed : List (Rec × Proof)) (sig : Rec) : Option Proof :=
  (keyed.filter fun kp => kp.2 == .secure && kp.1.name == sig.signer).findSome? fun kp =>
    match env.sigRes kp.1.rid sig.rid gid with
    | .secure => some .secure
    | .bogus => some .bogus
    | .err => none

def firstSig (env : Env) (gid : GroupId) (keyed : List (Rec × Proof)) : List Rec → Nat → Option (Proof × Nat)
  | [], _ => none
  | sig :: rest, i =>
    match sigByKeys env gid keyed sig with
    | some p => some (p, i)
    | none => firstSig env gid keyed rest (i + 1)

def keyProofs (env : Env) (recs : List Rec) (ds : List Rec) : List Proof :=
  recs.map fun r => if env.anchor r.rid then .secure else verifyDnskey env r ds

def verifyDnskeyRrset (env : Env) (sub : Query → Res) (gid : GroupId) (recs sigs : List Rec) : GV :=
  -- RRSIGs covering DNSKEY without any DNSKEY record: Bogus, the first RRSIG marked (fix e338561)
  if recs.isEmpty then .done .bogus (if sigs.isEmpty then none else some 0) else
  let allAnchors := recs.all fun r => env.anchor r.rid
  let dsr : DsFetch := if !allAnchors && !gid.name.isRoot then fetchDs sub gid.name else .ok []
  match dsr with
  | .abort w => .abort w
  | .err p => .done p none
  | .ok ds =>
    if !ds.isEmpty &&
        (ds.filter fun d => d.proof == .secure || d.proof == .insecure).all (fun d => !d.algSupp || !d.digSupp) then
      .done .insecure none
    else
      let p1 := keyProofs env recs ds
      match firstSig env gid (recs.zip p1) sigs 0 with
      | some (p, i) => .done p (some i)
      | none =>
        -- the no-signature shortcut is for trust anchors only (fix 8ec5af8)
        if allAnchors && p1.all (· == .secure) then
          match p1.getLast? with
          | some p => .done p none
          | none => .abort "panic"  -- `dnskey_proofs.pop().unwrap()`: unreachable, `recs` is not empty
        else .done .bogus none

/-! ## `verify_rrsig_with_keys` -/

/-- the key-tag collision cap: the third and later DNSKEYs with one tag are skipped -/
def capKeys : List Rec → List Nat → List Rec
  | [], _ => []
  | k :: rest, seen =>
    if seen.count k.tag ≥ Generated.MAX_KEY_TAG_COLLISIONS then capKeys rest (k.tag :: seen)
    else k :: capKeys rest (k.tag :: seen)

def scanKeys (env : Env) (gid : GroupId) (sig : Rec) : List Rec → Option Bool → Option Proof
  | [], ai => if ai.getD false then some .insecure else none
  | k :: rest, ai =>
    match k.proof with
    | .secure =>
      match env.sigRes k.rid sig.rid gid with
      | .secure => some .secure
      | .bogus => some .bogus
      | .err => scanKeys env gid sig rest (some false)
    | .insecure => scanKeys env gid sig rest (match ai with | none => some true | some b => some b)
    | _ => scanKeys env gid sig rest (some false)

def verifyRrsigWithKeys (env : Env) (gid : GroupId) (m : Msg) (sig : Rec) : Option Proof :=
  if (gid.rtype == tNSEC || gid.rtype == tNSEC3) && gid.name.numLabels != sig.labels then none
  else
    -- only DNSKEYs owned by the signer are looked at (fix 207ce2a)
    scanKeys env gid sig (capKeys (m.an.filter fun k => k.rtype == tDNSKEY && k.name == sig.signer) []) none

/-! ## `verify_default_rrset` -/

/-- `future::select_ok` over lookups that complete at once: the first lookup that does not fail decides -/
def selectOk (env : Env) (sub : Query → Res) (gid : GroupId) : List (Rec × Nat) → GV
  | [] => .done .bogus none
  | (s, i) :: rest =>
    match sub ⟨s.signer, tDNSKEY⟩ with
    | .abort w => .abort w
    | .ok m =>
      match verifyRrsigWithKeys env gid m s with
      | some p => .done p (some i)
      | none => .done .bogus none
    | _ => selectOk env sub gid rest

/-- the RRSIGs that are tried: the signer must be the owner or an ancestor of the owner (fix 207ce2a) — for a DS RRset a proper ancestor (fix 4f49cf9) —, the RRSIG
cap, the cycle break -/
def sigCands (q : Query) (owner : DName) (rtype : Nat) (sigs : List Rec) : List (Rec × Nat) :=
  sigs.zipIdx.filter fun si =>
    -- a DS RRset can only be signed by a proper ancestor of its owner (fix 4f49cf9)
    !(rtype == tDS && !owner.isRoot && si.1.signer == owner) &&
    zoneOf si.1.signer owner &&
      (si.2 ≤ Generated.MAX_RRSIGS_PER_RRSET && !(si.1.signer == q.name && q.qtype == tDNSKEY))

def verifyDefaultRrset (env : Env) (sub : Query → Res) (q : Query) (gid : GroupId) (sigs : List Rec) : GV :=
  if sigs.isEmpty then
    if gid.rtype != tDS then
      let search := if gid.rtype == tNSEC3 then gid.name.baseName else gid.name
      match findDs env sub search with
      | .abort w => .abort w
      | .err p => .done p none
      | .ok => .done .bogus none
    else .done .bogus none
  else
    selectOk env sub gid (sigCands q gid.name gid.rtype sigs)

/-! ## `verify_rrsets` + `update_rrset` -/

/-- depth > 1: only DNSKEY, DS, NSEC, NSEC3 RRsets are looked at -/
def skipped (d : Nat) (t : Nat) : Bool :=
  d > 1 && !(t == tDNSKEY || t == tDS || t == tNSEC || t == tNSEC3)

def verifyGroup (env : Env) (sub : Query → Res) (q : Query) (qid secNo : Nat) (sec : List Rec) (k : GKey) : GV :=
  let gid : GroupId := ⟨qid, secNo, k.1, k.2⟩
  if k.2 == tDNSKEY then verifyDnskeyRrset env sub gid (groupRecs sec k) (groupSigs sec k)
  else verifyDefaultRrset env sub q gid (groupSigs sec k)

def verdicts (env : Env) (sub : Query → Res) (d : Nat) (q : Query) (qid secNo : Nat) (sec : List Rec) :
    List (GKey × GV) :=
  (groupKeys sec).filterMap fun k =>
    if skipped d k.2 then none else some (k, verifyGroup env sub q qid secNo sec k)

/-- position of the RRSIG at index `i` among the signatures of its RRset -/
def sigOrdinal (sec : List Rec) (i : Nat) (r : Rec) : Nat :=
  ((sec.take i).filter fun x => x.isSig && x.gkey == r.gkey).length

/-- `update_rrset`: records take the RRset's proof; only the RRSIG used for the proof is marked -/
def relabelOne (sec : List Rec) (vs : List (GKey × GV)) (i : Nat) (r : Rec) : Rec :=
  match vs.lookup r.gkey with
  | some (.done p idx) =>
    if r.isSig then (if idx == some (sigOrdinal sec i r) then { r with proof := p } else r)
    else { r with proof := p }
  | _ => r

def relabel (sec : List Rec) (vs : List (GKey × GV)) : List Rec :=
  sec.mapIdx (relabelOne sec vs)

/-- A panic anywhere unwinds the whole validation.  The RRsets of a section are visited in `HashMap`
order, so when several of them abort the panic is reported (a `"missing …"` abort only exists in the
driver: an RRset the implementation never got to before it panicked). -/
def firstAbort (vs : List (GKey × GV)) : Option String :=
  if vs.any (fun kv => kv.2 == .abort "panic") then some "panic"
  else vs.findSome? fun kv => match kv.2 with | .abort w => some w | _ => none

/-! ## `verify_response` -/

def maskOf (l : List (Rec × Nat)) : Nat := l.foldl (fun acc ri => acc + 2 ^ ri.2) 0

/-- the RRSIG that validated a Secure answer RRset has fewer labels than its owner: wildcard expansion -/
def mustValidateNsec (an : List Rec) (va : List (GKey × GV)) : Bool :=
  va.any fun kv =>
    match kv.2 with
    | .done .secure (some i) =>
      match (groupSigs an kv.1)[i]? with
      | some sig => sig.labels < sig.name.numLabels
      | none => false
    | _ => false

def allAuthInsecure (ns' : List Rec) (vn : List (GKey × GV)) : Bool :=
  !vn.isEmpty && vn.all fun kv =>
    (groupRecs ns' kv.1).all (·.proof == .insecure) && (groupSigs ns' kv.1).all (·.proof == .insecure)

/-- the authority records handed to `verify_nsec` / `verify_nsec3`: an NSEC / NSEC3 record is taken only if its own RRset
came out Secure (fixes 63406ab for NSEC, cc13292 for NSEC3; before, any Secure authority record of the same owner name
sufficed) -/
def selectDenial (ns' : List Rec) (t : Nat) : List (Rec × Nat) :=
  ns'.zipIdx.filter fun ri => ri.1.rtype == t && ri.1.proof == .secure

/-- a record (not just an RRSIG) of the queried type, or a CNAME, at the query name -/
def answersTheQuestion (q : Query) (an : List Rec) : Bool :=
  an.any fun r => r.name == q.name &&
    (r.rtype == q.qtype || r.rtype == 5 || (q.qtype == 255 && r.rtype != tRRSIG))

/-- a record of the query name and type in the answer section — or a CNAME at the query name, unless the authority
section carries a SOA, i.e. a negative part for the end of the alias chain (fix 1223dc5) -/
def plainAnswer (q : Query) (an ns : List Rec) : Bool :=
  an.any fun r => r.name == q.name && (r.rtype == q.qtype || (r.rtype == 5 && !(ns.any (·.rtype == tSOA))))

def verifyMsg (env : Env) (sub : Query → Res) (d : Nat) (q : Query) (qid : Nat) (m : Msg) : Res :=
  let va := verdicts env sub d q qid 0 m.an
  let vn := verdicts env sub d q qid 1 m.ns
  let vd := verdicts env sub d q qid 2 m.ad
  match firstAbort (va ++ vn ++ vd) with
  | some w => .abort w
  | none =>
    let m' : Msg := { rcode := m.rcode, an := relabel m.an va, ns := relabel m.ns vn, ad := relabel m.ad vd }
    let dsName := if q.qtype == tDS then q.name.baseName else q.name
    -- Insecure authority records settle the response only if the query name itself lies in a provably
    -- insecure zone (fix 2bee91e)
    let early : Option Res :=
      if allAuthInsecure m'.ns vn then
        match findDs env sub dsName with
        | .abort w => some (.abort w)
        | .err .insecure => some (.ok m')
        | _ => none
      else none
    match early with
    | some r => r
    | none =>
      -- a plain positive NOERROR answer (an RRset of the query name and type, no wildcard expansion) asserts no
      -- non-existence: denial records attached to it are not evaluated (fixes a0f75fc, 1223dc5)
      if !mustValidateNsec m.an va && m'.rcode == 0 && plainAnswer q m'.an m'.ns then .ok m' else
      let nsec3s := selectDenial m'.ns tNSEC3
      let nsecs := selectDenial m'.ns tNSEC
      let ansMask := maskOf (m'.an.zipIdx.filter fun ri => ri.1.isSig && ri.1.proof == .secure)
      let fin (p : Proof) : Res := if p == .secure then .ok m' else .errNsec p
      match !nsec3s.isEmpty, !nsecs.isEmpty, mustValidateNsec m.an va with
      | true, false, _ => fin (env.nsec qid (maskOf nsec3s) ansMask)
      | false, true, _ => fin (env.nsec qid (maskOf nsecs) ansMask)
      | true, true, _ => .errNsec .bogus
      | false, false, true => .errNsec .bogus
      | false, false, false =>
        -- "answers present" only counts if they answer the question (fix 2bee91e)
        if answersTheQuestion q m'.an then .ok m'
        else
          match findDs env sub dsName with
          | .abort w => .abort w
          | .err .insecure => .ok m'
          | _ => .errNsec .bogus

def verifyResponse (env : Env) (sub : Query → Res) (d : Nat) (q : Query) (r : Resp) : Res :=
  match r.out with
  | .fail => .errUp
  | .missing => .abort "missing"
  | .noRecords m => verifyMsg env sub d q r.qid { rcode := m.rcode, an := [], ns := m.ns, ad := [] }
  | .ok m => verifyMsg env sub d q r.qid m

/-! ## `DnssecDnsHandle::send` -/

/-- `validate fuel d q`: `send` on a handle whose `request_depth` is `d`, with `fuel` levels left before
the backstop (`fuel + d = max_request_depth + 1`).  The response is verified by the clone with
`request_depth = d + 1`, whose own lookups are `validate (fuel - 1) (d + 1)`. -/
def validate (env : Env) : Nat → Nat → Query → Res
  | 0, _, _ => .errDepth
  | fuel + 1, d, q => verifyResponse env (validate env fuel (d + 1)) (d + 1) q (env.up q)

/-! ## the server's mapping (`build_forwarded_response`, `DnssecSummary::from_records`) -/

inductive Summary where
  | secure | bogus | insecure
  deriving DecidableEq, Repr

def summaryGo : List Rec → Option Bool → Summary
  | [], st => if st.getD false then .secure else .insecure
  | r :: rest, st =>
    match r.proof with
    | .secure => summaryGo rest (match st with | none => some true | some b => some b)
    | .bogus => .bogus
    | _ => summaryGo rest (some false)

def summary (rs : List Rec) : Summary := summaryGo rs none

/-- `DnsResponse::contains_answer` -/
def containsAnswer (q : Query) (m : Msg) : Bool :=
  if q.qtype == 255 then m.all.any (·.name == q.name)
  else if q.qtype == tSOA then m.all.any fun r => r.rtype == tSOA && zoneOf r.name q.name
  else !m.an.isEmpty || m.all.any fun r => r.rtype == q.qtype && r.name == q.name

/-- response codes `DnsError::from_response` turns into `Err(ResponseCode(_))` -/
def isErrorRcode (c : Nat) : Bool := [1, 2, 4, 5, 6, 7, 8, 9, 10, 16, 17, 18, 19, 20, 21, 22, 23].contains c

/-- what the forwarder's resolver hands to the server: `DnsError::from_response` on the validated message -/
inductive Fwd where
  /-- `Ok(AuthLookup::Resolved(lookup))` -/
  | answers (m : Msg)
  /-- `Err(NoRecordsFound { response_code, soa, authorities, .. })` -/
  | noRecords (m : Msg)
  /-- any other error -/
  | error
  deriving Repr, DecidableEq

def forwarded (q : Query) : Res → Fwd
  | .ok m =>
    if isErrorRcode m.rcode then .error
    else if (m.rcode == 0 || m.rcode == 3) && !containsAnswer q m then .noRecords m
    else .answers m
  | _ => .error

/-- the records the summary is taken over (fix cdd0f6a): the answers; if there are none, the authority section
— for a `NoRecordsFound` the authority records other than SOAs followed by the first SOA, which is also what
the server forwards as the authority section -/
def summarised (q : Query) (r : Res) : List Rec :=
  match forwarded q r with
  | .answers m => if !m.an.isEmpty then m.an else m.ns
  | .noRecords m => m.ns.filter (·.rtype != tSOA) ++ (m.ns.find? (·.rtype == tSOA)).toList
  | .error => []

/-- response code and AD bit of the forwarded response (`build_forwarded_response`) for a client with RD and
DO set and the given CD bit, behind a validating forwarder -/
def serverView (cd : Bool) (q : Query) (r : Res) : Nat × Bool :=
  match forwarded q r with
  | .error => (2, false)
  | f =>
    let rc : Nat := match f with
      | .noRecords m => if m.rcode == 3 && !(m.ns.any (·.name == q.name)) then 3 else 0
      | _ => 0
    match summary (summarised q r) with
    | .secure => (rc, true)
    | .bogus => if cd then (rc, false) else (2, false)
    | .insecure => (rc, false)

/-! ## an upstream given by a finite trace (what the driver replays) -/

def traceFind : List (Query × UpOut) → Nat → Query → Resp
  | [], _, _ => ⟨0, .missing⟩
  | (q', o) :: rest, i, q => if q' == q then ⟨i, o⟩ else traceFind rest (i + 1) q

/-- the upstream that answers the queries of `trace` (first occurrence) and nothing else -/
def traceUp (trace : List (Query × UpOut)) (q : Query) : Resp := traceFind trace 0 q

/-! ## known-finding classes (decidable predicates on the upstream trace) -/

/-- `C07.AnchorKeyForeignOwnerSecure` (open): a DNSKEY whose key is a trust anchor, under a non-root owner -/
def anchorKeyForeignOwner (env : Env) (trace : List (Query × UpOut)) : Bool :=
  trace.any fun e =>
    match e.2 with
    | .ok m | .noRecords m => m.all.any fun r => r.rtype == tDNSKEY && env.anchor r.rid && !r.name.isRoot
    | _ => false

/-- `C07.AnchorKeyUnusableFlagsSecure` (open, same root cause): a DNSKEY whose key is a trust anchor but whose flags make it
unusable — zone-key bit clear or REVOKE set (`Rec.digSupp = false` for DNSKEY records) -/
def anchorKeyUnusableFlags (env : Env) (trace : List (Query × UpOut)) : Bool :=
  trace.any fun e =>
    match e.2 with
    | .ok m | .noRecords m => m.all.any fun r => r.rtype == tDNSKEY && env.anchor r.rid && !r.digSupp
    | _ => false

/-! ## the concrete shape of the `covers` oracle (`DS::covers`, crates/proto/src/dnssec/rdata/ds.rs) -/

/-- `key.to_digest(name, ds.digest_type()).map(|hash| key.zone_key() && hash.as_ref() == ds.digest())` with
`unwrap_or(false)` at the call site: `hash` is `none` when the digest type is not supported -/
def dsCovers (zoneKey : Bool) (hash : Option Bytes) (digest : Bytes) : Bool :=
  match hash with
  | some h => zoneKey && h == digest
  | none => false

/-- `C07.UnsignedNsecBesideSecureRecord` (open): an authority section with an NSEC record that has no RRSIG there while
another RRset of the same owner has one -/
def unsignedNsecBesideSignedIn (ns : List Rec) : Bool :=
  ns.any fun r => r.rtype == tNSEC &&
    !(ns.any fun x => x.isSig && x.name == r.name && x.covered == tNSEC) &&
    ns.any fun x => !x.isSig && x.name == r.name && x.rtype != tNSEC &&
      ns.any fun y => y.isSig && y.name == x.name && y.covered == x.rtype

def unsignedNsecBesideSigned (trace : List (Query × UpOut)) : Bool :=
  trace.any fun e =>
    match e.2 with
    | .ok m | .noRecords m => unsignedNsecBesideSignedIn m.ns
    | _ => false

/-- `C07.ChildSideDsDenialAccepted` (open): a DS exchange answered with an NSEC owned by the queried name, or an NSEC3
of the zone named like the queried name (owner `<hash>.<qname>`), whose bitmap has SOA (`Rec.tag = 1` for NSEC / NSEC3
records): the apex record of the CHILD.  (The parent's own apex NSEC3 — the closest encloser in a parent-side denial —
has the SOA bit as well, but lives in the parent zone.) -/
def childSideDsDenial (trace : List (Query × UpOut)) : Bool :=
  trace.any fun e =>
    e.1.qtype == tDS &&
      match e.2 with
      | .ok m | .noRecords m =>
        m.ns.any fun r => r.tag == 1 &&
          ((r.rtype == tNSEC && r.name == e.1.name) || (r.rtype == tNSEC3 && r.name.baseName == e.1.name))
      | _ => false

/-- `C07.Nsec3WraparoundDeniesDs` (open; root cause: C09's open finding `wraparound-nsec3-covers-every-hash`, the inverted
wrap-around arm of `find_covering_record`): a negative DS exchange whose authority section holds the wrap-around NSEC3 record
(`Rec.alg = 1` for NSEC3 records: owner hash > next hashed owner, the last record of its chain) of a zone properly above the
queried name -/
def wraparoundNsec3InDsDenial (trace : List (Query × UpOut)) : Bool :=
  trace.any fun e =>
    e.1.qtype == tDS &&
      match e.2 with
      | .ok m | .noRecords m =>
        m.an.isEmpty && m.ns.any fun r =>
          r.rtype == tNSEC3 && r.alg == 1 && r.name.baseName != e.1.name && zoneOf r.name.baseName e.1.name
      | _ => false

end HickoryVerif.Chain
