/-
Helper lemmas about the lexer model (`Model/ZoneLex.lean`): unfolding of the well-founded loop,
a fuel-indexed twin used only to *evaluate* the model on concrete texts inside proofs, and the
progress lemma (every token consumes at least one character).
-/
import HickoryVerif.Model.ZoneLex

namespace HickoryVerif.ZoneLex

theorem run_ret {c : Cfg} {t txt st} (h : step c = .ret t txt st) :
    run c = .ok (t, { txt := txt, state := st }) := by
  rw [run]; split
  · rename_i heq; rw [h] at heq; cases heq; rfl
  · rename_i heq; rw [h] at heq; cases heq
  · rename_i heq; rw [h] at heq; cases heq

theorem run_fail {c : Cfg} (h : step c = .fail) : run c = .err := by
  rw [run]; split
  · rename_i heq; rw [h] at heq; cases heq
  · rfl
  · rename_i heq; rw [h] at heq; cases heq

theorem run_cont {c c' : Cfg} (h : step c = .cont c') : run c = run c' := by
  rw [run]; split
  · rename_i heq; rw [h] at heq; cases heq
  · rename_i heq; rw [h] at heq; cases heq
  · rename_i heq; rw [h] at heq; cases heq; rfl

/-- `n` iterations of the loop (`none`: not finished yet). Proof device only. -/
def iter : Nat → Cfg → Option (Outcome (Option Token × Lexer))
  | 0, _ => none
  | n + 1, c =>
    match step c with
    | .ret t txt st => some (.ok (t, { txt := txt, state := st }))
    | .fail => some .err
    | .cont c' => iter n c'

theorem iter_eq_run {n : Nat} {c : Cfg} {r} (h : iter n c = some r) : run c = r := by
  induction n generalizing c with
  | zero => simp [iter] at h
  | succ n ih =>
    unfold iter at h
    split at h
    · rename_i heq; cases h; exact run_ret heq
    · rename_i heq; cases h; exact run_fail heq
    · rename_i heq; rw [run_cont heq]; exact ih h

/-- `nextToken` evaluated with `n` iterations of fuel -/
def nextTokenN (n : Nat) (l : Lexer) : Option (Outcome (Option Token × Lexer)) :=
  iter n { txt := l.txt, state := l.state, cd := none, cdv := none }

theorem nextTokenN_eq {n : Nat} {l : Lexer} {r} (h : nextTokenN n l = some r) : nextToken l = r :=
  iter_eq_run h

/-! ### progress -/

/-- the states a `next_token` call can start in, and those reachable from them without
consuming a character -/
def StrictOK (c : Cfg) : Prop :=
  match c.state with
  | .startLine | .restOfLine | .eof | .eol | .comment false => True
  | .blank | .at => c.txt ≠ []
  | .charData false =>
    match c.txt with
    | x :: _ => isWs x = false ∧ isControl x = false ∧ x ≠ 41 ∧ x ≠ 59
    | [] => False
  | _ => False

def entryState (s : St) : Prop := s = .startLine ∨ s = .restOfLine ∨ s = .eof

theorem escapeSeq_len' {txt : Str} {e : Nat} {r : Str} (h : escapeSeq txt = some (e, r)) :
    r.length < txt.length := escapeSeq_len h

/-- closes `A ∧ (StrictOK c → B)` goals after case analysis -/
macro "prog" : tactic =>
  `(tactic| first
    | (simp_all [StrictOK, entryState]; done)
    | (simp_all [StrictOK, entryState]; omega)
    | (simp_all [StrictOK, entryState]; grind))

theorem step_ret_len {c : Cfg} {t txt st} (h : step c = .ret t txt st) :
    txt.length ≤ c.txt.length ∧ entryState st ∧
    (StrictOK c → t.isSome → txt.length < c.txt.length) := by
  obtain ⟨ctxt, cst, cd, cdv⟩ := c
  unfold step at h
  cases cst with
  | startLine =>
    cases ctxt with
    | nil => simp at h
    | cons x rest => simp only at h; repeat' split at h
                     all_goals cases h
  | restOfLine =>
    cases ctxt with
    | nil => simp at h
    | cons x rest => simp only at h; repeat' split at h
                     all_goals cases h
  | blank =>
    simp only [Step.ret.injEq] at h
    obtain ⟨rfl, rfl, rfl⟩ := h
    cases ctxt <;> simp [StrictOK, entryState]
  | list =>
    cases ctxt with
    | nil => simp at h
    | cons x rest =>
      simp only at h; repeat' split at h
      all_goals first | (cases h; done) | (cases h; simp [StrictOK, entryState])
  | charData il =>
    cases ctxt with
    | nil =>
      cases il <;> simp only at h <;> split at h
      all_goals first | (cases h; done) | (cases h; prog)
    | cons x rest =>
      cases il <;> simp only at h <;> repeat' split at h
      all_goals first | (cases h; done) | (cases h; prog)
  | comment il =>
    cases ctxt with
    | nil => simp at h
    | cons x rest => simp only at h; repeat' split at h
                     all_goals cases h
  | «at» =>
    simp only [Step.ret.injEq] at h
    obtain ⟨rfl, rfl, rfl⟩ := h
    cases ctxt <;> simp [StrictOK, entryState]
  | quote il =>
    cases ctxt with
    | nil => simp at h
    | cons x rest =>
      cases il <;> simp only at h <;> repeat' split at h
      all_goals first | (cases h; done) | (cases h; simp [StrictOK, entryState])
  | dollar =>
    cases ctxt with
    | nil =>
      simp only at h; repeat' split at h
      all_goals first | (cases h; done) | (cases h; simp [StrictOK, entryState])
    | cons x rest =>
      simp only at h; repeat' split at h
      all_goals first | (cases h; done) | (cases h; simp [StrictOK, entryState])
  | eol =>
    cases ctxt with
    | nil => simp at h
    | cons x rest =>
      simp only at h; repeat' split at h
      all_goals first | (cases h; done) | (cases h; simp [StrictOK, entryState])
  | eof =>
    simp only [Step.ret.injEq] at h
    obtain ⟨rfl, rfl, rfl⟩ := h
    cases ctxt <;> simp [StrictOK, entryState]

theorem step_cont_len {c c' : Cfg} (h : step c = .cont c') :
    c'.txt.length ≤ c.txt.length ∧
    (StrictOK c → c'.txt.length < c.txt.length ∨ StrictOK c') := by
  obtain ⟨ctxt, cst, cd, cdv⟩ := c
  unfold step at h
  cases cst with
  | startLine =>
    cases ctxt with
    | nil => simp at h; subst h; simp [StrictOK]
    | cons x rest =>
      simp only at h; repeat' split at h
      all_goals (cases h; simp [StrictOK])
  | restOfLine =>
    cases ctxt with
    | nil => simp at h; subst h; simp [StrictOK]
    | cons x rest =>
      simp only at h; repeat' split at h
      all_goals first | (cases h; done) | (cases h; simp_all [StrictOK])
  | blank => simp at h
  | list =>
    cases ctxt with
    | nil => simp at h
    | cons x rest =>
      simp only at h; repeat' split at h
      all_goals first | (cases h; done) | (cases h; simp [StrictOK])
  | charData il =>
    cases ctxt with
    | nil => simp only at h; split at h <;> cases h
    | cons x rest =>
      cases il <;> simp only at h <;> repeat' split at h
      all_goals first | (cases h; done) | (cases h; prog)
  | comment il =>
    cases ctxt with
    | nil => simp at h; subst h; simp [StrictOK]
    | cons x rest =>
      cases il <;> simp only at h <;> repeat' split at h
      all_goals (cases h; prog)
  | «at» => simp at h
  | quote il =>
    cases ctxt with
    | nil => simp at h
    | cons x rest =>
      simp only at h
      split at h
      · cases il <;> simp only [Bool.false_eq_true, ↓reduceIte] at h
        · cases h
        · split at h
          · cases h; simp [StrictOK]
          · cases h
      · split at h
        · split at h
          · cases h
          · rename_i e r' he
            split at h
            · cases h
              have := escapeSeq_len he
              simp [StrictOK] at *; omega
            · cases h
        · split at h
          · cases h; simp [StrictOK]
          · cases h
  | dollar =>
    cases ctxt with
    | nil => simp only at h; repeat' split at h
             all_goals cases h
    | cons x rest =>
      simp only at h; repeat' split at h
      all_goals first | (cases h; done) | (cases h; simp [StrictOK])
  | eol =>
    cases ctxt with
    | nil => simp at h
    | cons x rest =>
      simp only at h; repeat' split at h
      all_goals first | (cases h; done) | (cases h; simp [StrictOK])
  | eof => simp at h

/-- what `run` returns: never a panic; the text only shrinks; the lexer is left in an entry state;
and a token returned from a `StrictOK` configuration has consumed at least one character. -/
theorem run_spec (c : Cfg) :
    (∀ s, run c ≠ .panic s) ∧
    ∀ t l', run c = .ok (t, l') →
      l'.txt.length ≤ c.txt.length ∧ entryState l'.state ∧
      (StrictOK c → t.isSome → l'.txt.length < c.txt.length) := by
  induction c using run.induct with
  | case1 c t txt st h =>
    rw [run_ret h]
    refine ⟨by simp, ?_⟩
    intro t' l' heq
    cases heq
    exact step_ret_len h
  | case2 c h => rw [run_fail h]; simp
  | case3 c c' h ih =>
    rw [run_cont h]
    refine ⟨ih.1, ?_⟩
    intro t l' heq
    have ⟨h1, h2, h3⟩ := ih.2 t l' heq
    have ⟨g1, g2⟩ := step_cont_len h
    refine ⟨by omega, h2, ?_⟩
    intro hs ht
    rcases g2 hs with g | g
    · omega
    · have := h3 g ht; omega

end HickoryVerif.ZoneLex
