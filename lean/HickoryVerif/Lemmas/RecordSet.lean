/-
Helper lemmas about the `RecordSet::insert` / `RecordSet::remove` / `upsert` models.
-/
import HickoryVerif.Lemmas.Zone
import HickoryVerif.Proofs.C04

namespace HickoryVerif.Upd
open HickoryVerif

theorem Rec.dataEq_iff (a b : Rec) : a.dataEq b = true ↔
    a.rtype = b.rtype ∧ RData.norm a.rtype a.rdata = RData.norm b.rtype b.rdata := by
  simp [Rec.dataEq]

theorem Rec.dataEq_refl (a : Rec) : a.dataEq a = true := by simp [Rec.dataEq]

theorem Rec.dataEq_symm {a b : Rec} (h : a.dataEq b = true) : b.dataEq a = true := by
  rw [Rec.dataEq_iff] at h ⊢; exact ⟨h.1.symm, h.2.symm⟩

theorem Rec.dataEq_trans {a b c : Rec} (h₁ : a.dataEq b = true) (h₂ : b.dataEq c = true) :
    a.dataEq c = true := by
  rw [Rec.dataEq_iff] at *; exact ⟨h₁.1.trans h₂.1, h₁.2.trans h₂.2⟩

theorem Rec.eqv_refl (a : Rec) : a.eqv a = true := by
  have : Name.eq a.name a.name = true := (HickoryVerif.C04.cmp_eq_iff a.name a.name).mp (HickoryVerif.C04.cmp_refl a.name)
  simp [Rec.eqv, this, Rec.dataEq_refl]

/-- `SerialNumber(s) < SerialNumber(s.wrapping_add(1))` — for every u32 (and every `Nat`) -/
theorem serialNumberLt_succ (s : Nat) : serialNumberLt s ((s + 1) % 4294967296) = true := by
  unfold serialNumberLt
  simp only [decide_eq_true_eq]
  omega

/-- no two records of the set have equal RDATA -/
def Distinct (rs : RSet) : Prop := rs.Pairwise fun a b => a.dataEq b = false

/-- what `replaceDup` computes -/
theorem replaceDup_eq (r : Rec) (rs : List Rec) :
    replaceDup r rs = none ∨
    replaceDup r rs = some (rs.map (fun x => if x.dataEq r then r else x), rs.any (fun x => x.dataEq r)) := by
  induction rs with
  | nil => right; rfl
  | cons x xs ih =>
    unfold replaceDup
    by_cases hd : x.dataEq r = true
    · rw [if_pos hd]
      by_cases he : (x.eqv r && x.ttl == r.ttl) = true
      · left; rw [if_pos he]
      · rw [if_neg he]
        rcases ih with h | h
        · left; rw [h]; rfl
        · right; rw [h]; simp [hd]
    · rw [if_neg hd]
      rcases ih with h | h
      · left; rw [h]; rfl
      · right; rw [h]; simp [hd]

theorem rsInsert_nil (r : Rec) : rsInsert [] r = ([r], true) := by
  unfold rsInsert insertPre
  by_cases h1 : r.rtype = T_SOA
  · simp [h1, replaceDup]
  · by_cases h2 : r.rtype = T_CNAME ∨ r.rtype = T_ANAME
    · simp [h1, h2, replaceDup]
    · simp [h1, h2, replaceDup]

/-- `insert` returning `true` never leaves the set empty -/
theorem rsInsert_ne_nil (rs : RSet) (r : Rec) (h : (rsInsert rs r).2 = true) : (rsInsert rs r).1 ≠ [] := by
  unfold rsInsert at h ⊢
  cases hp : insertPre rs r with
  | none => simp [hp] at h
  | some recs =>
    simp only [hp] at h ⊢
    rcases replaceDup_eq r recs with hr | hr
    · simp [hr] at h
    · rw [hr]
      cases ha : recs.any (fun x => x.dataEq r) with
      | true =>
        simp only
        intro hnil
        have : recs = [] := by simpa using hnil
        subst this; simp at ha
      | false => simp

/-- the SOA rule of `insert` on a one-record SOA set (RFC 1982 comparison since aeeb945) -/
theorem rsInsert_soa (x r : Rec) (se rest : Nat) (ht : r.rtype = T_SOA) (hx : x.rdata = .soa se rest) :
    rsInsert [x] r = ([x], false) ∨
    (∃ sn rest', r.rdata = .soa sn rest' ∧ serialNumberLt se sn = true ∧ rsInsert [x] r = ([r], true)) := by
  unfold rsInsert insertPre
  rw [if_pos ht]
  simp only [hx]
  cases hr : r.rdata with
  | empty => left; rfl
  | bytes b => left; rfl
  | soa sn rest' =>
    cases hlt : serialNumberLt se sn with
    | false => left; simp [hlt]
    | true =>
      right
      refine ⟨sn, rest', rfl, hlt, ?_⟩
      simp [hlt, replaceDup]

/-- … and the converse reading: it is ignored exactly when the zone serial is not RFC 1982-less -/
theorem rsInsert_soa_ignored (x r : Rec) (se rest sn rest' : Nat) (ht : r.rtype = T_SOA)
    (hx : x.rdata = .soa se rest) (hr : r.rdata = .soa sn rest') (h : serialNumberLt se sn = false) :
    rsInsert [x] r = ([x], false) := by
  unfold rsInsert insertPre
  rw [if_pos ht]
  simp [hx, hr, h]

theorem distinct_map_replace (r : Rec) (rs : RSet) (h : Distinct rs) :
    Distinct (rs.map fun x => if x.dataEq r then r else x) := by
  unfold Distinct at *
  rw [List.pairwise_map]
  refine h.imp_of_mem ?_
  intro a b _ _ hab
  by_cases ha : a.dataEq r = true <;> by_cases hb : b.dataEq r = true
  · exfalso
    have := Rec.dataEq_trans ha (Rec.dataEq_symm hb)
    rw [hab] at this; cases this
  · simp only [ha, hb, if_true]
    cases h' : r.dataEq b with
    | false => simpa using h'
    | true => exact absurd (Rec.dataEq_symm h') hb
  · simp only [ha, hb, if_true]
    cases h' : a.dataEq r with
    | false => simpa using h'
    | true => exact absurd h' ha
  · simp [ha, hb, hab]

theorem replaceDup_distinct (r : Rec) (recs : RSet) (hd : Distinct recs) :
    ∀ ys b, replaceDup r recs = some (ys, b) → Distinct (if b then ys else ys ++ [r]) := by
  intro ys b h
  rcases replaceDup_eq r recs with hr | hr
  · rw [hr] at h; cases h
  · rw [hr] at h
    cases h
    cases ha : recs.any (fun x => x.dataEq r) with
    | true => simpa using distinct_map_replace r recs hd
    | false =>
      simp only [Bool.false_eq_true, if_false]
      have hnone : ∀ x ∈ recs, x.dataEq r = false := by
        intro x hx
        cases hxr : x.dataEq r with
        | false => rfl
        | true =>
          have : recs.any (fun x => x.dataEq r) = true := List.any_eq_true.mpr ⟨x, hx, hxr⟩
          rw [ha] at this; cases this
      have hmap : recs.map (fun x => if x.dataEq r = true then r else x) = recs := by
        rw [List.map_congr_left (g := id)]
        · simp
        · intro x hx; simp [hnone x hx]
      rw [hmap]
      unfold Distinct
      rw [List.pairwise_append]
      exact ⟨hd, List.pairwise_singleton _ _, by
        intro a ha' b hb; simp at hb; subst hb; exact hnone a ha'⟩

/-- `insert` keeps the RDATA of the set pairwise distinct (every type) -/
theorem rsInsert_distinct (rs : RSet) (r : Rec) (hd : Distinct rs) : Distinct (rsInsert rs r).1 := by
  unfold rsInsert
  cases hp : insertPre rs r with
  | none => exact hd
  | some recs =>
    have hdr : Distinct recs := by
      unfold insertPre at hp
      split at hp
      · split at hp
        · cases hp; exact List.Pairwise.nil
        · split at hp
          · split at hp
            · cases hp
            · cases hp; exact List.Pairwise.nil
          · cases hp
      · split at hp
        · split at hp
          · split at hp
            · cases hp
            · cases hp; exact List.Pairwise.nil
          · cases hp; exact List.Pairwise.nil
        · cases hp; exact hd
    simp only
    cases hr : replaceDup r recs with
    | none => exact hd
    | some p =>
      obtain ⟨ys, b⟩ := p
      have := replaceDup_distinct r recs hdr ys b hr
      cases b with
      | true => simpa using this
      | false => simpa using this

/-- with pairwise distinct RDATA a filter by RDATA removes at most one record -/
theorem filter_dataEq_length (rs : RSet) (r : Rec) (hd : Distinct rs) :
    rs.length ≤ (rs.filter fun x => !(x.dataEq r)).length + 1 := by
  induction rs with
  | nil => simp
  | cons x xs ih =>
    have hd' : Distinct xs := (List.pairwise_cons.mp hd).2
    have hx := (List.pairwise_cons.mp hd).1
    by_cases hxr : x.dataEq r = true
    · -- x is removed; nothing else is
      have hnone : ∀ y ∈ xs, (!(y.dataEq r)) = true := by
        intro y hy
        cases hyr : y.dataEq r with
        | false => rfl
        | true =>
          have := Rec.dataEq_trans hxr (Rec.dataEq_symm hyr)
          rw [hx y hy] at this; cases this
      have : xs.filter (fun x => !(x.dataEq r)) = xs := List.filter_eq_self.mpr hnone
      simp [List.filter_cons, hxr, this]
    · have := ih hd'
      simp [List.filter_cons, hxr]
      omega

/-- `remove` of an NS record never empties a set with pairwise distinct RDATA -/
theorem rsRemove_ns_ne_nil (rs : RSet) (r : Rec) (ht : r.rtype = T_NS) (hne : rs ≠ []) (hd : Distinct rs) :
    (rsRemove rs r).1 ≠ [] := by
  unfold rsRemove
  by_cases h1 : r.rtype = T_NS ∧ rs.length ≤ 1
  · rw [if_pos h1]; exact hne
  · rw [if_neg h1]
    have hlen : 2 ≤ rs.length := by
      have : ¬ rs.length ≤ 1 := fun h => h1 ⟨ht, h⟩
      omega
    have hT : ¬ r.rtype = T_SOA := by rw [ht]; decide
    rw [if_neg hT]
    simp only
    split
    · intro hnil
      have := filter_dataEq_length rs r hd
      have hnil' : rs.filter (fun x => !(x.dataEq r)) = [] := hnil
      rw [hnil'] at this; simp at this; omega
    · exact hne

theorem rsRemove_distinct (rs : RSet) (r : Rec) (hd : Distinct rs) : Distinct (rsRemove rs r).1 := by
  unfold rsRemove
  split
  · exact hd
  · split
    · exact hd
    · simp only
      split
      · exact List.Pairwise.sublist List.filter_sublist hd
      · exact hd

theorem rsRemove_soa (rs : RSet) (r : Rec) (ht : r.rtype = T_SOA) : rsRemove rs r = (rs, false) := by
  unfold rsRemove
  have : ¬ (r.rtype = T_NS ∧ rs.length ≤ 1) := by rw [ht]; intro h; exact absurd h.1 (by decide)
  rw [if_neg this, if_pos ht]

/-- `get` finds a key ⇒ its type is listed by `typesAt` -/
theorem Zone.mem_typesAt (z : Zone) (n : Name) (t : Nat) (v : RSet) (h : z.get (n, t) = some v) :
    t ∈ z.typesAt n := by
  induction z with
  | nil => simp at h
  | cons e z ih =>
    obtain ⟨k1, v1⟩ := e
    unfold Zone.typesAt
    rw [Zone.get_cons] at h
    by_cases hk : k1 = (n, t)
    · subst hk; simp [List.filter_cons]
    · rw [if_neg hk] at h
      have := ih h
      unfold Zone.typesAt at this
      rw [List.filter_cons]
      split
      · exact List.mem_cons_of_mem _ this
      · exact this

theorem Zone.get_of_mem_typesAt (z : Zone) (n : Name) (t : Nat) (h : t ∈ z.typesAt n) :
    (z.get (n, t)).isSome = true := by
  induction z with
  | nil => simp [Zone.typesAt] at h
  | cons e z ih =>
    obtain ⟨k1, v1⟩ := e
    rw [Zone.get_cons]
    by_cases hk : k1 = (n, t)
    · rw [if_pos hk]; rfl
    · rw [if_neg hk]
      apply ih
      unfold Zone.typesAt at h ⊢
      rw [List.filter_cons] at h
      split at h
      · rename_i hp
        simp only [List.map_cons, List.mem_cons] at h
        rcases h with h | h
        · exfalso; apply hk
          have hp' : k1.1 = n := by simpa using hp
          exact Prod.ext hp' h.symm
        · exact h
      · exact h

/-- the shapes `upsert` can return -/
theorem upsert_cases (zc : Nat) (z : Zone) (r : Rec) :
    upsert zc z r = (z, false) ∨
    (zc = r.cls ∧ upsertBlocked z r = false ∧ ∃ v, rsInsert ((z.get r.key).getD []) r = (v, true) ∧
      upsert zc z r = (z.set r.key v, true)) := by
  unfold upsert
  by_cases h1 : zc ≠ r.cls
  · left; rw [if_pos h1]
  · rw [if_neg h1]
    have hc : zc = r.cls := Decidable.not_not.mp h1
    cases hb : upsertBlocked z r with
    | true => left; simp
    | false =>
      simp only [Bool.false_eq_true, if_false]
      cases hg : z.get r.key with
      | some rs =>
        simp only
        cases hi : (rsInsert rs r).2 with
        | false => left; simp
        | true =>
          right
          refine ⟨hc, trivial, (rsInsert rs r).1, ?_, by simp⟩
          simp only [Option.getD_some]
          rw [← hi]
      | none =>
        right
        simp only [rsInsert_nil, Option.getD_none]
        exact ⟨hc, trivial, [r], rfl, rfl⟩

end HickoryVerif.Upd
