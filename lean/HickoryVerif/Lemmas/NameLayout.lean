/-
Layout of names in a buffer, as a relation independent of the decoder's control flow, and the
proof that the decoder (`Name.readLabels` / `Name.readName`, the model of `read_inner`) reads
exactly what is laid out.  Used by `Proofs/C02.lean` (every compression candidate and every
emitted name is `Laid`).

`Laid buf s pos ls e` : starting at index `pos` of `buf`, inside a run that started at `s`
(`name_start` of the decoder), the label sequence `ls` is laid out — as length-prefixed labels
followed by the root octet, or by a compression pointer to a location `loc` where the rest is
itself laid out in a run that *ends at or before `s`* — and the run ends at `e` (one past the root
octet / the pointer).  `F` is the footprint: the list of runs `(start, end)` the layout consists of.
Every byte the relation looks at lies in the footprint (`Laid.frame_footprint`), hence below `e`
(`Laid.frame`).
-/
import HickoryVerif.Model.NameWire

namespace HickoryVerif
open Name

/-- uncompressed label bytes without the terminating root octet (what `name_pointers` stores) -/
def flat (ls : List Bytes) : Bytes := (ls.map emitLabel).flatten

@[simp] theorem flat_nil : flat [] = [] := rfl
@[simp] theorem flat_cons (l : Bytes) (ls : List Bytes) : flat (l :: ls) = l.length :: (l ++ flat ls) := by
  simp [flat, emitLabel]
theorem flat_append (a b : List Bytes) : flat (a ++ b) = flat a ++ flat b := by
  simp [flat]

theorem flat_inj : ∀ {a b : List Bytes}, flat a = flat b → a = b
  | [], [] , _ => rfl
  | [], _ :: _, h => by simp at h
  | _ :: _, [], h => by simp at h
  | l :: a, m :: b, h => by
    simp only [flat_cons, List.cons.injEq] at h
    obtain ⟨hl, h⟩ := h
    obtain ⟨h1, h2⟩ := List.append_inj h hl
    rw [h1, flat_inj h2]

inductive Laid (buf : Bytes) : Nat → Nat → List Bytes → Nat → List (Nat × Nat) → Prop
  | root {s pos : Nat} : buf[pos]? = some 0 → Laid buf s pos [] (pos + 1) [(s, pos + 1)]
  | label {s pos : Nat} {l : Bytes} {ls : List Bytes} {e : Nat} {F : List (Nat × Nat)} :
      1 ≤ l.length → l.length ≤ 63 → buf[pos]? = some l.length →
      (buf.drop (pos + 1)).take l.length = l → pos + 1 + l.length ≤ buf.length →
      Laid buf s (pos + 1 + l.length) ls e F → Laid buf s pos (l :: ls) e F
  | ptr {s pos loc : Nat} {ls : List Bytes} {e' : Nat} {F' : List (Nat × Nat)} :
      loc < 16384 → buf[pos]? = some (192 + loc / 256) → buf[pos + 1]? = some (loc % 256) →
      Laid buf loc loc ls e' F' → e' ≤ s → Laid buf s pos ls (pos + 2) ((s, pos + 2) :: F')

theorem Laid.pos_lt_end {buf s pos ls e F} (h : Laid buf s pos ls e F) : pos < e := by
  induction h with
  | root _ => omega
  | label _ _ _ _ _ _ ih => omega
  | ptr _ _ _ _ _ _ => omega

theorem Laid.end_le_length {buf s pos ls e F} (h : Laid buf s pos ls e F) : e ≤ buf.length := by
  induction h with
  | @root s pos h =>
    have := (List.getElem?_eq_some_iff.1 h).1
    omega
  | label _ _ _ _ _ _ ih => exact ih
  | @ptr s pos loc ls e' _ _ _ h1 _ _ _ =>
    have := (List.getElem?_eq_some_iff.1 h1).1
    omega

/-- every interval of the footprint is a run `[start, end)` ending at or before `e` -/
theorem Laid.footprint_le {buf s pos ls e F} (h : Laid buf s pos ls e F) (hs : s ≤ pos) :
    ∀ iv ∈ F, iv.1 < iv.2 ∧ iv.2 ≤ e := by
  induction h with
  | @root s pos h => intro iv hiv; simp at hiv; subst hiv; simp; omega
  | label _ _ _ _ _ _ ih => exact ih (by omega)
  | @ptr s pos loc ls e' F' _ _ _ h4 h5 ih =>
    intro iv hiv
    have hlt := h4.pos_lt_end
    rcases List.mem_cons.1 hiv with rfl | hiv
    · simp; omega
    · have := ih (Nat.le_refl _) iv hiv
      omega

/-- the run the layout is in, `[s, e)`, is part of the footprint -/
theorem Laid.top_run {buf s pos ls e F} (h : Laid buf s pos ls e F) : (s, e) ∈ F := by
  induction h with
  | root _ => simp
  | label _ _ _ _ _ _ ih => exact ih
  | ptr _ _ _ _ _ _ => simp

theorem slice_ext {buf buf' : Bytes} {a b : Nat} (_hlen : a + b ≤ buf.length)
    (h : ∀ i, a ≤ i → i < a + b → buf'[i]? = buf[i]?) :
    (buf'.drop a).take b = (buf.drop a).take b := by
  apply List.ext_getElem?
  intro i
  simp only [List.getElem?_take, List.getElem?_drop]
  split
  · exact h (a + i) (by omega) (by omega)
  · rfl

/-- frame: a laid-out name only depends on the bytes of its footprint -/
theorem Laid.frame_footprint {buf buf' s pos ls e F} (h : Laid buf s pos ls e F) (hs : s ≤ pos)
    (heq : ∀ iv ∈ F, ∀ i, iv.1 ≤ i → i < iv.2 → buf'[i]? = buf[i]?) : Laid buf' s pos ls e F := by
  induction h with
  | @root s pos h =>
    refine Laid.root ?_
    rw [heq (s, pos + 1) (by simp) pos hs (by simp)]; exact h
  | @label s pos l ls e F h1 h2 h3 h4 h5 h6 ih =>
    have hlt := h6.pos_lt_end
    have hiv := h6.top_run
    have hin : ∀ i, pos ≤ i → i < pos + 1 + l.length → buf'[i]? = buf[i]? :=
      fun i h1 h2 => heq (s, e) hiv i (by simp; omega) (by simp; omega)
    refine Laid.label h1 h2 ?_ ?_ ?_ (ih (by omega) heq)
    · rw [hin pos (Nat.le_refl _) (by omega)]; exact h3
    · rw [slice_ext h5 (fun i hi1 hi2 => hin i (by omega) (by omega))]; exact h4
    · have hx := hin (pos + l.length) (by omega) (by omega)
      have : pos + l.length < buf.length := by omega
      rw [List.getElem?_eq_getElem this] at hx
      have := (List.getElem?_eq_some_iff.1 hx).1
      omega
  | @ptr s pos loc ls e' F' h1 h2 h3 h4 h5 ih =>
    refine Laid.ptr h1 ?_ ?_ (ih (Nat.le_refl _) (fun iv hiv => heq iv (by simp [hiv]))) h5
    · rw [heq (s, pos + 2) (by simp) pos hs (by simp)]; exact h2
    · rw [heq (s, pos + 2) (by simp) (pos + 1) (by simp; omega) (by simp)]; exact h3

theorem getElem?_of_take_eq {buf buf' : Bytes} {e i : Nat} (heq : buf'.take e = buf.take e)
    (hi : i < e) : buf'[i]? = buf[i]? := by
  have : (buf'.take e)[i]? = (buf.take e)[i]? := by rw [heq]
  simpa [List.getElem?_take, hi] using this

/-- frame: a laid-out name only depends on the bytes below its end -/
theorem Laid.frame {buf buf' s pos ls e F} (h : Laid buf s pos ls e F) (hs : s ≤ pos)
    (heq : buf'.take e = buf.take e) : Laid buf' s pos ls e F :=
  h.frame_footprint hs fun iv hiv i _ hi2 =>
    getElem?_of_take_eq heq (by have := h.footprint_le hs iv hiv; omega)

theorem Laid.append {buf s pos ls e F} (h : Laid buf s pos ls e F) (hs : s ≤ pos) (x : Bytes) :
    Laid (buf ++ x) s pos ls e F :=
  h.frame hs (by rw [List.take_append_of_le_length h.end_le_length])

theorem encodedLen_snoc (acc : Name) (l : Bytes) :
    ({ acc with labels := acc.labels ++ [l] } : Name).encodedLen = acc.encodedLen + l.length + 1 := by
  simp [Name.encodedLen, Name.dataLen, List.map_append, List.sum_append]; omega

theorem flat_length (ls : List Bytes) : (flat ls).length = ls.length + (ls.map List.length).sum := by
  induction ls with
  | nil => rfl
  | cons l ls ih => simp [ih]; omega

/-- a laid-out name is what the decoder reads (any accumulator that leaves room) -/
theorem readLabels_of_Laid {buf s pos ls e F} (h : Laid buf s pos ls e F) :
    ∀ (acc : Name) (pm : Option Nat), (∀ m, pm = some m → e ≤ m) →
      acc.encodedLen + (flat ls).length ≤ 255 →
      readLabels buf pos s pm acc = .ok ({ labels := acc.labels ++ ls, fqdn := true }, e) := by
  induction h with
  | @root s pos h =>
    intro acc pm hpm _
    rw [readLabels.eq_def, if_neg]
    rotate_left
    · rcases pm with _ | m
      · simp
      · have := hpm m rfl; simp; omega
    simp [h]
  | @label s pos l ls e F h1 h2 h3 h4 h5 h6 ih =>
    intro acc pm hpm hlen
    have hlt := h6.pos_lt_end
    simp only [flat_cons, List.length_cons, List.length_append] at hlen
    have hext : acc.extendName l = .ok { acc with labels := acc.labels ++ [l] } := by
      unfold Name.extendName
      simp [Name.MAX_LENGTH]; omega
    rw [readLabels.eq_def, if_neg]
    rotate_left
    · rcases pm with _ | m
      · simp
      · have := hpm m rfl; simp; omega
    have hne : l.length ≠ 0 := by omega
    have hd0 : l.length / 64 = 0 := by omega
    simp only [h3, hne, hd0, h5, h4, hext]
    simp only [↓reduceIte, ↓reduceDIte]
    rw [ih _ pm hpm (by rw [encodedLen_snoc]; omega)]
    simp
  | @ptr s pos loc ls e' F' h1 h2 h3 h4 h5 ih =>
    intro acc pm hpm hlen
    have hlt := h4.pos_lt_end
    have hle := h4.end_le_length
    rw [readLabels.eq_def, if_neg]
    rotate_left
    · rcases pm with _ | m
      · simp
      · have := hpm m rfl; simp; omega
    have hne : 192 + loc / 256 ≠ 0 := by omega
    have hd3 : (192 + loc / 256) / 64 = 3 := by omega
    have hloc : ((192 + loc / 256) * 256 + loc % 256) % 16384 = loc := by omega
    have hls : loc < s := by omega
    have hnp : ¬ (loc > buf.length) := by omega
    simp only [h2, h3, hne, hd3, hloc, hls, hnp]
    simp only [↓reduceIte, ↓reduceDIte]
    rw [ih acc (some s) (by intro m hm; cases hm; exact h5) hlen]

theorem readName_of_Laid {buf s ls e F} (h : Laid buf s s ls e F) (hlen : (flat ls).length + 1 ≤ 255) :
    readName buf s = .ok ({ labels := ls, fqdn := true }, e) := by
  unfold readName
  rw [readLabels_of_Laid h Name.new none (by intro m hm; cases hm) (by simp [Name.new, Name.encodedLen, Name.dataLen]; omega)]
  simp only [Name.new, List.nil_append]
  have : ¬ (({ labels := ls, fqdn := true } : Name).len ≥ 255) := by
    simp only [Name.len, Name.dataLen]
    have := flat_length ls
    cases ls <;> simp at * <;> omega
  simp [this]
end HickoryVerif
