/-
Helper lemmas about the association-list zone of `Model/Zone.lean` (`get` / `erase` /
`insertSorted` / `set` / key-only `filter`).  Core Lean only.
-/
import HickoryVerif.Model.Zone

namespace HickoryVerif.Upd.Zone
open HickoryVerif HickoryVerif.Upd

@[simp] theorem get_nil (k : Key) : get [] k = none := rfl

theorem get_cons (k' : Key) (v : RSet) (z : Zone) (k : Key) :
    get ((k', v) :: z) k = if k' = k then some v else get z k := rfl

/-- a filter whose predicate looks at the key only commutes with `get` -/
theorem get_filter_key (p : Key → Bool) (z : Zone) (k : Key) :
    get (z.filter fun e => p e.1) k = if p k then get z k else none := by
  induction z with
  | nil => simp
  | cons e z ih =>
    obtain ⟨k', v⟩ := e
    by_cases hp : p k'
    · simp only [List.filter_cons, hp, if_true, get_cons]
      by_cases hk : k' = k
      · subst hk; simp [hp]
      · simp [hk, ih]
    · simp only [List.filter_cons, hp, get_cons]
      by_cases hk : k' = k
      · subst hk; simp [hp, ih]
      · simp [hk, ih]

theorem get_erase (z : Zone) (k k' : Key) :
    get (z.erase k) k' = if k' = k then none else get z k' := by
  have := get_filter_key (fun x => decide (x ≠ k)) z k'
  unfold erase
  simp only [decide_not, ne_eq] at this ⊢
  rw [this]
  by_cases h : k' = k <;> simp [h]

theorem get_erase_self (z : Zone) (k : Key) : get (z.erase k) k = none := by
  simp [get_erase]

theorem get_insertSorted (k : Key) (v : RSet) (z : Zone) (k' : Key) (h : get z k = none) :
    get (insertSorted k v z) k' = if k' = k then some v else get z k' := by
  induction z with
  | nil =>
    simp only [insertSorted, get_cons, get_nil]
    by_cases hk : k = k' <;> simp [hk, eq_comm]
  | cons e z ih =>
    obtain ⟨k1, v1⟩ := e
    have hne : k1 ≠ k := by
      intro heq; simp [get_cons, heq] at h
    have hz : get z k = none := by simpa [get_cons, hne] using h
    unfold insertSorted
    split
    · simp only [get_cons]
      by_cases hk : k = k'
      · subst hk; simp
      · have : ¬ k' = k := fun h => hk h.symm
        simp [hk, this]
    · simp only [get_cons]
      by_cases hk1 : k1 = k'
      · subst hk1; simp [hne]
      · simp [hk1, ih hz]

theorem get_set (z : Zone) (k : Key) (v : RSet) (k' : Key) :
    get (z.set k v) k' = if k' = k then some v else get z k' := by
  unfold set
  rw [get_insertSorted k v (z.erase k) k' (get_erase_self z k), get_erase]
  by_cases h : k' = k <;> simp [h]

theorem erase_erase (z : Zone) (k : Key) : (z.erase k).erase k = z.erase k := by
  unfold erase; simp [List.filter_filter]

/-- erasing a key that is not there changes nothing -/
theorem erase_of_get_none (z : Zone) (k : Key) (h : get z k = none) : z.erase k = z := by
  induction z with
  | nil => rfl
  | cons e z ih =>
    obtain ⟨k1, v1⟩ := e
    have hne : k1 ≠ k := by intro heq; simp [get_cons, heq] at h
    have hz : get z k = none := by simpa [get_cons, hne] using h
    have := ih hz
    unfold erase at this ⊢
    rw [List.filter_cons]
    have hd : decide ((k1, v1).1 ≠ k) = true := by simpa using hne
    rw [if_pos hd, this]

/-- a filter that removes nothing is the identity -/
theorem filter_eq_self_of_length {α} (p : α → Bool) (l : List α)
    (h : ¬ (l.filter p).length < l.length) : l.filter p = l := by
  have hle := List.length_filter_le p l
  have : (l.filter p).length = l.length := by omega
  exact List.filter_eq_self.mpr (by
    intro a ha
    cases hpa : p a with
    | true => rfl
    | false =>
      have hlt : (l.filter p).length < l.length := by
        have := List.length_filter_lt_length_iff_exists (p := p) (l := l)
        exact this.mpr ⟨a, ha, by simp [hpa]⟩
      omega)

theorem keys_erase (z : Zone) (k : Key) : k ∉ (z.erase k).map (·.1) := by
  unfold erase; simp [List.mem_map, List.mem_filter]

theorem keys_insertSorted (k : Key) (v : RSet) (z : Zone) :
    ((insertSorted k v z).map (·.1)).Perm (k :: z.map (·.1)) := by
  induction z with
  | nil => simp [insertSorted]
  | cons e z ih =>
    obtain ⟨k1, v1⟩ := e
    unfold insertSorted
    split
    · simp
    · simp only [List.map_cons]
      exact (List.Perm.cons k1 ih).trans (List.Perm.swap k k1 _)

theorem nodup_erase (z : Zone) (k : Key) (h : (z.map (·.1)).Nodup) : ((z.erase k).map (·.1)).Nodup := by
  unfold erase
  exact (List.Nodup.sublist (List.Sublist.map _ List.filter_sublist) h)

theorem nodup_set (z : Zone) (k : Key) (v : RSet) (h : (z.map (·.1)).Nodup) :
    ((z.set k v).map (·.1)).Nodup := by
  unfold set
  rw [(keys_insertSorted k v (z.erase k)).nodup_iff]
  exact List.nodup_cons.mpr ⟨keys_erase z k, nodup_erase z k h⟩

theorem nodup_filter (z : Zone) (p : Key × RSet → Bool) (h : (z.map (·.1)).Nodup) :
    ((z.filter p).map (·.1)).Nodup :=
  List.Nodup.sublist (List.Sublist.map _ List.filter_sublist) h

theorem get_mem {z : Zone} {k : Key} {v : RSet} (h : z.get k = some v) : (k, v) ∈ z := by
  induction z with
  | nil => simp at h
  | cons e z ih =>
    obtain ⟨k1, v1⟩ := e
    rw [get_cons] at h
    by_cases hk : k1 = k
    · rw [if_pos hk] at h; cases h; subst hk; exact List.mem_cons_self
    · rw [if_neg hk] at h; exact List.mem_cons_of_mem _ (ih h)

theorem mem_erase {z : Zone} {k : Key} {e : Key × RSet} (h : e ∈ z.erase k) : e ∈ z ∧ e.1 ≠ k := by
  unfold erase at h
  simpa using List.mem_filter.mp h

theorem mem_insertSorted {k : Key} {v : RSet} {z : Zone} {e : Key × RSet}
    (h : e ∈ insertSorted k v z) : e = (k, v) ∨ e ∈ z := by
  induction z with
  | nil => simpa [insertSorted] using h
  | cons a z ih =>
    obtain ⟨k1, v1⟩ := a
    unfold insertSorted at h
    split at h
    · rcases List.mem_cons.mp h with h | h
      · exact Or.inl h
      · exact Or.inr h
    · rcases List.mem_cons.mp h with h | h
      · exact Or.inr (h ▸ List.mem_cons_self)
      · rcases ih h with h | h
        · exact Or.inl h
        · exact Or.inr (List.mem_cons_of_mem _ h)

theorem mem_set {z : Zone} {k : Key} {v : RSet} {e : Key × RSet} (h : e ∈ z.set k v) :
    e = (k, v) ∨ (e ∈ z ∧ e.1 ≠ k) := by
  unfold set at h
  rcases mem_insertSorted h with h | h
  · exact Or.inl h
  · exact Or.inr (mem_erase h)

/-- with one entry per key, membership is `get` -/
theorem get_of_mem {z : Zone} (hn : (z.map (·.1)).Nodup) {k : Key} {v : RSet} (h : (k, v) ∈ z) :
    get z k = some v := by
  induction z with
  | nil => cases h
  | cons a z ih =>
    obtain ⟨k1, v1⟩ := a
    rw [get_cons]
    simp only [List.map_cons, List.nodup_cons] at hn
    rcases List.mem_cons.mp h with h | h
    · cases h; simp
    · have hne : k1 ≠ k := by
        intro heq; apply hn.1; rw [heq]
        exact List.mem_map.mpr ⟨(k, v), h, rfl⟩
      rw [if_neg hne]; exact ih hn.2 h

end HickoryVerif.Upd.Zone
