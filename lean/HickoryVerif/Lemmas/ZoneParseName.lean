/-
`Name::parse` on host-style names written per RFC 1035 §5.1 (labels separated by dots; a trailing
dot makes the name absolute, otherwise the origin is appended).
-/
import HickoryVerif.Lemmas.ZoneParseFile

namespace HickoryVerif.ZoneParse
open HickoryVerif HickoryVerif.Spec.MasterFile

/-- a character of a host-style label as hickory stores it: lower-case letter, digit, hyphen -/
def isHostChar (c : Nat) : Bool := (97 ≤ c && c ≤ 122) || (48 ≤ c && c ≤ 57) || c == 45

/-- a host-style label: 1–63 such characters, not starting with `-`, no `xn--` prefix -/
def hostLabel (l : List Nat) : Bool :=
  !l.isEmpty && l.length ≤ 63 && l.all isHostChar && l.head? != some 45 && !punyAt l

/-- a name written absolutely: every label followed by a dot -/
def dotted (ls : List (List Nat)) : List Nat := ls.flatMap fun l => l ++ [46]

/-- a name written relatively: labels separated by dots, no trailing dot -/
def dottedRel : List (List Nat) → List Nat
  | [] => []
  | [l] => l
  | l :: ls => l ++ 46 :: dottedRel ls

theorem hostChar_facts {c : Nat} (h : isHostChar c = true) :
    c < 128 ∧ c ≠ 46 ∧ c ≠ 92 ∧ Name.isCtlOrSpace c = false ∧ isLdhDot c = true ∧ Name.lowerByte c = c ∧
    (c ≠ 45 → Name.isSafeAscii c true false = true) ∧ Name.isSafeAscii c false false = true ∧ c ≠ 95 ∧ c ≠ 42 := by
  simp only [isHostChar, Bool.or_eq_true, Bool.and_eq_true, decide_eq_true_eq, beq_iff_eq] at h
  have hlow : Name.lowerByte c = c := by unfold Name.lowerByte; split <;> omega
  have hal : c ≠ 45 → Name.isAlnum c = true := by
    intro hne
    simp only [Name.isAlnum, Bool.or_eq_true, Bool.and_eq_true, decide_eq_true_eq]
    omega
  refine ⟨by omega, by omega, by omega, ?_, ?_, hlow, ?_, ?_, by omega, by omega⟩
  · simp only [Name.isCtlOrSpace, Bool.or_eq_false_iff, decide_eq_false_iff_not, beq_eq_false_iff_ne]; omega
  · by_cases h45 : c = 45
    · subst h45; decide
    · simp [isLdhDot, hal h45]
  · intro hne
    have h128 : ¬ c ≥ 128 := by omega
    simp [Name.isSafeAscii, h128, hal hne]
  · have h128 : ¬ c ≥ 128 := by omega
    by_cases h45 : c = 45
    · subst h45; decide
    · simp [Name.isSafeAscii, h128, hal h45]

theorem hasPunyPart_host (l : List Nat) (b : Bool) (h : l.all isHostChar = true)
    (hp : b = true → punyAt l = false) : hasPunyPart l b = false := by
  induction l generalizing b with
  | nil => rfl
  | cons c l ih =>
    simp only [List.all_cons, Bool.and_eq_true] at h
    have hc := (hostChar_facts h.1).2.1
    unfold hasPunyPart
    have h46 : decide (c = 46) = false := by simpa using hc
    rw [h46, ih false h.2 (by simp)]
    cases b with
    | false => simp
    | true => simp [hp rfl]

/-- `Label::from_utf8` returns a host-style label unchanged -/
theorem labelFromUtf8_host {l : List Nat} (h : hostLabel l = true) : labelFromUtf8 l = .ok l := by
  simp only [hostLabel, Bool.and_eq_true, Bool.not_eq_eq_eq_not, Bool.not_true, decide_eq_true_eq,
    bne_iff_ne, List.isEmpty_eq_false_iff] at h
  obtain ⟨⟨⟨⟨hne, hlen⟩, hall⟩, hhead⟩, hpuny⟩ := h
  cases l with
  | nil => exact absurd rfl hne
  | cons c rest =>
    have hall' := hall
    simp only [List.all_cons, Bool.and_eq_true] at hall
    obtain ⟨f1, f2, f3, f4, f5, f6, f7, f8, f9, f10⟩ := hostChar_facts hall.1
    have hc45 : c ≠ 45 := by simpa using hhead
    have h1 : ¬ (c :: rest = [42]) := by intro h; injection h with h _; exact f10 h
    have h2 : ¬ ((c :: rest).head? = some 95) := by simpa using f9
    have h3 : (c :: rest).any (· ≥ 128) = false := by
      simp only [List.any_eq_false, decide_eq_true_eq]
      intro x hx
      have := (hostChar_facts (List.all_eq_true.1 hall' x hx)).1; omega
    have h4 : hasPunyPart (c :: rest) true = false := hasPunyPart_host _ _ hall' (fun _ => hpuny)
    have h5 : (c :: rest).all isLdhDot = true := by
      simp only [List.all_eq_true]; intro x hx
      exact (hostChar_facts (List.all_eq_true.1 hall' x hx)).2.2.2.2.1
    have h6 : (c :: rest).map Name.lowerByte = c :: rest := by
      have : ∀ x ∈ c :: rest, Name.lowerByte x = id x := fun x hx =>
        (hostChar_facts (List.all_eq_true.1 hall' x hx)).2.2.2.2.2.1
      rw [List.map_congr_left this, List.map_id]
    unfold labelFromUtf8
    simp only [h1, h2, h3, h4, h5, h6, ↓reduceIte, Bool.false_eq_true]
    have hr1 : rest.all (· < 128) = true := by
      simp only [List.all_eq_true, decide_eq_true_eq]; intro x hx
      exact (hostChar_facts (List.all_eq_true.1 hall.2 x hx)).1
    have hr2 : rest.all (Name.isSafeAscii · false false) = true := by
      simp only [List.all_eq_true]; intro x hx
      exact (hostChar_facts (List.all_eq_true.1 hall.2 x hx)).2.2.2.2.2.2.2.1
    have hlen' : ¬ (c :: rest).length > 63 := by omega
    simp only [Name.labelFromAscii, hlen', h1, ↓reduceIte, f1, hr1, f7 hc45, hr2, and_self,
      Name.labelFromRaw, List.isEmpty_cons, Bool.false_eq_true, ZR.ofOutcome]

/-- the characters of a host label are collected -/
theorem nameLoop_label (l rest acc : List Nat) (name : Name) (h : l.all isHostChar = true) :
    nameLoop (l ++ rest) .label acc name = nameLoop rest .label (acc ++ l) name := by
  induction l generalizing acc with
  | nil => simp
  | cons c l ih =>
    simp only [List.all_cons, Bool.and_eq_true] at h
    obtain ⟨f1, f2, f3, f4, _⟩ := hostChar_facts h.1
    have h128 : ¬ c ≥ 128 := by omega
    rw [List.cons_append, nameLoop]
    simp only [h128, ↓reduceIte, f2, f3, f4, Bool.not_false]
    rw [ih _ h.2]; simp

/-- sum of the encoded lengths of labels (length octet + data) -/
def labelsLen (ls : List (List Nat)) : Nat := (ls.map fun l => l.length + 1).sum

theorem encodedLen_eq (n : Name) : n.encodedLen = labelsLen n.labels + 1 := by
  unfold Name.encodedLen Name.dataLen labelsLen
  induction n.labels with
  | nil => simp
  | cons l ls ih => simp only [List.map_cons, List.sum_cons, List.length_cons] at *; omega

theorem extendName_ok (n : Name) (l : List Nat) (h : labelsLen n.labels + l.length + 2 ≤ 255) :
    n.extendName l = .ok { n with labels := n.labels ++ [l] } := by
  unfold Name.extendName
  simp only [encodedLen_eq, Name.MAX_LENGTH]
  have : ¬ labelsLen n.labels + 1 + l.length + 1 > 255 := by omega
  simp [this]

theorem labelsLen_append (a b : List (List Nat)) : labelsLen (a ++ b) = labelsLen a + labelsLen b := by
  simp [labelsLen, List.map_append, List.sum_append]

/-- **an absolute host-style name parses to itself** (loop part) -/
theorem nameLoop_dotted (ls : List (List Nat)) (rest : List Nat) (name : Name)
    (hl : ls.all hostLabel = true) (hlen : labelsLen name.labels + labelsLen ls + 1 ≤ 255) :
    nameLoop (dotted ls ++ rest) .label [] name =
      nameLoop rest .label [] { name with labels := name.labels ++ ls } := by
  induction ls generalizing name with
  | nil => simp [dotted]
  | cons l ls ih =>
    simp only [List.all_cons, Bool.and_eq_true] at hl
    have hh := hl.1
    simp only [hostLabel, Bool.and_eq_true] at hh
    have hall : l.all isHostChar = true := hh.1.1.2
    have hlen1 : labelsLen (l :: ls) = l.length + 1 + labelsLen ls := by simp [labelsLen]
    simp only [dotted, List.flatMap_cons, List.append_assoc, List.singleton_append]
    rw [nameLoop_label _ _ _ _ hall, List.nil_append, List.cons_append]
    simp only [nameLoop, show ¬ (46 ≥ 128) by omega, ↓reduceIte, pushLabel, labelFromUtf8_host hl.1, ZR.bind_ok]
    rw [extendName_ok _ _ (by omega)]
    simp only [ZR.ofOutcome, ZR.bind_ok]
    have := ih { name with labels := name.labels ++ [l] } hl.2
      (by simp only [labelsLen_append]; simp only [labelsLen, List.map_cons, List.map_nil, List.sum_cons, List.sum_nil] at *; omega)
    simp only [dotted] at this
    rw [this]; simp

theorem extendAll_ok (n : Name) (ls : List (List Nat)) (h : labelsLen n.labels + labelsLen ls + 1 ≤ 255) :
    n.extendAll ls = .ok { n with labels := n.labels ++ ls } := by
  induction ls generalizing n with
  | nil => simp [Name.extendAll]
  | cons l ls ih =>
    have hlen1 : labelsLen (l :: ls) = l.length + 1 + labelsLen ls := by simp [labelsLen]
    unfold Name.extendAll
    rw [extendName_ok _ _ (by omega)]
    simp only [Outcome.bind_ok]
    rw [ih _ (by simp only [labelsLen_append]; simp only [labelsLen, List.map_cons, List.map_nil, List.sum_cons, List.sum_nil] at *; omega)]
    simp

/-- **An absolute host-style name, written label by label with dots, parses to exactly that
name** (whatever the origin). -/
theorem parseName_host (ls : List (List Nat)) (o : Option Name) (hne : ls ≠ [])
    (hl : ls.all hostLabel = true) (hlen : labelsLen ls + 1 ≤ 255) :
    parseName (dotted ls) o = .ok { labels := ls, fqdn := true } := by
  unfold parseName
  have h1 : dotted ls ≠ [46] := by
    cases ls with
    | nil => exact absurd rfl hne
    | cons l ls =>
      simp only [List.all_cons, Bool.and_eq_true] at hl
      have hh := hl.1
      simp only [hostLabel, Bool.and_eq_true, Bool.not_eq_eq_eq_not, Bool.not_true,
        List.isEmpty_eq_false_iff] at hh
      cases l with
      | nil => exact absurd rfl hh.1.1.1.1
      | cons c l =>
        have hc : isHostChar c = true := by
          have := hh.1.1.2
          simp only [List.all_cons, Bool.and_eq_true] at this
          exact this.1
        have := (hostChar_facts hc).2.1
        intro heq
        simp only [dotted, List.flatMap_cons, List.cons_append] at heq
        injection heq with h _
        exact this h
  have h2 : (dotted ls).isEmpty = false := by
    cases ls with
    | nil => exact absurd rfl hne
    | cons l ls => simp [dotted]
  simp only [h1, ↓reduceIte]
  have := nameLoop_dotted ls [] Name.new hl (by simpa [Name.new, labelsLen] using hlen)
  rw [List.append_nil] at this
  rw [this]
  simp [nameLoop, Name.new, h2]

/-- **A relative host-style name (no trailing dot) parses to its labels followed by the
origin's.** -/
theorem parseName_host_relative (init : List (List Nat)) (last : List Nat) (o : Name)
    (hl : (init ++ [last]).all hostLabel = true)
    (hlen : labelsLen (init ++ [last]) + labelsLen o.labels + 1 ≤ 255) :
    parseName (dotted init ++ last) (some o) = .ok { labels := init ++ [last] ++ o.labels, fqdn := true } := by
  simp only [List.all_append, List.all_cons, List.all_nil, Bool.and_true, Bool.and_eq_true] at hl
  obtain ⟨hinit, hlast⟩ := hl
  have hh := hlast
  simp only [hostLabel, Bool.and_eq_true, Bool.not_eq_eq_eq_not, Bool.not_true,
    List.isEmpty_eq_false_iff] at hh
  have hall : last.all isHostChar = true := hh.1.1.2
  have hne : last ≠ [] := hh.1.1.1.1
  have hlen2 : labelsLen (init ++ [last]) = labelsLen init + (last.length + 1) := by
    simp [labelsLen_append, labelsLen]
  unfold parseName
  have h1 : dotted init ++ last ≠ [46] := by
    intro heq
    have hmem : (46 : Nat) ∈ last ∨ last = [] := by
      cases init with
      | nil => simp only [dotted, List.flatMap_nil, List.nil_append] at heq; left; rw [heq]; simp
      | cons l ls =>
        right
        have hlen := congrArg List.length heq
        simp only [dotted, List.flatMap_cons, List.length_append, List.length_cons, List.length_nil] at hlen
        have : last.length = 0 := by omega
        exact List.eq_nil_of_length_eq_zero this
    rcases hmem with hm | hm
    · exact (hostChar_facts (List.all_eq_true.1 hall 46 hm)).2.1 rfl
    · exact hne hm
  simp only [h1, ↓reduceIte]
  have hz : labelsLen ([] : List (List Nat)) = 0 := rfl
  rw [nameLoop_dotted init last Name.new hinit (by show labelsLen [] + labelsLen init + 1 ≤ 255; omega)]
  have := nameLoop_label last [] [] { Name.new with labels := Name.new.labels ++ init } hall
  rw [List.append_nil] at this
  rw [this]
  have hemp : last.isEmpty = false := by simpa using hne
  simp only [nameLoop, List.nil_append, ZR.bind_ok, hemp, Bool.not_false, ↓reduceIte, pushLabel,
    labelFromUtf8_host hlast, Bool.false_and, Bool.false_eq_true]
  rw [extendName_ok _ _ (by show labelsLen ([] ++ init) + last.length + 2 ≤ 255; rw [List.nil_append]; omega)]
  simp only [ZR.ofOutcome, ZR.bind_ok, Name.appendDomain, Name.appendName]
  rw [extendAll_ok _ _ (by show labelsLen ([] ++ init ++ [last]) + labelsLen o.labels + 1 ≤ 255; rw [List.nil_append]; omega)]
  simp [Outcome.map, Name.new, ZR.ofOutcome]

end HickoryVerif.ZoneParse
