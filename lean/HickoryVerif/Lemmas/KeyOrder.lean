/-
Order facts on RFC 4034 §6.1 sort keys (`List (List Nat)` with core's lexicographic order):
`compare` agrees with `<`, a prefix sorts before its extensions, and the descendants of a name
form an interval (`descendants_convex`).  Core Lean only.
-/
import HickoryVerif.Basic

namespace HickoryVerif.KeyOrder

abbrev LKey := List (List Nat)

/-- `compare` on lists agrees with `<` when it does on the elements. -/
theorem list_compare_lt {α} [Ord α] [LT α] [DecidableEq α]
    (hlt : ∀ a b : α, compare a b = .lt ↔ a < b) (heq : ∀ a b : α, compare a b = .eq ↔ a = b) :
    ∀ l r : List α, compare l r = .lt ↔ l < r := by
  intro l
  induction l with
  | nil =>
    intro r
    cases r with
    | nil => simp [List.compare_nil_nil]
    | cons b r => simp [List.compare_nil_cons]
  | cons a l ih =>
    intro r
    cases r with
    | nil => simp [List.compare_cons_nil]
    | cons b r =>
      rw [List.compare_cons_cons, List.cons_lt_cons_iff]
      cases h : compare a b with
      | lt => simp [(hlt a b).1 h]
      | eq =>
        have hab := (heq a b).1 h
        subst hab
        have : ¬ a < a := fun h' => by
          have := (hlt a a).2 h'
          rw [h] at this; cases this
        simp [ih r, this]
      | gt =>
        have h1 : ¬ a < b := fun h' => by rw [(hlt a b).2 h'] at h; cases h
        have h2 : a ≠ b := fun h' => by rw [(heq a b).2 h'] at h; cases h
        simp [h1, h2]

theorem label_compare_lt (l r : List Nat) : compare l r = .lt ↔ l < r :=
  list_compare_lt (fun _ _ => Nat.compare_eq_lt) (fun _ _ => Nat.compare_eq_eq) l r

theorem key_compare_lt (a b : LKey) : compare a b = .lt ↔ a < b :=
  list_compare_lt label_compare_lt (fun _ _ => Std.LawfulEqOrd.compare_eq_iff_eq) a b

theorem key_compare_gt (a b : LKey) : compare a b = .gt ↔ b < a := by
  rw [← key_compare_lt, Std.OrientedCmp.gt_iff_lt]

theorem key_compare_eq (a b : LKey) : compare a b = .eq ↔ a = b :=
  Std.LawfulEqOrd.compare_eq_iff_eq

theorem lt_irrefl (a : LKey) : ¬ a < a := List.lt_irrefl a
theorem lt_trans {a b c : LKey} : a < b → b < c → a < c := List.lt_trans
theorem le_of_lt {a b : LKey} : a < b → a ≤ b := List.le_of_lt
theorem lt_of_le_of_lt {a b c : LKey} : a ≤ b → b < c → a < c := List.lt_of_le_of_lt
theorem lt_of_lt_of_le {a b c : LKey} : a < b → b ≤ c → a < c := Std.lt_of_lt_of_le
theorem le_trans {a b c : LKey} : a ≤ b → b ≤ c → a ≤ c := List.le_trans
theorem not_lt {a b : LKey} : ¬ a < b ↔ b ≤ a := List.not_lt
theorem le_refl (a : LKey) : a ≤ a := List.le_refl a
theorem prefix_le {p m : LKey} (h : p <+: m) : p ≤ m := List.IsPrefix.le h

/-- two prefixes of the same list are comparable -/
theorem prefix_total {a b m : LKey} (ha : a <+: m) (hb : b <+: m) : a <+: b ∨ b <+: a := by
  rcases Nat.le_total a.length b.length with h | h
  · exact Or.inl (List.prefix_of_prefix_length_le ha hb h)
  · exact Or.inr (List.prefix_of_prefix_length_le hb ha h)

/-- **The descendants of a name form an interval of the canonical order.** -/
theorem descendants_convex {p a b c : LKey} (ha : p <+: a) (hc : p <+: c) (hab : a ≤ b)
    (hbc : b ≤ c) : p <+: b := by
  induction p generalizing a b c with
  | nil => exact List.nil_prefix
  | cons x p ih =>
    obtain ⟨a', rfl⟩ := ha
    obtain ⟨c', rfl⟩ := hc
    cases b with
    | nil => simp at hab
    | cons y b =>
      simp only [List.cons_append] at hab hbc
      rw [List.cons_le_cons_iff] at hab hbc
      have hxy : x = y := by
        rcases hab with h1 | ⟨h1, _⟩
        · rcases hbc with h2 | ⟨h2, _⟩
          · exact absurd (List.lt_trans h1 h2) (List.lt_irrefl x)
          · subst h2; exact absurd h1 (List.lt_irrefl _)
        · exact h1
      subst hxy
      have hab' : p ++ a' ≤ b := by
        rcases hab with h1 | ⟨_, h1⟩
        · exact absurd h1 (List.lt_irrefl x)
        · exact h1
      have hbc' : b ≤ p ++ c' := by
        rcases hbc with h1 | ⟨_, h1⟩
        · exact absurd h1 (List.lt_irrefl x)
        · exact h1
      have := ih (a := p ++ a') (c := p ++ c') (List.prefix_append _ _) (List.prefix_append _ _)
        hab' hbc'
      exact (List.cons_prefix_cons).2 ⟨rfl, this⟩

end HickoryVerif.KeyOrder
