/-
Lexing what the RFC 1035 printer (`Spec/MasterFile.lean`) prints: one lemma per syntactic
element (blanks, contiguous items, quoted strings, comments, line ends, parenthesised groups),
each by induction over the element with `run_cont` / `run_ret`.
-/
import HickoryVerif.Lemmas.ZoneLex
import HickoryVerif.Spec.MasterFile

namespace HickoryVerif.ZoneLex
open HickoryVerif.Spec.MasterFile

/-! ### character classes of the spec vs. those of the lexer -/

theorem blank_facts {c : Nat} (h : isBlank c = true) :
    isWs c = true ∧ c ≠ 13 ∧ c ≠ 10 ∧ c ≠ 64 ∧ c ≠ 40 ∧ c ≠ 41 ∧ c ≠ 36 ∧ c ≠ 34 ∧ c ≠ 59 := by
  simp only [isBlank, Bool.or_eq_true, beq_iff_eq] at h
  rcases h with ((rfl | rfl) | rfl) | rfl <;> decide

theorem space_facts {c : Nat} (h : isSpace c = true) :
    isWs c = true ∧ c ≠ 41 ∧ c ≠ 59 ∧ c ≠ 34 := by
  simp only [isSpace, isBlank, Bool.or_eq_true, beq_iff_eq] at h
  rcases h with ((((rfl | rfl) | rfl) | rfl) | rfl) | rfl <;> decide

theorem isWs_eq_isSpace (c : Nat) : isWs c = isSpace c := by
  by_cases h : isSpace c = true
  · rw [h]; exact (space_facts h).1
  · have h' : isSpace c = false := by simpa using h
    rw [h']
    simp only [isSpace, isBlank, Bool.or_eq_false_iff, beq_eq_false_iff_ne] at h'
    simp only [isWs, Bool.or_eq_false_iff, beq_eq_false_iff_ne, Bool.and_eq_false_imp,
      decide_eq_true_eq, decide_eq_false_iff_not]
    omega

theorem wordChar_facts {c : Nat} (h : isWordChar c = true) :
    isWs c = false ∧ isControl c = false ∧ c ≠ 41 ∧ c ≠ 59 ∧ c ≠ 13 ∧ c ≠ 10 := by
  simp only [isWordChar, Bool.and_eq_true, Bool.not_eq_eq_eq_not, Bool.not_true, bne_iff_ne] at h
  obtain ⟨⟨⟨h1, h2⟩, h3⟩, h4⟩ := h
  refine ⟨by rw [isWs_eq_isSpace]; exact h1, ?_, h3, h4, ?_, ?_⟩
  · simpa [isCtl, isControl] using h2
  · rintro rfl; simp [isSpace] at h1
  · rintro rfl; simp [isSpace] at h1

/-! ### blanks -/

theorem run_blanks (ws rest : Str) (cd : Option Str) (cdv : Option (List Str))
    (h : ws.all isBlank = true) :
    run ⟨ws ++ rest, .restOfLine, cd, cdv⟩ = run ⟨rest, .restOfLine, cd, cdv⟩ := by
  induction ws with
  | nil => rfl
  | cons x ws ih =>
    simp only [List.all_cons, Bool.and_eq_true] at h
    obtain ⟨hx, hws⟩ := h
    obtain ⟨f1, f2, f3, f4, f5, f6, f7, f8, f9⟩ := blank_facts hx
    rw [List.cons_append, run_cont (c' := ⟨ws ++ rest, .restOfLine, cd, cdv⟩)]
    · exact ih hws
    · simp [step, f1, f2, f3, f4, f5, f6, f7, f8, f9]

/-! ### contiguous items -/

/-- `CharData { is_list: false }` collects word characters up to a delimiter -/
theorem run_word_body (w : Str) (d : Nat) (rest acc : Str) (cdv : Option (List Str))
    (hw : w.all isWordChar = true) (hd : isWs d = true ∨ d = 59) :
    run ⟨w ++ d :: rest, .charData false, some acc, cdv⟩ =
      .ok (some (.charData (acc ++ w)), ⟨d :: rest, .restOfLine⟩) := by
  induction w generalizing acc with
  | nil =>
    have hd' : ¬ (d = 41 ∧ false = false) ∨ True := Or.inr trivial
    apply run_ret
    rcases hd with hd | hd
    · have : d ≠ 41 := by rintro rfl; simp [isWs] at hd
      simp [step, hd, this]
    · subst hd; simp [step]
  | cons x w ih =>
    simp only [List.all_cons, Bool.and_eq_true] at hw
    obtain ⟨hx, hw⟩ := hw
    obtain ⟨f1, f2, f3, f4, _, _⟩ := wordChar_facts hx
    rw [List.cons_append, run_cont (c' := ⟨w ++ d :: rest, .charData false, some (acc ++ [x]), cdv⟩)]
    · rw [ih _ hw]; simp
    · simp [step, f1, f2, f3, f4, pushToStr]

/-- a contiguous item after blanks, in the rest of a line -/
theorem run_word (w : Str) (d : Nat) (rest : Str)
    (hw : wordOK w = true) (hd : isWs d = true ∨ d = 59) :
    run ⟨w ++ d :: rest, .restOfLine, none, none⟩ =
      .ok (some (.charData w), ⟨d :: rest, .restOfLine⟩) := by
  cases w with
  | nil => simp [wordOK] at hw
  | cons x w =>
    simp only [wordOK, Bool.and_eq_true] at hw
    obtain ⟨hs, hall⟩ := hw
    have hx : isWordChar x = true := by simp only [List.all_cons, Bool.and_eq_true] at hall; exact hall.1
    obtain ⟨f1, f2, f3, f4, f5, f6⟩ := wordChar_facts hx
    simp only [wordStartOK, Bool.and_eq_true, bne_iff_ne] at hs
    obtain ⟨⟨⟨s1, s2⟩, s3⟩, s4⟩ := hs
    rw [run_cont (c' := ⟨(x :: w) ++ d :: rest, .charData false, some [], none⟩)]
    · rw [run_word_body _ _ _ _ _ hall hd]; simp
    · simp [step, f1, f2, f3, f4, f5, f6, s1, s2, s3, s4]

/-- the same at the start of a line (`<domain-name>`) -/
theorem run_word_startLine (w : Str) (d : Nat) (rest : Str)
    (hw : wordOK w = true) (hd : isWs d = true ∨ d = 59) :
    run ⟨w ++ d :: rest, .startLine, none, none⟩ =
      .ok (some (.charData w), ⟨d :: rest, .restOfLine⟩) := by
  cases w with
  | nil => simp [wordOK] at hw
  | cons x w =>
    have hw' := hw
    simp only [wordOK, Bool.and_eq_true] at hw
    obtain ⟨_, hall⟩ := hw
    have hx : isWordChar x = true := by simp only [List.all_cons, Bool.and_eq_true] at hall; exact hall.1
    obtain ⟨f1, f2, f3, f4, f5, f6⟩ := wordChar_facts hx
    rw [run_cont (c' := ⟨(x :: w) ++ d :: rest, .restOfLine, none, none⟩)]
    · exact run_word _ _ _ hw' hd
    · simp [step, f1, f5, f6]

/-! ### quoted strings -/

theorem escapeSeq_esc {c : Nat} (rest : Str) (h1 : isCtl c = false) (h2 : isDig c = false) :
    escapeSeq (92 :: c :: rest) = some (c, rest) := by
  have h1' : isControl c = false := by simpa [isCtl, isControl] using h1
  have h2' : isNumeric c = false := by simpa [isDig, isNumeric] using h2
  simp [escapeSeq, h1', h2']

/-- `Quote` collects the characters of the string, decoding `\X`, up to the closing `"` -/
theorem run_quoted_body (qs : List QChar) (rest acc : Str) (cdv : Option (List Str))
    (hq : qs.all QChar.ok = true) :
    run ⟨qs.flatMap QChar.render ++ 34 :: rest, .quote false, some acc, cdv⟩ =
      .ok (some (.charData (acc ++ qs.map QChar.val)), ⟨rest, .restOfLine⟩) := by
  induction qs generalizing acc with
  | nil => apply run_ret; simp [step]
  | cons q qs ih =>
    simp only [List.all_cons, Bool.and_eq_true] at hq
    obtain ⟨hq1, hqs⟩ := hq
    cases q with
    | raw c =>
      simp only [QChar.ok, Bool.and_eq_true, bne_iff_ne] at hq1
      obtain ⟨c1, c2⟩ := hq1
      rw [List.flatMap_cons, QChar.render, List.append_assoc, List.singleton_append,
        run_cont (c' := ⟨qs.flatMap QChar.render ++ 34 :: rest, .quote false, some (acc ++ [c]), cdv⟩)]
      · rw [ih _ hqs]; simp [QChar.val]
      · simp [step, c1, c2, pushToStr]
    | esc c =>
      simp only [QChar.ok, Bool.and_eq_true, Bool.not_eq_eq_eq_not, Bool.not_true] at hq1
      obtain ⟨c1, c2⟩ := hq1
      rw [List.flatMap_cons, QChar.render, List.append_assoc,
        run_cont (c' := ⟨qs.flatMap QChar.render ++ 34 :: rest, .quote false, some (acc ++ [c]), cdv⟩)]
      · rw [ih _ hqs]; simp [QChar.val]
      · have := escapeSeq_esc (qs.flatMap QChar.render ++ 34 :: rest) c1 c2
        simp [step, pushToStr, this]

/-- **lexing a rendered character string yields the string back** -/
theorem run_quoted (qs : List QChar) (rest : Str) (hq : qs.all QChar.ok = true) :
    run ⟨(Item.quoted qs).render ++ rest, .restOfLine, none, none⟩ =
      .ok (some (.charData (qs.map QChar.val)), ⟨rest, .restOfLine⟩) := by
  simp only [Item.render, List.cons_append, List.append_assoc, List.singleton_append]
  rw [run_cont (c' := ⟨qs.flatMap QChar.render ++ 34 :: rest, .quote false, some [], none⟩)]
  · rw [run_quoted_body _ _ _ _ hq]; simp
  · simp [step]

/-- the same inside a group: the string is pushed to the list (`Quote { is_list: true }`) -/
theorem run_quoted_body_list (qs : List QChar) (rest acc : Str) (v : List Str)
    (hq : qs.all QChar.ok = true) :
    run ⟨qs.flatMap QChar.render ++ 34 :: rest, .quote true, some acc, some v⟩ =
      run ⟨rest, .list, none, some (v ++ [acc ++ qs.map QChar.val])⟩ := by
  induction qs generalizing acc with
  | nil =>
    rw [List.flatMap_nil, List.nil_append,
      run_cont (c' := ⟨rest, .list, none, some (v ++ [acc])⟩)]
    · simp
    · simp [step]
  | cons q qs ih =>
    simp only [List.all_cons, Bool.and_eq_true] at hq
    obtain ⟨hq1, hqs⟩ := hq
    cases q with
    | raw c =>
      simp only [QChar.ok, Bool.and_eq_true, bne_iff_ne] at hq1
      obtain ⟨c1, c2⟩ := hq1
      rw [List.flatMap_cons, QChar.render, List.append_assoc, List.singleton_append,
        run_cont (c' := ⟨qs.flatMap QChar.render ++ 34 :: rest, .quote true, some (acc ++ [c]), some v⟩)]
      · rw [ih _ hqs]; simp [QChar.val]
      · simp [step, c1, c2, pushToStr]
    | esc c =>
      simp only [QChar.ok, Bool.and_eq_true, Bool.not_eq_eq_eq_not, Bool.not_true] at hq1
      obtain ⟨c1, c2⟩ := hq1
      rw [List.flatMap_cons, QChar.render, List.append_assoc,
        run_cont (c' := ⟨qs.flatMap QChar.render ++ 34 :: rest, .quote true, some (acc ++ [c]), some v⟩)]
      · rw [ih _ hqs]; simp [QChar.val]
      · have := escapeSeq_esc (qs.flatMap QChar.render ++ 34 :: rest) c1 c2
        simp [step, pushToStr, this]

/-! ### comments and line ends -/

theorem run_comment_body (body rest : Str) (il : Bool) (cd : Option Str) (cdv : Option (List Str))
    (hb : noLineEnd body = true) :
    run ⟨body ++ rest, .comment il, cd, cdv⟩ = run ⟨rest, .comment il, cd, cdv⟩ := by
  induction body with
  | nil => rfl
  | cons x body ih =>
    simp only [noLineEnd, List.all_cons, Bool.and_eq_true, bne_iff_ne] at hb
    obtain ⟨⟨h1, h2⟩, hb⟩ := hb
    rw [List.cons_append, run_cont (c' := ⟨body ++ rest, .comment il, cd, cdv⟩)]
    · exact ih (by simpa [noLineEnd] using hb)
    · simp [step, h1, h2]

theorem run_crs (n : Nat) (rest : Str) (cd : Option Str) (cdv : Option (List Str)) :
    run ⟨List.replicate n 13 ++ 10 :: rest, .eol, cd, cdv⟩ =
      .ok (some .eol, ⟨rest, .startLine⟩) := by
  induction n with
  | zero => apply run_ret; simp [step]
  | succ n ih =>
    rw [List.replicate_succ, List.cons_append,
      run_cont (c' := ⟨List.replicate n 13 ++ 10 :: rest, .eol, cd, cdv⟩)]
    · exact ih
    · simp [step]

theorem crs_head (n : Nat) (rest : Str) :
    ∃ x t, List.replicate n 13 ++ 10 :: rest = x :: t ∧ (x = 13 ∨ x = 10) := by
  cases n with
  | zero => exact ⟨10, rest, rfl, Or.inr rfl⟩
  | succ n => exact ⟨13, List.replicate n 13 ++ 10 :: rest, by simp [List.replicate_succ], Or.inl rfl⟩

theorem step_rest_to_eol (txt : Str) (cd : Option Str) (cdv : Option (List Str))
    (h : ∃ x t, txt = x :: t ∧ (x = 13 ∨ x = 10)) :
    step ⟨txt, .restOfLine, cd, cdv⟩ = .cont ⟨txt, .eol, cd, cdv⟩ := by
  obtain ⟨x, t, rfl, hx⟩ := h
  rcases hx with rfl | rfl <;> simp [step]

theorem step_comment_to_eol (txt : Str) (cd : Option Str) (cdv : Option (List Str))
    (h : ∃ x t, txt = x :: t ∧ (x = 13 ∨ x = 10)) :
    step ⟨txt, .comment false, cd, cdv⟩ = .cont ⟨txt, .eol, cd, cdv⟩ := by
  obtain ⟨x, t, rfl, hx⟩ := h
  rcases hx with rfl | rfl <;> simp [step]

/-- **comments and trailing blanks produce no token**: the end of a line is one `EOL` -/
theorem run_eol (e : Eol) (rest : Str) (he : e.ok = true) :
    run ⟨e.render ++ rest, .restOfLine, none, none⟩ = .ok (some .eol, ⟨rest, .startLine⟩) := by
  obtain ⟨ws, comment, crs⟩ := e
  simp only [Eol.ok, Bool.and_eq_true] at he
  obtain ⟨hws, hc⟩ := he
  simp only [Eol.render, List.append_assoc, List.singleton_append]
  rw [run_blanks _ _ _ _ hws]
  have hh := crs_head crs rest
  cases comment with
  | none =>
    simp only [List.nil_append]
    rw [run_cont (step_rest_to_eol _ _ _ hh)]
    exact run_crs _ _ _ _
  | some body =>
    simp only at hc
    simp only [List.cons_append, List.append_assoc]
    rw [run_cont (c' := ⟨59 :: (body ++ (List.replicate crs 13 ++ 10 :: rest)), .comment false, none, none⟩),
      run_cont (c' := ⟨body ++ (List.replicate crs 13 ++ 10 :: rest), .comment false, none, none⟩),
      run_comment_body _ _ _ _ _ hc,
      run_cont (step_comment_to_eol _ _ _ hh)]
    · exact run_crs _ _ _ _
    · simp [step]
    · simp [step]

/-! ### parenthesised groups -/

/-- inside a group white space, line ends and comments are skipped -/
theorem run_pgap (g : PGap) (rest : Str) (acc : List Str) (hg : g.all PSeg.ok = true) :
    run ⟨renderPGap g ++ rest, .list, none, some acc⟩ = run ⟨rest, .list, none, some acc⟩ := by
  induction g with
  | nil => rfl
  | cons s g ih =>
    simp only [List.all_cons, Bool.and_eq_true] at hg
    obtain ⟨hs, hg⟩ := hg
    cases s with
    | ws c =>
      simp only [PSeg.ok] at hs
      obtain ⟨f1, f2, f3, f4⟩ := space_facts hs
      simp only [renderPGap, List.flatMap_cons, PSeg.render, List.singleton_append, List.cons_append]
      rw [run_cont (c' := ⟨renderPGap g ++ rest, .list, none, some acc⟩)]
      · exact ih hg
      · simp [step, f1, f2, f3, f4, renderPGap]
    | comment body =>
      simp only [PSeg.ok] at hs
      simp only [renderPGap, List.flatMap_cons, PSeg.render, List.cons_append, List.append_assoc,
        List.singleton_append]
      rw [run_cont (c' := ⟨body ++ 10 :: (renderPGap g ++ rest), .comment true, none, some acc⟩),
        run_comment_body _ _ _ _ _ hs,
        run_cont (c' := ⟨10 :: (renderPGap g ++ rest), .list, none, some acc⟩),
        run_cont (c' := ⟨renderPGap g ++ rest, .list, none, some acc⟩)]
      · exact ih hg
      · simp [step, isWs]
      · simp [step]
      · simp [step, renderPGap]

/-- a delimiter inside a group -/
def ListDelim (rest : Str) : Prop :=
  ∃ d t, rest = d :: t ∧ (isWs d = true ∨ d = 41 ∨ d = 59)

theorem run_list_word_body (w rest acc : Str) (v : List Str)
    (hw : w.all isWordChar = true) (hd : ListDelim rest) :
    run ⟨w ++ rest, .charData true, some acc, some v⟩ =
      run ⟨rest, .list, none, some (v ++ [acc ++ w])⟩ := by
  induction w generalizing acc with
  | nil =>
    obtain ⟨d, t, rfl, hd⟩ := hd
    rw [List.nil_append, run_cont (c' := ⟨d :: t, .list, none, some (v ++ [acc])⟩)]
    · simp
    · simp [step, hd]
  | cons x w ih =>
    simp only [List.all_cons, Bool.and_eq_true] at hw
    obtain ⟨hx, hw⟩ := hw
    obtain ⟨f1, f2, f3, f4, _, _⟩ := wordChar_facts hx
    rw [List.cons_append, run_cont (c' := ⟨w ++ rest, .charData true, some (acc ++ [x]), some v⟩)]
    · rw [ih _ hw]; simp
    · simp [step, f1, f2, f3, f4, pushToStr]

theorem run_list_word (w rest : Str) (v : List Str)
    (hw : wordOK w = true) (hd : ListDelim rest) :
    run ⟨w ++ rest, .list, none, some v⟩ = run ⟨rest, .list, none, some (v ++ [w])⟩ := by
  cases w with
  | nil => simp [wordOK] at hw
  | cons x w =>
    simp only [wordOK, Bool.and_eq_true] at hw
    obtain ⟨hs, hall⟩ := hw
    have hx : isWordChar x = true := by simp only [List.all_cons, Bool.and_eq_true] at hall; exact hall.1
    obtain ⟨f1, f2, f3, f4, _, _⟩ := wordChar_facts hx
    simp only [wordStartOK, Bool.and_eq_true, bne_iff_ne] at hs
    have s4 : x ≠ 34 := hs.2
    rw [run_cont (c' := ⟨(x :: w) ++ rest, .charData true, some [], some v⟩)]
    · rw [run_list_word_body _ _ _ _ hall hd]; simp
    · simp [step, f1, f2, f3, f4, s4]

theorem pgap_delim (g : PGap) (rest : Str) (hne : g ≠ []) (hg : g.all PSeg.ok = true) :
    ListDelim (renderPGap g ++ rest) := by
  cases g with
  | nil => exact absurd rfl hne
  | cons s g =>
    simp only [List.all_cons, Bool.and_eq_true] at hg
    cases s with
    | ws c =>
      exact ⟨c, renderPGap g ++ rest, by simp [renderPGap, PSeg.render],
        Or.inl (space_facts (by simpa [PSeg.ok] using hg.1)).1⟩
    | comment body =>
      exact ⟨59, body ++ 10 :: (renderPGap g ++ rest), by simp [renderPGap, PSeg.render], Or.inr (Or.inr rfl)⟩

def elsOK (els : List (PGap × Item)) : Bool :=
  els.all fun (g, it) => !g.isEmpty && g.all PSeg.ok && it.ok

def renderEls (els : List (PGap × Item)) : Str := els.flatMap fun (g, it) => renderPGap g ++ it.render

theorem els_delim (els : List (PGap × Item)) (close : PGap) (rest : Str)
    (he : elsOK els = true) (hc : close.all PSeg.ok = true) :
    ListDelim (renderEls els ++ (renderPGap close ++ 41 :: rest)) := by
  cases els with
  | nil =>
    cases close with
    | nil => exact ⟨41, rest, by simp [renderEls, renderPGap], Or.inr (Or.inl rfl)⟩
    | cons s c => simpa [renderEls] using pgap_delim (s :: c) (41 :: rest) (by simp) hc
  | cons e els =>
    obtain ⟨g, it⟩ := e
    simp only [elsOK, List.all_cons, Bool.and_eq_true, Bool.not_eq_eq_eq_not, Bool.not_true] at he
    obtain ⟨⟨⟨hne, hg⟩, _⟩, _⟩ := he
    have hne' : g ≠ [] := by intro h; simp [h] at hne
    simpa [renderEls, List.append_assoc] using
      pgap_delim g (it.render ++ (renderEls els ++ (renderPGap close ++ 41 :: rest))) hne' hg

/-- one item of a group, contiguous or quoted -/
theorem run_list_item (it : Item) (rest : Str) (v : List Str)
    (hi : it.ok = true) (hd : ListDelim rest) :
    run ⟨it.render ++ rest, .list, none, some v⟩ = run ⟨rest, .list, none, some (v ++ [it.val])⟩ := by
  cases it with
  | word w => exact run_list_word w rest v hi hd
  | quoted qs =>
    simp only [Item.ok] at hi
    simp only [Item.render, Item.val, List.cons_append, List.append_assoc, List.singleton_append]
    rw [run_cont (c' := ⟨qs.flatMap QChar.render ++ 34 :: rest, .quote true, some [], some v⟩)]
    · rw [run_quoted_body_list _ _ _ _ hi]; simp
    · simp [step]

/-- the items of a group, wherever the line ends and comments fall -/
theorem run_group_body (els : List (PGap × Item)) (close : PGap) (rest : Str) (v : List Str)
    (he : elsOK els = true) (hc : close.all PSeg.ok = true) :
    run ⟨renderEls els ++ (renderPGap close ++ 41 :: rest), .list, none, some v⟩ =
      .ok (some (.list (v ++ els.map fun p => p.2.val)), ⟨rest, .restOfLine⟩) := by
  induction els generalizing v with
  | nil =>
    simp only [renderEls, List.flatMap_nil, List.nil_append, List.map_nil, List.append_nil]
    rw [run_pgap _ _ _ hc]
    apply run_ret; simp [step]
  | cons e els ih =>
    obtain ⟨g, it⟩ := e
    have he' := he
    simp only [elsOK, List.all_cons, Bool.and_eq_true] at he
    obtain ⟨⟨⟨_, hg⟩, hw⟩, hels⟩ := he
    have hd := els_delim els close rest (by simpa [elsOK] using hels) hc
    have : renderEls ((g, it) :: els) = renderPGap g ++ (it.render ++ renderEls els) := by
      simp [renderEls, List.append_assoc]
    rw [this, List.append_assoc, List.append_assoc, run_pgap _ _ _ hg, run_list_item _ _ _ hw hd,
      ih _ (by simpa [elsOK] using hels)]
    simp

/-- **a parenthesised group is the list of its items** — contiguous or quoted (with `;`, blanks,
line ends, parentheses inside the quotes) — whatever line ends and comments it spans -/
theorem run_group (els : List (PGap × Item)) (close : PGap) (rest : Str)
    (he : elsOK els = true) (hc : close.all PSeg.ok = true) :
    run ⟨40 :: (renderEls els ++ (renderPGap close ++ 41 :: rest)), .restOfLine, none, none⟩ =
      .ok (some (.list (els.map fun p => p.2.val)), ⟨rest, .restOfLine⟩) := by
  rw [run_cont (c' := ⟨renderEls els ++ (renderPGap close ++ 41 :: rest), .list, none, some []⟩)]
  · rw [run_group_body _ _ _ _ he hc]; simp
  · simp [step]

end HickoryVerif.ZoneLex
