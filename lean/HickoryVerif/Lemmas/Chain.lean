/-
C07 — helper lemmas about the validator model (`Model/Chain.lean`): what a Secure verdict of each
step rests on.  Property theorems are in `Proofs/C07.lean`.
-/
import HickoryVerif.Model.Chain
import HickoryVerif.Spec.ChainOfTrust

namespace HickoryVerif.Chain

/-! ### `verify_dnskey` -/

/-- **one-step soundness of `verify_dnskey`**: a key is Secure only if its algorithm is supported and a
Secure DS record with the same algorithm and key tag covers it. -/
theorem verify_dnskey_sound (env : Env) (k : Rec) (ds : List Rec)
    (h : verifyDnskey env k ds = .secure) :
    k.algSupp = true ∧ ∃ d ∈ ds, d.proof = .secure ∧ d.alg = k.alg ∧ d.tag = k.tag ∧
      env.covers d.rid k.rid = true := by
  unfold verifyDnskey at h
  split at h
  · simp at h
  · rename_i hs
    dsimp only at h
    split at h
    · rename_i hany
      simp only [List.any_eq_true] at hany
      obtain ⟨d, hd, hc⟩ := hany
      have hd' := List.mem_of_mem_take hd
      simp only [List.mem_filter, Bool.and_eq_true, beq_iff_eq] at hd'
      exact ⟨by simpa using hs, d, hd'.1.1, hd'.1.2, hd'.2.1, hd'.2.2, hc⟩
    · simp at h

/-- `verify_dnskey` never yields Indeterminate. -/
theorem verifyDnskey_ne_indet (env : Env) (k : Rec) (ds : List Rec) : verifyDnskey env k ds ≠ .indet := by
  unfold verifyDnskey
  split
  · simp
  · dsimp only
    split <;> simp

/-! ### `fetch_ds_records` -/

theorem dsScan_sup_subset (l : List Rec) (st : List Rec × Option Bool) :
    ∀ d ∈ (dsScan l st).1, d ∈ st.1 ∨ d ∈ l := by
  induction l generalizing st with
  | nil => intro d hd; exact Or.inl hd
  | cons r rest ih =>
    intro d hd
    obtain ⟨sup, au⟩ := st
    unfold dsScan at hd
    split at hd
    · rcases ih _ d hd with h | h
      · exact Or.inl h
      · exact Or.inr (List.mem_cons_of_mem _ h)
    · rcases ih _ d hd with h | h
      · simp only [List.mem_append, List.mem_singleton] at h
        rcases h with h | h
        · exact Or.inl h
        · exact Or.inr (h ▸ List.mem_cons_self)
      · exact Or.inr (List.mem_cons_of_mem _ h)

/-- the DS records handed to `verify_dnskey` are DS records of the answer section of the *validated* DS response -/
theorem fetchDs_ok (sub : Query → Res) (zone : DName) (ds : List Rec) (h : fetchDs sub zone = .ok ds) :
    ∃ m, sub ⟨zone, tDS⟩ = .ok m ∧ ∀ d ∈ ds, d ∈ m.an ∧ d.rtype = tDS := by
  unfold fetchDs at h
  split at h
  · simp at h
  · rename_i m hm
    refine ⟨m, hm, ?_⟩
    simp only at h
    split at h
    · split at h
      · simp at h
      · split at h
        · injection h with h
          subst h
          intro d hd
          have := dsScan_sup_subset (m.an.filter (·.rtype == tDS)) ([], none) d hd
          simp only [List.not_mem_nil, false_or, List.mem_filter, beq_iff_eq] at this
          exact this
        · simp at h
    · split at h <;> simp at h
  · simp at h

/-- `fetch_ds_records` fails with Insecure or Bogus, never with another proof -/
theorem fetchDs_err (sub : Query → Res) (zone : DName) (p : Proof) (h : fetchDs sub zone = .err p) :
    p = .insecure ∨ p = .bogus := by
  unfold fetchDs at h
  split at h
  · simp at h
  · simp only at h
    split at h
    · split at h
      · injection h with h; exact Or.inl h.symm
      · split at h
        · simp at h
        · injection h with h; exact Or.inr h.symm
    · split at h
      · injection h with h; exact Or.inl h.symm
      · injection h with h; exact Or.inr h.symm
  · injection h with h; exact Or.inr h.symm

theorem findDs_err (env : Env) (sub : Query → Res) (n : DName) (p : Proof) (h : findDs env sub n = .err p) :
    p = .insecure ∨ p = .bogus := by
  unfold findDs at h
  split at h
  · injection h with h; exact Or.inr h.symm
  · simp at h
  · split at h
    · simp at h
    · rename_i p' hf
      injection h with h
      subst h
      exact fetchDs_err _ _ _ hf
    · simp at h

/-! ### `verify_rrsig_with_keys` -/

theorem capKeys_subset (l : List Rec) (seen : List Nat) : ∀ k ∈ capKeys l seen, k ∈ l := by
  induction l generalizing seen with
  | nil => intro k hk; simp [capKeys] at hk
  | cons a rest ih =>
    intro k hk
    unfold capKeys at hk
    split at hk
    · exact List.mem_cons_of_mem _ (ih _ k hk)
    · rcases List.mem_cons.mp hk with h | h
      · exact h ▸ List.mem_cons_self
      · exact List.mem_cons_of_mem _ (ih _ k h)

theorem scanKeys_secure (env : Env) (gid : GroupId) (sig : Rec) (keys : List Rec) (ai : Option Bool)
    (h : scanKeys env gid sig keys ai = some .secure) :
    ∃ k ∈ keys, k.proof = .secure ∧ env.sigRes k.rid sig.rid gid = .secure := by
  induction keys generalizing ai with
  | nil => unfold scanKeys at h; split at h <;> simp at h
  | cons k rest ih =>
    unfold scanKeys at h
    split at h
    · rename_i hp
      split at h
      · rename_i hs
        exact ⟨k, List.mem_cons_self, hp, hs⟩
      · simp at h
      · obtain ⟨k', hk', h'⟩ := ih _ h
        exact ⟨k', List.mem_cons_of_mem _ hk', h'⟩
    · obtain ⟨k', hk', h'⟩ := ih _ h
      exact ⟨k', List.mem_cons_of_mem _ hk', h'⟩
    · obtain ⟨k', hk', h'⟩ := ih _ h
      exact ⟨k', List.mem_cons_of_mem _ hk', h'⟩

/-- a signature is accepted as Secure only under a Secure DNSKEY of the (validated) DNSKEY response -/
theorem verifyRrsigWithKeys_secure (env : Env) (gid : GroupId) (m : Msg) (sig : Rec)
    (h : verifyRrsigWithKeys env gid m sig = some .secure) :
    ∃ k ∈ m.an, k.rtype = tDNSKEY ∧ k.proof = .secure ∧ env.sigRes k.rid sig.rid gid = .secure := by
  unfold verifyRrsigWithKeys at h
  split at h
  · simp at h
  · obtain ⟨k, hk, hp, hs⟩ := scanKeys_secure _ _ _ _ _ h
    have := capKeys_subset _ _ k hk
    simp only [List.mem_filter, Bool.and_eq_true, beq_iff_eq] at this
    exact ⟨k, this.1, this.2.1, hp, hs⟩

/-! ### `verify_default_rrset` -/

theorem selectOk_secure (env : Env) (sub : Query → Res) (gid : GroupId) (cands : List (Rec × Nat))
    (idx : Option Nat) (h : selectOk env sub gid cands = .done .secure idx) :
    ∃ s i m, (s, i) ∈ cands ∧ idx = some i ∧ sub ⟨s.signer, tDNSKEY⟩ = .ok m ∧
      verifyRrsigWithKeys env gid m s = some .secure := by
  induction cands with
  | nil => simp [selectOk] at h
  | cons c rest ih =>
    obtain ⟨s, i⟩ := c
    unfold selectOk at h
    split at h
    · simp at h
    · rename_i m hm
      split at h
      · rename_i p hp
        injection h with h1 h2
        subst h1
        exact ⟨s, i, m, List.mem_cons_self, h2.symm, hm, hp⟩
      · simp at h
    · obtain ⟨s', i', m', hc, h'⟩ := ih h
      exact ⟨s', i', m', List.mem_cons_of_mem _ hc, h'⟩

/-- **one-step soundness of `verify_default_rrset`**: an RRset is Secure only through one of its own RRSIGs
(the one whose index is returned), verified under a Secure key of the validated DNSKEY response of the
RRSIG's signer. -/
theorem verifyDefaultRrset_secure (env : Env) (sub : Query → Res) (q : Query) (gid : GroupId)
    (sigs : List Rec) (idx : Option Nat)
    (h : verifyDefaultRrset env sub q gid sigs = .done .secure idx) :
    ∃ s i m k, sigs[i]? = some s ∧ idx = some i ∧ sub ⟨s.signer, tDNSKEY⟩ = .ok m ∧
      k ∈ m.an ∧ k.rtype = tDNSKEY ∧ k.proof = .secure ∧ env.sigRes k.rid s.rid gid = .secure := by
  unfold verifyDefaultRrset at h
  split at h
  · split at h
    · dsimp only at h
      split at h
      · simp at h
      · rename_i p hf
        injection h with h1 _
        subst h1
        rcases findDs_err _ _ _ _ hf with h | h <;> simp at h
      · simp at h
    · simp at h
  · obtain ⟨s, i, m, hc, hi, hm, hv⟩ := selectOk_secure _ _ _ _ _ h
    obtain ⟨k, hk, hkt, hkp, hks⟩ := verifyRrsigWithKeys_secure _ _ _ _ hv
    unfold sigCands at hc
    have hc' := (List.mem_filter.mp hc).1
    have := List.mem_zipIdx_iff_getElem?.mp hc'
    exact ⟨s, i, m, k, by simpa using this, hi, hm, hk, hkt, hkp, hks⟩

/-! ### `verify_dnskey_rrset` -/

/-- the key is individually trusted: a trust anchor, or covered by a Secure DS among `ds` -/
def KeyOk (env : Env) (ds : List Rec) (k : Rec) : Prop :=
  env.anchor k.rid = true ∨
  (k.algSupp = true ∧ ∃ d ∈ ds, d.proof = .secure ∧ d.alg = k.alg ∧ d.tag = k.tag ∧ env.covers d.rid k.rid = true)

theorem keyProof_secure (env : Env) (ds : List Rec) (k : Rec)
    (h : (if env.anchor k.rid then Proof.secure else verifyDnskey env k ds) = .secure) : KeyOk env ds k := by
  split at h
  · rename_i ha; exact Or.inl ha
  · exact Or.inr (verify_dnskey_sound env k ds h)

theorem mem_zip_map {α β} (f : α → β) (l : List α) (a : α) (b : β) (h : (a, b) ∈ l.zip (l.map f)) :
    a ∈ l ∧ b = f a := by
  induction l with
  | nil => simp at h
  | cons x rest ih =>
    simp only [List.map_cons, List.zip_cons_cons, List.mem_cons, Prod.mk.injEq] at h
    rcases h with ⟨h1, h2⟩ | h
    · exact ⟨h1 ▸ List.mem_cons_self, h1 ▸ h2⟩
    · exact ⟨List.mem_cons_of_mem _ (ih h).1, (ih h).2⟩

theorem sigByKeys_secure (env : Env) (gid : GroupId) (keyed : List (Rec × Proof)) (sig : Rec)
    (h : sigByKeys env gid keyed sig = some .secure) :
    ∃ kp ∈ keyed, kp.2 = .secure ∧ kp.1.name = sig.signer ∧ env.sigRes kp.1.rid sig.rid gid = .secure := by
  unfold sigByKeys at h
  obtain ⟨kp, hkp, hf⟩ := List.exists_of_findSome?_eq_some h
  simp only [List.mem_filter, Bool.and_eq_true, beq_iff_eq] at hkp
  refine ⟨kp, hkp.1, hkp.2.1, hkp.2.2, ?_⟩
  split at hf <;> simp_all

theorem firstSig_some (env : Env) (gid : GroupId) (keyed : List (Rec × Proof)) (sigs : List Rec) (i0 : Nat)
    (p : Proof) (i : Nat) (h : firstSig env gid keyed sigs i0 = some (p, i)) :
    ∃ sig, i0 ≤ i ∧ sigs[i - i0]? = some sig ∧ sigByKeys env gid keyed sig = some p := by
  induction sigs generalizing i0 with
  | nil => simp [firstSig] at h
  | cons s rest ih =>
    unfold firstSig at h
    split at h
    · rename_i p' hp'
      injection h with h
      injection h with h1 h2
      subst h1 h2
      exact ⟨s, Nat.le_refl _, by simp, hp'⟩
    · obtain ⟨sig, hle, hget, hs⟩ := ih _ h
      refine ⟨sig, by omega, ?_, hs⟩
      have : i - i0 = (i - (i0 + 1)) + 1 := by omega
      rw [this]
      simpa using hget

/-- **one-step soundness of `verify_dnskey_rrset`** (after fixes e338561, 8ec5af8): a DNSKEY RRset is Secure either
through one of its RRSIGs made by an individually trusted key of the same RRset that the RRSIG names as
signer — or, without a signature, only when it is not empty and *every* key of it is a trust anchor. -/
theorem verifyDnskeyRrset_secure (env : Env) (sub : Query → Res) (gid : GroupId) (recs sigs : List Rec)
    (idx : Option Nat) (h : verifyDnskeyRrset env sub gid recs sigs = .done .secure idx) :
    ∃ ds, (ds = [] ∨ fetchDs sub gid.name = .ok ds) ∧
      ((∃ i sig k', idx = some i ∧ sigs[i]? = some sig ∧ k' ∈ recs ∧ KeyOk env ds k' ∧
          k'.name = sig.signer ∧ env.sigRes k'.rid sig.rid gid = .secure) ∨
       (idx = none ∧ recs ≠ [] ∧ ∀ k ∈ recs, env.anchor k.rid = true)) := by
  unfold verifyDnskeyRrset at h
  split at h
  · simp at h
  dsimp only at h
  split at h
  · simp at h
  · rename_i p hf
    injection h with h1 _
    subst h1
    split at hf
    · rcases fetchDs_err _ _ _ hf with h | h <;> simp at h
    · simp at hf
  · rename_i ds hf
    have hds : ds = [] ∨ fetchDs sub gid.name = .ok ds := by
      split at hf
      · exact Or.inr hf
      · injection hf with hf; exact Or.inl hf.symm
    refine ⟨ds, hds, ?_⟩
    split at h
    · simp at h
    · split at h
      · rename_i p i hfs
        injection h with h1 h2
        subst h1
        obtain ⟨sig, _, hget, hs⟩ := firstSig_some _ _ _ _ _ _ _ hfs
        obtain ⟨kp, hkp, hp, hn, hr⟩ := sigByKeys_secure _ _ _ _ hs
        obtain ⟨k', p'⟩ := kp
        have hz := mem_zip_map _ _ _ _ (by simpa [keyProofs] using hkp)
        refine Or.inl ⟨i, sig, k', h2.symm, by simpa using hget, hz.1, ?_, hn, hr⟩
        exact keyProof_secure env ds k' (hz.2 ▸ hp)
      · split at h
        · rename_i hall
          split at h
          · rename_i p hlast
            injection h with h1 h2
            subst h1
            simp only [Bool.and_eq_true, List.all_eq_true] at hall
            refine Or.inr ⟨h2.symm, ?_, hall.1⟩
            intro hnil
            subst hnil
            simp [keyProofs] at hlast
          · simp at h
        · simp at h

/-! ### `verify_rrsets` / `update_rrset` -/

theorem raw_of_indet (r : Rec) (h : r.proof = .indet) : r.raw = r := by
  cases r; simp_all [Rec.raw]

@[simp] theorem raw_rid (r : Rec) : r.raw.rid = r.rid := rfl
@[simp] theorem raw_name (r : Rec) : r.raw.name = r.name := rfl
@[simp] theorem raw_rtype (r : Rec) : r.raw.rtype = r.rtype := rfl
@[simp] theorem raw_raw (r : Rec) : r.raw.raw = r.raw := rfl

theorem relabelOne_raw (sec : List Rec) (vs : List (GKey × GV)) (i : Nat) (r : Rec) :
    (relabelOne sec vs i r).raw = r.raw := by
  unfold relabelOne
  split
  · split
    · split <;> rfl
    · rfl
  · rfl

/-- a record whose proof changes to Secure got it from a Secure verdict on its RRset -/
theorem relabelOne_secure (sec : List Rec) (vs : List (GKey × GV)) (i : Nat) (r : Rec)
    (h0 : r.proof ≠ .secure) (h : (relabelOne sec vs i r).proof = .secure) :
    ∃ idx, vs.lookup r.gkey = some (.done .secure idx) := by
  unfold relabelOne at h
  split at h
  · rename_i p idx hl
    split at h
    · split at h
      · simp only at h; subst h; exact ⟨idx, hl⟩
      · exact absurd h h0
    · simp only at h; subst h; exact ⟨idx, hl⟩
  · exact absurd h h0

theorem relabel_mem (sec : List Rec) (vs : List (GKey × GV)) (r : Rec) (h : r ∈ relabel sec vs) :
    ∃ i r0, r0 ∈ sec ∧ r = relabelOne sec vs i r0 := by
  unfold relabel at h
  obtain ⟨i, hi, he⟩ := List.mem_mapIdx.mp h
  exact ⟨i, sec[i], List.getElem_mem hi, he.symm⟩

theorem lookup_filterMap {α β : Type} [BEq α] [LawfulBEq α] (c : α → Bool) (g : α → β) (l : List α) (k : α) (v : β)
    (h : (l.filterMap fun a => if c a then none else some (a, g a)).lookup k = some v) :
    v = g k ∧ c k = false := by
  induction l with
  | nil => simp at h
  | cons a rest ih =>
    by_cases hc : c a
    · simp only [List.filterMap_cons, hc, if_true] at h
      exact ih h
    · simp only [List.filterMap_cons, hc] at h
      simp only [Bool.false_eq_true, if_false, List.lookup_cons] at h
      split at h
      · rename_i hk
        have : k = a := by simpa using hk
        subst this
        injection h with h
        exact ⟨h.symm, by simpa using hc⟩
      · exact ih h

theorem verdicts_lookup (env : Env) (sub : Query → Res) (d : Nat) (q : Query) (qid secNo : Nat) (sec : List Rec)
    (k : GKey) (v : GV) (h : (verdicts env sub d q qid secNo sec).lookup k = some v) :
    v = verifyGroup env sub q qid secNo sec k ∧ skipped d k.2 = false := by
  unfold verdicts at h
  exact lookup_filterMap (fun k => skipped d k.2) (fun k => verifyGroup env sub q qid secNo sec k) _ k v h

theorem mem_groupSigs {sec : List Rec} {k : GKey} {s : Rec} (h : s ∈ groupSigs sec k) :
    s ∈ sec ∧ s.isSig = true ∧ s.name = k.1 ∧ s.covered = k.2 := by
  unfold groupSigs at h
  simp only [List.mem_filter, Bool.and_eq_true, beq_iff_eq] at h
  obtain ⟨hs, hsig, hk⟩ := h
  refine ⟨hs, hsig, ?_, ?_⟩
  · rw [← hk]; rfl
  · rw [← hk]; simp [Rec.gkey, Rec.gtype, hsig]

theorem mem_groupRecs {sec : List Rec} {k : GKey} {r : Rec} (h : r ∈ groupRecs sec k) :
    r ∈ sec ∧ r.isSig = false ∧ r.name = k.1 ∧ r.rtype = k.2 := by
  unfold groupRecs at h
  simp only [List.mem_filter, Bool.and_eq_true, beq_iff_eq, Bool.not_eq_true'] at h
  obtain ⟨hs, hsig, hk⟩ := h
  refine ⟨hs, hsig, ?_, ?_⟩
  · rw [← hk]; rfl
  · rw [← hk]; simp [Rec.gkey, Rec.gtype, hsig]

theorem gkey_of_not_sig {r : Rec} (h : r.isSig = false) : r.gkey = (r.name, r.rtype) := by
  simp [Rec.gkey, Rec.gtype, h]

/-! ### `verify_response` -/

/-- every `Ok(message)` exit of `verify_response` returns the upstream message with relabelled records -/
theorem verifyMsg_ok (env : Env) (sub : Query → Res) (d : Nat) (q : Query) (qid : Nat) (m m' : Msg)
    (h : verifyMsg env sub d q qid m = .ok m') :
    m' = { rcode := m.rcode,
           an := relabel m.an (verdicts env sub d q qid 0 m.an),
           ns := relabel m.ns (verdicts env sub d q qid 1 m.ns),
           ad := relabel m.ad (verdicts env sub d q qid 2 m.ad) } := by
  unfold verifyMsg at h
  dsimp only at h
  split at h
  · simp at h
  · split at h
    · -- the early exit ("all authorities Insecure" + provably insecure query name)
      rename_i r hearly
      split at hearly
      · split at hearly
        · injection hearly with hearly; subst hearly; simp at h
        · injection hearly with hearly; subst hearly; injection h with h; exact h.symm
        · simp at hearly
      · simp at hearly
    · split at h
      · injection h with h; exact h.symm
      split at h
      · split at h
        · injection h with h; exact h.symm
        · simp at h
      · split at h
        · injection h with h; exact h.symm
        · simp at h
      · simp at h
      · simp at h
      · split at h
        · injection h with h; exact h.symm
        · split at h
          · simp at h
          · injection h with h; exact h.symm
          · simp at h

theorem verifyResponse_ok (env : Env) (sub : Query → Res) (d : Nat) (q : Query) (m' : Msg)
    (h : verifyResponse env sub d q (env.up q) = .ok m') :
    ∃ m0, upMsg env q = some ((env.up q).qid, m0) ∧ verifyMsg env sub d q (env.up q).qid m0 = .ok m' := by
  unfold verifyResponse at h
  unfold upMsg
  split at h
  · simp at h
  · simp at h
  · rename_i m hm
    exact ⟨_, by rw [hm], h⟩
  · rename_i m hm
    exact ⟨_, by rw [hm], h⟩

/-! ### where an Insecure verdict comes from -/

/-- unsupported DS record whose own proof is Secure or Insecure (the records `fetch_ds_records` sets aside) -/
def DsSetAside (d : Rec) : Prop :=
  (d.algSupp = false ∨ d.digSupp = false) ∧ (d.proof = .secure ∨ d.proof = .insecure)

theorem dsScan_cond (r : Rec) :
    ((!r.algSupp || !r.digSupp) && (r.proof == .secure || r.proof == .insecure)) = true ↔ DsSetAside r := by
  unfold DsSetAside
  cases r.algSupp <;> cases r.digSupp <;> cases r.proof <;> simp

theorem dsScan_spec (l : List Rec) (sup0 : List Rec) (au0 : Option Bool) :
    (∀ d ∈ l, d ∈ (dsScan l (sup0, au0)).1 ∨ DsSetAside d) ∧
    (∀ d ∈ (dsScan l (sup0, au0)).1, d ∈ sup0 ∨ (d ∈ l ∧ ¬ DsSetAside d)) ∧
    ((dsScan l (sup0, au0)).2 = some true → ∀ d ∈ l, DsSetAside d) := by
  induction l generalizing sup0 au0 with
  | nil => simp [dsScan]
  | cons r rest ih =>
    unfold dsScan
    split
    · rename_i hc
      have hr := (dsScan_cond r).mp hc
      obtain ⟨h1, h2, h3⟩ := ih sup0 (match au0 with | none => some true | some b => some b)
      refine ⟨?_, ?_, ?_⟩
      · intro d hd
        rcases List.mem_cons.mp hd with h | h
        · exact Or.inr (h ▸ hr)
        · exact h1 d h
      · intro d hd
        rcases h2 d hd with h | ⟨h, h'⟩
        · exact Or.inl h
        · exact Or.inr ⟨List.mem_cons_of_mem _ h, h'⟩
      · intro hau d hd
        rcases List.mem_cons.mp hd with h | h
        · exact h ▸ hr
        · exact h3 hau d h
    · rename_i hc
      have hr : ¬ DsSetAside r := fun h => hc ((dsScan_cond r).mpr h)
      obtain ⟨h1, h2, h3⟩ := ih (sup0 ++ [r]) (some false)
      have hmono : ∀ (l' : List Rec) (s : List Rec) (a : Option Bool), ∀ x ∈ s, x ∈ (dsScan l' (s, a)).1 := by
        intro l'
        induction l' with
        | nil => intro s a x hx; simpa [dsScan] using hx
        | cons y ys ihy =>
          intro s a x hx
          unfold dsScan
          split
          · exact ihy _ _ x hx
          · exact ihy _ _ x (by simp [hx])
      have hfalse : ∀ (l' : List Rec) (s : List Rec), (dsScan l' (s, some false)).2 = some false := by
        intro l'
        induction l' with
        | nil => intro s; simp [dsScan]
        | cons y ys ihy =>
          intro s
          unfold dsScan
          split
          · exact ihy _
          · exact ihy _
      refine ⟨?_, ?_, ?_⟩
      · intro d hd
        rcases List.mem_cons.mp hd with h | h
        · exact Or.inl (h ▸ hmono rest (sup0 ++ [r]) (some false) r (by simp))
        · exact h1 d h
      · intro d hd
        rcases h2 d hd with h | ⟨h, h'⟩
        · simp only [List.mem_append, List.mem_singleton] at h
          rcases h with h | h
          · exact Or.inl h
          · exact Or.inr ⟨h ▸ List.mem_cons_self, h ▸ hr⟩
        · exact Or.inr ⟨List.mem_cons_of_mem _ h, h'⟩
      · intro hau
        rw [hfalse] at hau
        simp at hau

/-- the validated DS response holds no Secure DS record with a supported algorithm and digest type -/
def NoSecureSupportedDs (md : Msg) : Prop :=
  ∀ d ∈ md.an, d.rtype = tDS → d.proof = .secure → (d.algSupp = false ∨ d.digSupp = false)

theorem fetchDs_insecure (sub : Query → Res) (zone : DName) (h : fetchDs sub zone = .err .insecure) :
    ∃ md, sub ⟨zone, tDS⟩ = .ok md ∧ NoSecureSupportedDs md := by
  unfold fetchDs at h
  split at h
  · simp at h
  · rename_i m hm
    refine ⟨m, hm, ?_⟩
    simp only at h
    split at h
    · split at h
      · rename_i hau
        have hau' : (dsScan (m.an.filter (·.rtype == tDS)) ([], none)).2 = some true := by
          cases hx : (dsScan (m.an.filter (·.rtype == tDS)) ([], none)).2 with
          | none => simp [hx] at hau
          | some b => cases b <;> simp_all
        intro d hd ht _
        have := (dsScan_spec _ [] none).2.2 hau' d (by simp [hd, ht])
        exact this.1
      · split at h <;> simp at h
    · split at h
      · rename_i hno
        intro d hd ht _
        exfalso
        have : m.an = [] := by simpa using hno
        rw [this] at hd
        simp at hd
      · simp at h
  · simp at h

theorem fetchDs_ok_spec (sub : Query → Res) (zone : DName) (ds : List Rec) (h : fetchDs sub zone = .ok ds) :
    ∃ md, sub ⟨zone, tDS⟩ = .ok md ∧
      (∀ d ∈ md.an, d.rtype = tDS → d ∈ ds ∨ DsSetAside d) ∧ (∀ d ∈ ds, ¬ DsSetAside d) := by
  unfold fetchDs at h
  split at h
  · simp at h
  · rename_i m hm
    refine ⟨m, hm, ?_⟩
    simp only at h
    split at h
    · split at h
      · simp at h
      · split at h
        · injection h with h
          obtain ⟨h1, h2, _⟩ := dsScan_spec (m.an.filter (·.rtype == tDS)) [] none
          rw [h] at h1 h2
          refine ⟨fun d hd ht => h1 d (by simp [hd, ht]), fun d hd => ?_⟩
          rcases h2 d hd with h' | h'
          · simp at h'
          · exact h'.2
        · simp at h
    · split at h <;> simp at h
  · simp at h

theorem sigByKeys_ne_insecure (env : Env) (gid : GroupId) (keyed : List (Rec × Proof)) (sig : Rec) :
    sigByKeys env gid keyed sig ≠ some .insecure := by
  intro h
  unfold sigByKeys at h
  obtain ⟨kp, _, hf⟩ := List.exists_of_findSome?_eq_some h
  split at hf <;> simp at hf

theorem getLast?_of_all {l : List Proof} {p : Proof} (hall : l.all (· == .secure) = true) (h : l.getLast? = some p) :
    p = .secure := by
  have hm : p ∈ l := List.mem_of_getLast? h
  simp only [List.all_eq_true, beq_iff_eq] at hall
  exact hall p hm

/-- a DNSKEY RRset is Insecure only if the validated DS response for its owner has no Secure supported DS -/
theorem verifyDnskeyRrset_insecure (env : Env) (sub : Query → Res) (gid : GroupId) (recs sigs : List Rec)
    (idx : Option Nat) (h : verifyDnskeyRrset env sub gid recs sigs = .done .insecure idx) :
    ∃ md, sub ⟨gid.name, tDS⟩ = .ok md ∧ NoSecureSupportedDs md := by
  unfold verifyDnskeyRrset at h
  split at h
  · simp at h
  dsimp only at h
  split at h
  · simp at h
  · rename_i p hf
    injection h with h1 _
    subst h1
    split at hf
    · exact fetchDs_insecure _ _ hf
    · simp at hf
  · rename_i ds hf
    split at h
    · rename_i hcheck
      simp only [Bool.and_eq_true, Bool.not_eq_true', List.isEmpty_eq_false_iff, ne_eq] at hcheck
      obtain ⟨hne, hall⟩ := hcheck
      split at hf
      · obtain ⟨md, hmd, h1, h2⟩ := fetchDs_ok_spec _ _ _ hf
        refine ⟨md, hmd, ?_⟩
        intro d hd ht hp
        rcases h1 d hd ht with hin | hset
        · exfalso
          simp only [List.all_eq_true, List.mem_filter, Bool.or_eq_true, beq_iff_eq, Bool.not_eq_true',
            and_imp] at hall
          have hu := hall d hin (Or.inl hp)
          exact h2 d hin ⟨by cases ha : d.algSupp <;> cases hb : d.digSupp <;> simp_all, Or.inl hp⟩
        · exact hset.1
      · injection hf with hf; exact absurd hf.symm hne
    · split at h
      · rename_i p i hfs
        injection h with h1 _
        subst h1
        obtain ⟨sig, _, _, hs⟩ := firstSig_some _ _ _ _ _ _ _ hfs
        exact absurd hs (sigByKeys_ne_insecure _ _ _ _)
      · split at h
        · rename_i hall
          split at h
          · rename_i p hlast
            injection h with h1 _
            subst h1
            have hall' := (Bool.and_eq_true _ _ ▸ hall).2
            have := getLast?_of_all hall' hlast
            simp at this
          · simp at h
        · simp at h

theorem scanKeys_insecure (env : Env) (gid : GroupId) (sig : Rec) (keys : List Rec) (ai : Option Bool)
    (h : scanKeys env gid sig keys ai = some .insecure) (hai : ai ≠ some true) :
    ∃ k ∈ keys, k.proof = .insecure := by
  induction keys generalizing ai with
  | nil =>
    unfold scanKeys at h
    split at h
    · rename_i hg
      cases ai with
      | none => simp at hg
      | some b => cases b <;> simp_all
    · simp at h
  | cons k rest ih =>
    unfold scanKeys at h
    split at h
    · split at h
      · simp at h
      · simp at h
      · obtain ⟨k', hk', hp⟩ := ih _ h (by simp)
        exact ⟨k', List.mem_cons_of_mem _ hk', hp⟩
    · rename_i hp
      exact ⟨k, List.mem_cons_self, hp⟩
    · obtain ⟨k', hk', hp⟩ := ih _ h (by simp)
      exact ⟨k', List.mem_cons_of_mem _ hk', hp⟩

theorem selectOk_insecure (env : Env) (sub : Query → Res) (gid : GroupId) (cands : List (Rec × Nat))
    (idx : Option Nat) (h : selectOk env sub gid cands = .done .insecure idx) :
    ∃ (s : Rec) (m : Msg) (k : Rec), sub ⟨s.signer, tDNSKEY⟩ = .ok m ∧ k ∈ m.an ∧ k.proof = .insecure := by
  induction cands with
  | nil => simp [selectOk] at h
  | cons c rest ih =>
    obtain ⟨s, i⟩ := c
    unfold selectOk at h
    split at h
    · simp at h
    · rename_i m hm
      split at h
      · rename_i p hp
        injection h with h1 _
        subst h1
        unfold verifyRrsigWithKeys at hp
        split at hp
        · simp at hp
        · obtain ⟨k, hk, hkp⟩ := scanKeys_insecure _ _ _ _ _ hp (by simp)
          have := capKeys_subset _ _ k hk
          simp only [List.mem_filter] at this
          exact ⟨s, m, k, hm, this.1, hkp⟩
      · simp at h
    · exact ih h

/-- an RRset other than DNSKEY is Insecure only if the DS lookup of an enclosing zone cut came back without a
Secure supported DS (no RRSIGs), or the DNSKEY RRset of an RRSIG's signer is itself Insecure (inherited) -/
theorem verifyDefaultRrset_insecure (env : Env) (sub : Query → Res) (q : Query) (gid : GroupId)
    (sigs : List Rec) (idx : Option Nat)
    (h : verifyDefaultRrset env sub q gid sigs = .done .insecure idx) :
    (∃ zone md, sub ⟨zone, tDS⟩ = .ok md ∧ NoSecureSupportedDs md) ∨
    (∃ (s : Rec) (m : Msg) (k : Rec), sub ⟨s.signer, tDNSKEY⟩ = .ok m ∧ k ∈ m.an ∧ k.proof = .insecure) := by
  unfold verifyDefaultRrset at h
  split at h
  · split at h
    · dsimp only at h
      split at h
      · simp at h
      · rename_i p hf
        injection h with h1 _
        subst h1
        left
        unfold findDs at hf
        split at hf
        · simp at hf
        · simp at hf
        · rename_i zone _
          split at hf
          · simp at hf
          · rename_i p' hfd
            injection hf with hf
            subst hf
            obtain ⟨md, hmd, hno⟩ := fetchDs_insecure _ _ hfd
            exact ⟨zone, md, hmd, hno⟩
          · simp at hf
      · simp at h
    · simp at h
  · exact Or.inr (selectOk_insecure _ _ _ _ _ h)

/-- generalisation of `relabelOne_secure`: a record whose proof changes got the new proof from its RRset's verdict -/
theorem relabelOne_proof (sec : List Rec) (vs : List (GKey × GV)) (i : Nat) (r : Rec) (p : Proof)
    (h0 : r.proof ≠ p) (h : (relabelOne sec vs i r).proof = p) :
    ∃ idx, vs.lookup r.gkey = some (.done p idx) := by
  unfold relabelOne at h
  split at h
  · rename_i p' idx hl
    split at h
    · split at h
      · simp only at h; subst h; exact ⟨idx, hl⟩
      · exact absurd h h0
    · simp only at h; subst h; exact ⟨idx, hl⟩
  · exact absurd h h0

/-! ### where a panic comes from -/

theorem fetchDs_abort (sub : Query → Res) (zone : DName) (w : String) (h : fetchDs sub zone = .abort w) :
    sub ⟨zone, tDS⟩ = .abort w := by
  unfold fetchDs at h
  split at h
  · rename_i w' hw; injection h with h; exact h ▸ hw
  · simp only at h
    split at h
    · split at h
      · simp at h
      · split at h <;> simp at h
    · split at h <;> simp at h
  · simp at h

theorem findZone_error (env : Env) (n : DName) (w : String) (h : findZone env n = .error (some w)) :
    w = "missing" := by
  induction n with
  | nil => simp [findZone] at h
  | cons l rest ih =>
    unfold findZone at h
    split at h
    · split at h
      · simp at h
      · exact ih h
    · exact ih h
    · simp at h
    · injection h with h; injection h with h; exact h.symm

theorem findDs_abort (env : Env) (sub : Query → Res) (n : DName) (w : String) (h : findDs env sub n = .abort w) :
    w = "missing" ∨ ∃ q', sub q' = .abort w := by
  unfold findDs at h
  split at h
  · simp at h
  · rename_i w' hz
    injection h with h
    subst h
    exact Or.inl (findZone_error _ _ _ hz)
  · split at h
    · simp at h
    · simp at h
    · rename_i w' hf
      injection h with h
      subst h
      exact Or.inr ⟨_, fetchDs_abort _ _ _ hf⟩

theorem selectOk_abort (env : Env) (sub : Query → Res) (gid : GroupId) (cands : List (Rec × Nat)) (w : String)
    (h : selectOk env sub gid cands = .abort w) : ∃ q', sub q' = .abort w := by
  induction cands with
  | nil => simp [selectOk] at h
  | cons c rest ih =>
    obtain ⟨s, i⟩ := c
    unfold selectOk at h
    split at h
    · rename_i w' hw; injection h with h; exact ⟨_, h ▸ hw⟩
    · split at h <;> simp at h
    · exact ih h

theorem verifyDefaultRrset_abort (env : Env) (sub : Query → Res) (q : Query) (gid : GroupId) (sigs : List Rec)
    (w : String) (h : verifyDefaultRrset env sub q gid sigs = .abort w) :
    w = "missing" ∨ ∃ q', sub q' = .abort w := by
  unfold verifyDefaultRrset at h
  split at h
  · split at h
    · dsimp only at h
      split at h
      · rename_i w' hf
        injection h with h
        subst h
        exact findDs_abort _ _ _ _ hf
      · simp at h
      · simp at h
    · simp at h
  · exact Or.inr (selectOk_abort _ _ _ _ _ h)

theorem verifyDnskeyRrset_abort (env : Env) (sub : Query → Res) (gid : GroupId) (recs sigs : List Rec)
    (w : String) (h : verifyDnskeyRrset env sub gid recs sigs = .abort w) :
    ∃ q', sub q' = .abort w := by
  unfold verifyDnskeyRrset at h
  split at h
  · simp at h
  rename_i hne
  dsimp only at h
  split at h
  · rename_i w' hf
    injection h with h
    subst h
    split at hf
    · exact ⟨_, fetchDs_abort _ _ _ hf⟩
    · simp at hf
  · simp at h
  · split at h
    · simp at h
    · split at h
      · simp at h
      · split at h
        · split at h
          · simp at h
          · rename_i hlast
            exfalso
            simp only [keyProofs, List.getLast?_eq_none_iff, List.map_eq_nil_iff] at hlast
            simp [hlast] at hne
        · simp at h

/-- an RRset key of a section comes from one of its records -/
theorem mem_groupKeys {sec : List Rec} {k : GKey} (h : k ∈ groupKeys sec) : ∃ x ∈ sec, x.gkey = k := by
  unfold groupKeys at h
  rw [List.mem_eraseDups] at h
  simpa using h

theorem mem_verdicts {env : Env} {sub : Query → Res} {d : Nat} {q : Query} {qid secNo : Nat} {sec : List Rec}
    {kv : GKey × GV} (h : kv ∈ verdicts env sub d q qid secNo sec) :
    kv.1 ∈ groupKeys sec ∧ kv.2 = verifyGroup env sub q qid secNo sec kv.1 := by
  unfold verdicts at h
  obtain ⟨k, hk, hf⟩ := List.mem_filterMap.mp h
  split at hf
  · simp at hf
  · injection hf with hf
    subst hf
    exact ⟨hk, rfl⟩

/-- an RRSIG whose proof changes is the one its RRset's verdict points at -/
theorem relabelOne_proof_sig (sec : List Rec) (vs : List (GKey × GV)) (i : Nat) (r : Rec) (p : Proof)
    (hs : r.isSig = true) (h0 : r.proof ≠ p) (h : (relabelOne sec vs i r).proof = p) :
    ∃ j, vs.lookup r.gkey = some (.done p (some j)) := by
  unfold relabelOne at h
  split at h
  · rename_i p' idx hl
    rw [if_pos hs] at h
    split at h
    · rename_i hidx
      simp only at h; subst h
      have : idx = some (sigOrdinal sec i r) := by simpa using hidx
      exact ⟨_, this ▸ hl⟩
    · exact absurd h h0
  · exact absurd h h0

theorem firstAbort_panic {vs : List (GKey × GV)} (h : firstAbort vs = some "panic") :
    ∃ kv ∈ vs, kv.2 = .abort "panic" := by
  unfold firstAbort at h
  split at h
  · rename_i hany
    simp only [List.any_eq_true, beq_iff_eq] at hany
    exact hany
  · obtain ⟨kv, hkv, hf⟩ := List.exists_of_findSome?_eq_some h
    split at hf
    · rename_i w hw
      injection hf with hf
      exact ⟨kv, hkv, hf ▸ hw⟩
    · simp at hf

/-! ### finer case analysis for the denial theorem -/

theorem fetchDs_insecure_cases (sub : Query → Res) (zone : DName) (h : fetchDs sub zone = .err .insecure) :
    ∃ md, sub ⟨zone, tDS⟩ = .ok md ∧ NoSecureSupportedDs md ∧
      ((∃ x ∈ md.an, x.rtype = tDS ∧ x.proof = .secure) ∨ md.an = []) := by
  obtain ⟨md, hmd, hno⟩ := fetchDs_insecure sub zone h
  refine ⟨md, hmd, hno, ?_⟩
  unfold fetchDs at h
  rw [hmd] at h
  simp only at h
  split at h
  · rename_i hany
    left
    simp only [List.any_eq_true, List.mem_filter, beq_iff_eq] at hany
    obtain ⟨x, ⟨hx, ht⟩, hp⟩ := hany
    exact ⟨x, hx, ht, hp⟩
  · split at h
    · rename_i hno'
      right
      simpa using hno'
    · simp at h

theorem fetchDs_ok_any_secure (sub : Query → Res) (zone : DName) (ds : List Rec) (h : fetchDs sub zone = .ok ds) :
    ∃ md, sub ⟨zone, tDS⟩ = .ok md ∧ ∃ x ∈ md.an, x.rtype = tDS ∧ x.proof = .secure := by
  obtain ⟨md, hmd, _⟩ := fetchDs_ok sub zone ds h
  refine ⟨md, hmd, ?_⟩
  unfold fetchDs at h
  rw [hmd] at h
  simp only at h
  split at h
  · rename_i hany
    simp only [List.any_eq_true, List.mem_filter, beq_iff_eq] at hany
    obtain ⟨x, ⟨hx, ht⟩, hp⟩ := hany
    exact ⟨x, hx, ht, hp⟩
  · split at h <;> simp at h

/-- a DNSKEY RRset is Insecure because the DS lookup said "insecure", or because the validated DS RRset has a
Secure record but none that is Secure and supported -/
theorem verifyDnskeyRrset_insecure_cases (env : Env) (sub : Query → Res) (gid : GroupId) (recs sigs : List Rec)
    (idx : Option Nat) (h : verifyDnskeyRrset env sub gid recs sigs = .done .insecure idx) :
    fetchDs sub gid.name = .err .insecure ∨
    (∃ md, sub ⟨gid.name, tDS⟩ = .ok md ∧ (∃ x ∈ md.an, x.rtype = tDS ∧ x.proof = .secure) ∧ NoSecureSupportedDs md) := by
  have hno := verifyDnskeyRrset_insecure env sub gid recs sigs idx h
  unfold verifyDnskeyRrset at h
  split at h
  · simp at h
  dsimp only at h
  split at h
  · simp at h
  · rename_i p hf
    injection h with h1 _
    subst h1
    split at hf
    · exact Or.inl hf
    · simp at hf
  · rename_i ds hf
    split at hf
    · right
      obtain ⟨md, hmd, hx⟩ := fetchDs_ok_any_secure _ _ _ hf
      obtain ⟨md', hmd', hno'⟩ := hno
      rw [hmd] at hmd'
      injection hmd' with hmd'
      subst hmd'
      exact ⟨md, hmd, hx, hno'⟩
    · -- no DS fetch: ds = [], the verdict cannot be Insecure
      injection hf with hf
      subst hf
      exfalso
      simp only [List.isEmpty_nil, Bool.not_true, Bool.false_and, Bool.false_eq_true, if_false] at h
      split at h
      · rename_i p i hfs
        injection h with h1 _
        subst h1
        obtain ⟨sig, _, _, hs⟩ := firstSig_some _ _ _ _ _ _ _ hfs
        exact absurd hs (sigByKeys_ne_insecure _ _ _ _)
      · split at h
        · rename_i hall
          split at h
          · rename_i p hlast
            injection h with h1 _
            subst h1
            have := getLast?_of_all ((Bool.and_eq_true _ _ ▸ hall).2) hlast
            simp at this
          · simp at h
        · simp at h

theorem verifyDefaultRrset_insecure_cases (env : Env) (sub : Query → Res) (q : Query) (gid : GroupId)
    (sigs : List Rec) (idx : Option Nat)
    (h : verifyDefaultRrset env sub q gid sigs = .done .insecure idx) :
    (∃ zone, fetchDs sub zone = .err .insecure) ∨
    (∃ (s : Rec) (m : Msg) (k : Rec), sub ⟨s.signer, tDNSKEY⟩ = .ok m ∧ k ∈ m.an ∧ k.proof = .insecure) := by
  unfold verifyDefaultRrset at h
  split at h
  · split at h
    · dsimp only at h
      split at h
      · simp at h
      · rename_i p hf
        injection h with h1 _
        subst h1
        left
        unfold findDs at hf
        split at hf
        · simp at hf
        · simp at hf
        · rename_i zone _
          split at hf
          · simp at hf
          · rename_i p' hfd
            injection hf with hf
            subst hf
            exact ⟨zone, hfd⟩
          · simp at hf
      · simp at h
    · simp at h
  · exact Or.inr (selectOk_insecure _ _ _ _ _ h)

theorem findDs_insecure (env : Env) (sub : Query → Res) (n : DName) (h : findDs env sub n = .err .insecure) :
    ∃ zone, fetchDs sub zone = .err .insecure := by
  unfold findDs at h
  split at h
  · simp at h
  · simp at h
  · rename_i zone _
    split at h
    · simp at h
    · rename_i p' hfd
      injection h with h
      subst h
      exact ⟨zone, hfd⟩
    · simp at h

theorem relabelOne_gkey (sec : List Rec) (vs : List (GKey × GV)) (i : Nat) (r : Rec) :
    (relabelOne sec vs i r).gkey = r.gkey ∧ (relabelOne sec vs i r).isSig = r.isSig ∧
      (relabelOne sec vs i r).rtype = r.rtype := by
  have h := relabelOne_raw sec vs i r
  have h1 : (relabelOne sec vs i r).raw.name = r.raw.name := by rw [h]
  have h2 : (relabelOne sec vs i r).raw.rtype = r.raw.rtype := by rw [h]
  have h3 : (relabelOne sec vs i r).raw.covered = r.raw.covered := by rw [h]
  simp only [raw_name, raw_rtype] at h1 h2
  have h3' : (relabelOne sec vs i r).covered = r.covered := h3
  refine ⟨?_, ?_, h2⟩
  · simp [Rec.gkey, Rec.gtype, Rec.isSig, h1, h2, h3']
  · simp [Rec.isSig, h2]

theorem mem_relabel_of_mem (sec : List Rec) (vs : List (GKey × GV)) (x : Rec) (hx : x ∈ sec) :
    ∃ i, relabelOne sec vs i x ∈ relabel sec vs := by
  obtain ⟨i, hi, he⟩ := List.getElem_of_mem hx
  refine ⟨i, ?_⟩
  unfold relabel
  exact List.mem_mapIdx.mpr ⟨i, hi, by rw [he]⟩

theorem relabel_eq_nil (sec : List Rec) (vs : List (GKey × GV)) : relabel sec vs = [] ↔ sec = [] := by
  unfold relabel
  simp

/-- the "all authorities Insecure" exit shows an Insecure record in the validated authority section -/
theorem allAuthInsecure_exists (env : Env) (sub : Query → Res) (d : Nat) (q : Query) (qid : Nat) (ns : List Rec)
    (h : allAuthInsecure (relabel ns (verdicts env sub d q qid 1 ns)) (verdicts env sub d q qid 1 ns) = true) :
    ∃ x ∈ relabel ns (verdicts env sub d q qid 1 ns), x.proof = .insecure := by
  unfold allAuthInsecure at h
  simp only [Bool.and_eq_true, Bool.not_eq_true', List.isEmpty_eq_false_iff, ne_eq, List.all_eq_true] at h
  obtain ⟨hne, hall⟩ := h
  obtain ⟨kv, hkv⟩ := List.exists_mem_of_ne_nil _ hne
  obtain ⟨hk, _⟩ := mem_verdicts hkv
  obtain ⟨x, hx, hxk⟩ := mem_groupKeys hk
  obtain ⟨i, hi⟩ := mem_relabel_of_mem ns (verdicts env sub d q qid 1 ns) x hx
  obtain ⟨hg, hs, _⟩ := relabelOne_gkey ns (verdicts env sub d q qid 1 ns) i x
  refine ⟨_, hi, ?_⟩
  obtain ⟨hr, hsg⟩ := hall kv hkv
  cases hsx : x.isSig with
  | true =>
    have : relabelOne ns (verdicts env sub d q qid 1 ns) i x ∈
        groupSigs (relabel ns (verdicts env sub d q qid 1 ns)) kv.1 := by
      unfold groupSigs
      simp [hi, hs, hsx, hg, hxk]
    simpa using hsg _ this
  | false =>
    have : relabelOne ns (verdicts env sub d q qid 1 ns) i x ∈
        groupRecs (relabel ns (verdicts env sub d q qid 1 ns)) kv.1 := by
      unfold groupRecs
      simp [hi, hs, hsx, hg, hxk]
    simpa using hr _ this

/-! ### zone cuts are above the name -/

theorem zoneOf_suffix {z n : DName} (h : zoneOf z n = true) : z <:+ n := by
  unfold zoneOf at h
  simp only [Bool.and_eq_true, decide_eq_true_eq, beq_iff_eq] at h
  rw [← h.2]
  exact List.drop_suffix _ _

theorem baseName_suffix (n : DName) : DName.baseName n <:+ n := by
  cases n with
  | nil => exact List.suffix_refl _
  | cons l t => exact List.suffix_cons l t

theorem findZone_suffix (env : Env) (n z : DName) (h : findZone env n = .ok z) : z <:+ n := by
  induction n with
  | nil => simp [findZone] at h
  | cons l rest ih =>
    unfold findZone at h
    split at h
    · split at h
      · injection h with h; subst h; exact List.suffix_refl _
      · exact (ih h).trans (List.suffix_cons l rest)
    · exact (ih h).trans (List.suffix_cons l rest)
    · simp at h
    · simp at h

theorem findDs_insecure_suffix (env : Env) (sub : Query → Res) (n : DName) (h : findDs env sub n = .err .insecure) :
    ∃ zone, zone <:+ n ∧ fetchDs sub zone = .err .insecure := by
  unfold findDs at h
  split at h
  · simp at h
  · simp at h
  · rename_i zone hz
    split at h
    · simp at h
    · rename_i p' hfd
      injection h with h
      subst h
      exact ⟨zone, findZone_suffix _ _ _ hz, hfd⟩
    · simp at h

theorem selectOk_insecure_mem (env : Env) (sub : Query → Res) (gid : GroupId) (cands : List (Rec × Nat))
    (idx : Option Nat) (h : selectOk env sub gid cands = .done .insecure idx) :
    ∃ (s : Rec) (i : Nat) (m : Msg) (k : Rec), (s, i) ∈ cands ∧ sub ⟨s.signer, tDNSKEY⟩ = .ok m ∧ k ∈ m.an ∧
      k.rtype = tDNSKEY ∧ k.name = s.signer ∧ k.proof = .insecure := by
  induction cands with
  | nil => simp [selectOk] at h
  | cons c rest ih =>
    obtain ⟨s, i⟩ := c
    unfold selectOk at h
    split at h
    · simp at h
    · rename_i m hm
      split at h
      · rename_i p hp
        injection h with h1 _
        subst h1
        unfold verifyRrsigWithKeys at hp
        split at hp
        · simp at hp
        · obtain ⟨k, hk, hkp⟩ := scanKeys_insecure _ _ _ _ _ hp (by simp)
          have := capKeys_subset _ _ k hk
          simp only [List.mem_filter, Bool.and_eq_true, beq_iff_eq] at this
          exact ⟨s, i, m, k, List.mem_cons_self, hm, this.1, this.2.1, this.2.2, hkp⟩
      · simp at h
    · obtain ⟨s', i', m', k', hc, h'⟩ := ih h
      exact ⟨s', i', m', k', List.mem_cons_of_mem _ hc, h'⟩

/-- an RRset other than DNSKEY is Insecure because the DS lookup of a zone cut at or above its owner said
"insecure" (no RRSIG), or because one of its RRSIGs names a signer whose validated DNSKEY answer holds an
Insecure DNSKEY (inherited) -/
theorem verifyDefaultRrset_insecure_suffix (env : Env) (sub : Query → Res) (q : Query) (gid : GroupId)
    (sigs : List Rec) (idx : Option Nat)
    (h : verifyDefaultRrset env sub q gid sigs = .done .insecure idx) :
    (∃ zone, zone <:+ gid.name ∧ fetchDs sub zone = .err .insecure) ∨
    (∃ (s : Rec) (m : Msg) (k : Rec), s ∈ sigs ∧ s.signer <:+ gid.name ∧
      (gid.rtype = tDS → gid.name ≠ [] → s.signer ≠ gid.name) ∧ sub ⟨s.signer, tDNSKEY⟩ = .ok m ∧
      k ∈ m.an ∧ k.rtype = tDNSKEY ∧ k.name = s.signer ∧ k.proof = .insecure) := by
  unfold verifyDefaultRrset at h
  split at h
  · split at h
    · dsimp only at h
      split at h
      · simp at h
      · rename_i p hf
        injection h with h1 _
        subst h1
        left
        obtain ⟨zone, hz, hfd⟩ := findDs_insecure_suffix _ _ _ hf
        refine ⟨zone, ?_, hfd⟩
        split at hz
        · exact hz.trans (baseName_suffix _)
        · exact hz
      · simp at h
    · simp at h
  · right
    obtain ⟨s, i, m, k, hc, hm, hk, hkt, hkn, hkp⟩ := selectOk_insecure_mem _ _ _ _ _ h
    unfold sigCands at hc
    obtain ⟨hc', hcond⟩ := List.mem_filter.mp hc
    have := List.mem_zipIdx_iff_getElem?.mp hc'
    simp only [Bool.and_eq_true] at hcond
    have hz : zoneOf s.signer gid.name = true := hcond.1.2
    have hds : gid.rtype = tDS → gid.name ≠ [] → s.signer ≠ gid.name := by
      intro ht hne heq
      have h1 := hcond.1.1
      cases hn : gid.name with
      | nil => exact hne hn
      | cons a t => simp [ht, heq, hn, DName.isRoot] at h1
    exact ⟨s, m, k, List.mem_of_getElem? (by simpa using this), zoneOf_suffix hz, hds, hm, hk, hkt, hkn, hkp⟩

/-- a DS RRset is never Insecure for lack of RRSIGs (it is then Bogus): Insecure is always inherited through an RRSIG,
whose signer is a proper ancestor of the (non-root) owner (fix 4f49cf9) -/
theorem verifyDefaultRrset_insecure_ds (env : Env) (sub : Query → Res) (q : Query) (gid : GroupId)
    (sigs : List Rec) (idx : Option Nat) (ht : gid.rtype = tDS)
    (h : verifyDefaultRrset env sub q gid sigs = .done .insecure idx) :
    ∃ (s : Rec) (m : Msg) (k : Rec), s ∈ sigs ∧ s.signer <:+ gid.name ∧ (gid.name ≠ [] → s.signer ≠ gid.name) ∧
      sub ⟨s.signer, tDNSKEY⟩ = .ok m ∧ k ∈ m.an ∧ k.rtype = tDNSKEY ∧ k.name = s.signer ∧ k.proof = .insecure := by
  unfold verifyDefaultRrset at h
  split at h
  · rw [if_neg (by simp [ht])] at h
    simp at h
  · obtain ⟨s, i, m, k, hc, hm, hk, hkt, hkn, hkp⟩ := selectOk_insecure_mem _ _ _ _ _ h
    unfold sigCands at hc
    obtain ⟨hc', hcond⟩ := List.mem_filter.mp hc
    have := List.mem_zipIdx_iff_getElem?.mp hc'
    simp only [Bool.and_eq_true] at hcond
    have hz : zoneOf s.signer gid.name = true := hcond.1.2
    have hds : gid.name ≠ [] → s.signer ≠ gid.name := by
      intro hne heq
      have h1 := hcond.1.1
      cases hn : gid.name with
      | nil => exact hne hn
      | cons a t => simp [ht, heq, hn, DName.isRoot] at h1
    exact ⟨s, m, k, List.mem_of_getElem? (by simpa using this), zoneOf_suffix hz, hds, hm, hk, hkt, hkn, hkp⟩

end HickoryVerif.Chain
