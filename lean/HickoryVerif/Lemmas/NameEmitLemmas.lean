/-
Lemmas about the model of `Name::emit` (`Model/NameEmit.lean`) run from an *appending* encoder
state (`offset = buf.length`, the only state hickory ever calls it in): exact characterisation
of the label-writing loop, of the candidate-storing and the compressing loops (`LoopPost`), and
`emit_post`: a successful `Name::emit` leaves the name laid out (`Laid`) at its start offset,
keeps the candidate-table invariant `PtrInv`, only appends to the buffer and stays within
`max_size`.  The property theorems built on this are in `Proofs/C02.lean`.
-/
import HickoryVerif.Lemmas.NameLayout
import HickoryVerif.Model.NameEmit
namespace HickoryVerif.C02
open HickoryVerif HickoryVerif.Name

/-- start offsets of the labels of `ls` written from offset `o` on -/
def starts (o : Nat) : List Bytes → List Nat
  | [] => []
  | l :: ls => o :: starts (o + 1 + l.length) ls

theorem emitSlice_app (e : Enc) (d : Bytes) (h : e.offset = e.buf.length) :
    e.emitSlice d =
      if e.maxSize < e.offset + d.length then .err .maxSize e
      else .ok () { e with buf := e.buf ++ d, offset := e.offset + d.length } := by
  have hw : e.write e.offset d =
      if e.maxSize < e.offset + d.length then .err .maxSize e
      else .ok () { e with buf := e.buf ++ d } := by
    unfold Enc.write
    simp [h]
  unfold Enc.emitSlice
  rw [hw]
  by_cases hc : e.maxSize < e.offset + d.length <;> simp [hc]

theorem emitCharacterData_ok {e e' : Enc} {l : Bytes} (h : e.offset = e.buf.length)
    (hl : l.length ≤ 63) (hok : e.emitCharacterData l = .ok () e') :
    e' = { e with buf := e.buf ++ (l.length :: l), offset := e.offset + (1 + l.length) } := by
  unfold Enc.emitCharacterData Enc.emitU8 at hok
  have hm : l.length % 256 = l.length := by omega
  rw [if_neg (by omega), emitSlice_app _ _ h, hm] at hok
  by_cases hc : e.maxSize < e.offset + 1
  · simp [hc] at hok
  · simp only [List.length_cons, List.length_nil, Nat.zero_add, hc, ↓reduceIte] at hok
    rw [emitSlice_app _ _ (by simp [h])] at hok
    by_cases hc2 : e.maxSize < e.offset + 1 + l.length
    · simp [hc2] at hok
    · simp only [hc2, ↓reduceIte, ERes.ok.injEq, true_and] at hok
      rw [← hok]
      simp [Nat.add_assoc]

theorem emitLabels_ok : ∀ (ls : List Bytes) (e : Enc) (w w' : List Nat) (e1 : Enc),
    e.offset = e.buf.length → (∀ l ∈ ls, l.length ≤ 63) → emitLabels e ls w = .ok w' e1 →
    e1 = { e with buf := e.buf ++ flat ls, offset := e.offset + (flat ls).length } ∧
      w' = w ++ starts e.offset ls
  | [], e, w, w', e1, _, _, h => by
    simp [emitLabels] at h
    simp [h.1, h.2, starts]
  | l :: ls, e, w, w', e1, happ, hl, h => by
    rw [emitLabels, if_neg (by have := hl l (by simp); omega)] at h
    split at h
    · rename_i u e' hcd
      have he' := emitCharacterData_ok happ (hl l (by simp)) hcd
      have := emitLabels_ok ls e' _ _ _ (by simp [he', happ]; omega) (fun x hx => hl x (by simp [hx])) h
      rw [this.1, this.2, he']
      simp [starts, Nat.add_assoc, Nat.add_comm, Nat.add_left_comm]
    · simp at h
    · simp at h

theorem Laid.prepend : ∀ (front : List Bytes) (pre rest buf : Bytes) (s p : Nat) (ls : List Bytes) (e : Nat)
    (F : List (Nat × Nat)),
    (∀ l ∈ front, 1 ≤ l.length ∧ l.length ≤ 63) → buf = pre ++ flat front ++ rest →
    p = pre.length + (flat front).length →
    Laid buf s p ls e F → Laid buf s pre.length (front ++ ls) e F
  | [], pre, rest, buf, s, p, ls, e, F, _, _, hp, h => by
    simp at hp; subst hp; simpa using h
  | l :: fr, pre, rest, buf, s, p, ls, e, F, hl, hb, hp, h => by
    have hl1 := hl l (by simp)
    have hb' : buf = (pre ++ l.length :: l) ++ flat fr ++ rest := by
      rw [hb]; simp [List.append_assoc]
    have ih := Laid.prepend fr (pre ++ l.length :: l) rest buf s p ls e F
      (fun x hx => hl x (by simp [hx])) hb' (by rw [hp]; simp; omega) h
    have hlen : (pre ++ l.length :: l).length = pre.length + 1 + l.length := by simp; omega
    rw [hlen] at ih
    refine Laid.label hl1.1 hl1.2 ?_ ?_ ?_ ih
    · rw [hb]; simp [List.append_assoc]
    · rw [hb]
      have : pre ++ flat (l :: fr) ++ rest = (pre ++ [l.length]) ++ (l ++ (flat fr ++ rest)) := by
        simp [List.append_assoc]
      rw [this, List.drop_left' (by simp), List.take_left' rfl]
    · rw [hb]; simp; omega

/-- the state in the middle of `Name::emit`, after all labels `ls` were written -/
structure Mid (e : Enc) (ls : List Bytes) (ec : Enc) : Prop where
  buf : ec.buf = e.buf ++ flat ls
  off : ec.offset = ec.buf.length
  max : ec.maxSize = e.maxSize
  canon : ec.canonicalForm = e.canonicalForm
  ne : ec.nameEncoding = e.nameEncoding

/-- a candidate stored for one of the first `k` labels of the name being written -/
def NewPtr (e : Enc) (ls : List Bytes) (k : Nat) (p : Nat × Bytes) : Prop :=
  ∃ f b, ls = f ++ b ∧ f.length < k ∧ p = (e.buf.length + (flat f).length, flat b)

theorem NewPtr.mono {e ls k k' p} (h : NewPtr e ls k p) (hk : k ≤ k') : NewPtr e ls k' p := by
  obtain ⟨f, b, h1, h2, h3⟩ := h
  exact ⟨f, b, h1, by omega, h3⟩

theorem sliceOf_mid {e ec : Enc} {front : List Bytes} {l : Bytes} {back : List Bytes}
    (hm : Mid e (front ++ l :: back) ec) :
    ec.sliceOf (e.buf.length + (flat front).length) ec.offset = .ok (flat (l :: back)) := by
  unfold Enc.sliceOf
  have hb : ec.buf = (e.buf ++ flat front) ++ flat (l :: back) := by
    rw [hm.buf, flat_append, List.append_assoc]
  have hlen : ec.buf.length = e.buf.length + (flat front).length + (flat (l :: back)).length := by
    rw [hb]; simp only [List.length_append]
  have hpos : 0 < (flat (l :: back)).length := by simp
  rw [if_neg (by rw [hm.off]; omega), if_neg (by rw [hm.off]; omega), if_neg (by rw [hm.off]; omega)]
  congr 1
  rw [hm.off, hb, List.drop_left' (by simp)]
  apply List.take_of_length_le
  rw [← hb, hlen]; omega

theorem Mid.withPtrs {e ls ec} (hm : Mid e ls ec) (ps : List (Nat × Bytes)) :
    Mid e ls { ec with ptrs := ps } :=
  ⟨hm.buf, hm.off, hm.max, hm.canon, hm.ne⟩

theorem storeLabelPointer_mid {e ec e' : Enc} {front : List Bytes} {l : Bytes} {back : List Bytes}
    (hm : Mid e (front ++ l :: back) ec)
    (h : ec.storeLabelPointer (e.buf.length + (flat front).length) ec.offset = .ok e') :
    e' = ec ∨ e' = { ec with ptrs := ec.ptrs ++ [(e.buf.length + (flat front).length, flat (l :: back))] } := by
  unfold Enc.storeLabelPointer at h
  rw [sliceOf_mid hm] at h
  simp only at h
  split at h
  · simp at h
  split at h
  · simp at h
  split at h
  · simp at h
  split at h
  · right; simpa using h.symm
  · left; simpa using h.symm

theorem findPtr_some {s : Bytes} {loc : Nat} : ∀ {ps : List (Nat × Bytes)},
    Enc.findPtr s ps = .ok (some loc) → (loc, s) ∈ ps
  | [], h => by simp [Enc.findPtr] at h
  | (ms, m) :: rest, h => by
    unfold Enc.findPtr at h
    split at h
    · rename_i hm
      split at h
      · simp at h
      · simp only [Outcome.ok.injEq, Option.some.injEq] at h
        simp [← h, hm]
    · exact List.mem_cons_of_mem _ (findPtr_some h)

theorem trim_mid {e ec : Enc} {front back : List Bytes} (hm : Mid e (front ++ back) ec) :
    let et := Enc.trim { ec with offset := e.buf.length + (flat front).length }
    et.buf = e.buf ++ flat front ∧ et.offset = et.buf.length ∧ et.maxSize = e.maxSize ∧
      et.canonicalForm = e.canonicalForm ∧ et.nameEncoding = e.nameEncoding ∧
      ∀ p ∈ et.ptrs, p ∈ ec.ptrs := by
  have hb : (ec.buf.take (e.buf.length + (flat front).length)) = e.buf ++ flat front := by
    rw [hm.buf, flat_append, ← List.append_assoc, List.take_left' (by simp)]
  simp only [Enc.trim]
  refine ⟨hb, by rw [hb]; simp, hm.max, hm.canon, hm.ne, ?_⟩
  intro p hp
  exact (List.mem_filter.1 hp).1

inductive LoopPost (e : Enc) (ls : List Bytes) : Bool → Enc → Prop
  | miss {e2 : Enc} (news : List (Nat × Bytes)) : Mid e ls e2 → e2.ptrs = e.ptrs ++ news →
      (∀ p ∈ news, NewPtr e ls (ls.length + 1) p) → e2.compressedNameCount = e2.compressedNameCount →
      LoopPost e ls false e2
  | hit {e2 : Enc} (f b : List Bytes) (loc : Nat) : ls = f ++ b → b ≠ [] → (loc, flat b) ∈ e.ptrs → loc < 16384 →
      e2.buf = e.buf ++ flat f ++ [192 + loc / 256, loc % 256] → e2.offset = e2.buf.length →
      e2.offset ≤ e2.maxSize → e2.maxSize = e.maxSize → e2.canonicalForm = e.canonicalForm →
      e2.nameEncoding = e.nameEncoding →
      (∀ p ∈ e2.ptrs, p ∈ e.ptrs ∨ NewPtr e ls f.length p) → LoopPost e ls true e2

theorem compressLoop_spec (e : Enc) (ls : List Bytes) :
    ∀ (back front : List Bytes) (ec : Enc) (news : List (Nat × Bytes)) (flag : Bool) (e2 : Enc),
    ls = front ++ back → Mid e ls ec → ec.ptrs = e.ptrs ++ news →
    (∀ p ∈ news, NewPtr e ls front.length p) →
    compressLoop ec ec.offset (starts (e.buf.length + (flat front).length) back) = .ok flag e2 →
    LoopPost e ls flag e2
  | [], front, ec, news, flag, e2, hls, hm, hp, hn, h => by
    simp only [starts, compressLoop, ERes.ok.injEq] at h
    obtain ⟨rfl, rfl⟩ := h
    refine LoopPost.miss news hm hp (fun p hp' => (hn p hp').mono ?_) rfl
    rw [hls]; simp
  | l :: back, front, ec, news, flag, e2, hls, hm, hp, hn, h => by
    have hm' : Mid e (front ++ l :: back) ec := hls ▸ hm
    -- continuing after a miss: the candidate may or may not have been stored
    have cont : ∀ e', ec.storeLabelPointer (e.buf.length + (flat front).length) ec.offset = .ok e' →
        compressLoop e' ec.offset (starts (e.buf.length + (flat front).length + 1 + l.length) back) = .ok flag e2 →
        LoopPost e ls flag e2 := by
      intro e' hst hrest
      have hfl : e.buf.length + (flat front).length + 1 + l.length
          = e.buf.length + (flat (front ++ [l])).length := by
        rw [flat_append]; simp; omega
      rw [hfl] at hrest
      have hls' : ls = (front ++ [l]) ++ back := by rw [hls]; simp
      rcases storeLabelPointer_mid hm' hst with he | he <;> rw [he] at hrest
      · exact compressLoop_spec e ls back (front ++ [l]) ec news flag e2 hls' hm hp
          (fun p hp' => (hn p hp').mono (by simp)) hrest
      · refine compressLoop_spec e ls back (front ++ [l]) _ (news ++ [(e.buf.length + (flat front).length, flat (l :: back))]) flag e2 hls'
          (hm.withPtrs _) (by simp [hp]) ?_ hrest
        intro p hp'
        rcases List.mem_append.1 hp' with hp' | hp'
        · exact (hn p hp').mono (by simp)
        · simp only [List.mem_singleton] at hp'
          exact ⟨front, l :: back, hls, by simp, hp'⟩
    simp only [starts] at h
    unfold compressLoop at h
    unfold Enc.getLabelPointer at h
    rw [sliceOf_mid hm'] at h
    simp only at h
    split at h
    · simp at h
    · simp at h
    · rename_i loc hfind
      split at h
      · -- hit
        rename_i hloc
        have hloc' : loc < 16384 := by omega
        obtain ⟨tb, to, tm, tc, tn, tp⟩ := trim_mid hm'
        generalize Enc.trim { ec with offset := e.buf.length + (flat front).length } = et at *
        unfold Enc.emitU16 at h
        rw [emitSlice_app _ _ to] at h
        have hb0 : (49152 + loc) / 256 % 256 = 192 + loc / 256 := by omega
        have hb1 : (49152 + loc) % 256 = loc % 256 := by omega
        rw [hb0, hb1] at h
        simp only [List.length_cons, List.length_nil, Nat.zero_add, Nat.reduceAdd] at h
        by_cases hfull : et.maxSize < et.offset + 2
        · simp [hfull] at h
        · simp only [hfull, ↓reduceIte, ERes.ok.injEq] at h
          obtain ⟨rfl, rfl⟩ := h
          have hmem := findPtr_some hfind
          rw [hp] at hmem
          have hold : (loc, flat (l :: back)) ∈ e.ptrs := by
            rcases List.mem_append.1 hmem with hmem | hmem
            · exact hmem
            · exfalso
              obtain ⟨f', b', h1, h2, h3⟩ := hn _ hmem
              simp only [Prod.mk.injEq] at h3
              have hb := flat_inj h3.2
              rw [hls, ← hb] at h1
              have := List.append_cancel_right h1
              rw [this] at h2; omega
          refine LoopPost.hit front (l :: back) loc hls (by simp) hold hloc' ?_ ?_ ?_ ?_ ?_ ?_ ?_
          · simp [tb]
          · simp [to]
          · simp at hfull ⊢; omega
          · simpa using tm
          · simpa using tc
          · simpa using tn
          · intro p hp'
            have := tp p (by simpa using hp')
            rw [hp] at this
            rcases List.mem_append.1 this with h' | h'
            · exact Or.inl h'
            · exact Or.inr (hn p h')
      · split at h
        · rename_i e' hst; exact cont e' hst h
        · simp at h
        · simp at h
    · split at h
      · rename_i e' hst; exact cont e' hst h
      · simp at h
      · simp at h

theorem storeAll_spec (e : Enc) (ls : List Bytes) :
    ∀ (back front : List Bytes) (ec : Enc) (news : List (Nat × Bytes)) (e2 : Enc),
    ls = front ++ back → Mid e ls ec → ec.ptrs = e.ptrs ++ news →
    (∀ p ∈ news, NewPtr e ls front.length p) →
    storeAll ec ec.offset (starts (e.buf.length + (flat front).length) back) = .ok e2 →
    LoopPost e ls false e2
  | [], front, ec, news, e2, hls, hm, hp, hn, h => by
    simp only [starts, storeAll, Outcome.ok.injEq] at h
    subst h
    refine LoopPost.miss news hm hp (fun p hp' => (hn p hp').mono ?_) rfl
    rw [hls]; simp
  | l :: back, front, ec, news, e2, hls, hm, hp, hn, h => by
    have hm' : Mid e (front ++ l :: back) ec := hls ▸ hm
    simp only [starts] at h
    unfold storeAll at h
    split at h
    · rename_i e' hst
      have hfl : e.buf.length + (flat front).length + 1 + l.length
          = e.buf.length + (flat (front ++ [l])).length := by
        rw [flat_append]; simp; omega
      rw [hfl] at h
      have hls' : ls = (front ++ [l]) ++ back := by rw [hls]; simp
      rcases storeLabelPointer_mid hm' hst with he | he <;> rw [he] at h
      · exact storeAll_spec e ls back (front ++ [l]) ec news e2 hls' hm hp
          (fun p hp' => (hn p hp').mono (by simp)) h
      · refine storeAll_spec e ls back (front ++ [l]) _
          (news ++ [(e.buf.length + (flat front).length, flat (l :: back))]) e2 hls'
          (hm.withPtrs _) (by simp [hp]) ?_ h
        intro p hp'
        rcases List.mem_append.1 hp' with hp' | hp'
        · exact (hn p hp').mono (by simp)
        · simp only [List.mem_singleton] at hp'
          exact ⟨front, l :: back, hls, by simp, hp'⟩
    · simp at h
    · simp at h

/-- **The key invariant.**  Every stored compression candidate `(o, bs)` denotes a label sequence
(`bs = flat ls`, the uncompressed label bytes without terminator) that is laid out at offset `o`
of the buffer, in a run ending at or before the current offset — hence (`readName_of_Laid`)
decoding a name at `o` with `Name.readName` yields exactly those labels.  `H` is an arbitrary
condition on the runs `(start, end)` the layout consists of (its footprint); it is what allows
bytes *outside* all footprints — a reserved `Place` — to be overwritten later
(`ptrInvH_overwrite` in `Proofs/C02.lean`). -/
def LabelsOK (ls : List Bytes) : Prop := ∀ l ∈ ls, 1 ≤ l.length ∧ l.length ≤ 63

/-- a candidate that can never match a name: its bytes are not the flat form of any list of proper
labels (the server's `QueriesEmitAndCount::emit` stores the whole question — name, root octet, type,
class — as one such candidate) -/
def DeadCand (bs : Bytes) : Prop := ∀ ls, LabelsOK ls → bs ≠ flat ls

def PtrInvH (H : Nat × Nat → Prop) (e : Enc) : Prop :=
  ∀ p ∈ e.ptrs, (∃ ls en F, p.2 = flat ls ∧ Laid e.buf p.1 p.1 ls en F ∧ en ≤ e.offset ∧ ∀ iv ∈ F, H iv) ∨
    (p.1 < e.offset ∧ DeadCand p.2)

/-- `PtrInvH` without a condition on the footprints -/
def PtrInv (e : Enc) : Prop := PtrInvH (fun _ => True) e

/-- what a successful `Name::emit` of the labels `ls` establishes -/
structure NamePost (H : Nat × Nat → Prop) (e : Enc) (ls : List Bytes) (e' : Enc) : Prop where
  laid : ∃ F, Laid e'.buf e.offset e.offset ls e'.offset F ∧ ∀ iv ∈ F, H iv
  inv : PtrInvH H e'
  app : e'.offset = e'.buf.length
  ext : ∃ x, e'.buf = e.buf ++ x
  max : e'.maxSize = e.maxSize
  fit : e'.offset ≤ e'.maxSize
  canon : e'.canonicalForm = e.canonicalForm
  ne : e'.nameEncoding = e.nameEncoding
  len : e'.offset ≤ e.offset + (flat ls).length + 1

theorem split_of_append_eq {f' b' f b : List Bytes} (h : f' ++ b' = f ++ b) (hl : f'.length ≤ f.length) :
    ∃ mid, f = f' ++ mid ∧ b' = mid ++ b := by
  rcases List.append_eq_append_iff.1 h with ⟨a', h1, h2⟩ | ⟨c', h1, h2⟩
  · exact ⟨a', h1, h2⟩
  · have : c' = [] := by
      have := congrArg List.length h1
      simp at this
      exact List.eq_nil_of_length_eq_zero (by omega)
    subst this
    exact ⟨[], by simpa using h1.symm, by simpa using h2.symm⟩

/-- after a pointer hit: every suffix starting at or before the pointer is laid out -/
theorem laid_hit {e : Enc} {f b : List Bytes} {loc en : Nat} {buf2 : Bytes}
    (happ : e.offset = e.buf.length) (hlab : LabelsOK f)
    (hb : buf2 = e.buf ++ flat f ++ [192 + loc / 256, loc % 256]) (hloc : loc < 16384)
    {F0 : List (Nat × Nat)} (hl : Laid e.buf loc loc b en F0) (hen : en ≤ e.offset)
    (f' mid : List Bytes) (hf : f = f' ++ mid) :
    Laid buf2 (e.buf.length + (flat f').length) (e.buf.length + (flat f').length) (mid ++ b)
      (e.buf.length + (flat f).length + 2)
      ((e.buf.length + (flat f').length, e.buf.length + (flat f).length + 2) :: F0) := by
  have hl2 : Laid buf2 loc loc b en F0 := by
    rw [hb, List.append_assoc]; exact hl.append (Nat.le_refl _) _
  have hq : Laid buf2 (e.buf.length + (flat f').length) (e.buf.length + (flat f).length) b
      (e.buf.length + (flat f).length + 2)
      ((e.buf.length + (flat f').length, e.buf.length + (flat f).length + 2) :: F0) := by
    refine Laid.ptr hloc ?_ ?_ hl2 (by omega)
    · rw [hb, show e.buf.length + (flat f).length = (e.buf ++ flat f).length by simp]
      rw [List.getElem?_append_right (Nat.le_refl _)]; simp
    · rw [hb, show e.buf.length + (flat f).length + 1 = (e.buf ++ flat f).length + 1 by simp]
      rw [List.getElem?_append_right (by omega)]; simp
  have := Laid.prepend mid (e.buf ++ flat f') [192 + loc / 256, loc % 256] buf2 _
    (e.buf.length + (flat f).length) b _ _ (fun l hl' => hlab l (by rw [hf]; simp [hl']))
    (by rw [hb, hf, flat_append]; simp [List.append_assoc])
    (by rw [hf, flat_append]; simp; omega) hq
  simpa using this

/-- without a hit: every suffix is laid out, ending with the root octet -/
theorem laid_root {e : Enc} {ls : List Bytes} {buf3 : Bytes} (hlab : LabelsOK ls)
    (hb : buf3 = e.buf ++ flat ls ++ [0]) (f' b' : List Bytes) (hf : ls = f' ++ b') :
    Laid buf3 (e.buf.length + (flat f').length) (e.buf.length + (flat f').length) b'
      (e.buf.length + (flat ls).length + 1)
      [(e.buf.length + (flat f').length, e.buf.length + (flat ls).length + 1)] := by
  have hq : Laid buf3 (e.buf.length + (flat f').length) (e.buf.length + (flat ls).length) []
      (e.buf.length + (flat ls).length + 1)
      [(e.buf.length + (flat f').length, e.buf.length + (flat ls).length + 1)] := by
    refine Laid.root ?_
    rw [hb, show e.buf.length + (flat ls).length = (e.buf ++ flat ls).length by simp]
    rw [List.getElem?_append_right (Nat.le_refl _)]; simp
  have := Laid.prepend b' (e.buf ++ flat f') [0] buf3 _
    (e.buf.length + (flat ls).length) [] _ _ (fun l hl' => hlab l (by rw [hf]; simp [hl']))
    (by rw [hb, hf, flat_append]; simp [List.append_assoc])
    (by rw [hf, flat_append]; simp; omega) hq
  simpa using this

theorem PtrInvH.old {H : Nat × Nat → Prop} {e : Enc} {buf' : Bytes} {off' : Nat} {p : Nat × Bytes}
    (hinv : PtrInvH H e) (hp : p ∈ e.ptrs) (x : Bytes) (hb : buf' = e.buf ++ x) (ho : e.offset ≤ off') :
    (∃ ls en F, p.2 = flat ls ∧ Laid buf' p.1 p.1 ls en F ∧ en ≤ off' ∧ ∀ iv ∈ F, H iv) ∨
      (p.1 < off' ∧ DeadCand p.2) := by
  rcases hinv p hp with ⟨ls, en, F, h1, h2, h3, h4⟩ | ⟨hlt, hd⟩
  · exact Or.inl ⟨ls, en, F, h1, hb ▸ h2.append (Nat.le_refl _) x, by omega, h4⟩
  · exact Or.inr ⟨by omega, hd⟩

theorem namePost_of_loopPost {H : Nat × Nat → Prop} {e e2 e' : Enc} {ls : List Bytes} {flag : Bool}
    (hlab : LabelsOK ls) (happ : e.offset = e.buf.length) (hinv : PtrInvH H e)
    (hH : ∀ a b, e.offset ≤ a → H (a, b)) (hpost : LoopPost e ls flag e2)
    (h : (match flag with | true => ERes.ok () e2 | false => emitRoot e2 e.buf.length) = .ok () e') :
    NamePost H e ls e' := by
  cases hpost with
  | miss news hm hp hn _ =>
    simp only at h
    unfold emitRoot Enc.emitU8 at h
    rw [emitSlice_app _ _ hm.off] at h
    simp only [List.length_cons, List.length_nil, Nat.zero_add] at h
    by_cases hfull : e2.maxSize < e2.offset + 1
    · simp [hfull] at h
    · simp only [hfull, ↓reduceIte] at h
      split at h
      · simp at h
      split at h
      · simp at h
      simp only [ERes.ok.injEq, true_and] at h
      subst h
      have hoff : e2.offset = e.buf.length + (flat ls).length := by rw [hm.off, hm.buf]; simp
      have hbuf : e2.buf ++ [0 % 256] = e.buf ++ flat ls ++ [0] := by rw [hm.buf]
      refine ⟨?_, ?_, ?_, ⟨flat ls ++ [0], by simp [hm.buf]⟩, hm.max, ?_, hm.canon, hm.ne, ?_⟩
      · have := laid_root hlab hbuf [] ls rfl
        refine ⟨_, by simpa [happ, hoff] using this, ?_⟩
        intro iv hiv
        simp only [List.mem_singleton] at hiv
        subst hiv
        exact hH _ _ (by simp [happ])
      · intro p hp'
        simp only at hp' ⊢
        rw [hp] at hp'
        rcases List.mem_append.1 hp' with hp' | hp'
        · exact hinv.old hp' (flat ls ++ [0]) (by rw [hbuf]; simp) (by omega)
        · obtain ⟨f', b', h1, _, h3⟩ := hn p hp'
          refine Or.inl ⟨b', e.buf.length + (flat ls).length + 1,
            [(e.buf.length + (flat f').length, e.buf.length + (flat ls).length + 1)], by rw [h3], ?_, by omega, ?_⟩
          · rw [h3]; exact laid_root hlab hbuf f' b' h1
          · intro iv hiv
            simp only [List.mem_singleton] at hiv
            subst hiv
            exact hH _ _ (by omega)
      · simp [hm.off]
      · simp at hfull ⊢; omega
      · simp; omega
  | hit f b loc hls hbne hmem hloc hbuf hoff hfit hmax hcanon hne hptrs =>
    simp only [ERes.ok.injEq, true_and] at h
    subst h
    have hlabb : LabelsOK b := fun l hl => hlab l (by rw [hls]; simp [hl])
    rcases hinv _ hmem with ⟨ls', en, F0, h1, h2, h3, h4⟩ | ⟨_, hdead⟩
    case inr => exact absurd rfl (hdead b hlabb)
    simp only at h1 h2
    have := flat_inj h1
    subst this
    have hlabf : LabelsOK f := fun l hl => hlab l (by rw [hls]; simp [hl])
    have hoff' : e2.offset = e.buf.length + (flat f).length + 2 := by
      rw [hoff, hbuf]; simp only [List.length_append, List.length_cons, List.length_nil]
    refine ⟨?_, ?_, hoff, ⟨flat f ++ [192 + loc / 256, loc % 256], by simp [hbuf]⟩, hmax, hfit, hcanon,
      hne, ?_⟩
    · have := laid_hit happ hlabf hbuf hloc h2 h3 [] f rfl
      rw [hls, hoff']
      refine ⟨_, by simpa [happ] using this, ?_⟩
      intro iv hiv
      rcases List.mem_cons.1 hiv with rfl | hiv
      · exact hH _ _ (by simp [happ])
      · exact h4 iv hiv
    · intro p hp'
      rcases hptrs p hp' with hp' | hp'
      · exact hinv.old hp' (flat f ++ [192 + loc / 256, loc % 256]) (by simp [hbuf]) (by omega)
      · obtain ⟨f', b', h1', h2', h3'⟩ := hp'
        obtain ⟨mid, hm1, hm2⟩ := split_of_append_eq (h1'.symm.trans hls) (by omega)
        refine Or.inl ⟨b', e.buf.length + (flat f).length + 2,
          (e.buf.length + (flat f').length, e.buf.length + (flat f).length + 2) :: F0, by rw [h3'], ?_, by omega, ?_⟩
        · rw [h3', hm2]
          exact laid_hit happ hlabf hbuf hloc h2 h3 f' mid hm1
        · intro iv hiv
          rcases List.mem_cons.1 hiv with rfl | hiv
          · exact hH _ _ (by omega)
          · exact h4 iv hiv
    · rw [hoff', hls, flat_append, happ]
      have : 0 < (flat b).length := by
        cases b with
        | nil => exact absurd rfl hbne
        | cons => simp
      simp only [List.length_append]; omega

/-- the name as `Name::emit` writes it in the encoder's current mode: lower-cased in
`UncompressedLowercase` mode, unchanged (letter case preserved) otherwise -/
def emitted (e : Enc) (n : Name) : Name :=
  if e.nameEncoding = .uncompressedLowercase then n.toLowercase else n

theorem labelsOK_emitted {e : Enc} {n : Name} (hwf : n.WF) : LabelsOK (emitted e n).labels := by
  unfold emitted
  split
  · intro l hl
    simp only [Name.toLowercase, List.mem_map] at hl
    obtain ⟨l0, h0, rfl⟩ := hl
    have := hwf.2 l0 h0
    simp [Name.lowerLabel]; omega
  · intro l hl
    have := hwf.2 l hl
    omega

theorem emit_post {H : Nat × Nat → Prop} {e e' : Enc} {n : Name} (hwf : n.WF)
    (happ : e.offset = e.buf.length) (hinv : PtrInvH H e) (hH : ∀ a b, e.offset ≤ a → H (a, b))
    (h : Name.emit e n = .ok () e') : NamePost H e (emitted e n).labels e' := by
  have hlab := labelsOK_emitted (e := e) hwf
  unfold Name.emit at h
  simp only at h
  change (match emitLabels e (emitted e n).labels [] with
    | .panic s => _ | .err k e1 => _ | .ok written e1 => _) = _ at h
  generalize (emitted e n).labels = ls at h hlab
  split at h
  · simp at h
  · simp at h
  · rename_i written e1 hl
    obtain ⟨he1, hw⟩ := emitLabels_ok ls e [] written e1 happ (fun l hl' => (hlab l hl').2) hl
    have hm : Mid e ls e1 := by
      rw [he1]; exact ⟨rfl, by simp [happ], rfl, rfl, rfl⟩
    have hst : written = starts (e.buf.length + (flat []).length) ls := by
      rw [hw, happ]; simp
    rw [hst] at h
    split at h
    · -- compression attempted
      split at h
      · simp at h
      · simp at h
      · rename_i e2 hloop
        have := compressLoop_spec e ls ls [] { e1 with compressedNameCount := e1.compressedNameCount + 1 }
          [] true e2 rfl ⟨hm.buf, hm.off, hm.max, hm.canon, hm.ne⟩ (by rw [he1]; simp) (by simp) hloop
        exact namePost_of_loopPost hlab happ hinv hH this h
      · rename_i e2 hloop
        have := compressLoop_spec e ls ls [] { e1 with compressedNameCount := e1.compressedNameCount + 1 }
          [] false e2 rfl ⟨hm.buf, hm.off, hm.max, hm.canon, hm.ne⟩ (by rw [he1]; simp) (by simp) hloop
        exact namePost_of_loopPost hlab happ hinv hH this h
    · split at h
      · simp at h
      · simp at h
      · rename_i e2 hloop
        have := storeAll_spec e ls ls [] e1 [] e2 rfl hm (by rw [he1]; simp) (by simp) hloop
        exact namePost_of_loopPost hlab happ hinv hH this h

/-! ### `place` / `Place::replace` -/

theorem place_app (e : Enc) (len : Nat) (happ : e.offset = e.buf.length) :
    e.place len =
      if e.maxSize < e.offset + len then .err .maxSize e
      else .ok e.offset { e with buf := e.buf ++ List.replicate len 0, offset := e.offset + len } := by
  unfold Enc.place Enc.reserve Enc.resize
  by_cases hc : e.maxSize < e.offset + len
  · simp [hc]
  · have h1 : e.offset + len - e.buf.length = len := by omega
    have h2 : e.buf.take (e.offset + len) = e.buf := List.take_of_length_le (by omega)
    simp only [hc, ↓reduceIte, h1, h2]

/-- `emit_slice` when the data fits inside the existing buffer: overwrite in place -/
theorem emitSlice_overwrite (e : Enc) (data : Bytes) (hin : e.offset + data.length ≤ e.buf.length) :
    e.emitSlice data =
      if e.maxSize < e.offset + data.length then .err .maxSize e
      else .ok () { e with buf := e.buf.take e.offset ++ data ++ e.buf.drop (e.offset + data.length),
                           offset := e.offset + data.length } := by
  unfold Enc.emitSlice Enc.write
  rw [if_neg (by omega)]
  by_cases hmax : e.maxSize < e.offset + data.length
  · have : e.offset + data.length > e.maxSize := hmax
    simp [this]
  · have hmax' : ¬ (e.offset + data.length > e.maxSize) := hmax
    simp only [hmax, ↓reduceIte]
    by_cases hst : e.offset = e.buf.length
    · have hnil : data = [] := List.eq_nil_of_length_eq_zero (by omega)
      simp [hst, hnil]
    · simp only [hst, ↓reduceIte]
      rw [if_neg (by omega)]

/-- `Place::replace` with `len` octets of data, for a place that lies inside the buffer: the result
is the buffer with exactly those `len` octets overwritten; offset, limit, candidates unchanged. -/
theorem placeReplace_spec (e e' : Enc) (start len : Nat) (data : Bytes) (hd : data.length = len)
    (hin : start + len ≤ e.buf.length)
    (h : e.placeReplace start len (fun x => x.emitSlice data) = .ok () e') :
    e' = { e with buf := e.buf.take start ++ data ++ e.buf.drop (start + len) } := by
  unfold Enc.placeReplace at h
  simp only at h
  rw [emitSlice_overwrite _ _ (by simp; omega)] at h
  simp only at h
  by_cases hlt : start < e.offset
  · rw [if_neg (by omega)] at h
    by_cases hmax : e.maxSize < start + data.length
    · simp only [hmax, ↓reduceIte] at h
      split at h
      · simp at h
      · split at h <;> simp at h
    · simp only [hmax, ↓reduceIte] at h
      rw [if_neg (by omega), if_neg (by omega)] at h
      simp only [ERes.ok.injEq, true_and] at h
      rw [← h, hd]
  · rw [if_pos hlt] at h
    simp at h

end HickoryVerif.C02
