/-
C10 helper lemmas: additional-section processing (`additional_search`) terminates — the `names`
set strictly grows inside the finite set of names embedded in the zone's rdatas.
-/
import HickoryVerif.Lemmas.AuthZoneBasic

namespace HickoryVerif.C10
open HickoryVerif HickoryVerif.AuthZone

/-- an RRset returned by `inner_lookup` is an RRset of the zone up to its owner name: same rdatas,
same RRSIGs (wildcard synthesis only re-owns it) -/
def rdatasFromZone (z : Zone) (a : RRset) : Prop :=
  ∃ r ∈ z, a.rdatas = r.rdatas ∧ a.sigLabels = r.sigLabels

theorem walk_mem {z : Zone} {qn : LName} {t : Nat} :
    ∀ (s : LName) {a : RRset}, walk z qn t s = some a → a ∈ z := by
  intro s
  induction s with
  | nil => intro a h; cases h
  | cons l rest ih =>
    intro a h
    unfold walk at h
    split at h
    · rename_i ns hns _
      split at h
      · exact ih h
      · cases h; exact (get_some hns).1
    · cases h
    · exact ih h

theorem lookupExact_mem {z : Zone} {n : LName} {t : Nat} {a : RRset}
    (h : lookupExact z n t = some a) : a ∈ z := by
  unfold lookupExact at h
  split at h
  · rename_i ns hw
    cases h
    exact walk_mem _ hw
  · exact List.mem_of_find?_eq_some h

theorem wildClimb_mem {z : Zone} {t : Nat} :
    ∀ (rest : LName) {p : LName × RRset}, wildClimb z t rest = some p → p.2 ∈ z := by
  intro rest
  induction rest with
  | nil =>
    intro p h
    simp only [wildClimb, Option.map_eq_some_iff] at h
    obtain ⟨a, ha, he⟩ := h
    subst he
    exact lookupExact_mem ha
  | cons l rest ih =>
    intro p h
    simp only [wildClimb] at h
    split at h
    · rename_i rr hl
      cases h
      exact lookupExact_mem hl
    · exact ih h

theorem innerLookup_rdatas {z : Zone} {n : LName} {t : Nat} {a : RRset}
    (h : innerLookup z n t = some a) : rdatasFromZone z a := by
  unfold innerLookup at h
  split at h
  · rename_i r hl
    cases h
    exact ⟨a, lookupExact_mem hl, rfl, rfl⟩
  · unfold innerLookupWildcard wildSource at h
    cases n with
    | nil => simp at h
    | cons l rest =>
      dsimp only at h
      split at h
      · simp at h
      · cases hw : wildClimb z t rest with
        | none => rw [hw] at h; simp at h
        | some p =>
          rw [hw] at h
          simp only [Option.map_some, Option.some.injEq] at h
          subst h
          exact ⟨p.2, wildClimb_mem rest hw, rfl, rfl⟩

theorem head_target_mem_targets {z : Zone} {a : RRset} (ha : rdatasFromZone z a) {n : LName}
    (h : a.rdatas.head?.bind (·.target) = some n) : n ∈ targets z := by
  obtain ⟨r, hr, hrd, _⟩ := ha
  cases hh : a.rdatas.head? with
  | none => rw [hh] at h; cases h
  | some rd =>
    rw [hh] at h
    simp only [Option.bind_some] at h
    have hmem : rd ∈ r.rdatas := hrd ▸ List.mem_of_mem_head? hh
    unfold targets
    rw [List.mem_flatMap]
    exact ⟨r, hr, List.mem_filterMap.2 ⟨rd, hmem, h⟩⟩

/-- names of the zone's rdatas not yet looked up -/
def remaining (z : Zone) (names : List LName) : Nat :=
  ((targets z).filter fun x => !names.contains x).length

theorem filter_length_lt {α} {p p' : α → Bool} :
    ∀ (l : List α), (∀ y, p' y = true → p y = true) → (∃ x ∈ l, p x = true ∧ p' x = false) →
      (l.filter p').length < (l.filter p).length := by
  intro l
  induction l with
  | nil => intro _ ⟨x, hx, _⟩; cases hx
  | cons a l ih =>
    intro himp ⟨x, hx, hpx, hp'x⟩
    have hle : (l.filter p').length ≤ (l.filter p).length := by
      clear ih hx
      induction l with
      | nil => simp
      | cons b l ihl =>
        simp only [List.filter_cons]
        cases hb' : p' b with
        | true => rw [himp b hb']; simp only [if_true, List.length_cons]; omega
        | false =>
          cases hb : p b with
          | true => simp only [if_true, List.length_cons, Bool.false_eq_true, if_false]; omega
          | false => simpa using ihl
    rcases List.mem_cons.1 hx with h | h
    · subst h
      simp only [List.filter_cons, hpx, hp'x, if_true, Bool.false_eq_true, if_false, List.length_cons]
      omega
    · have := ih himp ⟨x, h, hpx, hp'x⟩
      simp only [List.filter_cons]
      cases ha' : p' a with
      | true => rw [himp a ha']; simp only [if_true, List.length_cons]; omega
      | false =>
        cases ha : p a with
        | true => simp only [if_true, List.length_cons, Bool.false_eq_true, if_false]; omega
        | false => simpa using this

theorem not_mem_of_contains_false {l : List LName} {x : LName} (h : l.contains x = false) : ¬ x ∈ l := by
  intro hm
  rw [List.contains_iff_mem.2 hm] at h
  cases h

theorem remaining_lt {z : Zone} {names : List LName} {s : LName} (hs : s ∈ targets z)
    (hn : names.contains s = false) : remaining z (s :: names) < remaining z names := by
  unfold remaining
  apply filter_length_lt
  · intro y hy
    simp only [List.contains_cons, Bool.not_eq_true', Bool.or_eq_false_iff] at hy
    simp [not_mem_of_contains_false hy.2]
  · exact ⟨s, hs, by simp [not_mem_of_contains_false hn], by simp⟩

theorem remaining_le (z : Zone) (names : List LName) : remaining z names ≤ (targets z).length := by
  unfold remaining
  exact List.length_filter_le _ _

/-- Once the fuel exceeds the number of rdata names not yet looked up, more fuel changes
nothing: the loop has ended by itself. -/
theorem addLoop_stable (z : Zone) (qt : Nat) :
    ∀ (fuel : Nat) (names : List LName) (search : LName) (adds : List RRset),
      search ∈ targets z → remaining z names < fuel →
      ∀ fuel', fuel ≤ fuel' →
        addLoop z qt fuel' names search adds = addLoop z qt fuel names search adds := by
  intro fuel
  induction fuel with
  | zero => intro _ _ _ _ h; omega
  | succ f ih =>
    intro names search adds hs hrem fuel' hle
    obtain ⟨f', rfl⟩ : ∃ f', fuel' = f' + 1 := ⟨fuel' - 1, by omega⟩
    unfold addLoop
    by_cases hc : names.contains search = true
    · simp [List.contains_iff_mem.1 hc]
    · have hc' : names.contains search = false := by
        cases h : names.contains search <;> simp_all
      simp only [hc', Bool.false_eq_true, if_false]
      cases hil : innerLookup z search qt with
      | none => rfl
      | some a =>
        dsimp only
        have hfrom := innerLookup_rdatas hil
        cases hnext : (if a.type == T_CNAME then a.rdatas.head?.bind (·.target) else maybeNextName a qt) with
        | none => rfl
        | some n =>
          dsimp only
          have hn : n ∈ targets z := by
            by_cases hcn : (a.type == T_CNAME) = true
            · rw [if_pos hcn] at hnext
              exact head_target_mem_targets hfrom hnext
            · rw [if_neg hcn] at hnext
              unfold maybeNextName at hnext
              split at hnext
              · exact head_target_mem_targets hfrom hnext
              · cases hnext
          have hlt := remaining_lt hs hc'
          exact ih (search :: names) n _ hn (by omega) f' (by omega)

end HickoryVerif.C10
