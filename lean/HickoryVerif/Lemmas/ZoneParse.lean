/-
Helper lemmas about the parser model (`Model/ZoneParse.lean`): a fuel-indexed twin of the token
loop (proof device for evaluating the model on concrete texts), and the invariant behind
`no_panic`: the record map keeps `key = (lower(name), type)`, stored sets are of stored types,
CNAME/ANAME sets have at most one record — which makes the three `assert!`s of
`RecordSet::insert` and the index in its replace loop unreachable.
-/
import HickoryVerif.Lemmas.ZoneLex
import HickoryVerif.Model.ZoneParse
import HickoryVerif.Proofs.C04

namespace HickoryVerif.ZoneParse
open HickoryVerif HickoryVerif.ZoneLex

/-! ### fuel twin (evaluation device) -/

def parseLoopN : Nat → Lexer → Ctx → PState → Option (ZR (Ctx × PState))
  | 0, _, _, _ => none
  | n + 1, lx, cx, st =>
    match nextTokenN (n + 1) lx with
    | none => none
    | some .err => some .err
    | some (.panic s) => some (.panic s)
    | some (.ok (none, _)) => some (.ok (cx, st))
    | some (.ok (some t, lx')) =>
      if lx'.txt.length < lx.txt.length then
        match onToken cx st t with
        | .ok (cx', st') => parseLoopN n lx' cx' st'
        | .err => some .err
        | .unmodelled => some .unmodelled
        | .panic s => some (.panic s)
      else some (.panic "hang:parse-loop")

theorem parseLoopN_eq {n : Nat} {lx : Lexer} {cx : Ctx} {st : PState} {r}
    (h : parseLoopN n lx cx st = some r) : parseLoop lx cx st = r := by
  induction n generalizing lx cx st with
  | zero => simp [parseLoopN] at h
  | succ n ih =>
    unfold parseLoopN at h
    rw [parseLoop]
    split at h
    · cases h
    · rename_i heq; rw [nextTokenN_eq heq]; cases h; rfl
    · rename_i heq; rw [nextTokenN_eq heq]; cases h; rfl
    · rename_i heq; rw [nextTokenN_eq heq]; cases h; rfl
    · rename_i t lx' heq
      rw [nextTokenN_eq heq]
      simp only
      split at h
      · rename_i hlt
        simp only [hlt, ↓reduceDIte]
        split at h
        · rename_i heq2; simp only [heq2]; exact ih h
        · rename_i heq2; simp only [heq2]; cases h; rfl
        · rename_i heq2; simp only [heq2]; cases h; rfl
        · rename_i heq2; simp only [heq2]; cases h; rfl
      · rename_i hlt
        simp only [hlt, ↓reduceDIte]; cases h; rfl

/-- `parse` evaluated with `n` units of fuel -/
def parseN (n : Nat) (text : Str) (origin : Option Name) : Option (ZR (Name × List (Key × RSet))) :=
  (parseLoopN n (Lexer.new text) (initCtx origin) .startLine).map fun r => r.bind finish

theorem parseN_eq {n : Nat} {text : Str} {origin : Option Name} {r}
    (h : parseN n text origin = some r) : parse text origin = r := by
  unfold parseN at h
  simp only [Option.map_eq_some_iff] at h
  obtain ⟨x, hx, rfl⟩ := h
  unfold parse
  rw [parseLoopN_eq hx]

/-! ### no panic -/

def NoPanic {α} (x : ZR α) : Prop := ∀ s, x ≠ .panic s

theorem NoPanic.ok {α} (a : α) : NoPanic (ZR.ok a) := by intro s; simp
theorem NoPanic.err {α} : NoPanic (ZR.err : ZR α) := by intro s; simp
theorem NoPanic.unmodelled {α} : NoPanic (ZR.unmodelled : ZR α) := by intro s; simp

theorem NoPanic.bind {α β} {x : ZR α} {f : α → ZR β} (hx : NoPanic x)
    (hf : ∀ a, x = .ok a → NoPanic (f a)) : NoPanic (x.bind f) := by
  intro s
  cases x with
  | ok a => exact hf a rfl s
  | err => simp [ZR.bind]
  | unmodelled => simp [ZR.bind]
  | panic s' => exact absurd rfl (hx s')

theorem NoPanic.ofOption {α} (o : Option α) : NoPanic (ZR.ofOption o) := by
  cases o <;> intro s <;> simp [ZR.ofOption]

theorem NoPanic.ofOutcome {α} {o : Outcome α} (h : ∀ s, o ≠ .panic s) : NoPanic (ZR.ofOutcome o) := by
  cases o with
  | ok a => intro s; simp [ZR.ofOutcome]
  | err => intro s; simp [ZR.ofOutcome]
  | panic s' => exact absurd rfl (h s')

theorem extendName_noPanic (n : Name) (l : Bytes) (s : String) : n.extendName l ≠ .panic s := by
  unfold Name.extendName; simp only; split <;> simp

theorem labelFromRaw_noPanic (b : Bytes) (s : String) : Name.labelFromRaw b ≠ .panic s := by
  unfold Name.labelFromRaw; repeat' split
  all_goals simp

theorem labelFromAscii_noPanic (b : Bytes) (s : String) : Name.labelFromAscii b ≠ .panic s := by
  unfold Name.labelFromAscii; repeat' split
  all_goals first | exact labelFromRaw_noPanic _ _ | simp

theorem extendAll_noPanic (n : Name) (ls : List Bytes) (s : String) : n.extendAll ls ≠ .panic s := by
  induction ls generalizing n with
  | nil => simp [Name.extendAll]
  | cons l ls ih =>
    unfold Name.extendAll
    cases h : n.extendName l with
    | ok n' => simpa [Outcome.bind] using ih n'
    | err => simp [Outcome.bind]
    | panic s' => exact absurd h (extendName_noPanic n l s')

theorem appendDomain_noPanic (n d : Name) (s : String) : n.appendDomain d ≠ .panic s := by
  unfold Name.appendDomain Name.appendName
  cases h : n.extendAll d.labels with
  | ok r => simp [Outcome.map]
  | err => simp [Outcome.map]
  | panic s' => exact absurd h (extendAll_noPanic n d.labels s')

theorem labelFromUtf8_noPanic (s : Str) : NoPanic (labelFromUtf8 s) := by
  unfold labelFromUtf8
  repeat' split
  all_goals first
    | exact NoPanic.ok _ | exact NoPanic.err | exact NoPanic.unmodelled
    | exact NoPanic.ofOutcome (labelFromAscii_noPanic _)

theorem pushLabel_noPanic (n : Name) (l : Str) : NoPanic (pushLabel n l) := by
  unfold pushLabel
  exact NoPanic.bind (labelFromUtf8_noPanic l) fun a _ => NoPanic.ofOutcome (extendName_noPanic _ _)

theorem nameLoop_noPanic (s : Str) (st : Name.PState) (label : Str) (name : Name) :
    NoPanic (nameLoop s st label name) := by
  induction s generalizing st label name with
  | nil => unfold nameLoop; exact NoPanic.ok _
  | cons ch rest ih =>
    unfold nameLoop
    repeat' split
    all_goals first
      | exact NoPanic.ok _ | exact NoPanic.err | exact NoPanic.unmodelled
      | exact ih _ _ _
      | exact NoPanic.bind (pushLabel_noPanic _ _) fun a _ => ih _ _ _

theorem parseName_noPanic (s : Str) (o : Option Name) : NoPanic (parseName s o) := by
  unfold parseName
  split
  · exact NoPanic.ok _
  · refine NoPanic.bind (nameLoop_noPanic _ _ _ _) fun a _ => ?_
    refine NoPanic.bind ?_ fun n _ => ?_
    · split
      · exact pushLabel_noPanic _ _
      · exact NoPanic.ok _
    · repeat' split
      all_goals first
        | exact NoPanic.ok _
        | exact NoPanic.ofOutcome (appendDomain_noPanic _ _)

theorem nextTok_noPanic (l : List Str) : NoPanic (nextTok l) := by
  cases l <;> intro s <;> simp [nextTok]

/-- closes `NoPanic (x.bind f)` chains built from the primitives above -/
macro "np_step" : tactic =>
  `(tactic| first
    | exact NoPanic.ok _ | exact NoPanic.err | exact NoPanic.unmodelled
    | exact NoPanic.ofOption _
    | exact parseName_noPanic _ _
    | exact nextTok_noPanic _
    | (refine NoPanic.bind ?_ fun _ _ => ?_)
    | split)

theorem rdataFromTokens_noPanic (t : RType) (toks : List Str) (o : Option Name) :
    NoPanic (rdataFromTokens t toks o) := by
  unfold rdataFromTokens
  cases t <;> simp only <;> repeat' np_step

/-- `rdataFromTokens` succeeds only for stored types -/
def Stored (t : RType) : Prop := t ≠ .refused ∧ t ≠ .other

theorem rdataFromTokens_stored {t : RType} {toks : List Str} {o : Option Name} {d : RData}
    (h : rdataFromTokens t toks o = .ok d) : Stored t := by
  cases t <;> simp [rdataFromTokens, Stored] at *

theorem code_inj {a b : RType} (ha : Stored a) (hb : Stored b) (h : a.code = b.code) : a = b := by
  cases a <;> cases b <;> simp_all [RType.code, Stored]

/-- invariant of one entry of the record map -/
def GoodSet (k : Key) (rs : RSet) : Prop :=
  k = keyOf rs.name rs.rtype ∧ rs.name.fqdn = true ∧ Stored rs.rtype ∧
  ((rs.rtype = .cname ∨ rs.rtype = .aname) → rs.records.length ≤ 1)

def Inv (cx : Ctx) : Prop := ∀ k rs, (k, rs) ∈ cx.records → GoodSet k rs

theorem lookup_mem {m : List (Key × RSet)} {k : Key} {rs : RSet} (h : m.lookup k = some rs) :
    (k, rs) ∈ m := by
  induction m with
  | nil => simp [List.lookup] at h
  | cons p m ih =>
    obtain ⟨k', v'⟩ := p
    unfold List.lookup at h
    split at h
    · rename_i heq
      have : k = k' := by simpa using heq
      cases h; subst this; simp
    · exact List.mem_cons_of_mem _ (ih h)

theorem replaceLoop_spec (record : Rec) (is : List Nat) (records : List Rec) (ttl : Nat) (b : Bool)
    (hidx : ∀ i ∈ is, i < records.length) :
    NoPanic (replaceLoop record is records ttl b) := by
  induction is generalizing records ttl b with
  | nil => unfold replaceLoop; exact NoPanic.ok _
  | cons i is ih =>
    unfold replaceLoop
    have hi : i < records.length := hidx i (by simp)
    have : records[i]? = some records[i] := List.getElem?_eq_getElem hi
    rw [this]
    simp only
    split
    · exact NoPanic.ok _
    · apply ih
      intro j hj
      simpa using hidx j (by simp [hj])

theorem toReplace_lt (records : List Rec) (d : RData) : ∀ i ∈ toReplace records d, i < records.length := by
  intro i hi
  unfold toReplace at hi
  simp only [List.mem_filter, List.mem_range] at hi
  exact hi.1

theorem nameEq_of_lower {a b : Name} (hf : a.fqdn = b.fqdn)
    (hl : a.labels.map Name.lowerLabel = b.labels.map Name.lowerLabel) : Name.eq a b = true :=
  (C04.eq_iff a b).2 ⟨hf, hl⟩

/-- `RecordSet::insert` on a set found under the record's key: no `assert!` fires, and the set
stays good. -/
theorem RSet.insert_spec {k : Key} {rs : RSet} {t : RType} {record : Rec}
    (hg : GoodSet k rs) (hk : k = keyOf record.name t) (hf : record.name.fqdn = true)
    (ht : Stored t) :
    NoPanic (rs.insert t record) ∧ ∀ rs', rs.insert t record = .ok rs' → GoodSet k rs' := by
  obtain ⟨hk', hfq, hst, hcn⟩ := hg
  have hkk : keyOf record.name t = keyOf rs.name rs.rtype := by rw [← hk, ← hk']
  have hty : t = rs.rtype := code_inj ht hst (by simpa [keyOf] using congrArg Prod.snd hkk)
  have hnm : Name.eq record.name rs.name = true :=
    nameEq_of_lower (by rw [hf, hfq]) (by simpa [keyOf] using congrArg Prod.fst hkk)
  unfold RSet.insert
  simp only [hnm, Bool.not_true, Bool.false_eq_true, ↓reduceIte, hty, ne_eq, not_true_eq_false]
  by_cases hc : rs.rtype = .cname ∨ rs.rtype = .aname
  · have hlen := hcn hc
    have hlen' : ¬ rs.records.length > 1 := by omega
    simp only [hc, true_and, ↓reduceIte, hlen', ZR.bind_ok]
    generalize sameFirst rs.records record = same
    by_cases hsm : same = true
    · simp only [hsm, hlen, and_self, ↓reduceIte]
      refine ⟨NoPanic.ok _, ?_⟩
      intro rs' h
      simp only [ZR.ok.injEq] at h
      subst h
      exact ⟨hk', hfq, hst, hcn⟩
    · have hsm' : same = false := by simpa using hsm
      subst hsm'
      simp only [Bool.false_eq_true, and_false, ↓reduceIte]
      simp only [toReplace, List.length_nil, List.range_zero, List.filter_nil, replaceLoop, ZR.bind_ok]
      refine ⟨NoPanic.ok _, ?_⟩
      intro rs' h
      simp at h
      subst h
      exact ⟨hk', hfq, hst, fun _ => by simp⟩
  · simp only [hc, false_and, ↓reduceIte, ZR.bind_ok]
    have hnp := replaceLoop_spec record (toReplace rs.records record.data) rs.records rs.ttl false
      (toReplace_lt _ _)
    constructor
    · refine NoPanic.bind hnp fun a _ => ?_
      obtain ⟨r1, t1, b1, e1⟩ := a
      simp only
      repeat' split
      all_goals exact NoPanic.ok _
    · intro rs' h
      cases hrl : replaceLoop record (toReplace rs.records record.data) rs.records rs.ttl false with
      | ok a =>
        obtain ⟨r1, t1, b1, e1⟩ := a
        rw [hrl] at h
        simp only [ZR.bind_ok] at h
        repeat' split at h
        all_goals (cases h; exact ⟨hk', hfq, hst, fun h' => absurd h' hc⟩)
      | err => rw [hrl] at h; simp at h
      | unmodelled => rw [hrl] at h; simp at h
      | panic s => rw [hrl] at h; simp at h

theorem mapSet_mem {m : List (Key × RSet)} {k k' : Key} {v rs : RSet}
    (h : (k', rs) ∈ mapSet m k v) : (k' = k ∧ rs = v) ∨ (k', rs) ∈ m := by
  unfold mapSet at h
  simp only [List.mem_map] at h
  obtain ⟨⟨k0, v0⟩, hm, heq⟩ := h
  simp only at heq
  split at heq
  · rename_i hkk; cases heq; exact Or.inl ⟨hkk, rfl⟩
  · cases heq; exact Or.inr hm

theorem mapInsert_spec {m : List (Key × RSet)} (hinv : ∀ k rs, (k, rs) ∈ m → GoodSet k rs)
    {t : RType} (ht : Stored t) {record : Rec} (hf : record.name.fqdn = true) :
    NoPanic (mapInsert m t record) ∧
    ∀ m', mapInsert m t record = .ok m' → ∀ k rs, (k, rs) ∈ m' → GoodSet k rs := by
  unfold mapInsert
  simp only
  cases hlk : List.lookup (keyOf record.name t) m with
  | some rs =>
    simp only
    have hmem := lookup_mem hlk
    have hg := hinv _ _ hmem
    by_cases hsoa : t = .soa
    · simp only [hsoa, ↓reduceIte]
      exact ⟨NoPanic.err, by intro _ h; simp at h⟩
    · simp only [hsoa, ↓reduceIte]
      have hspec := RSet.insert_spec (t := t) (record := record) hg rfl hf ht
      constructor
      · exact NoPanic.bind hspec.1 fun _ _ => NoPanic.ok _
      · intro m' h
        cases hins : rs.insert t record with
        | ok rs' =>
          rw [hins] at h
          simp only [ZR.bind_ok, ZR.ok.injEq] at h
          subst h
          intro k' rs'' hm
          rcases mapSet_mem hm with ⟨rfl, rfl⟩ | hm'
          · exact hspec.2 _ hins
          · exact hinv _ _ hm'
        | err => rw [hins] at h; simp at h
        | unmodelled => rw [hins] at h; simp at h
        | panic s => rw [hins] at h; simp at h
  | none =>
    simp only
    refine ⟨NoPanic.ok _, ?_⟩
    intro m' h
    simp only [ZR.ok.injEq] at h
    subst h
    intro k' rs' hm
    simp only [List.mem_append, List.mem_singleton, Prod.mk.injEq] at hm
    rcases hm with hm | ⟨rfl, rfl⟩
    · exact hinv _ _ hm
    · exact ⟨rfl, hf, ht, fun _ => by simp [RSet.ofRec]⟩

theorem Ctx.insert_spec {cx : Ctx} (hinv : Inv cx) (parts : List Str) :
    NoPanic (cx.insert parts) ∧ ∀ cx', cx.insert parts = .ok cx' → Inv cx' := by
  unfold Ctx.insert
  cases hrt : cx.rtype with
  | none => exact ⟨NoPanic.err, by intro cx' h; simp at h⟩
  | some t =>
    simp only
    cases hrd : rdataFromTokens t parts cx.origin with
    | err => exact ⟨by simpa using NoPanic.err, by intro cx' h; simp at h⟩
    | unmodelled => exact ⟨by simpa using NoPanic.unmodelled, by intro cx' h; simp at h⟩
    | panic s => exact absurd hrd (rdataFromTokens_noPanic t parts cx.origin s)
    | ok rdata =>
      have hst := rdataFromTokens_stored hrd
      simp only [ZR.bind_ok]
      cases hcn : cx.currentName with
      | none => exact ⟨NoPanic.err, by intro cx' h; simp at h⟩
      | some name =>
        simp only
        cases htk : cx.ttl.take with
        | mk ot ttl' =>
          cases ot with
          | none => exact ⟨NoPanic.err, by intro cx' h; simp at h⟩
          | some ttl =>
            simp only
            have hspec := mapInsert_spec (m := cx.records) hinv hst
              (record := { name := { name with fqdn := true }, cls := cx.cls, ttl := ttl, data := rdata }) rfl
            constructor
            · exact NoPanic.bind hspec.1 fun _ _ => NoPanic.ok _
            · intro cx' h
              cases hins : mapInsert cx.records t { name := { name with fqdn := true }, cls := cx.cls, ttl := ttl, data := rdata } with
              | ok m' =>
                rw [hins] at h
                simp only [ZR.bind_ok, ZR.ok.injEq] at h
                subst h
                exact hspec.2 _ hins
              | err => rw [hins] at h; simp at h
              | unmodelled => rw [hins] at h; simp at h
              | panic s => rw [hins] at h; simp at h

theorem onToken_spec {cx : Ctx} (hinv : Inv cx) (st : PState) (t : Token) :
    NoPanic (onToken cx st t) ∧ ∀ cx' st', onToken cx st t = .ok (cx', st') → Inv cx' := by
  have hinv' : ∀ (c : Ctx), c.records = cx.records → Inv c := by
    intro c hc k rs hm; rw [hc] at hm; exact hinv k rs hm
  unfold onToken
  cases st with
  | record parts =>
    cases t with
    | eol =>
      simp only
      have hs := Ctx.insert_spec hinv parts
      constructor
      · exact NoPanic.bind hs.1 fun _ _ => NoPanic.ok _
      · intro cx' st' h
        cases hi : cx.insert parts with
        | ok c =>
          rw [hi] at h; simp only [ZR.bind_ok, ZR.ok.injEq, Prod.mk.injEq] at h
          obtain ⟨rfl, _⟩ := h
          exact hs.2 _ hi
        | err => rw [hi] at h; simp at h
        | unmodelled => rw [hi] at h; simp at h
        | panic s => rw [hi] at h; simp at h
    | _ =>
      simp only
      first
        | exact ⟨NoPanic.err, by intro _ _ h; simp at h⟩
        | (refine ⟨NoPanic.ok _, ?_⟩
           intro cx' st' h
           simp only [ZR.ok.injEq, Prod.mk.injEq] at h
           obtain ⟨rfl, _⟩ := h
           exact hinv)
  | startLine =>
    cases t with
    | charData d =>
      simp only
      constructor
      · exact NoPanic.bind (parseName_noPanic _ _) fun _ _ => NoPanic.ok _
      · intro cx' st' h
        cases hp : parseName d cx.origin with
        | ok n =>
          rw [hp] at h; simp only [ZR.bind_ok, ZR.ok.injEq, Prod.mk.injEq] at h
          obtain ⟨rfl, _⟩ := h
          exact hinv' _ rfl
        | err => rw [hp] at h; simp at h
        | unmodelled => rw [hp] at h; simp at h
        | panic s => rw [hp] at h; simp at h
    | _ =>
      simp only
      first
        | exact ⟨NoPanic.err, by intro _ _ h; simp at h⟩
        | (refine ⟨NoPanic.ok _, ?_⟩
           intro cx' st' h
           simp only [ZR.ok.injEq, Prod.mk.injEq] at h
           obtain ⟨rfl, _⟩ := h
           exact hinv' _ rfl)
  | origin =>
    cases t with
    | charData d =>
      simp only
      constructor
      · exact NoPanic.bind (parseName_noPanic _ _) fun _ _ => NoPanic.ok _
      · intro cx' st' h
        cases hp : parseName d none with
        | ok n =>
          rw [hp] at h; simp only [ZR.bind_ok, ZR.ok.injEq, Prod.mk.injEq] at h
          obtain ⟨rfl, _⟩ := h
          exact hinv' _ rfl
        | err => rw [hp] at h; simp at h
        | unmodelled => rw [hp] at h; simp at h
        | panic s => rw [hp] at h; simp at h
    | _ => exact ⟨NoPanic.err, by intro _ _ h; simp at h⟩
  | ttl =>
    cases t with
    | charData d =>
      simp only
      split
      · refine ⟨NoPanic.ok _, ?_⟩
        intro cx' st' h
        simp only [ZR.ok.injEq, Prod.mk.injEq] at h
        obtain ⟨rfl, _⟩ := h
        exact hinv' _ rfl
      · exact ⟨NoPanic.err, by intro _ _ h; simp at h⟩
    | _ => exact ⟨NoPanic.err, by intro _ _ h; simp at h⟩
  | «include» path =>
    simp only
    repeat' split
    all_goals first
      | exact ⟨NoPanic.err, by intro _ _ h; simp at h⟩
      | exact ⟨NoPanic.unmodelled, by intro _ _ h; simp at h⟩
      | (refine ⟨NoPanic.ok _, ?_⟩
         intro cx' st' h
         simp only [ZR.ok.injEq, Prod.mk.injEq] at h
         obtain ⟨rfl, _⟩ := h
         exact hinv)
  | ttlClassType =>
    cases t with
    | charData d =>
      simp only
      repeat' split
      all_goals first
        | exact ⟨NoPanic.err, by intro _ _ h; simp at h⟩
        | (refine ⟨NoPanic.ok _, ?_⟩
           intro cx' st' h
           simp only [ZR.ok.injEq, Prod.mk.injEq] at h
           obtain ⟨rfl, _⟩ := h
           exact hinv' _ rfl)
    | eol =>
      refine ⟨NoPanic.ok _, ?_⟩
      intro cx' st' h
      simp only [ZR.ok.injEq, Prod.mk.injEq] at h
      obtain ⟨rfl, _⟩ := h
      exact hinv
    | _ => exact ⟨NoPanic.err, by intro _ _ h; simp at h⟩

theorem StrictOK_of_entry {l : Lexer} (h : entryState l.state) :
    StrictOK { txt := l.txt, state := l.state, cd := none, cdv := none } := by
  rcases h with h | h | h <;> simp [StrictOK, h]

theorem parseLoop_spec (lx : Lexer) (cx : Ctx) (st : PState)
    (hl : entryState lx.state) (hinv : Inv cx) :
    NoPanic (parseLoop lx cx st) ∧ ∀ cx' st', parseLoop lx cx st = .ok (cx', st') → Inv cx' := by
  induction lx, cx, st using parseLoop.induct with
  | case1 lx cx st h => rw [parseLoop, h]; exact ⟨NoPanic.err, by intro _ _ h; simp at h⟩
  | case2 lx cx st s h =>
    exact absurd h ((run_spec _).1 s)
  | case3 lx cx st l' h =>
    rw [parseLoop, h]
    refine ⟨NoPanic.ok _, ?_⟩
    intro cx' st' heq
    simp only [ZR.ok.injEq, Prod.mk.injEq] at heq
    obtain ⟨rfl, _⟩ := heq
    exact hinv
  | case4 lx cx st t lx' h hlt cx' st' hon ih =>
    rw [parseLoop, h]; simp only [hlt, ↓reduceDIte, hon]
    have hsp := (run_spec _).2 _ _ h
    exact ih hsp.2.1 ((onToken_spec hinv st t).2 _ _ hon)
  | case5 lx cx st t lx' h hlt hon =>
    rw [parseLoop, h]; simp only [hlt, ↓reduceDIte, hon]
    exact ⟨NoPanic.err, by intro _ _ h; simp at h⟩
  | case6 lx cx st t lx' h hlt hon =>
    rw [parseLoop, h]; simp only [hlt, ↓reduceDIte, hon]
    exact ⟨NoPanic.unmodelled, by intro _ _ h; simp at h⟩
  | case7 lx cx st t lx' h hlt s hon =>
    exact absurd hon ((onToken_spec hinv st t).1 s)
  | case8 lx cx st t lx' h hlt =>
    have hsp := (run_spec _).2 _ _ h
    exact absurd (hsp.2.2 (StrictOK_of_entry hl) rfl) hlt

end HickoryVerif.ZoneParse
