/-
The line machine over the tokens of typed lines (`Spec.MasterFile.SLine`): the parser's context
simulates the RFC reader's state (`readLine`), line by line.
-/
import HickoryVerif.Lemmas.ZoneLexFile

namespace HickoryVerif.ZoneParse
open HickoryVerif HickoryVerif.ZoneLex HickoryVerif.Spec.MasterFile

/-! ### the item classes of the spec vs. the parser's disambiguation -/

theorem upper_eq (s : List Nat) : ZoneParse.upper s = Spec.MasterFile.upper s := rfl

theorem digitsVal_eq (s : List Nat) : digitsVal s = decVal s := rfl

theorem isDigit_eq (c : Nat) : ZoneParse.isDigit c = isDig c := rfl

theorem digitsVal_append (a : List Nat) (c : Nat) : digitsVal (a ++ [c]) = digitsVal a * 10 + (c - 48) := by
  simp [digitsVal, List.foldl_append]

theorem parseTtlGo_digits (ds : List Nat) (st : Option (List Nat)) (h : ds.all isDig = true)
    (hne : ds ≠ [] ∨ st.isSome) :
    parseTtlGo ds st 0 =
      if digitsVal (st.getD [] ++ ds) > ZoneParse.U32_MAX then none else some (digitsVal (st.getD [] ++ ds)) := by
  induction ds generalizing st with
  | nil =>
    cases st with
    | none => simp at hne
    | some acc => simp only [parseTtlGo, Option.getD_some, List.append_nil]; split <;> simp_all
  | cons c ds ih =>
    simp only [List.all_cons, Bool.and_eq_true] at h
    have hc : ZoneParse.isDigit c = true := h.1
    simp only [parseTtlGo, hc, ↓reduceIte]
    rw [ih _ h.2 (Or.inr rfl)]
    simp

/-- a decimal item that fits `u32` is a TTL, with its positional value -/
theorem parseTtl_decimal {d : List Nat} (h : isDecimal d = true) (hv : decVal d ≤ Spec.MasterFile.U32_MAX) :
    parseTtl d = some (decVal d) := by
  simp only [isDecimal, Bool.and_eq_true, Bool.not_eq_eq_eq_not, Bool.not_true, List.isEmpty_eq_false_iff] at h
  unfold parseTtl
  have hne : d.isEmpty = false := by simpa using h.1
  simp only [hne, Bool.false_eq_true, ↓reduceIte]
  rw [parseTtlGo_digits d none h.2 (Or.inl h.1)]
  simp only [Option.getD_none, List.nil_append, digitsVal_eq]
  have : ¬ decVal d > ZoneParse.U32_MAX := by simp only [ZoneParse.U32_MAX]; simp only [Spec.MasterFile.U32_MAX] at hv; omega
  simp [this]

/-- an item that does not start with a digit is not a TTL -/
theorem parseTtl_nondigit {c : Nat} {rest : List Nat} (h : ZoneParse.isDigit c = false) :
    parseTtl (c :: rest) = none := by
  simp [parseTtl, parseTtlGo, h]

theorem upper_head_letter {d : List Nat} {x : Nat} {u : List Nat}
    (h : Spec.MasterFile.upper d = x :: u) (hx : 65 ≤ x ∧ x ≤ 90) :
    ∃ c rest, d = c :: rest ∧ ZoneParse.isDigit c = false := by
  cases d with
  | nil => simp [Spec.MasterFile.upper] at h
  | cons c rest =>
    refine ⟨c, rest, rfl, ?_⟩
    simp only [Spec.MasterFile.upper, List.map_cons, List.cons.injEq] at h
    have h1 := h.1
    simp only [ZoneParse.isDigit, Bool.and_eq_false_imp, decide_eq_true_eq, decide_eq_false_iff_not]
    split at h1 <;> omega

theorem classCode_facts {u : List Nat} {c : Nat} (h : classCode u = some c) :
    (∃ x t, u = x :: t ∧ 65 ≤ x ∧ x ≤ 90) ∧ classOfStr u = some c := by
  unfold classCode at h
  repeat' split at h
  all_goals first
    | (cases h; done)
    | (cases h; subst_vars; exact ⟨⟨_, _, rfl, by decide⟩, by decide⟩)

theorem class_item {d : List Nat} {c : Nat} (h : classCode (Spec.MasterFile.upper d) = some c) :
    parseTtl d = none ∧ classOfStr (ZoneParse.upper d) = some c := by
  rw [upper_eq]
  obtain ⟨⟨x, t, hxt, hx⟩, hc⟩ := classCode_facts h
  obtain ⟨c', rest, rfl, hd⟩ := upper_head_letter hxt hx
  exact ⟨parseTtl_nondigit hd, hc⟩

/-- the record type a type code stands for -/
def rtypeOfCode (code : Nat) : Option RType :=
  if code = 1 then some .a else if code = 2 then some .ns else if code = 5 then some .cname
  else if code = 6 then some .soa else if code = 12 then some .ptr else if code = 15 then some .mx
  else if code = 16 then some .txt else if code = 28 then some .aaaa else if code = 33 then some .srv
  else if code = 65305 then some .aname else if code = 13 then some .hinfo
  else if code = 257 then some .caa else if code = 52 then some .tlsa
  else if code = 53 then some .smimea else if code = 43 then some .ds
  else if code = 44 then some .sshfp else if code = 37 then some .cert
  else if code = 61 then some .openpgpkey else none

theorem lookup_mem_gen {α β} [BEq α] [LawfulBEq α] {l : List (α × β)} {k : α} {v : β}
    (h : l.lookup k = some v) : (k, v) ∈ l := by
  induction l with
  | nil => simp [List.lookup] at h
  | cons p l ih =>
    obtain ⟨k', v'⟩ := p
    unfold List.lookup at h
    split at h
    · rename_i heq
      have : k = k' := by simpa using heq
      cases h; subst this; simp
    · exact List.mem_cons_of_mem _ (ih h)

/-- what the parser's disambiguation does with a type mnemonic of the table -/
def typeRowOK (p : List Nat × Nat) : Prop :=
  match rtypeOfCode p.2, p.1 with
  | some t, x :: _ => (65 ≤ x ∧ x ≤ 90) ∧ classOfStr p.1 = none ∧ typeOfStr p.1 = some t
  | _, _ => False

instance (p : List Nat × Nat) : Decidable (typeRowOK p) := by
  unfold typeRowOK; split <;> infer_instance

theorem typeTable_ok : ∀ p ∈ typeTable, typeRowOK p := by decide

theorem typeCode_facts {u : List Nat} {code : Nat} (h : typeCode u = some code) :
    ∃ t, rtypeOfCode code = some t ∧ (∃ x r, u = x :: r ∧ 65 ≤ x ∧ x ≤ 90) ∧
      classOfStr u = none ∧ typeOfStr u = some t := by
  have hrow := typeTable_ok _ (lookup_mem_gen h)
  unfold typeRowOK at hrow
  simp only at hrow
  split at hrow
  · rename_i a1 a2 a3 a4 a5 a6
    exact ⟨a3, a6, ⟨a4, a5, rfl, hrow.1⟩, hrow.2.1, hrow.2.2⟩
  · exact absurd hrow id

theorem type_item {d : List Nat} {code : Nat} (h : typeCode (Spec.MasterFile.upper d) = some code) :
    ∃ t, rtypeOfCode code = some t ∧ parseTtl d = none ∧ classOfStr (ZoneParse.upper d) = none ∧
      typeOfStr (ZoneParse.upper d) = some t := by
  rw [upper_eq]
  obtain ⟨t, h1, ⟨x, r, hxr, hx⟩, h2, h3⟩ := typeCode_facts h
  obtain ⟨c', rest, rfl, hd⟩ := upper_head_letter hxr hx
  exact ⟨t, h1, parseTtl_nondigit hd, h2, h3⟩

theorem pre_item {d : List Nat} {m : PreMeaning} (h : preMeaning d = some m) :
    match m with
    | .ttl v => parseTtl d = some v
    | .cls c => parseTtl d = none ∧ classOfStr (ZoneParse.upper d) = some c := by
  unfold preMeaning at h
  split at h
  · rename_i hdec
    split at h
    · rename_i hv; cases h; exact parseTtl_decimal hdec hv
    · cases h
  · simp only [Option.map_eq_some_iff] at h
    obtain ⟨c, hc, rfl⟩ := h
    exact class_item hc

/-! ### simulation -/

/-- the parser context that corresponds to a reader state (with record map `m`, last type `rt`) -/
def ctxOf (st : RState) (m : List (Key × RSet)) (rt : Option RType) : Ctx :=
  { origin := st.origin, records := m, cls := st.cls, currentName := st.owner, rtype := rt,
    ttl := { default := st.dflt, last := st.lastTtl, this := none } }

/-- storing one stated record: its RDATA items interpreted by `RData::from_tokens`, then
`Context::insert`'s map update -/
def storeEntry (m : List (Key × RSet)) (e : Entry) : ZR (List (Key × RSet)) :=
  match rtypeOfCode e.typ with
  | none => .err
  | some t =>
    (rdataFromTokens t e.rdata e.origin).bind fun d =>
      mapInsert m t { name := { e.owner with fqdn := true }, cls := e.cls, ttl := e.ttl, data := d }

def storeAll (m : List (Key × RSet)) : List Entry → ZR (List (Key × RSet))
  | [] => .ok m
  | e :: es => (storeEntry m e).bind fun m' => storeAll m' es

theorem storeAll_append (m : List (Key × RSet)) (xs ys : List Entry) :
    storeAll m (xs ++ ys) = (storeAll m xs).bind fun m' => storeAll m' ys := by
  induction xs generalizing m with
  | nil => rfl
  | cons e xs ih =>
    simp only [List.cons_append, storeAll]
    cases storeEntry m e <;> simp [ih]

theorem take_eq (d l th : Option Nat) :
    Ttl.take ⟨d, l, th⟩ = (th.or (d.or l), ⟨d, th.or l, none⟩) := by
  cases th <;> cases d <;> cases l <;> rfl

/-- the `[<TTL>] [<class>]` items, in any number and order: the last TTL and the last class win -/
theorem feed_pre (pre : List (List Nat × List Nat)) (ms : List PreMeaning) (cx : Ctx)
    (h : pre.mapM (fun p => preMeaning p.2) = some ms) :
    feed cx .ttlClassType ((pre.map wordPiece).map pieceToken) =
      .ok ({ cx with ttl := { cx.ttl with this := (lastTtl? ms).or cx.ttl.this },
                     cls := (lastCls? ms).getD cx.cls }, .ttlClassType) := by
  induction pre generalizing ms cx with
  | nil =>
    simp only [List.mapM_nil, Option.pure_def, Option.some.injEq] at h
    subst h
    simp [feed, lastTtl?, lastCls?]
  | cons p pre ih =>
    simp only [List.mapM_cons, Option.pure_def, Option.bind_eq_bind] at h
    cases hp : preMeaning p.2 with
    | none => simp [hp] at h
    | some m =>
      cases hps : pre.mapM (fun p => preMeaning p.2) with
      | none => simp [hp, hps] at h
      | some ms' =>
        simp only [hp, hps, Option.bind_some, Option.some.injEq] at h
        subst h
        have hm := pre_item hp
        simp only [List.map_cons, feed, wordPiece, pieceToken, Item.val]
        cases m with
        | ttl v =>
          simp only at hm
          simp only [onToken, hm, ZR.bind_ok]
          rw [ih ms' _ hps]
          simp only [lastTtl?, lastCls?]
          cases lastTtl? ms' <;> simp
        | cls c =>
          simp only at hm
          simp only [onToken, hm.1, hm.2, ZR.bind_ok]
          rw [ih ms' _ hps]
          simp only [lastTtl?, lastCls?]
          cases lastCls? ms' <;> simp

/-- RDATA items and groups are collected in order -/
theorem feed_rdata (ps : List Piece) (cx : Ctx) (parts : List (List Nat)) :
    feed cx (.record parts) (ps.map pieceToken) = .ok (cx, .record (parts ++ ps.flatMap Piece.vals)) := by
  induction ps generalizing parts with
  | nil => simp [feed]
  | cons p ps ih =>
    cases p with
    | item ws it => simp [feed, onToken, pieceToken, Piece.vals, ih]
    | group ws els close => simp [feed, onToken, pieceToken, Piece.vals, ih]

def rtAfter : SLine → Option RType
  | .rr r => (typeCode (Spec.MasterFile.upper r.typ.2)).bind rtypeOfCode
  | _ => none

def storeOpt (m : List (Key × RSet)) : Option Entry → ZR (List (Key × RSet))
  | none => .ok m
  | some e => storeEntry m e

/-- the names written on one line parse to the names they are taken to denote -/
def LineNamesOK (st : RState) (l : SLine) : Prop :=
  match l with
  | .origin _ w n _ => parseName w none = .ok n
  | .rr r => (match r.owner with | .name w n => parseName w st.origin = .ok n | _ => True)
  | _ => True

/-- **one entry**: the line machine does to its context what the RFC reader does to its state, and
stores the stated record -/
theorem feed_line (st st' : RState) (m : List (Key × RSet)) (rt : Option RType) (l : SLine)
    (e : Option Entry) (hr : readLine st l = some (st', e)) (hn : LineNamesOK st l) :
    feed (ctxOf st m rt) .startLine (lineTokens l.line) =
      (storeOpt m e).bind fun m' => .ok (ctxOf st' m' (rtAfter l), .startLine) := by
  cases l with
  | filler b eol =>
    simp only [readLine, Option.some.injEq, Prod.mk.injEq] at hr
    obtain ⟨rfl, rfl⟩ := hr
    cases b <;> simp [SLine.line, lineTokens, startTokens, feed, onToken, ctxOf, storeOpt, rtAfter]
  | origin ws w n eol =>
    simp only [readLine, Option.some.injEq, Prod.mk.injEq] at hr
    obtain ⟨rfl, rfl⟩ := hr
    simp only [LineNamesOK] at hn
    simp [SLine.line, lineTokens, startTokens, feed, onToken, ctxOf, storeOpt, rtAfter, wordPiece,
      pieceToken, Item.val, hn]
  | ttl ws d eol =>
    simp only [readLine] at hr
    split at hr
    · rename_i hd
      simp only [Option.some.injEq, Prod.mk.injEq] at hr
      obtain ⟨rfl, rfl⟩ := hr
      have := parseTtl_decimal hd.1 hd.2
      simp [SLine.line, lineTokens, startTokens, feed, onToken, ctxOf, storeOpt, rtAfter, wordPiece,
        pieceToken, Item.val, this]
    · cases hr
  | rr r =>
    obtain ⟨owner, pre, typ, rdata, eol⟩ := r
    simp only [readLine] at hr
    split at hr
    · rename_i own ms code ho hms hcode
      split at hr
      · rename_i ttl httl
        simp only [Option.some.injEq, Prod.mk.injEq] at hr
        obtain ⟨rfl, rfl⟩ := hr
        obtain ⟨t, ht, htt, htc, hty⟩ := type_item hcode
        -- the tokens of the line
        have htoks : lineTokens (SLine.rr ⟨owner, pre, typ, rdata, eol⟩).line =
            startTokens (ownerStart owner) ++ ((pre.map wordPiece).map pieceToken ++
              (.charData typ.2 :: (rdata.map pieceToken ++ [.eol]))) := by
          simp [SLine.line, lineTokens, wordPiece, pieceToken, Item.val]
        rw [htoks, feed_append]
        -- the owner field
        have hstart : feed (ctxOf st m rt) .startLine (startTokens (ownerStart owner)) =
            .ok ({ ctxOf st m none with currentName := some own }, .ttlClassType) := by
          cases owner with
          | inherit b =>
            simp only at ho
            simp [ownerStart, startTokens, feed, onToken, ctxOf, ho]
          | «at» =>
            simp only at ho
            simp [ownerStart, startTokens, feed, onToken, ctxOf, ho]
          | name w n =>
            simp only [Option.some.injEq] at ho
            subst ho
            simp only [LineNamesOK] at hn
            simp [ownerStart, startTokens, feed, onToken, ctxOf, hn]
        rw [hstart, ZR.bind_ok, feed_append, feed_pre pre ms _ hms, ZR.bind_ok]
        simp only [feed, onToken, htt, htc, hty, ZR.bind_ok]
        rw [feed_append, feed_rdata, ZR.bind_ok]
        simp only [feed, onToken, ZR.bind_ok, List.nil_append, ctxOf, Ctx.insert, take_eq, Option.or_none]
        simp only [storeOpt, storeEntry, ht, rtAfter, hcode, Option.bind_some]
        cases hrd : rdataFromTokens t (rdata.flatMap Piece.vals) st.origin with
        | ok d =>
          simp only [ZR.bind_ok, httl]
          cases mapInsert m t _ with
          | ok m' => simp
          | err => rfl
          | unmodelled => rfl
          | panic s => rfl
        | err => rfl
        | unmodelled => rfl
        | panic s => rfl
      · cases hr
    · cases hr

/-- the names written in a file parse to the names they are taken to denote -/
def FileNamesOK (st : RState) (ls : List SLine) : Prop :=
  ∀ u ∈ nameUses st ls, parseName u.1 u.2.2 = .ok u.2.1

def lastRt (rt : Option RType) : List SLine → Option RType
  | [] => rt
  | l :: ls => lastRt (rtAfter l) ls

/-- **a whole file**, by induction over its lines -/
theorem feed_file (ls : List SLine) (st st' : RState) (m : List (Key × RSet)) (rt : Option RType)
    (es : List Entry) (hr : readFile st ls = some (st', es)) (hn : FileNamesOK st ls) :
    feed (ctxOf st m rt) .startLine (fileTokens (ls.map SLine.line)) =
      (storeAll m es).bind fun m' => .ok (ctxOf st' m' (lastRt rt ls), .startLine) := by
  induction ls generalizing st m rt es with
  | nil =>
    simp only [readFile, Option.some.injEq, Prod.mk.injEq] at hr
    obtain ⟨rfl, rfl⟩ := hr
    simp [fileTokens, feed, storeAll, lastRt]
  | cons l ls ih =>
    simp only [readFile] at hr
    cases hl : readLine st l with
    | none => simp [hl] at hr
    | some r1 =>
      obtain ⟨st1, e⟩ := r1
      simp only [hl] at hr
      cases hf : readFile st1 ls with
      | none => simp [hf] at hr
      | some r2 =>
        obtain ⟨st2, es2⟩ := r2
        simp only [hf, Option.some.injEq, Prod.mk.injEq] at hr
        obtain ⟨rfl, rfl⟩ := hr
        have hn1 : LineNamesOK st l := by
          cases l with
          | filler b eol => trivial
          | ttl ws d eol => trivial
          | origin ws w n eol =>
            exact hn (w, n, none) (by simp [nameUses, hl])
          | rr r =>
            simp only [LineNamesOK]
            cases ho : r.owner with
            | name w n => simpa using hn (w, n, st.origin) (by simp [nameUses, ho, hl])
            | inherit b => trivial
            | «at» => trivial
        have hn2 : FileNamesOK st1 ls := by
          intro u hu
          apply hn u
          simp only [nameUses, hl, List.mem_append]
          exact Or.inr hu
        simp only [List.map_cons, fileTokens, List.flatMap_cons]
        rw [feed_append, feed_line st st1 m rt l e hl hn1, storeAll_append]
        cases e with
        | none =>
          simp only [storeOpt, ZR.bind_ok, Option.toList_none, storeAll]
          exact ih st1 m (rtAfter l) es2 hf hn2
        | some e =>
          simp only [storeOpt, Option.toList_some, storeAll]
          cases storeEntry m e with
          | ok m1 =>
            simp only [ZR.bind_ok]
            exact ih st1 m1 (rtAfter l) es2 hf hn2
          | err => rfl
          | unmodelled => rfl
          | panic s => rfl

end HickoryVerif.ZoneParse
