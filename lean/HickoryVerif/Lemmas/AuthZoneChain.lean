/-
C10 helper lemmas: `chase_cnames` against the CNAME chasing of the specification; lookups of
names outside the zone; the SOA lookup of negative answers.
-/
import HickoryVerif.Lemmas.AuthZoneNode

namespace HickoryVerif.C10
open HickoryVerif HickoryVerif.AuthZone HickoryVerif.AuthZone.Dev HickoryVerif.Spec.Rfc1034

/-! ### names outside the zone own nothing -/

theorem getRR_outzone {z : Zone} {o : LName} (wf : WF z o) {m : LName} (h : ¬ o <:+ m) (t : Nat) :
    getRR z m t = none := by
  cases hg : getRR z m t with
  | none => rfl
  | some r =>
    obtain ⟨hr, hn, _⟩ := get_some hg
    exact absurd (hn ▸ wf.inZone r hr) h

theorem walk_outzone {z : Zone} {o : LName} (wf : WF z o) (qn : LName) (t : Nat) :
    ∀ s : LName, ¬ o <:+ s → walk z qn t s = none := by
  intro s
  induction s with
  | nil => intro _; rfl
  | cons l rest ih =>
    intro h
    have h' : ¬ o <:+ rest := fun hc => h (hc.trans (List.suffix_cons _ _))
    simp [walk, getRR_outzone wf h, ih h']

theorem scan_outzone {z : Zone} {o : LName} (wf : WF z o) {m : LName} (h : ¬ o <:+ m) (t : Nat) :
    scan z m t = none := by
  unfold scan
  rw [List.find?_eq_none]
  intro x hx hp
  simp only [Bool.and_eq_true, beq_iff_eq] at hp
  exact h (hp.1 ▸ wf.inZone x hx)

theorem lookupExact_outzone {z : Zone} {o : LName} (wf : WF z o) {m : LName} (h : ¬ o <:+ m)
    (t : Nat) : lookupExact z m t = none := by
  simp [lookupExact, walk_outzone wf m t m h, scan_outzone wf h]

theorem star_outzone {z : Zone} {o : LName} (wf : WF z o) {rest : LName} (h : ¬ o <:+ rest) :
    ¬ o <:+ star :: rest := by
  intro hc
  rcases List.suffix_cons_iff.1 hc with h1 | h1
  · have := wf.originNotWild
    rw [h1] at this
    simp [isWildcardName] at this
  · exact h h1

theorem wildClimb_outzone {z : Zone} {o : LName} (wf : WF z o) (t : Nat) :
    ∀ rest : LName, ¬ o <:+ rest → wildClimb z t rest = none := by
  intro rest
  induction rest with
  | nil =>
    intro h
    simp [wildClimb, lookupExact_outzone wf (star_outzone wf h)]
  | cons l rest ih =>
    intro h
    have h' : ¬ o <:+ rest := fun hc => h (hc.trans (List.suffix_cons _ _))
    simp [wildClimb, lookupExact_outzone wf (star_outzone wf h), ih h']

theorem innerLookup_outzone {z : Zone} {o : LName} (wf : WF z o) {m : LName} (h : ¬ o <:+ m)
    (t : Nat) : innerLookup z m t = none := by
  have hw : innerLookupWildcard z m t = none := by
    unfold innerLookupWildcard wildSource
    cases m with
    | nil => rfl
    | cons l rest =>
      have h' : ¬ o <:+ rest := fun hc => h (hc.trans (List.suffix_cons _ _))
      simp only [wildClimb_outzone wf t rest h']
      split <;> rfl
  simp [innerLookup, lookupExact_outzone wf h, hw]

/-! ### the SOA of negative answers -/

theorem soa_lookup {z : Zone} {o : LName} (wf : WF z o) {s : RRset} (hs : getRR z o T_SOA = some s) :
    okAnswers (lookupAnswers z o o T_SOA) = [s] := by
  obtain ⟨hsz, hsn, hst⟩ := get_some hs
  have hwalk : walk z o T_SOA o = none :=
    (walk_none_iff_noCut wf T_SOA (List.suffix_refl o)).2 (by
      rw [cuts_eq, List.reverse_eq_nil_iff, List.filter_eq_nil_iff]
      intro x hx
      have hxo : x <:+ o := mem_suffixes.1 hx
      unfold isCutP
      by_cases hox : o <:+ x
      · have : x = o := hxo.eq_of_length_le hox.length_le
        simp [this]
      · simp [anc_false_iff.2 hox])
  have hscan : scan z o T_SOA = some s := by
    rw [scan_eq wf o T_SOA]
    have hc : rrsetAt z o T_CNAME = none := by
      cases h : rrsetAt z o T_CNAME with
      | none => rfl
      | some c =>
        obtain ⟨hcz, hcn, hct⟩ := get_some (by rw [get_eq_rrsetAt]; exact h)
        have := wf.cnameAlone c hcz hct s hsz (by rw [hsn, hcn])
        rw [hst] at this
        exact absurd this (by decide)
    simp [hc, ← get_eq_rrsetAt, hs]
  have hil : innerLookup z o T_SOA = some s := by
    simp [innerLookup, lookupExact, hwalk, hscan]
  have e1 : (T_SOA == T_ANY) = false := by decide
  have e2 : (s.type == T_CNAME) = false := by rw [hst]; decide
  simp [lookupAnswers, e1, e2, hil, okAnswers]

/-! ### CNAME chasing -/

/-- what a pass that ends the chain contributes to the answer section *in the implementation*
(`chase_cnames` appends whatever non-CNAME RRset the last lookup returned) -/
def finTail : Final → List RRset
  | .data rr => [rr]
  | .referral ns => [ns]
  | _ => []

theorem resolve_referral_cuts {z : Zone} {o n : LName} {t : Nat} {ns : RRset}
    (h : resolve z o n t = .referral ns) : cuts z o n t ≠ [] := by
  intro hc
  simp only [resolve, hc] at h
  split at h
  · cases h
  · split at h
    · split at h <;> cases h
    · split at h <;> cases h

theorem visited_head {z : Zone} {o : LName} {t k : Nat} {seen : List LName} {n : LName} :
    n ∈ visited z o t (k + 1) seen n := by
  simp [visited]

theorem chase_cname_step {z : Zone} {o n : LName} {t k : Nat} {seen : List LName} {rr : RRset}
    {tg : LName} (h : resolve z o n t = .cname rr tg) :
    chase z o t (k + 1) seen n =
      if (!isAncestorOrSelf o tg || seen.contains tg || k == 0) = true then ([rr], .chainEnd)
      else (rr :: (chase z o t k (tg :: seen) tg).1, (chase z o t k (tg :: seen) tg).2) := by
  simp only [chase, h]

/-- `chase_cnames` after a CNAME RRset `last` with target `tg`, against the specification's
chasing from `tg` on: the same CNAMEs, then whatever the final pass returned. -/
theorem chase_rel {z : Zone} {o : LName} (wf : WF z o) {t : Nat} (ht : t ≠ T_CNAME) :
    ∀ (k : Nat) (seen : List LName) (last : RRset) (tg : LName),
      last.type = T_CNAME → last.rdatas.head?.bind (·.target) = some tg →
      (∀ m ∈ (if k = 0 ∨ ¬ o <:+ tg ∨ tg ∈ seen then [] else visited z o t k (tg :: seen) tg),
        nestedCutAt z o m t = false ∧ wildcardGapAt z o m t = false) →
      chaseFrom z t k seen last =
        if k = 0 ∨ ¬ o <:+ tg ∨ tg ∈ seen then []
        else (chase z o t k (tg :: seen) tg).1 ++ finTail (chase z o t k (tg :: seen) tg).2 := by
  intro k
  induction k with
  | zero => intro seen last tg _ _ _; simp [chaseFrom]
  | succ k ih =>
    intro seen last tg hlt htg hv
    obtain ⟨rd, hrd, hrdt⟩ : ∃ rd, last.rdatas.head? = some rd ∧ rd.target = some tg := by
      cases h : last.rdatas.head? with
      | none => rw [h] at htg; cases htg
      | some rd => rw [h] at htg; exact ⟨rd, rfl, by simpa using htg⟩
    by_cases hseen : tg ∈ seen
    · simp [chaseFrom, hrd, hlt, hrdt, hseen]
    · by_cases hin : o <:+ tg
      · have hcond : ¬ (k + 1 = 0 ∨ ¬ o <:+ tg ∨ tg ∈ seen) := by simp [hin, hseen]
        rw [if_neg hcond] at hv ⊢
        obtain ⟨hnest, hgap⟩ := hv tg visited_head
        have hnode := node_eq wf hin hnest hgap
        cases hres : resolve z o tg t with
        | referral ns =>
          rw [hres] at hnode
          obtain ⟨hil, hnt, _⟩ := hnode
          have : ¬ ns.type = T_CNAME := by rw [hnt]; decide
          simp [chaseFrom, hrd, hlt, hrdt, hseen, chase, hres, hil, this, finTail]
        | data rr =>
          rw [hres] at hnode
          obtain ⟨hil, hrt, _⟩ := hnode
          have : ¬ rr.type = T_CNAME := by rw [hrt]; exact ht
          simp [chaseFrom, hrd, hlt, hrdt, hseen, chase, hres, hil, this, finTail]
        | noData =>
          rw [hres] at hnode
          simp [chaseFrom, hrd, hlt, hrdt, hseen, chase, hres, hnode.1, finTail]
        | nxDomain =>
          rw [hres] at hnode
          simp [chaseFrom, hrd, hlt, hrdt, hseen, chase, hres, hnode.1, finTail]
        | cname rr tg' =>
          rw [hres] at hnode
          obtain ⟨hil, hrt, _, htg'⟩ := hnode
          have hanc' : isAncestorOrSelf o tg' = true ↔ o <:+ tg' := anc_iff
          have hv' : ∀ m ∈ (if k = 0 ∨ ¬ o <:+ tg' ∨ tg' ∈ tg :: seen then []
                else visited z o t k (tg' :: tg :: seen) tg'),
              nestedCutAt z o m t = false ∧ wildcardGapAt z o m t = false := by
            intro m hm
            by_cases hstop : k = 0 ∨ ¬ o <:+ tg' ∨ tg' ∈ tg :: seen
            · rw [if_pos hstop] at hm; cases hm
            · rw [if_neg hstop] at hm
              apply hv m
              have hs2 : (!isAncestorOrSelf o tg' || (tg :: seen).contains tg' || k == 0) = false := by
                simp only [not_or, Decidable.not_not] at hstop
                obtain ⟨h1, h2, h3⟩ := hstop
                simp [hanc'.2 h2, h1, h3]
              simp only [visited, hres, hs2, Bool.false_eq_true, if_false]
              exact List.mem_cons_of_mem _ hm
          have hih := ih (tg :: seen) rr tg' hrt htg' hv'
          have hunf : chaseFrom z t (k + 1) seen last = rr :: chaseFrom z t k (tg :: seen) rr := by
            simp [chaseFrom, hrd, hlt, hrdt, hseen, hil, hrt]
          rw [hunf, hih]
          by_cases hstop : k = 0 ∨ ¬ o <:+ tg' ∨ tg' ∈ tg :: seen
          · have hs2 : (!isAncestorOrSelf o tg' || (tg :: seen).contains tg' || k == 0) = true := by
              rcases hstop with h | h | h
              · simp [h]
              · simp [anc_false_iff.2 h]
              · have : (tg :: seen).contains tg' = true := List.contains_iff_mem.2 h
                rw [this]; simp
            rw [if_pos hstop, chase_cname_step hres, if_pos hs2]
            simp [finTail]
          · have hs2 : (!isAncestorOrSelf o tg' || (tg :: seen).contains tg' || k == 0) = false := by
              simp only [not_or, Decidable.not_not] at hstop
              obtain ⟨h1, h2, h3⟩ := hstop
              simp [hanc'.2 h2, h1, h3]
            rw [if_neg hstop, chase_cname_step hres, if_neg (by rw [hs2]; exact Bool.false_ne_true)]
            simp
      · simp [chaseFrom, hrd, hlt, hrdt, hseen, hin, innerLookup_outzone wf hin]

end HickoryVerif.C10
