/-
Completeness of the fuel-indexed twins: the coded loops (`iter` = iterations of the body of
`next_token`'s `loop`, `parseLoopN` = iterations of `while let Some(t) = lexer.next_token()?`)
finish within an explicit number of iterations on every input.
-/
import HickoryVerif.Lemmas.ZoneParse

namespace HickoryVerif.ZoneLex

theorem iter_mono {n m : Nat} {c : Cfg} {r} (h : iter n c = some r) (hle : n ≤ m) :
    iter m c = some r := by
  induction n generalizing m c with
  | zero => simp [iter] at h
  | succ n ih =>
    cases m with
    | zero => omega
    | succ m =>
      unfold iter at h ⊢
      split at h
      · exact h
      · exact h
      · exact ih h (by omega)

theorem iter_complete (c : Cfg) : ∃ n, n ≤ measure c + 1 ∧ iter n c = some (run c) := by
  induction c using run.induct with
  | case1 c t txt st h => exact ⟨1, by omega, by simp [iter, h, run_ret h]⟩
  | case2 c h => exact ⟨1, by omega, by simp [iter, h, run_fail h]⟩
  | case3 c c' h ih =>
    obtain ⟨n, hn, hi⟩ := ih
    have := step_decreases h
    exact ⟨n + 1, by omega, by simp [iter, h, run_cont h, hi]⟩

theorem nextTokenN_complete (l : Lexer) (n : Nat) (hn : 8 * l.txt.length + 8 ≤ n) :
    nextTokenN n l = some (nextToken l) := by
  obtain ⟨n0, hn0, hi⟩ := iter_complete { txt := l.txt, state := l.state, cd := none, cdv := none }
  have hr := rank_le { txt := l.txt, state := l.state, cd := none, cdv := none }
  exact iter_mono hi (by simp only [measure] at hn0; omega)

end HickoryVerif.ZoneLex

namespace HickoryVerif.ZoneParse
open HickoryVerif HickoryVerif.ZoneLex

theorem parseLoopN_complete (lx : Lexer) (cx : Ctx) (st : PState) (n : Nat)
    (hn : 8 * lx.txt.length + 9 ≤ n) :
    parseLoopN n lx cx st = some (parseLoop lx cx st) := by
  induction lx, cx, st using parseLoop.induct generalizing n with
  | case1 lx cx st h =>
    obtain ⟨k, rfl⟩ : ∃ k, n = k + 1 := ⟨n - 1, by omega⟩
    rw [parseLoopN, nextTokenN_complete lx (k + 1) (by omega), parseLoop, h]
  | case2 lx cx st s h =>
    obtain ⟨k, rfl⟩ : ∃ k, n = k + 1 := ⟨n - 1, by omega⟩
    rw [parseLoopN, nextTokenN_complete lx (k + 1) (by omega), parseLoop, h]
  | case3 lx cx st l' h =>
    obtain ⟨k, rfl⟩ : ∃ k, n = k + 1 := ⟨n - 1, by omega⟩
    rw [parseLoopN, nextTokenN_complete lx (k + 1) (by omega), parseLoop, h]
  | case4 lx cx st t lx' h hlt cx' st' hon ih =>
    obtain ⟨k, rfl⟩ : ∃ k, n = k + 1 := ⟨n - 1, by omega⟩
    rw [parseLoopN, nextTokenN_complete lx (k + 1) (by omega), parseLoop, h]
    simp only [hlt, ↓reduceIte, ↓reduceDIte, hon]
    exact ih k (by omega)
  | case5 lx cx st t lx' h hlt hon =>
    obtain ⟨k, rfl⟩ : ∃ k, n = k + 1 := ⟨n - 1, by omega⟩
    rw [parseLoopN, nextTokenN_complete lx (k + 1) (by omega), parseLoop, h]
    simp only [hlt, ↓reduceIte, ↓reduceDIte, hon]
  | case6 lx cx st t lx' h hlt hon =>
    obtain ⟨k, rfl⟩ : ∃ k, n = k + 1 := ⟨n - 1, by omega⟩
    rw [parseLoopN, nextTokenN_complete lx (k + 1) (by omega), parseLoop, h]
    simp only [hlt, ↓reduceIte, ↓reduceDIte, hon]
  | case7 lx cx st t lx' h hlt s hon =>
    obtain ⟨k, rfl⟩ : ∃ k, n = k + 1 := ⟨n - 1, by omega⟩
    rw [parseLoopN, nextTokenN_complete lx (k + 1) (by omega), parseLoop, h]
    simp only [hlt, ↓reduceIte, ↓reduceDIte, hon]
  | case8 lx cx st t lx' h hlt =>
    obtain ⟨k, rfl⟩ : ∃ k, n = k + 1 := ⟨n - 1, by omega⟩
    rw [parseLoopN, nextTokenN_complete lx (k + 1) (by omega), parseLoop, h]
    simp only [hlt, ↓reduceIte, ↓reduceDIte]

theorem parseN_complete (text : Str) (origin : Option Name) :
    parseN (8 * text.length + 9) text origin = some (parse text origin) := by
  unfold parseN parse
  rw [parseLoopN_complete _ _ _ _ (by simp [Lexer.new])]
  rfl

end HickoryVerif.ZoneParse
