/-
C10 helper lemmas: one pass of the lookup (`inner_lookup` + the NameExists test of `lookup`)
against one pass of the standard algorithm (`Spec.Rfc1034.resolve`).
-/
import HickoryVerif.Lemmas.AuthZoneWalk

namespace HickoryVerif.C10
open HickoryVerif HickoryVerif.AuthZone HickoryVerif.AuthZone.Dev HickoryVerif.Spec.Rfc1034

/-- the `range(..).find(..)` of `inner_lookup` in a zone where CNAME is alone at its owner:
the CNAME if there is one (and the query is not for CNAME), else the RRset of the type -/
theorem scan_eq {z : Zone} {o : LName} (wf : WF z o) (n : LName) (t : Nat) :
    scan z n t =
      match (if t == T_CNAME then none else rrsetAt z n T_CNAME) with
      | some c => some c
      | none => rrsetAt z n t := by
  cases hc : rrsetAt z n T_CNAME with
  | none =>
    have : scan z n t = rrsetAt z n t := by
      unfold scan rrsetAt
      apply find?_congr_mem
      intro x hx
      by_cases hxn : x.name = n
      · have h1 : (x.type == T_CNAME) = false :=
          beq_false_of_ne (get_none (by rw [get_eq_rrsetAt]; exact hc) x hx hxn)
        have h2 : (x.type == T_ANAME) = false := beq_false_of_ne (wf.noAname x hx)
        simp [h1, h2, anameCovers]
      · have : (x.name == n) = false := beq_false_of_ne hxn
        simp [this]
    rw [this]
    split <;> simp_all
  | some c =>
    obtain ⟨hcz, hcn, hct⟩ := get_some (by rw [get_eq_rrsetAt]; exact hc)
    have : scan z n t = rrsetAt z n T_CNAME := by
      unfold scan rrsetAt
      apply find?_congr_mem
      intro x hx
      by_cases hxn : x.name = n
      · have h1 : x.type = T_CNAME := wf.cnameAlone c hcz hct x hx (by rw [hxn, hcn])
        simp [h1]
      · have : (x.name == n) = false := beq_false_of_ne hxn
        simp [this]
    rw [this, hc]
    by_cases ht : t = T_CNAME
    · subst ht; simp [hc]
    · simp [ht]

/-- `lookup`'s test for `NameExists` is RFC 4592's "the name exists" -/
theorem implNameExists_eq (z : Zone) (n : LName) :
    (z.any fun r => r.name == n || zoneOf n r.name) = nameExists z n := by
  unfold nameExists
  congr 1
  funext r
  by_cases h : r.name = n
  · subst h; simp [isAncestorOrSelf]
  · simp [h, zoneOf, isAncestorOrSelf]

theorem nameExists_of_mem {z : Zone} {r : RRset} (hr : r ∈ z) {n : LName} (h : n <:+ r.name) :
    nameExists z n = true := by
  unfold nameExists
  rw [List.any_eq_true]
  exact ⟨r, hr, anc_iff.2 h⟩

theorem not_nameExists {z : Zone} {n : LName} (h : nameExists z n = false) :
    ∀ r ∈ z, ¬ n <:+ r.name := by
  intro r hr hs
  rw [nameExists_of_mem hr hs] at h
  exact Bool.noConfusion h

theorem closestEncloser_suffix (z : Zone) (l : Bytes) (rest : LName) :
    closestEncloser z (l :: rest) <:+ rest := by
  induction rest generalizing l with
  | nil => simp [closestEncloser]
  | cons a rest ih =>
    unfold closestEncloser
    split
    · exact List.suffix_refl _
    · exact (ih a).trans (List.suffix_cons a rest)

theorem closestEncloser_under {z : Zone} {o : LName} (wf : WF z o) :
    ∀ n : LName, o <:+ n → nameExists z n = false → o <:+ closestEncloser z n := by
  obtain ⟨s, hs⟩ := wf.soa
  obtain ⟨hsz, hsn, _⟩ := get_some hs
  have hoex : ∀ m : LName, m <:+ o → nameExists z m = true := fun m hm =>
    nameExists_of_mem hsz (hsn ▸ hm)
  intro n
  induction n with
  | nil =>
    intro ho hne
    rw [hoex [] (List.nil_suffix)] at hne
    exact Bool.noConfusion hne
  | cons l rest ih =>
    intro ho hne
    rcases List.suffix_cons_iff.1 ho with h | h
    · rw [hoex _ (h ▸ List.suffix_refl _)] at hne
      exact Bool.noConfusion hne
    · unfold closestEncloser
      split
      · exact h
      · rename_i hr
        exact ih h (by simpa using hr)

theorem wildClimb_some {z : Zone} {t : Nat} :
    ∀ (rest : LName) {src : LName} {rr : RRset},
      wildClimb z t rest = some (src, rr) → lookupExact z src t = some rr := by
  intro rest
  induction rest with
  | nil =>
    intro src rr h
    simp only [wildClimb, Option.map_eq_some_iff] at h
    obtain ⟨a, ha, he⟩ := h
    cases he
    exact ha
  | cons l rest ih =>
    intro src rr h
    simp only [wildClimb] at h
    split at h
    · cases h
      assumption
    · exact ih h

theorem wildSource_some {z : Zone} {n : LName} {t : Nat} {src : LName} {rr : RRset}
    (h : wildSource z n t = some (src, rr)) : lookupExact z src t = some rr := by
  unfold wildSource at h
  split at h
  · cases h
  · split at h
    · cases h
    · exact wildClimb_some _ h

theorem rrset_rename_self (r : RRset) : ({ r with name := r.name } : RRset) = r := by
  cases r; rfl

/-- One pass: what `inner_lookup` (plus the NameExists test) returns for `n`, in terms of what the
standard algorithm prescribes for `n` — in a well-formed zone, when `n` is in the zone, there is
at most one cut above it and none of the RFC 4592 gaps applies. -/
theorem node_eq {z : Zone} {o n : LName} {t : Nat} (wf : WF z o) (hn : o <:+ n)
    (hnest : nestedCutAt z o n t = false) (hgap : wildcardGapAt z o n t = false) :
    match resolve z o n t with
    | .referral ns => innerLookup z n t = some ns ∧ ns.type = T_NS ∧ ns.name ≠ o ∧ cuts z o n t ≠ []
    | .cname rr tg => innerLookup z n t = some rr ∧ rr.type = T_CNAME ∧ t ≠ T_CNAME ∧
        rr.rdatas.head?.bind (·.target) = some tg
    | .data rr => innerLookup z n t = some rr ∧ rr.type = t ∧ (rr.type = T_NS → rr.name = o)
    | .noData => innerLookup z n t = none ∧ nameExists z n = true
    | .nxDomain => innerLookup z n t = none ∧ nameExists z n = false := by
  simp only [wildcardGapAt, Bool.or_eq_false_iff] at hgap
  obtain ⟨⟨hg1, hg2⟩, hg3⟩ := hgap
  cases hcuts : cuts z o n t with
  | cons c rest =>
    -- a zone cut: referral; without nesting the walk finds the same cut
    have hrest : rest = [] := by
      simp only [nestedCutAt, hcuts, List.length_cons, decide_eq_false_iff_not] at hnest
      cases rest with
      | nil => rfl
      | cons _ _ => simp at hnest
    subst hrest
    obtain ⟨ns, hns⟩ := cut_has_ns (z := z) (o := o) (n := n) (t := t) (c := c) (by rw [hcuts]; simp)
    have hw := walk_single_cut wf t hn hcuts
    have : resolve z o n t = .referral ns := by
      simp only [resolve, hcuts]
      rw [← get_eq_rrsetAt, hns]
    rw [this]
    have hco : c ≠ o := cut_ne_origin (z := z) (o := o) (n := n) (t := t) (by rw [hcuts]; simp)
    refine ⟨?_, (get_some hns).2.2, by rw [(get_some hns).2.1]; exact hco, by simp⟩
    simp [innerLookup, lookupExact, hw, hns]
  | nil =>
    have hwalk : walk z n t n = none := (walk_none_iff_noCut wf t hn).2 hcuts
    have hnocut : noCut z o n t = true := by simp [noCut, hcuts]
    have hle : lookupExact z n t = scan z n t := by simp [lookupExact, hwalk]
    cases hex : nameExists z n with
    | true =>
      have hsrc : sourceNode z n = some n := by simp [sourceNode, hex]
      have hsc := scan_eq wf n t
      cases hc : (if t == T_CNAME then none else rrsetAt z n T_CNAME) with
      | some c =>
        have htne : t ≠ T_CNAME := by
          intro h; subst h; simp at hc
        have hc' : rrsetAt z n T_CNAME = some c := by simpa [htne] using hc
        obtain ⟨hcz, hcn, hct⟩ := get_some (by rw [get_eq_rrsetAt]; exact hc')
        obtain ⟨tg, htg⟩ := wf.cnameTarget c hcz hct
        rw [hc] at hsc
        have hself : ({ c with name := n } : RRset) = c := by rw [← hcn]
        have hres : resolve z o n t = .cname c tg := by
          simp only [resolve, hcuts, hsrc, hc, htg, hself]
        rw [hres]
        exact ⟨by simp [innerLookup, hle, hsc], hct, htne, htg⟩
      | none =>
        rw [hc] at hsc
        cases hr : rrsetAt z n t with
        | some rr =>
          obtain ⟨_, hrn, hrt⟩ := get_some (by rw [get_eq_rrsetAt]; exact hr)
          have hself : ({ rr with name := n } : RRset) = rr := by rw [← hrn]
          rw [hr] at hsc
          have hres : resolve z o n t = .data rr := by
            simp only [resolve, hcuts, hsrc, hc, hr, hself]
          rw [hres]
          refine ⟨by simp [innerLookup, hle, hsc], hrt, ?_⟩
          intro hns
          -- an NS RRset at `n` with no cut on the way: `n` is the apex
          apply Classical.byContradiction
          intro hno
          have hno' : n ≠ o := by rw [← hrn]; exact hno
          have htn : t = T_NS := by rw [← hrt]; exact hns
          have : cuts z o n t ≠ [] :=
            mem_cuts_of_ns hn hno' (by rw [htn] at hr; rw [hr]; rfl) (by rw [htn]; decide)
          exact this hcuts
        | none =>
          rw [hr] at hsc
          have hw : (innerLookupWildcard z n t).isSome = false := by
            simp only [existingNoBlock, hnocut, hex, hsc, Option.isNone_none, Bool.true_and] at hg1
            exact hg1
          have hres : resolve z o n t = .noData := by
            simp only [resolve, hcuts, hsrc, hc, hr]
          rw [hres]
          refine ⟨?_, rfl⟩
          simp only [innerLookup, hle, hsc]
          cases h : innerLookupWildcard z n t with
          | none => rfl
          | some _ => rw [h] at hw; simp at hw
    | false =>
      have hnz := not_nameExists hex
      have hscan : scan z n t = none := by
        unfold scan
        rw [List.find?_eq_none]
        intro x hx hp
        simp only [Bool.and_eq_true, beq_iff_eq] at hp
        exact hnz x hx (hp.1 ▸ List.suffix_refl _)
      -- the name is not the root (the root is an ancestor of the apex, which exists)
      cases n with
      | nil =>
        obtain ⟨s, hs⟩ := wf.soa
        exact absurd (List.nil_suffix) (hnz s (get_some hs).1)
      | cons l rest =>
      have hceS : closestEncloser z (l :: rest) <:+ rest := closestEncloser_suffix z l rest
      have hceO : o <:+ closestEncloser z (l :: rest) := closestEncloser_under wf _ hn hex
      cases hws : wildSource z (l :: rest) t with
      | none =>
        have hiw : innerLookupWildcard z (l :: rest) t = none := by simp [innerLookupWildcard, hws]
        have hwex : nameExists z (star :: closestEncloser z (l :: rest)) = false := by
          simp only [noSynth, hnocut, hex, hiw, Option.isNone_none, Bool.not_false, Bool.true_and,
            Bool.and_true] at hg3
          exact hg3
        have hsrc : sourceNode z (l :: rest) = none := by simp [sourceNode, hex, hwex]
        have hres : resolve z o (l :: rest) t = .nxDomain := by
          simp only [resolve, hcuts, hsrc]
        rw [hres]
        exact ⟨by simp [innerLookup, hle, hscan, hiw], rfl⟩
      | some p =>
        obtain ⟨src, rr⟩ := p
        have hsrcw : src = star :: closestEncloser z (l :: rest) := by
          simp only [climbsAny, hnocut, hex, hws, Bool.not_false, Bool.true_and, bne_eq_false_iff_eq] at hg2
          exact hg2
        have hlx := wildSource_some hws
        rw [hsrcw] at hlx
        generalize hce : closestEncloser z (l :: rest) = ce at *
        -- no cut on the way to the wildcard
        have how : o <:+ star :: ce := hceO.trans (List.suffix_cons _ _)
        have hcutw : cuts z o (star :: ce) t = [] := by
          rw [cuts_eq] at hcuts ⊢
          have hf : (suffixes (l :: rest)).filter (isCutP z o (l :: rest) t) = [] := by
            have := congrArg List.reverse hcuts
            simpa using this
          rw [List.filter_eq_nil_iff] at hf
          have : (suffixes (star :: ce)).filter (isCutP z o (star :: ce) t) = [] := by
            rw [List.filter_eq_nil_iff]
            intro s hs
            simp only [suffixes, List.mem_cons] at hs
            rcases hs with hs | hs
            · -- the wildcard owner itself: no NS there
              subst hs
              have : (rrsetAt z (star :: ce) T_NS).isSome = false := by
                cases h : rrsetAt z (star :: ce) T_NS with
                | none => rfl
                | some r =>
                  obtain ⟨hrz, hrn, hrt⟩ := get_some (by rw [get_eq_rrsetAt]; exact h)
                  have := wf.noWildNs r hrz hrt
                  rw [hrn] at this
                  simp [isWildcardName] at this
              simp [isCutP, this]
            · have hsce : s <:+ ce := mem_suffixes.1 hs
              have hsn : s ∈ suffixes (l :: rest) :=
                mem_suffixes.2 (hsce.trans (hceS.trans (List.suffix_cons _ _)))
              have h0 := hf s hsn
              have hl1 : s.length ≤ ce.length := hsce.length_le
              have hl2 : ce.length ≤ rest.length := hceS.length_le
              have hne1 : (s == l :: rest) = false := by
                apply beq_false_of_ne; intro h; rw [h] at hl1; simp at hl1; omega
              have hne2 : (s == star :: ce) = false := by
                apply beq_false_of_ne; intro h; rw [h] at hl1; simp at hl1; omega
              simp only [isCutP, hne1, hne2, Bool.and_false, Bool.not_false, Bool.and_true] at h0 ⊢
              exact h0
          simp [this]
        have hwalkw : walk z (star :: ce) t (star :: ce) = none :=
          (walk_none_iff_noCut wf t how).2 hcutw
        have hscw : scan z (star :: ce) t = some rr := by
          simpa [lookupExact, hwalkw] using hlx
        have hrz : rr ∈ z := List.mem_of_find?_eq_some hscw
        have hrn : rr.name = star :: ce := by
          have := List.find?_some hscw
          simp only [Bool.and_eq_true, beq_iff_eq] at this
          exact this.1
        have hwex : nameExists z (star :: ce) = true :=
          nameExists_of_mem hrz (hrn ▸ List.suffix_refl _)
        have hsrc : sourceNode z (l :: rest) = some (star :: ce) := by
          simp [sourceNode, hex, hce, hwex]
        have hil : innerLookup z (l :: rest) t =
            some { name := l :: rest, type := rr.type, rdatas := rr.rdatas, sigLabels := rr.sigLabels } := by
          simp [innerLookup, hle, hscan, innerLookupWildcard, hws]
        have hsc := scan_eq wf (star :: ce) t
        rw [hscw] at hsc
        cases hc : (if t == T_CNAME then none else rrsetAt z (star :: ce) T_CNAME) with
        | some c =>
          have htne : t ≠ T_CNAME := by
            intro h; subst h; simp at hc
          have hc' : rrsetAt z (star :: ce) T_CNAME = some c := by simpa [htne] using hc
          obtain ⟨hcz, hcn, hct⟩ := get_some (by rw [get_eq_rrsetAt]; exact hc')
          obtain ⟨tg, htg⟩ := wf.cnameTarget c hcz hct
          rw [hc] at hsc
          have hrc : rr = c := by simpa using hsc
          subst hrc
          have hres : resolve z o (l :: rest) t =
              .cname { name := l :: rest, type := rr.type, rdatas := rr.rdatas, sigLabels := rr.sigLabels } tg := by
            simp only [resolve, hcuts, hsrc, hc, htg]
          rw [hres]
          exact ⟨hil, hct, htne, htg⟩
        | none =>
          rw [hc] at hsc
          cases hr : rrsetAt z (star :: ce) t with
          | some rr' =>
            rw [hr] at hsc
            have hrc : rr = rr' := by simpa using hsc
            subst hrc
            obtain ⟨_, _, hrt⟩ := get_some (by rw [get_eq_rrsetAt]; exact hr)
            have hres : resolve z o (l :: rest) t =
                .data { name := l :: rest, type := rr.type, rdatas := rr.rdatas, sigLabels := rr.sigLabels } := by
              simp only [resolve, hcuts, hsrc, hc, hr]
            rw [hres]
            refine ⟨hil, hrt, ?_⟩
            intro hns
            -- NS at a wildcard owner is excluded by `zoneWF`
            exfalso
            have hrn' := wf.noWildNs rr hrz hns
            rw [hrn] at hrn'
            simp [isWildcardName] at hrn'
          | none =>
            rw [hr] at hsc
            cases hsc

end HickoryVerif.C10
