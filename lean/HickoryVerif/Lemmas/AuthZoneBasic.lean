/-
Helper lemmas for C10: unpacking `zoneWF`, `find?` congruence, suffix facts.
-/
import HickoryVerif.Model.AuthZoneDev

namespace HickoryVerif.C10
open HickoryVerif HickoryVerif.AuthZone HickoryVerif.AuthZone.Dev HickoryVerif.Spec.Rfc1034

theorem zoneOf_iff {a n : LName} : zoneOf a n = true ↔ a <:+ n := by
  unfold zoneOf; exact List.isSuffixOf_iff_suffix

theorem anc_iff {a n : LName} : isAncestorOrSelf a n = true ↔ a <:+ n := by
  unfold isAncestorOrSelf; exact List.isSuffixOf_iff_suffix

theorem anc_false_iff {a n : LName} : isAncestorOrSelf a n = false ↔ ¬ a <:+ n := by
  rw [← anc_iff]; cases isAncestorOrSelf a n <;> simp

theorem find?_congr_mem {α} {p q : α → Bool} {l : List α} (h : ∀ x ∈ l, p x = q x) :
    l.find? p = l.find? q := by
  induction l with
  | nil => rfl
  | cons a l ih =>
    have ha := h a (by simp)
    have ih' := ih (fun x hx => h x (by simp [hx]))
    simp [List.find?, ha, ih']

theorem get_eq_rrsetAt (z : Zone) (n : LName) (t : Nat) : getRR z n t = rrsetAt z n t := rfl

theorem get_some {z : Zone} {n : LName} {t : Nat} {r : RRset} (h : getRR z n t = some r) :
    r ∈ z ∧ r.name = n ∧ r.type = t := by
  unfold getRR at h
  have h1 := List.mem_of_find?_eq_some h
  have h2 := List.find?_some h
  simp at h2
  exact ⟨h1, h2.1, h2.2⟩

theorem get_none {z : Zone} {n : LName} {t : Nat} (h : getRR z n t = none) :
    ∀ r ∈ z, r.name = n → r.type ≠ t := by
  unfold getRR at h
  rw [List.find?_eq_none] at h
  intro r hr hn ht
  exact h r hr (by simp [hn, ht])

theorem get_isSome_of_mem {z : Zone} {r : RRset} (hr : r ∈ z) : (getRR z r.name r.type).isSome = true := by
  cases h : getRR z r.name r.type with
  | some _ => rfl
  | none => exact absurd rfl (get_none h r hr rfl)

/-- the facts packed into `zoneWF` -/
structure WF (z : Zone) (o : LName) : Prop where
  soa : ∃ s, getRR z o T_SOA = some s
  ns : ∃ s, getRR z o T_NS = some s
  inZone : ∀ r ∈ z, o <:+ r.name
  soaApex : ∀ r ∈ z, r.type = T_SOA → r.name = o
  cnameTarget : ∀ r ∈ z, r.type = T_CNAME → ∃ t, r.rdatas.head?.bind (·.target) = some t
  cnameAlone : ∀ r ∈ z, r.type = T_CNAME → ∀ r' ∈ z, r'.name = r.name → r'.type = T_CNAME
  noAname : ∀ r ∈ z, r.type ≠ T_ANAME
  noWildNs : ∀ r ∈ z, r.type = T_NS → isWildcardName r.name = false
  originNotWild : isWildcardName o = false

theorem wf_of_zoneWF {z : Zone} {o : LName} (h : zoneWF z o = true) : WF z o := by
  unfold zoneWF at h
  simp only [Bool.and_eq_true, List.all_eq_true, Bool.or_eq_true, bne_iff_ne, ne_eq,
    beq_iff_eq, Bool.not_eq_true', Option.isSome_iff_exists] at h
  obtain ⟨⟨⟨⟨⟨⟨⟨⟨s, hs⟩, ⟨n, hn⟩⟩, hin⟩, hsoa⟩, hc⟩, han⟩, hw⟩, how⟩ := h
  refine ⟨⟨s, hs⟩, ⟨n, hn⟩, ?_, ?_, ?_, ?_, ?_, ?_, how⟩
  · intro r hr; exact anc_iff.1 (hin r hr)
  · intro r hr ht
    rcases hsoa r hr with h | h
    · exact absurd ht h
    · exact h
  · intro r hr ht
    rcases hc r hr with h | h
    · exact absurd ht h
    · exact h.1
  · intro r hr ht r' hr' hn'
    rcases hc r hr with h | h
    · exact absurd ht h
    · rcases h.2 r' hr' with h' | h'
      · exact absurd hn' h'
      · exact h'
  · intro r hr; exact han r hr
  · intro r hr ht
    rcases hw r hr with h | h
    · exact absurd ht h
    · exact h

end HickoryVerif.C10
