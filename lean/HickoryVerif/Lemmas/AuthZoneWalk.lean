/-
C10 helper lemmas: the bottom-up delegation walk of `inner_lookup` against the top-down list of
zone cuts of the specification.
-/
import HickoryVerif.Lemmas.AuthZoneBasic

namespace HickoryVerif.C10
open HickoryVerif HickoryVerif.AuthZone HickoryVerif.AuthZone.Dev HickoryVerif.Spec.Rfc1034

theorem mem_suffixes {s' s : LName} : s' ∈ suffixes s ↔ s' <:+ s := by
  induction s with
  | nil => simp [suffixes, List.suffix_nil]
  | cons l rest ih =>
    simp only [suffixes, List.mem_cons, ih, List.suffix_cons_iff]

/-- `s` is a zone cut on the way to `qn` (for query type `t`) -/
def isCutP (z : Zone) (o qn : LName) (t : Nat) (s : LName) : Bool :=
  ((rrsetAt z s T_NS).isSome && !(t == T_DS && s == qn)) && (isAncestorOrSelf o s && s != o)

theorem cuts_eq (z : Zone) (o n : LName) (t : Nat) :
    cuts z o n t = ((suffixes n).filter (isCutP z o n t)).reverse := by
  unfold cuts pathBelowApex
  rw [List.filter_reverse, List.filter_filter]
  rfl

theorem filter_suffixes_below_origin {z : Zone} {o qn : LName} {t : Nat} {s : LName}
    (h : s.length < o.length) : (suffixes s).filter (isCutP z o qn t) = [] := by
  rw [List.filter_eq_nil_iff]
  intro s' hs'
  have h1 := (mem_suffixes.1 hs').length_le
  unfold isCutP
  have : isAncestorOrSelf o s' = false := by
    rw [anc_false_iff]; intro hc; have := hc.length_le; omega
  simp [this]

theorem walk_eq {z : Zone} {o : LName} (wf : WF z o) (qn : LName) (t : Nat) :
    ∀ s : LName, o <:+ s →
      walk z qn t s = (((suffixes s).filter (isCutP z o qn t)).head?).bind fun c => getRR z c T_NS := by
  intro s
  induction s with
  | nil =>
    intro ho
    have : o = [] := List.suffix_nil.1 ho
    subst this
    simp [walk, suffixes, isCutP]
  | cons l rest ih =>
    intro ho
    by_cases heq : (l :: rest) = o
    · -- the apex: NS and SOA, the walk stops
      obtain ⟨sn, hsn⟩ := wf.ns
      obtain ⟨ss, hss⟩ := wf.soa
      have hlen : rest.length < o.length := by rw [← heq]; simp
      have hcut : isCutP z o qn t (l :: rest) = false := by simp [isCutP, heq]
      simp only [walk, heq, hsn, has, hss, Option.isSome_some]
      rw [← heq] at hlen ⊢
      simp only [suffixes, List.filter_cons]
      rw [heq] at hcut ⊢
      have hf := filter_suffixes_below_origin (z := z) (qn := qn) (t := t) (o := o) (s := rest)
        (by rw [← heq]; simp)
      subst heq
      simp [hcut, hf]
    · have ho' : o <:+ rest := by
        rcases List.suffix_cons_iff.1 ho with h | h
        · exact absurd h.symm heq
        · exact h
      have hsoa : has z (l :: rest) T_SOA = false := by
        unfold has
        cases h : getRR z (l :: rest) T_SOA with
        | none => rfl
        | some r =>
          obtain ⟨hr, hn, ht⟩ := get_some h
          exact absurd (hn ▸ wf.soaApex r hr ht) heq
      have hanc : isAncestorOrSelf o (l :: rest) = true := anc_iff.2 ho
      have hne : ((l :: rest) != o) = true := by simp [heq]
      simp only [walk, hsoa, suffixes, List.filter_cons]
      cases hns : getRR z (l :: rest) T_NS with
      | none =>
        have : isCutP z o qn t (l :: rest) = false := by
          simp [isCutP, ← get_eq_rrsetAt, hns]
        simp [this, ih ho']
      | some ns =>
        by_cases hds : (t == T_DS && (l :: rest) == qn) = true
        · have : isCutP z o qn t (l :: rest) = false := by
            simp [isCutP, hds]
          simp [this, hds, ih ho']
        · have hds' : (t == T_DS && (l :: rest) == qn) = false := by
            cases h : (t == T_DS && (l :: rest) == qn) <;> simp_all
          have : isCutP z o qn t (l :: rest) = true := by
            simp [isCutP, ← get_eq_rrsetAt, hns, hds', hanc, hne]
          simp [this, hds', hns]

theorem walk_none_iff_noCut {z : Zone} {o n : LName} (wf : WF z o) (t : Nat) (hn : o <:+ n) :
    walk z n t n = none ↔ cuts z o n t = [] := by
  rw [walk_eq wf n t n hn, cuts_eq]
  constructor
  · intro h
    cases hf : (suffixes n).filter (isCutP z o n t) with
    | nil => rfl
    | cons c rest =>
      rw [hf] at h
      have hc : isCutP z o n t c = true := by
        have : c ∈ (suffixes n).filter (isCutP z o n t) := by rw [hf]; simp
        exact (List.mem_filter.1 this).2
      simp only [isCutP, Bool.and_eq_true] at hc
      have h1 := hc.1.1
      rw [← get_eq_rrsetAt] at h1
      simp at h
      rw [h] at h1
      simp at h1
  · intro h
    have : (suffixes n).filter (isCutP z o n t) = [] := by
      have := congrArg List.reverse h
      simpa using this
    simp [this]

/-- exactly one cut: the walk returns its NS RRset -/
theorem walk_single_cut {z : Zone} {o n : LName} (wf : WF z o) (t : Nat) (hn : o <:+ n) {c : LName}
    (h : cuts z o n t = [c]) : walk z n t n = getRR z c T_NS := by
  rw [walk_eq wf n t n hn]
  rw [cuts_eq] at h
  have : (suffixes n).filter (isCutP z o n t) = [c] := by
    have := congrArg List.reverse h
    simpa using this
  simp [this]

theorem cut_has_ns {z : Zone} {o n : LName} {t : Nat} {c : LName} (h : c ∈ cuts z o n t) :
    ∃ ns, getRR z c T_NS = some ns := by
  rw [cuts_eq] at h
  have := (List.mem_filter.1 (List.mem_reverse.1 h)).2
  simp only [isCutP, Bool.and_eq_true] at this
  have h1 := this.1.1
  rw [← get_eq_rrsetAt] at h1
  exact Option.isSome_iff_exists.1 h1

theorem cut_ne_origin {z : Zone} {o n : LName} {t : Nat} {c : LName} (h : c ∈ cuts z o n t) : c ≠ o := by
  rw [cuts_eq] at h
  have := (List.mem_filter.1 (List.mem_reverse.1 h)).2
  simp only [isCutP, Bool.and_eq_true, bne_iff_ne, ne_eq] at this
  exact this.2.2

/-- an owner of NS below the apex on the way to `n` is one of the cuts (for a non-DS query, or
away from `n` itself) -/
theorem mem_cuts_of_ns {z : Zone} {o n : LName} {t : Nat} (hn : o <:+ n) (hne : n ≠ o)
    (hns : (rrsetAt z n T_NS).isSome = true) (ht : t ≠ T_DS) : cuts z o n t ≠ [] := by
  rw [cuts_eq]
  intro h
  have hf : (suffixes n).filter (isCutP z o n t) = [] := by
    have := congrArg List.reverse h
    simpa using this
  rw [List.filter_eq_nil_iff] at hf
  have := hf n (mem_suffixes.2 (List.suffix_refl n))
  apply this
  have h1 : (t == T_DS) = false := beq_false_of_ne ht
  have h2 : (n != o) = true := by simp [hne]
  simp [isCutP, hns, h1, anc_iff.2 hn, h2]

end HickoryVerif.C10
