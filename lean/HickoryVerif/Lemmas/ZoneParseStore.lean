/-
What `storeAll` builds when the stated records have pairwise distinct (owner, type) keys:
exactly one singleton record set per stated record, in file order.
-/
import HickoryVerif.Lemmas.ZoneParseFile

namespace HickoryVerif.ZoneParse
open HickoryVerif HickoryVerif.Spec.MasterFile

def ZR.toOption {α} : ZR α → Option α
  | .ok a => some a
  | _ => none

/-- the record an entry states, with its RDATA items interpreted by `RData::from_tokens` -/
def recOf (e : Entry) : Option (RType × Rec) :=
  match rtypeOfCode e.typ with
  | none => none
  | some t =>
    match rdataFromTokens t e.rdata e.origin with
    | .ok d => some (t, { name := { e.owner with fqdn := true }, cls := e.cls, ttl := e.ttl, data := d })
    | _ => none

/-- the singleton record set `RecordSet::from(record)` under its key -/
def setOf (e : Entry) : Option (Key × RSet) :=
  (recOf e).map fun (t, r) => (keyOf r.name t, RSet.ofRec t r)

theorem lookup_none_of_not_mem {m : List (Key × RSet)} {k : Key} (h : k ∉ m.map Prod.fst) :
    m.lookup k = none := by
  induction m with
  | nil => rfl
  | cons p m ih =>
    obtain ⟨k', v⟩ := p
    simp only [List.map_cons, List.mem_cons, not_or] at h
    unfold List.lookup
    have : (k == k') = false := by simpa using h.1
    simp only [this]
    exact ih h.2

theorem storeEntry_fresh {m : List (Key × RSet)} {e : Entry} {p : Key × RSet}
    (hs : setOf e = some p) (hk : p.1 ∉ m.map Prod.fst) :
    storeEntry m e = .ok (m ++ [p]) := by
  unfold setOf recOf at hs
  unfold storeEntry
  cases ht : rtypeOfCode e.typ with
  | none => simp [ht] at hs
  | some t =>
    simp only [ht] at hs ⊢
    cases hd : rdataFromTokens t e.rdata e.origin with
    | ok d =>
      simp only [hd, Option.map_some, Option.some.injEq] at hs
      subst hs
      simp only [ZR.bind_ok, mapInsert]
      rw [lookup_none_of_not_mem hk]
    | err => simp [hd] at hs
    | unmodelled => simp [hd] at hs
    | panic s => simp [hd] at hs

/-- **pairwise distinct (owner, type): the map is exactly one set per stated record** -/
theorem storeAll_distinct (es : List Entry) (m sets : List (Key × RSet))
    (hs : es.mapM setOf = some sets)
    (hnd : (m.map Prod.fst ++ sets.map Prod.fst).Nodup) :
    storeAll m es = .ok (m ++ sets) := by
  induction es generalizing m sets with
  | nil =>
    simp only [List.mapM_nil, Option.pure_def, Option.some.injEq] at hs
    subst hs; simp [storeAll]
  | cons e es ih =>
    simp only [List.mapM_cons, Option.pure_def, Option.bind_eq_bind] at hs
    cases he : setOf e with
    | none => simp [he] at hs
    | some p =>
      cases hes : es.mapM setOf with
      | none => simp [he, hes] at hs
      | some sets' =>
        simp only [he, hes, Option.bind_some, Option.some.injEq] at hs
        subst hs
        have hk : p.1 ∉ m.map Prod.fst := by
          intro hmem
          simp only [List.map_cons] at hnd
          have := List.nodup_append.1 hnd
          exact this.2.2 _ hmem _ (by simp) rfl
        simp only [storeAll]
        rw [storeEntry_fresh he hk, ZR.bind_ok, ih (m ++ [p]) sets' hes]
        · simp
        · simpa [List.map_append, List.append_assoc] using hnd

end HickoryVerif.ZoneParse

namespace HickoryVerif.ZoneParse
open HickoryVerif HickoryVerif.Spec.MasterFile

/-! ### several records per RRset -/

/-- adding a record to the map the plain way: to the end of its RRset (whose TTL becomes the
record's), or as a new singleton RRset at the end of the map -/
def addRec (m : List (Key × RSet)) (p : RType × Rec) : List (Key × RSet) :=
  let key := keyOf p.2.name p.1
  match m.lookup key with
  | some rs => mapSet m key { rs with ttl := p.2.ttl, records := rs.records ++ [p.2] }
  | none => m ++ [(key, RSet.ofRec p.1 p.2)]

/-- the record is new to its RRset: no record of the set has equal data, and the set is not one
of the single-record kinds (SOA, CNAME, ANAME) -/
def IsNew (m : List (Key × RSet)) (p : RType × Rec) : Prop :=
  ∀ rs, m.lookup (keyOf p.2.name p.1) = some rs →
    p.1 ≠ .soa ∧ p.1 ≠ .cname ∧ p.1 ≠ .aname ∧ ∀ r' ∈ rs.records, r'.data.eqv p.2.data = false

instance (m : List (Key × RSet)) (p : RType × Rec) : Decidable (IsNew m p) := by
  unfold IsNew
  cases h : m.lookup (keyOf p.2.name p.1) with
  | none => exact isTrue (by intro rs h'; cases h')
  | some rs0 =>
    by_cases hc : p.1 ≠ .soa ∧ p.1 ≠ .cname ∧ p.1 ≠ .aname ∧ ∀ r' ∈ rs0.records, r'.data.eqv p.2.data = false
    · exact isTrue (by intro rs h'; cases h'; exact hc)
    · exact isFalse (by intro hall; exact hc (hall rs0 rfl))

/-- every record of the list is new when its turn comes -/
def AllNew : List (Key × RSet) → List (RType × Rec) → Prop
  | _, [] => True
  | m, p :: ps => IsNew m p ∧ AllNew (addRec m p) ps

instance : (m : List (Key × RSet)) → (ps : List (RType × Rec)) → Decidable (AllNew m ps)
  | _, [] => isTrue trivial
  | m, p :: ps =>
    have := instDecidableAllNew (addRec m p) ps
    inferInstanceAs (Decidable (IsNew m p ∧ AllNew (addRec m p) ps))

theorem toReplace_nil {records : List Rec} {d : RData}
    (h : ∀ r' ∈ records, r'.data.eqv d = false) : toReplace records d = [] := by
  unfold toReplace
  rw [List.filter_eq_nil_iff]
  intro i hi
  simp only [List.mem_range] at hi
  have : records[i]? = some records[i] := List.getElem?_eq_getElem hi
  simp only [this]
  simp [h records[i] (List.getElem_mem hi)]

/-- **`Context::insert`'s map update of a new record is `addRec`** (no assert fires, nothing is
replaced) -/
theorem mapInsert_eq_addRec {m : List (Key × RSet)} (hinv : ∀ k rs, (k, rs) ∈ m → GoodSet k rs)
    {p : RType × Rec} (ht : Stored p.1) (hf : p.2.name.fqdn = true) (hnew : IsNew m p) :
    mapInsert m p.1 p.2 = .ok (addRec m p) := by
  obtain ⟨t, record⟩ := p
  simp only at ht hf hnew ⊢
  unfold mapInsert addRec
  simp only
  cases hlk : List.lookup (keyOf record.name t) m with
  | none => rfl
  | some rs =>
    obtain ⟨h1, h2, h3, h4⟩ := hnew rs hlk
    have hg := hinv _ _ (lookup_mem hlk)
    obtain ⟨hk', hfq, hst, _⟩ := hg
    have hkk : keyOf record.name t = keyOf rs.name rs.rtype := hk'
    have hty : t = rs.rtype := code_inj ht hst (by simpa [keyOf] using congrArg Prod.snd hkk)
    have hnm : Name.eq record.name rs.name = true :=
      nameEq_of_lower (by rw [hf, hfq]) (by simpa [keyOf] using congrArg Prod.fst hkk)
    have hc : ¬ (rs.rtype = .cname ∨ rs.rtype = .aname) := by
      rw [← hty]; intro h; rcases h with h | h
      · exact h2 h
      · exact h3 h
    have h1' : ¬ rs.rtype = .soa := by rw [← hty]; exact h1
    simp only [↓reduceIte, RSet.insert, hnm, Bool.not_true, Bool.false_eq_true, hty, ne_eq,
      not_true_eq_false, hc, ZR.bind_ok, toReplace_nil h4, replaceLoop, h1', Bool.not_false,
      false_and]

theorem addRec_good {m : List (Key × RSet)} (hinv : ∀ k rs, (k, rs) ∈ m → GoodSet k rs)
    {p : RType × Rec} (ht : Stored p.1) (hf : p.2.name.fqdn = true) (hnew : IsNew m p) :
    ∀ k rs, (k, rs) ∈ addRec m p → GoodSet k rs :=
  (mapInsert_spec hinv ht hf).2 _ (mapInsert_eq_addRec hinv ht hf hnew)

theorem recOf_facts {e : Entry} {p : RType × Rec} (h : recOf e = some p) :
    Stored p.1 ∧ p.2.name.fqdn = true ∧ storeEntry = storeEntry := by
  unfold recOf at h
  cases ht : rtypeOfCode e.typ with
  | none => simp [ht] at h
  | some t =>
    simp only [ht] at h
    cases hd : rdataFromTokens t e.rdata e.origin with
    | ok d =>
      simp only [hd, Option.some.injEq] at h
      subst h
      exact ⟨rdataFromTokens_stored hd, rfl, rfl⟩
    | err => simp [hd] at h
    | unmodelled => simp [hd] at h
    | panic s => simp [hd] at h

theorem storeEntry_of_recOf {m : List (Key × RSet)} {e : Entry} {p : RType × Rec}
    (h : recOf e = some p) : storeEntry m e = mapInsert m p.1 p.2 := by
  unfold recOf at h
  unfold storeEntry
  cases ht : rtypeOfCode e.typ with
  | none => simp [ht] at h
  | some t =>
    simp only [ht] at h ⊢
    cases hd : rdataFromTokens t e.rdata e.origin with
    | ok d => simp only [hd, Option.some.injEq] at h; subst h; rfl
    | err => simp [hd] at h
    | unmodelled => simp [hd] at h
    | panic s => simp [hd] at h

/-- **RRsets with several records**: when every stated record is new to its RRset when its turn
comes, the map is the stated records grouped by (owner, type) in order of first appearance, each
RRset in file order with the TTL of its last record. -/
theorem storeAll_allNew (es : List Entry) (ps : List (RType × Rec)) (m : List (Key × RSet))
    (hinv : ∀ k rs, (k, rs) ∈ m → GoodSet k rs)
    (hs : es.mapM recOf = some ps) (hnew : AllNew m ps) :
    storeAll m es = .ok (ps.foldl addRec m) := by
  induction es generalizing m ps with
  | nil =>
    simp only [List.mapM_nil, Option.pure_def, Option.some.injEq] at hs
    subst hs; rfl
  | cons e es ih =>
    simp only [List.mapM_cons, Option.pure_def, Option.bind_eq_bind] at hs
    cases he : recOf e with
    | none => simp [he] at hs
    | some p =>
      cases hes : es.mapM recOf with
      | none => simp [he, hes] at hs
      | some ps' =>
        simp only [he, hes, Option.bind_some, Option.some.injEq] at hs
        subst hs
        obtain ⟨hst, hfq, _⟩ := recOf_facts he
        simp only [AllNew] at hnew
        simp only [storeAll, storeEntry_of_recOf he, mapInsert_eq_addRec hinv hst hfq hnew.1,
          ZR.bind_ok, List.foldl_cons]
        exact ih ps' _ (addRec_good hinv hst hfq hnew.1) hes hnew.2

end HickoryVerif.ZoneParse
