/-
What `storeAll` builds when the stated records have pairwise distinct (owner, type) keys:
exactly one singleton record set per stated record, in file order.
-/
import HickoryVerif.Lemmas.ZoneParseFile

namespace HickoryVerif.ZoneParse
open HickoryVerif HickoryVerif.Spec.MasterFile

def ZR.toOption {α} : ZR α → Option α
  | .ok a => some a
  | _ => none

/-- the record an entry states, with its RDATA items interpreted by `RData::from_tokens` -/
def recOf (e : Entry) : Option (RType × Rec) :=
  match rtypeOfCode e.typ with
  | none => none
  | some t =>
    match rdataFromTokens t e.rdata e.origin with
    | .ok d => some (t, { name := { e.owner with fqdn := true }, cls := e.cls, ttl := e.ttl, data := d })
    | _ => none

/-- the singleton record set `RecordSet::from(record)` under its key -/
def setOf (e : Entry) : Option (Key × RSet) :=
  (recOf e).map fun (t, r) => (keyOf r.name t, RSet.ofRec t r)

theorem lookup_none_of_not_mem {m : List (Key × RSet)} {k : Key} (h : k ∉ m.map Prod.fst) :
    m.lookup k = none := by
  induction m with
  | nil => rfl
  | cons p m ih =>
    obtain ⟨k', v⟩ := p
    simp only [List.map_cons, List.mem_cons, not_or] at h
    unfold List.lookup
    have : (k == k') = false := by simpa using h.1
    simp only [this]
    exact ih h.2

theorem storeEntry_fresh {m : List (Key × RSet)} {e : Entry} {p : Key × RSet}
    (hs : setOf e = some p) (hk : p.1 ∉ m.map Prod.fst) :
    storeEntry m e = .ok (m ++ [p]) := by
  unfold setOf recOf at hs
  unfold storeEntry
  cases ht : rtypeOfCode e.typ with
  | none => simp [ht] at hs
  | some t =>
    simp only [ht] at hs ⊢
    cases hd : rdataFromTokens t e.rdata e.origin with
    | ok d =>
      simp only [hd, Option.map_some, Option.some.injEq] at hs
      subst hs
      simp only [ZR.bind_ok, mapInsert]
      rw [lookup_none_of_not_mem hk]
    | err => simp [hd] at hs
    | unmodelled => simp [hd] at hs
    | panic s => simp [hd] at hs

/-- **pairwise distinct (owner, type): the map is exactly one set per stated record** -/
theorem storeAll_distinct (es : List Entry) (m sets : List (Key × RSet))
    (hs : es.mapM setOf = some sets)
    (hnd : (m.map Prod.fst ++ sets.map Prod.fst).Nodup) :
    storeAll m es = .ok (m ++ sets) := by
  induction es generalizing m sets with
  | nil =>
    simp only [List.mapM_nil, Option.pure_def, Option.some.injEq] at hs
    subst hs; simp [storeAll]
  | cons e es ih =>
    simp only [List.mapM_cons, Option.pure_def, Option.bind_eq_bind] at hs
    cases he : setOf e with
    | none => simp [he] at hs
    | some p =>
      cases hes : es.mapM setOf with
      | none => simp [he, hes] at hs
      | some sets' =>
        simp only [he, hes, Option.bind_some, Option.some.injEq] at hs
        subst hs
        have hk : p.1 ∉ m.map Prod.fst := by
          intro hmem
          simp only [List.map_cons] at hnd
          have := List.nodup_append.1 hnd
          exact this.2.2 _ hmem _ (by simp) rfl
        simp only [storeAll]
        rw [storeEntry_fresh he hk, ZR.bind_ok, ih (m ++ [p]) sets' hes]
        · simp
        · simpa [List.map_append, List.append_assoc] using hnd

end HickoryVerif.ZoneParse
