/-
From elements to lines and files: the token sequence of a rendered file, and the bridge from
token sequences to the parser's token loop.
-/
import HickoryVerif.Lemmas.ZoneLexRender
import HickoryVerif.Lemmas.ZoneParse

namespace HickoryVerif.ZoneLex
open HickoryVerif.Spec.MasterFile

/-- `Lexes l ts l'` : successive `next_token` calls from `l` return exactly `ts` and leave `l'` -/
inductive Lexes : Lexer → List Token → Lexer → Prop where
  | nil (l : Lexer) : Lexes l [] l
  | cons {l l1 l2 : Lexer} {t : Token} {ts : List Token} :
      nextToken l = .ok (some t, l1) → Lexes l1 ts l2 → Lexes l (t :: ts) l2

theorem Lexes.append {a b c : Lexer} {xs ys : List Token} (h1 : Lexes a xs b) (h2 : Lexes b ys c) :
    Lexes a (xs ++ ys) c := by
  induction h1 with
  | nil => exact h2
  | cons h _ ih => exact Lexes.cons h (ih h2)

theorem Lexes.one {l l1 : Lexer} {t : Token} (h : nextToken l = .ok (some t, l1)) : Lexes l [t] l1 :=
  Lexes.cons h (Lexes.nil _)

/-- what follows a contiguous item outside parentheses must delimit it -/
def RestDelim (rest : Str) : Prop := ∃ d t, rest = d :: t ∧ (isWs d = true ∨ d = 59)

theorem blanks_delim (ws rest : Str) (h : blanksOK ws = true) : RestDelim (ws ++ rest) := by
  cases ws with
  | nil => simp [blanksOK] at h
  | cons x ws =>
    simp only [blanksOK, List.isEmpty_cons, Bool.not_false, List.all_cons, Bool.true_and,
      Bool.and_eq_true] at h
    exact ⟨x, ws ++ rest, rfl, Or.inl (blank_facts h.1).1⟩

theorem eol_delim (e : Eol) (rest : Str) (he : e.ok = true) : RestDelim (e.render ++ rest) := by
  obtain ⟨ws, comment, crs⟩ := e
  simp only [Eol.ok, Bool.and_eq_true] at he
  cases ws with
  | cons x ws =>
    simp only [List.all_cons, Bool.and_eq_true] at he
    simp only [Eol.render, List.cons_append, List.append_assoc]
    exact ⟨x, _, rfl, Or.inl (blank_facts he.1.1).1⟩
  | nil =>
    cases comment with
    | some b =>
      simp only [Eol.render, List.cons_append, List.append_assoc, List.nil_append]
      exact ⟨59, _, rfl, Or.inr rfl⟩
    | none =>
      obtain ⟨x, t, hxt, hx⟩ := crs_head crs rest
      refine ⟨x, t, by simpa [Eol.render] using hxt, Or.inl ?_⟩
      rcases hx with rfl | rfl <;> decide

theorem piece_delim (p : Piece) (rest : Str) (hp : p.ok = true) : RestDelim (p.render ++ rest) := by
  cases p with
  | item ws it =>
    simp only [Piece.ok, Bool.and_eq_true] at hp
    simpa [Piece.render, List.append_assoc] using blanks_delim ws (it.render ++ rest) hp.1
  | group ws els close =>
    simp only [Piece.ok, Bool.and_eq_true] at hp
    simpa [Piece.render, List.append_assoc] using blanks_delim ws _ hp.1.1

/-- the token a piece denotes -/
def pieceToken : Piece → Token
  | .item _ it => .charData it.val
  | .group _ els _ => .list (els.map fun p => p.2.val)

theorem blanksOK_all {ws : Str} (h : blanksOK ws = true) : ws.all isBlank = true := by
  simp only [blanksOK, Bool.and_eq_true] at h; exact h.2

/-- **one piece, one token** -/
theorem lex_piece (p : Piece) (rest : Str) (hp : p.ok = true) (hd : RestDelim rest) :
    nextToken ⟨p.render ++ rest, .restOfLine⟩ = .ok (some (pieceToken p), ⟨rest, .restOfLine⟩) := by
  unfold nextToken
  cases p with
  | item ws it =>
    simp only [Piece.ok, Bool.and_eq_true] at hp
    obtain ⟨hws, hit⟩ := hp
    simp only [Piece.render, List.append_assoc]
    rw [run_blanks _ _ _ _ (blanksOK_all hws)]
    cases it with
    | word w =>
      obtain ⟨d, t, rfl, hd⟩ := hd
      simp only [Item.ok] at hit
      simpa [Item.render, pieceToken, Item.val] using run_word w d t hit hd
    | quoted qs =>
      simp only [Item.ok] at hit
      simpa [pieceToken, Item.val] using run_quoted qs rest hit
  | group ws els close =>
    simp only [Piece.ok, Bool.and_eq_true] at hp
    obtain ⟨⟨hws, hels⟩, hc⟩ := hp
    simp only [Piece.render, List.append_assoc, List.cons_append, List.singleton_append]
    rw [run_blanks _ _ _ _ (blanksOK_all hws)]
    simpa [pieceToken, renderEls] using run_group els close rest (by simpa [elsOK] using hels) hc

theorem pieces_delim (ps : List Piece) (e : Eol) (rest : Str)
    (hps : ps.all Piece.ok = true) (he : e.ok = true) :
    RestDelim (ps.flatMap Piece.render ++ (e.render ++ rest)) := by
  cases ps with
  | nil => simpa using eol_delim e rest he
  | cons p ps =>
    simp only [List.all_cons, Bool.and_eq_true] at hps
    simpa [List.append_assoc] using piece_delim p _ hps.1

/-- the pieces of a line and its end, from the rest-of-line state -/
theorem lex_pieces (ps : List Piece) (e : Eol) (rest : Str)
    (hps : ps.all Piece.ok = true) (he : e.ok = true) :
    Lexes ⟨ps.flatMap Piece.render ++ (e.render ++ rest), .restOfLine⟩
      (ps.map pieceToken ++ [.eol]) ⟨rest, .startLine⟩ := by
  induction ps with
  | nil =>
    simp only [List.flatMap_nil, List.nil_append, List.map_nil]
    exact Lexes.one (by unfold nextToken; exact run_eol e rest he)
  | cons p ps ih =>
    simp only [List.all_cons, Bool.and_eq_true] at hps
    simp only [List.flatMap_cons, List.append_assoc, List.map_cons, List.cons_append]
    exact Lexes.cons (lex_piece p _ hps.1 (pieces_delim ps e rest hps.2 he)) (ih hps.2)

/-- the token the start of a line denotes -/
def startTokens : Start → List Token
  | .none => []
  | .blank _ => [.blank]
  | .at => [.at]
  | .word w => [.charData w]
  | .origin => [.origin]
  | .ttl => [.ttl]

def lineTokens (l : Line) : List Token := startTokens l.start ++ (l.pieces.map pieceToken ++ [.eol])

def fileTokens (f : File) : List Token := f.flatMap lineTokens

theorem restDelim_not_upper {rest : Str} (h : RestDelim rest) :
    ∃ d t, rest = d :: t ∧ ¬ (65 ≤ d ∧ d ≤ 90) := by
  obtain ⟨d, t, rfl, hd⟩ := h
  refine ⟨d, t, rfl, ?_⟩
  rcases hd with hd | rfl
  · simp only [isWs, Bool.or_eq_true, beq_iff_eq, Bool.and_eq_true, decide_eq_true_eq] at hd; omega
  · omega

theorem lex_dollar_origin (rest : Str) (h : RestDelim rest) :
    nextToken ⟨Spec.MasterFile.sORIGIN ++ rest, .startLine⟩ = .ok (some .origin, ⟨rest, .restOfLine⟩) := by
  obtain ⟨d, t, rfl, hd⟩ := restDelim_not_upper h
  apply nextTokenN_eq (n := 10)
  simp [nextTokenN, iter, step, Spec.MasterFile.sORIGIN, pushToStr, isWs, hd, sINCLUDE, sORIGIN]

theorem lex_dollar_ttl (rest : Str) (h : RestDelim rest) :
    nextToken ⟨Spec.MasterFile.sTTL ++ rest, .startLine⟩ = .ok (some .ttl, ⟨rest, .restOfLine⟩) := by
  obtain ⟨d, t, rfl, hd⟩ := restDelim_not_upper h
  apply nextTokenN_eq (n := 7)
  simp [nextTokenN, iter, step, Spec.MasterFile.sTTL, pushToStr, isWs, hd, sINCLUDE, sORIGIN, sTTL]

/-- **one line**: start, pieces, end -/
theorem lex_line (l : Line) (rest : Str) (hl : l.ok = true) :
    Lexes ⟨l.render ++ rest, .startLine⟩ (lineTokens l) ⟨rest, .startLine⟩ := by
  obtain ⟨start, pieces, eol⟩ := l
  simp only [Line.ok, Bool.and_eq_true] at hl
  obtain ⟨⟨⟨hs, hps⟩, he⟩, hnone⟩ := hl
  have hrest := lex_pieces pieces eol rest hps he
  have hdel := pieces_delim pieces eol rest hps he
  simp only [Line.render, lineTokens, List.append_assoc]
  cases start with
  | none =>
    simp only [Bool.and_eq_true, List.isEmpty_iff] at hnone
    obtain ⟨rfl, hws⟩ := hnone
    simp only [Start.render, startTokens, List.nil_append, List.flatMap_nil, List.map_nil]
    refine Lexes.one ?_
    unfold nextToken
    obtain ⟨ws, comment, crs⟩ := eol
    simp only at hws; subst hws
    cases comment with
    | none =>
      have hh := crs_head crs rest
      have : step ⟨List.replicate crs 13 ++ 10 :: rest, .startLine, none, none⟩ =
          .cont ⟨List.replicate crs 13 ++ 10 :: rest, .eol, none, none⟩ := by
        obtain ⟨x, t, hxt, hx⟩ := hh
        rw [hxt]; rcases hx with rfl | rfl <;> simp [step]
      simp only [Eol.render, List.nil_append, List.append_assoc, List.singleton_append]
      rw [run_cont this]; exact run_crs _ _ _ _
    | some b =>
      have : step ⟨(Eol.mk [] (some b) crs).render ++ rest, .startLine, none, none⟩ =
          .cont ⟨(Eol.mk [] (some b) crs).render ++ rest, .restOfLine, none, none⟩ := by
        simp [Eol.render, step, isWs]
      rw [run_cont this]; exact run_eol _ rest he
  | blank b =>
    simp only [Start.ok] at hs
    obtain ⟨f1, f2, f3, _⟩ := blank_facts hs
    simp only [Start.render, startTokens, List.singleton_append, List.cons_append, List.nil_append]
    refine Lexes.cons ?_ hrest
    unfold nextToken
    rw [run_cont (c' := ⟨b :: (pieces.flatMap Piece.render ++ (eol.render ++ rest)), .blank, none, none⟩)]
    · apply run_ret; simp [step]
    · simp [step, f1, f2, f3]
  | «at» =>
    simp only [Start.render, startTokens, List.singleton_append, List.cons_append, List.nil_append]
    refine Lexes.cons ?_ hrest
    apply nextTokenN_eq (n := 3)
    simp [nextTokenN, iter, step, isWs]
  | word w =>
    simp only [Start.ok] at hs
    simp only [Start.render, startTokens, List.singleton_append, List.cons_append, List.nil_append]
    refine Lexes.cons ?_ hrest
    obtain ⟨d, t, hdt, hd⟩ := hdel
    unfold nextToken
    rw [hdt]
    exact run_word_startLine w d t hs hd
  | origin =>
    simp only [Start.render, startTokens, List.singleton_append, List.cons_append, List.nil_append]
    exact Lexes.cons (lex_dollar_origin _ hdel) hrest
  | ttl =>
    simp only [Start.render, startTokens, List.singleton_append, List.cons_append, List.nil_append]
    exact Lexes.cons (lex_dollar_ttl _ hdel) hrest

/-- **a whole file** -/
theorem lex_file (f : File) (rest : Str) (hf : File.ok f = true) :
    Lexes ⟨render f ++ rest, .startLine⟩ (fileTokens f) ⟨rest, .startLine⟩ := by
  induction f with
  | nil => exact Lexes.nil _
  | cons l f ih =>
    simp only [File.ok, List.all_cons, Bool.and_eq_true] at hf
    simp only [render, List.flatMap_cons, List.append_assoc, fileTokens]
    exact Lexes.append (lex_line l _ hf.1) (ih (by simpa [File.ok] using hf.2))

theorem nextToken_end : nextToken ⟨[], .startLine⟩ = .ok (none, ⟨[], .eof⟩) := by
  apply nextTokenN_eq (n := 2); simp [nextTokenN, iter, step]

end HickoryVerif.ZoneLex

namespace HickoryVerif.ZoneParse
open HickoryVerif.ZoneLex

/-- the parser's line machine run over a token list -/
def feed (cx : Ctx) (st : PState) : List Token → ZR (Ctx × PState)
  | [] => .ok (cx, st)
  | t :: ts => (onToken cx st t).bind fun r => feed r.1 r.2 ts

theorem feed_append (cx : Ctx) (st : PState) (xs ys : List Token) :
    feed cx st (xs ++ ys) = (feed cx st xs).bind fun r => feed r.1 r.2 ys := by
  induction xs generalizing cx st with
  | nil => rfl
  | cons t xs ih =>
    simp only [List.cons_append, feed]
    cases onToken cx st t with
    | ok r => simp [ih]
    | err => rfl
    | unmodelled => rfl
    | panic s => rfl

/-- the token loop over a lexer that yields `ts` is `feed` over `ts` -/
theorem parseLoop_lexes {lx lx' : Lexer} {ts : List Token} (h : Lexes lx ts lx')
    (he : entryState lx.state) (cx : Ctx) (st : PState) :
    parseLoop lx cx st = (feed cx st ts).bind fun r => parseLoop lx' r.1 r.2 := by
  induction h generalizing cx st with
  | nil => rfl
  | @cons l l1 l2 t ts hn _ ih =>
    have hsp := (run_spec _).2 _ _ hn
    have hlt := hsp.2.2 (StrictOK_of_entry he) rfl
    rw [parseLoop, hn]
    simp only [hlt, ↓reduceDIte, feed]
    cases hon : onToken cx st t with
    | ok r => obtain ⟨cx', st'⟩ := r; simp only [ZR.bind_ok]; exact ih hsp.2.1 cx' st'
    | err => rfl
    | unmodelled => rfl
    | panic s => rfl

end HickoryVerif.ZoneParse
