//! C08 end-to-end completeness: server-generated NSEC proofs must be accepted (filled in below).
use crate::common::*;

pub fn exec(_t: &[&str], _line: &str, _rec: &mut Recorder) {}

pub fn run(_o: &Opts, _rec: &mut Recorder) {}
