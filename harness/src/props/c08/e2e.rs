//! C08 end-to-end completeness: for a really signed zone (`InMemoryZoneHandler` + ring Ed25519 key
//! + `secure_zone`) served by a `Catalog`, every negative or wildcard-expanded response the server
//! generates must be accepted by the validator (`DnssecDnsHandle` over an in-process handle that
//! feeds the catalog through `hickory_server::server::verif_handle_request`).
//!
//! Case line:   e2e <apex> <zone> <qname> <qtype>
//!   zone = `,`-separated `rel/types` — `rel` the labels below the apex (hex, most significant
//!   first, `.`-separated), `types` `+`-separated codes out of 1 (A) 16 (TXT) 2 (NS) 43 (DS) 5 (CNAME)
//!
//! These lines have no model side (`~`).  Every response that carries NSEC records is, in
//! addition, turned into an ordinary `vn` line (query, SOA owner, rcode, answers with their RRSIG
//! label counts, the attached NSECs) and executed: hook + Lean model + soundness oracle.
use std::collections::BTreeSet;
use std::net::SocketAddr;
use std::pin::Pin;
use std::sync::Arc;
use std::time::Duration;

use futures_util::stream::{self, Stream, StreamExt};
use hickory_net::{DnsError, NetError, NoRecords};
use hickory_net::dnssec::DnssecDnsHandle;
use hickory_net::runtime::TokioRuntimeProvider;
use hickory_net::xfer::{BufDnsStreamHandle, DnsHandle, Protocol};
use hickory_proto::dnssec::crypto::Ed25519SigningKey;
use hickory_proto::dnssec::rdata::{DNSKEY, DNSSECRData, DS};
use hickory_proto::dnssec::{Algorithm, DigestType, DnssecSigner, Proof, SigningKey, TrustAnchors};
use hickory_proto::op::{DnsRequest, DnsRequestOptions, DnsResponse, Query, ResponseCode};
use hickory_proto::rr::rdata::{A, CNAME, NS, SOA, TXT};
use hickory_proto::rr::{Name, RData, Record, RecordType};
use hickory_proto::serialize::binary::BinEncodable;
use hickory_server::dnssec::NxProofKind;
use hickory_server::server::{Request, RequestHandler, ResponseHandler, verif_handle_request};
use hickory_server::store::in_memory::InMemoryZoneHandler;
use hickory_server::zone_handler::{AxfrPolicy, Catalog, ZoneType};

use super::{Ans, Case, NsecRec};
use crate::common::*;

struct Shared(Arc<Catalog>);

#[async_trait::async_trait]
impl RequestHandler for Shared {
    async fn handle_request<R: ResponseHandler, T: hickory_net::runtime::Time>(&self, request: &Request, response_handle: R) {
        self.0.handle_request::<R, T>(request, response_handle).await
    }
}

/// in-process `DnsHandle`: one request → the catalog's response
#[derive(Clone)]
struct CatalogHandle {
    catalog: Arc<Catalog>,
}

impl DnsHandle for CatalogHandle {
    type Response = Pin<Box<dyn Stream<Item = Result<DnsResponse, NetError>> + Send>>;
    type Runtime = TokioRuntimeProvider;

    fn send(&self, request: DnsRequest) -> Self::Response {
        let catalog = self.catalog.clone();
        Box::pin(stream::once(async move {
            let bytes = request.to_bytes().map_err(|e| NetError::from(format!("encode: {e}")))?;
            let addr: SocketAddr = "127.0.0.1:5353".parse().unwrap();
            let (handle, mut rx) = BufDnsStreamHandle::new(addr);
            verif_handle_request(Shared(catalog), &[], &[], bytes, addr, Protocol::Udp, handle).await;
            let Some(msg) = rx.next().await else {
                return Err(NetError::from("no response from catalog"));
            };
            DnsResponse::from_buffer(msg.into_parts().0).map_err(|e| NetError::from(format!("decode: {e}")))
        }))
    }
}

pub struct Zone {
    pub spec: String,
    pub apex: Name,
    pub data: Vec<(Vec<Vec<u8>>, Vec<u16>)>,
    catalog: Arc<Catalog>,
    anchors: Arc<TrustAnchors>,
}

fn rel_name(rel: &[Vec<u8>], apex: &Name) -> Name {
    let mut n = apex.clone();
    for l in rel {
        n = n.prepend_label(&l[..]).expect("label");
    }
    n
}

pub fn parse_zone(s: &str) -> Option<Vec<(Vec<Vec<u8>>, Vec<u16>)>> {
    if s == "-" {
        return Some(vec![]);
    }
    s.split(',')
        .map(|e| {
            let (rel, ts) = e.split_once('/')?;
            let rel = parse_labels(rel)?;
            let ts = ts.split('+').map(|x| x.parse::<u16>().ok()).collect::<Option<Vec<_>>>()?;
            Some((rel, ts))
        })
        .collect()
}

pub fn zone_tok(data: &[(Vec<Vec<u8>>, Vec<u16>)]) -> String {
    if data.is_empty() {
        return "-".into();
    }
    data.iter()
        .map(|(rel, ts)| format!("{}/{}", labels_tok(rel), ts.iter().map(|t| t.to_string()).collect::<Vec<_>>().join("+")))
        .collect::<Vec<_>>()
        .join(",")
}

fn rdata_for(t: u16, owner: &Name) -> Option<RData> {
    Some(match t {
        1 => RData::A(A::new(192, 0, 2, 7)),
        16 => RData::TXT(TXT::new(vec!["c08".to_string()])),
        2 => RData::NS(NS(Name::from_ascii("ns.invalid.").unwrap())),
        5 => RData::CNAME(CNAME(Name::from_ascii("target.invalid.").unwrap())),
        43 => RData::DNSSEC(DNSSECRData::DS(DS::new(1, Algorithm::ED25519, DigestType::SHA256, vec![7u8; 32]))),
        _ => {
            let _ = owner;
            return None;
        }
    })
}

pub fn build_zone(apex: &Name, spec: &str) -> Option<Zone> {
    let data = parse_zone(spec)?;
    let mut h = InMemoryZoneHandler::<TokioRuntimeProvider>::empty(apex.clone(), ZoneType::Primary, AxfrPolicy::Deny, Some(NxProofKind::Nsec));
    const SERIAL: u32 = 2024010100;
    h.upsert_mut(
        Record::from_rdata(
            apex.clone(),
            3600,
            RData::SOA(SOA::new(
                Name::from_ascii("ns.invalid.").unwrap(),
                Name::from_ascii("admin.invalid.").unwrap(),
                SERIAL,
                3600,
                300,
                3600000,
                3600,
            )),
        ),
        SERIAL,
    );
    h.upsert_mut(Record::from_rdata(apex.clone(), 3600, RData::NS(NS(Name::from_ascii("ns.invalid.").unwrap()))), SERIAL);
    for (rel, ts) in &data {
        let owner = rel_name(rel, apex);
        for t in ts {
            let rd = rdata_for(*t, &owner)?;
            h.upsert_mut(Record::from_rdata(owner.clone(), 3600, rd), SERIAL);
        }
    }
    let key = Ed25519SigningKey::from_pkcs8(&Ed25519SigningKey::generate_pkcs8().ok()?).ok()?;
    let public = key.to_public_key().ok()?;
    let key: Box<dyn SigningKey> = Box::new(key);
    h.add_zone_signing_key_mut(DnssecSigner::new(DNSKEY::from_key(&public), key, apex.clone(), Duration::from_secs(86400)))
        .ok()?;
    h.secure_zone_mut().ok()?;
    let mut catalog = Catalog::new();
    catalog.upsert(apex.clone().into(), vec![Arc::new(h)]);
    let mut anchors = TrustAnchors::empty();
    anchors.insert(&public);
    Some(Zone { spec: spec.to_string(), apex: apex.clone(), data, catalog: Arc::new(catalog), anchors: Arc::new(anchors) })
}

thread_local! {
    static RT: tokio::runtime::Runtime = tokio::runtime::Builder::new_current_thread().enable_all().build().unwrap();
    static LAST: std::cell::RefCell<Option<Zone>> = const { std::cell::RefCell::new(None) };
}

pub struct Outcome {
    /// the validator's verdict: Ok(response) or the error's text
    pub validated: Result<DnsResponse, String>,
    /// the catalog's raw answer to the same query with DO set
    pub raw: Option<DnsResponse>,
}

pub fn query_zone(z: &Zone, q: &Name, qtype: u16) -> Outcome {
    RT.with(|rt| {
        rt.block_on(async {
            let inner = CatalogHandle { catalog: z.catalog.clone() };
            let mut opts = DnsRequestOptions::default();
            opts.use_edns = true;
            opts.edns_set_dnssec_ok = true;
            opts.recursion_desired = false;
            let query = Query::new(q.clone(), RecordType::from(qtype));
            let raw = inner.send(DnsRequest::from_query(query.clone(), opts)).next().await.and_then(|r| r.ok());
            let secure = DnssecDnsHandle::with_trust_anchor(inner, z.anchors.clone());
            let validated = match secure.send(DnsRequest::from_query(query, opts)).next().await {
                Some(Ok(r)) => Ok(r),
                Some(Err(e)) => Err(format!("{e}")),
                None => Err("no result".into()),
            };
            Outcome { validated, raw }
        })
    })
}

/// a handle that answers one query with a prepared (tampered) result and passes every other
/// query (the validator's DNSKEY / DS lookups) on to the catalog
#[derive(Clone)]
struct TamperHandle {
    inner: CatalogHandle,
    query: Query,
    result: Arc<Result<DnsResponse, NoRecords>>,
}

impl DnsHandle for TamperHandle {
    type Response = Pin<Box<dyn Stream<Item = Result<DnsResponse, NetError>> + Send>>;
    type Runtime = TokioRuntimeProvider;

    fn send(&self, request: DnsRequest) -> Self::Response {
        let hit = request
            .queries
            .first()
            .is_some_and(|q| q.name == self.query.name && q.query_type == self.query.query_type);
        if hit {
            let r = match &*self.result {
                Ok(m) => Ok(m.clone()),
                Err(e) => Err(NetError::Dns(DnsError::NoRecordsFound(e.clone()))),
            };
            Box::pin(stream::once(async move { r }))
        } else {
            self.inner.send(request)
        }
    }
}

pub const MUTATIONS: [&str; 10] = [
    "strip-nsec", "strip-nsec-sig", "strip-soa", "strip-answer", "empty", "swap-rcode", "as-error", "as-error-bare",
    "forge-nsec", "add-nsec3",
];

fn is_sig_of(rr: &Record, t: RecordType) -> bool {
    matches!(&rr.data, RData::DNSSEC(DNSSECRData::RRSIG(s)) if s.input().type_covered == t)
}

/// the tampered result, or `None` when the mutation changes nothing
fn tamper(raw: &DnsResponse, query: &Query, m: &str) -> Option<Result<DnsResponse, NoRecords>> {
    let mut msg: hickory_proto::op::Message = (**raw).clone();
    let before = (msg.answers.len(), msg.authorities.len(), msg.metadata.response_code);
    match m {
        "strip-nsec" => msg
            .authorities
            .retain(|rr| rr.record_type() != RecordType::NSEC && !is_sig_of(rr, RecordType::NSEC)),
        "strip-nsec-sig" => msg.authorities.retain(|rr| !is_sig_of(rr, RecordType::NSEC)),
        "strip-soa" => msg
            .authorities
            .retain(|rr| rr.record_type() != RecordType::SOA && !is_sig_of(rr, RecordType::SOA)),
        "strip-answer" => msg.answers.retain(|rr| rr.record_type() == RecordType::RRSIG),
        "empty" => {
            msg.answers.clear();
            msg.authorities.clear();
        }
        "swap-rcode" => {
            msg.metadata.response_code = match msg.metadata.response_code {
                ResponseCode::NXDomain => ResponseCode::NoError,
                ResponseCode::NoError if msg.answers.is_empty() => ResponseCode::NXDomain,
                other => other,
            }
        }
        // an unsigned, forged `apex NSEC apex` next to the zone's genuine signed SOA "proves" that
        // nothing but the apex exists: NXDOMAIN for the query name
        "forge-nsec" => {
            let soa = msg.authorities.iter().find(|rr| rr.record_type() == RecordType::SOA)?.clone();
            if query.name == soa.name {
                return None;
            }
            msg.answers.clear();
            msg.authorities
                .retain(|rr| rr.record_type() == RecordType::SOA || is_sig_of(rr, RecordType::SOA));
            let forged = hickory_proto::dnssec::rdata::NSEC::new(
                soa.name.clone(),
                [RecordType::NS, RecordType::SOA, RecordType::RRSIG, RecordType::NSEC, RecordType::DNSKEY],
            );
            msg.authorities.push(Record::from_rdata(soa.name.clone(), soa.ttl, RData::DNSSEC(DNSSECRData::NSEC(forged))));
            msg.metadata.response_code = ResponseCode::NXDomain;
        }
        // an (unsigned) NSEC3 record owned by the apex beside the genuine NSECs: it must not make a
        // false statement acceptable (it is not authenticated, so it takes no part in the proof)
        "add-nsec3" => {
            let soa = msg.authorities.iter().find(|rr| rr.record_type() == RecordType::SOA)?.clone();
            if !msg.authorities.iter().any(|rr| rr.record_type() == RecordType::NSEC) {
                return None;
            }
            let n3 = hickory_proto::dnssec::rdata::NSEC3::new(
                hickory_proto::dnssec::Nsec3HashAlgorithm::SHA1,
                false,
                0,
                vec![],
                vec![0u8; 20],
                [RecordType::A, RecordType::RRSIG],
            );
            msg.authorities.push(Record::from_rdata(soa.name.clone(), soa.ttl, RData::DNSSEC(DNSSECRData::NSEC3(n3))));
        }
        // the bare error a caching layer may hand over: no authority records at all
        "as-error-bare" => {
            if !msg.answers.is_empty() {
                return None;
            }
            return Some(Err(NoRecords::new(query.clone(), msg.metadata.response_code)));
        }
        "as-error" => {
            if !msg.answers.is_empty() {
                return None;
            }
            let mut e = NoRecords::new(query.clone(), msg.metadata.response_code);
            e.authorities = Some(Arc::from(msg.authorities.clone()));
            return Some(Err(e));
        }
        _ => return None,
    }
    if before == (msg.answers.len(), msg.authorities.len(), msg.metadata.response_code) {
        return None;
    }
    DnsResponse::from_message(msg).ok().map(Ok)
}

fn validate_prepared(z: &Zone, query: &Query, prepared: Result<DnsResponse, NoRecords>) -> Result<DnsResponse, String> {
    RT.with(|rt| {
        rt.block_on(async {
            let mut opts = DnsRequestOptions::default();
            opts.use_edns = true;
            opts.edns_set_dnssec_ok = true;
            opts.recursion_desired = false;
            let h = TamperHandle {
                inner: CatalogHandle { catalog: z.catalog.clone() },
                query: query.clone(),
                result: Arc::new(prepared),
            };
            let secure = DnssecDnsHandle::with_trust_anchor(h, z.anchors.clone());
            match secure.send(DnsRequest::from_query(query.clone(), opts)).next().await {
                Some(Ok(r)) => Ok(r),
                Some(Err(e)) => Err(format!("{e}")),
                None => Err("no result".into()),
            }
        })
    })
}

/// `tam <apex> <zone> <qname> <qtype> <mutation>`: the server's real response, tampered with, must
/// not be accepted by `DnssecDnsHandle` (verify_response: which records reach verify_nsec, what
/// happens when none do) unless what it then says is still true of the zone.
pub fn exec_tamper(t: &[&str], line: &str, rec: &mut Recorder) {
    let ["tam", apex, zone, q, qt, m] = t else {
        rec.stat("skipped.unparsable-case");
        return;
    };
    let (Some(apex), Some(q), Ok(qtype)) = (parse_name(apex), parse_name(q), qt.parse::<u16>()) else {
        rec.stat("skipped.unparsable-case");
        return;
    };
    let res = catch(|| {
        LAST.with(|last| {
            let mut last = last.borrow_mut();
            let reuse = last.as_ref().is_some_and(|z| z.spec == *zone && z.apex == apex);
            if !reuse {
                *last = build_zone(&apex, zone);
            }
            let z = last.as_ref()?;
            let query = Query::new(q.clone(), RecordType::from(qtype));
            let base = query_zone(z, &q, qtype);
            let raw = base.raw?;
            let prepared = tamper(&raw, &query, m)?;
            let shape = match &prepared {
                Ok(r) => (r.response_code, r.answers.is_empty(), r.authorities.iter().any(|rr| rr.record_type() == RecordType::NSEC)),
                Err(e) => (e.response_code, true, true),
            };
            let vn = match &prepared {
                Ok(r) => vn_case_of(&q, qtype, r),
                Err(_) => None,
            };
            let raw_has_nsec = raw.authorities.iter().any(|rr| rr.record_type() == RecordType::NSEC);
            // does an NSEC with its own RRSIG (an authenticated proof) survive the mutation?
            let signed_nsec_left = match &prepared {
                Ok(r) => r.authorities.iter().any(|n| {
                    n.record_type() == RecordType::NSEC
                        && r.authorities.iter().any(|s| s.name == n.name && is_sig_of(s, RecordType::NSEC))
                }),
                Err(e) => e.authorities.as_ref().is_some_and(|a| {
                    a.iter().any(|n| {
                        n.record_type() == RecordType::NSEC && a.iter().any(|s| s.name == n.name && is_sig_of(s, RecordType::NSEC))
                    })
                }),
            };
            let verdict = validate_prepared(z, &query, prepared).and_then(|r| {
                // a response with answers is accepted only if its answer records are Secure
                if r.answers.iter().all(|rr| rr.proof == Proof::Secure) { Ok(r) } else { Err("answer records not Secure".into()) }
            });
            Some((verdict, base.validated.is_ok(), shape, (raw_has_nsec, signed_nsec_left), truth(z, &q, qtype), vn))
        })
    });
    let (verdict, base_ok, (rc, no_answers, _has_nsec), (raw_has_nsec, signed_nsec_left), tr, vn) = match res {
        Ok(Some(x)) => x,
        Ok(None) => {
            rec.stat("tamper.no-change");
            return;
        }
        Err(p) => {
            let idx = rec.case(line.to_string(), format!("panic {p}"));
            rec.fail(idx, format!("panic in the tampered end-to-end path: {p}"), "");
            return;
        }
    };
    rec.impl_only += 1;
    let idx = rec.case(line.to_string(), "~".into());
    rec.stat("op.tam");
    rec.stat(&format!("tamper.{m}.{}", if verdict.is_ok() { "accepted" } else { "rejected" }));
    rec.nontrivial(idx);
    let cut = matches!(tr, Truth::AtCut | Truth::BelowCut);
    // at or below a delegation without DS nothing is authenticated: whatever is accepted there is
    // accepted as Insecure, which is right
    let insecure_cut = cut
        && LAST.with(|last| {
            last.borrow().as_ref().is_some_and(|z| {
                let kq = super::key(&q);
                // the cut closest to the apex decides (everything below an insecure cut is insecure)
                z.data
                    .iter()
                    .filter(|(rel, ts)| {
                        let k = super::key(&rel_name(rel, &z.apex));
                        ts.contains(&2) && kq.len() >= k.len() && kq[..k.len()] == k[..]
                    })
                    .min_by_key(|(rel, _)| rel.len())
                    .is_some_and(|(rel, _)| {
                        !z.data.iter().any(|(r2, t2)| r2 == rel && t2.contains(&43))
                    })
            })
        });
    let mut bad: Option<String> = None;
    if verdict.is_ok() && !insecure_cut {
        // what the accepted response says must be true of the zone
        if rc == ResponseCode::NXDomain && tr != Truth::NxDomain {
            bad = Some(format!("NXDOMAIN accepted although the truth is {tr:?}"));
        } else if rc == ResponseCode::NoError && no_answers && matches!(tr, Truth::Positive | Truth::WildcardPositive) {
            bad = Some(format!("NODATA accepted although the truth is {tr:?}"));
        }
        // a secure zone's denial / wildcard proof cannot be dispensed with (outside referrals, where
        // the validator fetches the DS proof itself)
        if bad.is_none() && !cut && raw_has_nsec && matches!(*m, "strip-nsec" | "strip-nsec-sig" | "empty" | "forge-nsec" | "as-error-bare") {
            bad = Some("accepted although the NSEC proof (or its signature) was removed".into());
        }
        if bad.is_none() && !cut && *m == "strip-answer" {
            bad = Some("accepted although the answer RRset was removed".into());
        }
        // add-nsec3: the added NSEC3 is UNSIGNED.  Until /repo cc13292 the validator used it all the same
        // (selected because the signed SOA has the same owner) and then refused the response for
        // carrying both kinds of proof; since cc13292 an unauthenticated NSEC3 takes no part in a proof,
        // and the response is judged by its genuine NSEC proof.  Only the truth rule above applies: an
        // earlier version of this oracle demanded a rejection here, which is more than the property
        // states (it was derived from the code's behaviour, not from RFC 4035).
        if *m == "add-nsec3" {
            rec.stat("tamper.add-nsec3.accepted-on-the-genuine-nsec-proof");
        }
    }
    // (referrals are left out: delivered as an error they lose the sections that make them one)
    if *m == "as-error" && !cut && verdict.is_ok() != base_ok {
        bad = Some(format!(
            "the response delivered as NoRecordsFound error is {} but {} as a message",
            if verdict.is_ok() { "accepted" } else { "rejected" },
            if base_ok { "accepted" } else { "rejected" }
        ));
    }
    if let Some(b) = bad {
        // class of the open finding H1, computed from zone + query + mutation (through the server's
        // response).  Its precondition: the zone's key is the trust anchor and the zone's own server
        // answers `<zone> DS` (child side) — true of every zone of this run — and no authenticated
        // NSEC is left in the response, so that nothing reaches verify_nsec and the verdict is the
        // one of find_ds_records.  A wrong acceptance with an authenticated NSEC still present is
        // not H1.
        let cls = if *m != "as-error" && !signed_nsec_left {
            "proofless-response-accepted-child-side-ds-denial-marks-anchored-zone-insecure"
        } else {
            ""
        };
        rec.fail(idx, format!("DnssecDnsHandle, tampered response ({m}, truth {tr:?}): {b}"), cls);
    }
    if let Some(c) = vn {
        super::exec(&c.line(), rec);
    }
}

/// routes queries like a resolver does: `<child> DS` and everything outside the child zone to the
/// parent's server, the rest to the child's
#[derive(Clone)]
struct HierHandle {
    parent: CatalogHandle,
    child: Option<(Name, CatalogHandle)>,
}

impl DnsHandle for HierHandle {
    type Response = Pin<Box<dyn Stream<Item = Result<DnsResponse, NetError>> + Send>>;
    type Runtime = TokioRuntimeProvider;

    fn send(&self, request: DnsRequest) -> Self::Response {
        let to_child = self.child.as_ref().is_some_and(|(apex, _)| {
            request.queries.first().is_some_and(|q| apex.zone_of(&q.name) && !(q.query_type == RecordType::DS && q.name == *apex))
        });
        match (&self.child, to_child) {
            (Some((_, c)), true) => c.send(request),
            _ => self.parent.send(request),
        }
    }
}

fn plain_zone(apex: &Name, kind: Option<NxProofKind>, records: &[(Name, RData)], sign: bool) -> Option<(Arc<Catalog>, Option<hickory_proto::dnssec::PublicKeyBuf>)> {
    let mut h = InMemoryZoneHandler::<TokioRuntimeProvider>::empty(apex.clone(), ZoneType::Primary, AxfrPolicy::Deny, kind);
    const SERIAL: u32 = 2024010100;
    let ns = Name::from_ascii("ns.invalid.").unwrap();
    h.upsert_mut(
        Record::from_rdata(apex.clone(), 3600, RData::SOA(SOA::new(ns.clone(), Name::from_ascii("admin.invalid.").unwrap(), SERIAL, 3600, 300, 3600000, 3600))),
        SERIAL,
    );
    h.upsert_mut(Record::from_rdata(apex.clone(), 3600, RData::NS(NS(ns))), SERIAL);
    for (n, rd) in records {
        h.upsert_mut(Record::from_rdata(n.clone(), 3600, rd.clone()), SERIAL);
    }
    let mut public = None;
    if sign {
        let key = Ed25519SigningKey::from_pkcs8(&Ed25519SigningKey::generate_pkcs8().ok()?).ok()?;
        let pk = key.to_public_key().ok()?;
        let key: Box<dyn SigningKey> = Box::new(key);
        h.add_zone_signing_key_mut(DnssecSigner::new(DNSKEY::from_key(&pk), key, apex.clone(), Duration::from_secs(86400))).ok()?;
        h.secure_zone_mut().ok()?;
        public = Some(pk);
    }
    let mut catalog = Catalog::new();
    catalog.upsert(apex.clone().into(), vec![Arc::new(h)]);
    Some((Arc::new(catalog), public))
}

pub const H1_SCENARIOS: [&str; 6] = [
    "optout-apex-closest-encloser",
    "nsec3-parent-side",
    "nsec-parent-side",
    "child-side-nsec",
    "child-side-nsec3",
    "child-side-nsec3-salted",
];

/// `h1 <scenario>` — directed regression set around finding H1 (which DS denials may mark a zone
/// insecure): an unsigned child below a signed parent must stay accepted (Insecure) whether the
/// parent proves "no DS" with its parent-side NSEC, its parent-side NSEC3, or — opt-out — with its
/// own apex NSEC3 as closest encloser; a signed zone that is its own trust anchor must not be
/// marked insecure by its own (child-side) answer to `<zone> DS`, NSEC or NSEC3.
pub fn exec_h1(t: &[&str], line: &str, rec: &mut Recorder) {
    let ["h1", scenario] = t else {
        rec.stat("skipped.unparsable-case");
        return;
    };
    let n = |s: &str| Name::from_ascii(s).unwrap();
    let nsec3 = |opt_out: bool, salt: &[u8], iterations: u16| {
        Some(NxProofKind::Nsec3 { algorithm: Default::default(), salt: Arc::from(salt.to_vec()), iterations, opt_out })
    };
    let res = catch(|| -> Option<(bool, bool)> {
        let mut opts = DnsRequestOptions::default();
        opts.use_edns = true;
        opts.edns_set_dnssec_ok = true;
        opts.recursion_desired = false;
        let parent_side = |kind: Option<NxProofKind>| -> Option<(bool, bool)> {
            // p. signed (trust anchor) with the unsigned delegation u.p. and another name; u.p. unsigned
            let p = n("p.");
            let (pc, pk) = plain_zone(
                &p,
                kind,
                &[(n("u.p."), RData::NS(NS(n("ns.invalid.")))), (n("zz.p."), RData::A(A::new(192, 0, 2, 9)))],
                true,
            )?;
            let (cc, _) = plain_zone(&n("u.p."), None, &[(n("www.u.p."), RData::A(A::new(192, 0, 2, 8)))], false)?;
            let mut anchors = TrustAnchors::empty();
            anchors.insert(&pk?);
            let h = HierHandle { parent: CatalogHandle { catalog: pc }, child: Some((n("u.p."), CatalogHandle { catalog: cc })) };
            let secure = DnssecDnsHandle::with_trust_anchor(h, Arc::new(anchors));
            let ok = RT.with(|rt| {
                rt.block_on(async {
                    let r = secure.send(DnsRequest::from_query(Query::new(n("www.u.p."), RecordType::A), opts)).next().await;
                    matches!(r, Some(Ok(m)) if m.answers.iter().any(|rr| rr.record_type() == RecordType::A && rr.proof == Proof::Insecure))
                })
            });
            Some((ok, true)) // expected: accepted, the answer marked Insecure
        };
        let child_side = |kind: Option<NxProofKind>| -> Option<(bool, bool)> {
            // x. signed and its own trust anchor; a proofless NXDOMAIN for a name of the zone
            let x = n("x.");
            let (c, pk) = plain_zone(&x, kind, &[(n("a.x."), RData::A(A::new(192, 0, 2, 7)))], true)?;
            let mut anchors = TrustAnchors::empty();
            anchors.insert(&pk?);
            let query = Query::new(n("b.x."), RecordType::A);
            let mut msg = hickory_proto::op::Message::query();
            msg.add_query(query.clone());
            msg.metadata.response_code = ResponseCode::NXDomain;
            let forged = DnsResponse::from_message(msg.into_response()).ok()?;
            let h = TamperHandle { inner: CatalogHandle { catalog: c }, query: query.clone(), result: Arc::new(Ok(forged)) };
            let secure = DnssecDnsHandle::with_trust_anchor(h, Arc::new(anchors));
            let ok = RT.with(|rt| rt.block_on(async { matches!(secure.send(DnsRequest::from_query(query, opts)).next().await, Some(Ok(_))) }));
            Some((ok, false)) // expected: rejected
        };
        match *scenario {
            "optout-apex-closest-encloser" => parent_side(nsec3(true, &[], 0)),
            "nsec3-parent-side" => parent_side(nsec3(false, &[], 0)),
            "nsec-parent-side" => parent_side(Some(NxProofKind::Nsec)),
            "child-side-nsec" => child_side(Some(NxProofKind::Nsec)),
            "child-side-nsec3" => child_side(nsec3(false, &[], 0)),
            "child-side-nsec3-salted" => child_side(nsec3(true, &[0xab, 0xcd], 3)),
            _ => None,
        }
    });
    match res {
        Ok(Some((accepted, expected))) => {
            rec.impl_only += 1;
            let idx = rec.case(line.to_string(), "~".into());
            rec.stat("op.h1");
            rec.stat(&format!("h1.{scenario}.{}", if accepted { "accepted" } else { "rejected" }));
            rec.nontrivial(idx);
            if accepted != expected {
                // a child-side denial marking the anchored zone insecure is finding H1
                let cls = if !expected { "proofless-response-accepted-child-side-ds-denial-marks-anchored-zone-insecure" } else { "" };
                rec.fail(
                    idx,
                    format!(
                        "DS-denial scenario {scenario}: the response is {} but must be {}",
                        if accepted { "accepted" } else { "rejected" },
                        if expected { "accepted as Insecure (the parent proves that the delegation has no DS)" } else { "rejected (the zone is its own trust anchor; its own answer to '<zone> DS' says nothing about the delegation)" }
                    ),
                    cls,
                );
            }
        }
        Ok(None) => rec.stat("skipped.h1-not-built"),
        Err(p) => {
            let idx = rec.case(line.to_string(), format!("panic {p}"));
            rec.fail(idx, format!("panic in the DS-denial scenario: {p}"), "");
        }
    }
}

/// what the zone says about (q, qtype): used only to label the case and to compute the class
#[derive(Debug, PartialEq, Eq, Clone, Copy)]
pub enum Truth {
    Positive,
    WildcardPositive,
    NoData,
    EntNoData,
    WildcardNoData,
    NxDomain,
    BelowCut,
    AtCut,
}

pub fn truth(z: &Zone, q: &Name, qtype: u16) -> Truth {
    let kq = super::key(q);
    let ka = super::key(&z.apex);
    let mut names: Vec<(super::Key, BTreeSet<u16>)> = vec![(ka.clone(), [2u16, 6].into_iter().collect())];
    for (rel, ts) in &z.data {
        let k = super::key(&rel_name(rel, &z.apex));
        match names.iter_mut().find(|(n, _)| *n == k) {
            Some(e) => e.1.extend(ts.iter().copied()),
            None => names.push((k, ts.iter().copied().collect())),
        }
    }
    let is_prefix = |p: &super::Key, k: &super::Key| k.len() >= p.len() && k[..p.len()] == p[..];
    // delegation above or at the name (not the apex)
    for (n, ts) in &names {
        if *n != ka && ts.contains(&2) && is_prefix(n, &kq) {
            return if *n == kq { Truth::AtCut } else { Truth::BelowCut };
        }
    }
    if let Some((_, ts)) = names.iter().find(|(n, _)| *n == kq) {
        return if ts.contains(&qtype) || ts.contains(&5) { Truth::Positive } else { Truth::NoData };
    }
    if names.iter().any(|(n, _)| is_prefix(&kq, n)) {
        return Truth::EntNoData;
    }
    // closest encloser
    let ce = (0..kq.len()).rev().map(|i| kq[..i].to_vec()).find(|p| names.iter().any(|(n, _)| is_prefix(p, n)));
    let Some(ce) = ce else { return Truth::NxDomain };
    let mut w = ce.clone();
    w.push(b"*".to_vec());
    if let Some((_, ts)) = names.iter().find(|(n, _)| *n == w) {
        return if ts.contains(&qtype) || ts.contains(&5) { Truth::WildcardPositive } else { Truth::WildcardNoData };
    }
    if names.iter().any(|(n, _)| is_prefix(&w, n)) {
        return Truth::WildcardNoData; // the wildcard exists as an empty non-terminal
    }
    Truth::NxDomain
}

/// Class of a completeness failure, computed from the zone and the query alone.
pub fn completeness_class(z: &Zone, q: &Name, qtype: u16, tr: Truth) -> &'static str {
    let kq = super::key(q);
    let ka = super::key(&z.apex);
    let mut names: Vec<(super::Key, BTreeSet<u16>)> = vec![(ka.clone(), [2u16, 6].into_iter().collect())];
    for (rel, ts) in &z.data {
        let k = super::key(&rel_name(rel, &z.apex));
        match names.iter_mut().find(|(n, _)| *n == k) {
            Some(e) => e.1.extend(ts.iter().copied()),
            None => names.push((k, ts.iter().copied().collect())),
        }
    }
    let is_prefix = |p: &[Vec<u8>], k: &[Vec<u8>]| k.len() >= p.len() && k[..p.len()] == p[..];
    if kq.len() <= ka.len() || !is_prefix(&ka, &kq) {
        return "";
    }
    // RFC 4592 gaps of the server (C10): it expands a wildcard further up the tree although the
    // closest encloser of the name has no wildcard / the name exists; the validator is right to reject
    let no_wildcard_applies = matches!(tr, Truth::NxDomain | Truth::NoData | Truth::EntNoData);
    if no_wildcard_applies {
        for i in ka.len()..kq.len() {
            let mut w = kq[..i].to_vec();
            w.push(b"*".to_vec());
            if w != kq && names.iter().any(|(n, ts)| *n == w && (qtype == 255 || ts.contains(&qtype) || ts.contains(&5))) {
                return "completeness-server-expands-inapplicable-wildcard";
            }
        }
    }
    match tr {
        // RFC 4035 B.7: the server answers with the wrong proof / response code (upstream-ignored test)
        Truth::WildcardNoData => "completeness-wildcard-nodata-rejected",
        _ => "",
    }
}

/// the `vn` case equivalent to what `verify_response` hands to `verify_nsec` for this response
pub fn vn_case_of(q: &Name, qtype: u16, r: &DnsResponse) -> Option<Case> {
    let nsecs: Vec<NsecRec> = r
        .authorities
        .iter()
        .filter_map(|rr| match &rr.data {
            RData::DNSSEC(DNSSECRData::NSEC(n)) => Some(NsecRec {
                owner: rr.name.clone(),
                next: n.next_domain_name().clone(),
                types: n.type_bit_maps().map(u16::from).collect(),
            }),
            _ => None,
        })
        .collect();
    if nsecs.is_empty() {
        return None;
    }
    let soa = r.authorities.iter().find(|rr| rr.record_type() == RecordType::SOA).map(|rr| rr.name.clone());
    let answers: Vec<Ans> = r
        .answers
        .iter()
        .map(|rr| Ans {
            name: rr.name.clone(),
            secure: true,
            rrsig_labels: match &rr.data {
                RData::DNSSEC(DNSSECRData::RRSIG(s)) => Some(s.input().num_labels),
                _ => None,
            },
        })
        .collect();
    Some(Case { q: q.clone(), qtype, soa, rcode: u16::from(r.response_code), answers, nsecs })
}

pub fn exec(t: &[&str], line: &str, rec: &mut Recorder) {
    let ["e2e", apex, zone, q, qt] = t else {
        rec.stat("skipped.unparsable-case");
        return;
    };
    let (Some(apex), Some(q), Ok(qtype)) = (parse_name(apex), parse_name(q), qt.parse::<u16>()) else {
        rec.stat("skipped.unparsable-case");
        return;
    };
    let res = catch(|| {
        LAST.with(|last| {
            let mut last = last.borrow_mut();
            let reuse = last.as_ref().is_some_and(|z| z.spec == *zone && z.apex == apex);
            if !reuse {
                *last = build_zone(&apex, zone);
            }
            let z = last.as_ref()?;
            Some((query_zone(z, &q, qtype), truth(z, &q, qtype)))
        })
    });
    let (out, tr) = match res {
        Ok(Some(x)) => x,
        Ok(None) => {
            rec.stat("skipped.e2e-zone-not-built");
            return;
        }
        Err(p) => {
            let idx = rec.case(line.to_string(), format!("panic {p}"));
            rec.fail(idx, format!("panic in the end-to-end path: {p}"), "");
            return;
        }
    };
    rec.impl_only += 1;
    let idx = rec.case(line.to_string(), "~".into());
    rec.stat("op.e2e");
    rec.stat(&format!("e2e.truth.{tr:?}"));
    let Some(raw) = out.raw else {
        rec.fail(idx, "the catalog did not answer", "");
        return;
    };
    let has_nsec = raw.authorities.iter().any(|rr| rr.record_type() == RecordType::NSEC);
    let rc = raw.response_code;
    rec.stat(&format!("e2e.rcode.{}", u16::from(rc)));
    if has_nsec {
        rec.stat("e2e.with-nsec");
        rec.nontrivial(idx);
    }
    // completeness: what the server attaches must be accepted
    match &out.validated {
        Ok(_) => rec.stat("e2e.accepted"),
        Err(e) => {
            rec.stat("e2e.rejected");
            if has_nsec && (rc == ResponseCode::NoError || rc == ResponseCode::NXDomain) {
                let cls = LAST.with(|last| last.borrow().as_ref().map(|z| completeness_class(z, &q, qtype, tr))).unwrap_or("");
                let short: String = e.chars().take(160).collect();
                rec.fail(
                    idx,
                    format!(
                        "the validator rejected the proof the authoritative server attached ({tr:?}, rcode {}): {short}",
                        u16::from(rc)
                    ),
                    cls,
                );
            }
        }
    }
    // the same response through the hook, the Lean model and the soundness oracle
    if let Some(c) = vn_case_of(&q, qtype, &raw) {
        let l = c.line();
        super::exec(&l, rec);
        // the hook's verdict must agree with the validator's
        let hook = super::run_impl(&c);
        if (hook == Proof::Secure) != out.validated.is_ok() {
            rec.stat("e2e.hook-vs-handle-differ");
        }
    }
}

/// number of hand-built zones at the head of `zones()`
const HAND_ZONES: usize = 9;

/// zones of the end-to-end run: hand-built shapes (empty non-terminals, wildcards, wildcard
/// below an empty non-terminal, delegations with and without DS, deep names) plus random ones
fn zones(o: &Opts, r: &mut Rng) -> Vec<Vec<(Vec<Vec<u8>>, Vec<u16>)>> {
    let l = |s: &str| -> Vec<Vec<u8>> { if s.is_empty() { vec![] } else { s.split('.').rev().map(|x| x.as_bytes().to_vec()).collect() } };
    let mut v: Vec<Vec<(Vec<Vec<u8>>, Vec<u16>)>> = vec![
        vec![],
        vec![(l("a"), vec![1])],
        vec![(l("a"), vec![1]), (l("c.b"), vec![1])],
        vec![(l("*"), vec![1]), (l("b"), vec![16])],
        vec![(l("*.w"), vec![1]), (l("x.w"), vec![1]), (l("x.y.w"), vec![1]), (l("xx"), vec![1])],
        vec![(l("a"), vec![2]), (l("ns.a"), vec![1]), (l("b"), vec![2, 43]), (l("c"), vec![1])],
        vec![(l("a.*.b"), vec![1]), (l("z"), vec![1])],
        vec![(l("*"), vec![16]), (l("a.b.c"), vec![1])],
        vec![(l("a"), vec![5]), (l("*.d"), vec![5])],
    ];
    let alphabet: [&[u8]; 4] = [b"a", b"b", b"*", b"c"];
    for _ in 0..o.n(12, 150) {
        let n = r.range(1, 5) as usize;
        let mut z = vec![];
        for _ in 0..n {
            let d = r.range(1, 3) as usize;
            let rel: Vec<Vec<u8>> = (0..d).map(|_| r.pick(&alphabet).to_vec()).collect();
            let ts: Vec<u16> = match r.below(7) {
                0 => vec![2],
                1 => vec![2, 43],
                2 => vec![16],
                3 => vec![1, 16],
                _ => vec![1],
            };
            // NS at a wildcard owner is left undefined by RFC 4592 §4.2: not generated
            let ts = if rel.last().is_some_and(|l| l == b"*") && ts.contains(&2) { vec![1] } else { ts };
            if !z.iter().any(|(x, _): &(Vec<Vec<u8>>, Vec<u16>)| *x == rel) {
                z.push((rel, ts));
            }
        }
        v.push(z);
    }
    v
}

pub fn run(o: &Opts, rec: &mut Recorder) {
    for sc in H1_SCENARIOS {
        let line = format!("h1 {sc}");
        exec_h1(&line.split_whitespace().collect::<Vec<_>>(), &line, rec);
    }
    let mut r = Rng::new(o.seed ^ 0xe2e);
    let apex = Name::from_ascii("x.").unwrap();
    let alphabet: [&[u8]; 4] = [b"a", b"b", b"*", b"c"];
    for (zi, z) in zones(o, &mut r).into_iter().enumerate() {
        let spec = zone_tok(&z);
        // queries: every zone name, its parent, children and siblings by every alphabet label
        let mut qs: BTreeSet<Vec<Vec<u8>>> = BTreeSet::new();
        qs.insert(vec![]);
        for (rel, _) in &z {
            for i in 0..=rel.len() {
                let p = rel[..i].to_vec();
                for l in alphabet.iter().chain([&b"xx"[..], &b"w"[..], &b"y"[..], &b"z"[..]].iter()) {
                    let mut c = p.clone();
                    c.push(l.to_vec());
                    if c.len() <= 4 {
                        qs.insert(c.clone());
                        if c.len() <= 3 && *l == b"b" {
                            let mut cc = c.clone();
                            cc.push(b"a".to_vec());
                            qs.insert(cc);
                        }
                    }
                }
                qs.insert(p);
            }
        }
        for l in alphabet {
            qs.insert(vec![l.to_vec()]);
        }
        for qrel in qs {
            let q = rel_name(&qrel, &apex);
            for qt in [1u16, 16, 43, 6, 2, 5, 47, 255] {
                if qt == 43 && !z.iter().any(|(_, ts)| ts.contains(&2)) {
                    continue;
                }
                if qt == 16 && !o.thorough() && r.chance(1, 2) {
                    continue;
                }
                // SOA / NS / CNAME / NSEC / ANY: on a sample (other arms of the server's response builder)
                if [6u16, 2, 5, 47, 255].contains(&qt) && !r.chance(1, if o.thorough() { 2 } else { 6 }) {
                    continue;
                }
                let line = format!("e2e {} {} {} {}", name_tok(&apex), spec, name_tok(&q), qt);
                exec(&line.split_whitespace().collect::<Vec<_>>(), &line, rec);
                // the same response, tampered with
                if zi < HAND_ZONES && (qt == 1 || qt == 43) || r.chance(1, if o.thorough() { 4 } else { 40 }) {
                    for m in MUTATIONS {
                        let line = format!("tam {} {} {} {} {}", name_tok(&apex), spec, name_tok(&q), qt, m);
                        exec_tamper(&line.split_whitespace().collect::<Vec<_>>(), &line, rec);
                    }
                }
            }
        }
    }
}
