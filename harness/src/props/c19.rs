//! C19 — recursive resolution ignores out-of-bailiwick data and always terminates.
//!
//! A case line describes a small simulated internet as a *table* `(server group, query) → response`
//! (fully adversarial: any records in any section), the recursor's limits/filters and a sequence of
//! user queries.  The real `hickory_resolver::recursor::Recursor` is run over a mock
//! `ConnectionProvider` that answers from the table and logs every `(server ip, query)` it receives.
//!
//! Line:  `res <rl> <nl> <roots> <deny_srv> <allow_srv> <deny_ans> <allow_ans> <names> <groups> <table> <queries>`
//!   ip        `4.<u32>` | `6.<u128>`           lists `,`-separated, `-` = empty
//!   net       `<ip>/<len>`
//!   names     name tokens (`F:hex.hex`) separated by `,`; everything else refers to names by index
//!   record    `<name>:<ttl>:<rdata>`  rdata = `A<u32>` | `Q<u128>` | `N<name>` | `C<name>` | `S<minimum>` | `T<tag>`
//!   records   `+`-separated, `-` = empty
//!   response  `<rcode>/<aa>/<answers>/<authorities>/<additionals>`
//!   groups    `;`-separated `<ips>@<default response>`   (an ip in no group is unreachable: io error)
//!   table     `;`-separated `<group>,<name>,<qtype>=<response>`
//!   queries   `;`-separated `<name>,<qtype>`   (run in order against the same recursor)
//!
//! Output (compared with the Lean model when every pool that can be formed is homogeneous, i.e. all its
//! addresses belong to one server group — otherwise the pool's random server order decides and the line
//! is implementation-vs-oracle only, `~`):
//!   per query `<class> <rcode> <aa> <sorted records> T=<sorted set of group.qname.qtype sent> X=<sorted unreachable ips tried>`
//!
//! Second line kind: `stub <names> <table> <query>` — alias chasing of the stub resolver (CachingClient):
//!   one upstream, table `<name>,<qtype>=<response>`; output `<class> n=<upstream queries>`.
use std::collections::{BTreeMap, BTreeSet, HashMap};
use std::net::{IpAddr, Ipv4Addr, Ipv6Addr};
use std::pin::Pin;
use std::sync::{Arc, Mutex};
use std::time::{Duration, Instant};

use futures_util::stream::{once, Stream};
use hickory_net::runtime::TokioRuntimeProvider;
use hickory_net::xfer::DnsHandle;
use hickory_net::{DnsError, NetError};
use hickory_proto::op::{DnsRequest, DnsResponse, Message, OpCode, Query, ResponseCode};
use hickory_proto::rr::rdata::{A, AAAA, CNAME, NS, SOA, TXT};
use hickory_proto::rr::{Name, RData, Record, RecordType};
use hickory_resolver::config::ConnectionConfig;
use hickory_resolver::recursor::{Recursor, RecursorError, RecursorOptions};
use hickory_resolver::{ConnectionProvider, PoolContext};
use ipnet::IpNet;

use crate::common::*;

// ------------------------------------------------------------------------------------------ case

#[derive(Clone, Debug, PartialEq, Eq, Hash, PartialOrd, Ord)]
pub enum RD {
    A(u32),
    Q(u128),
    N(usize),
    C(usize),
    S(u32),
    T(u32),
    /// SRV with this target
    V(usize),
    /// RRSIG covering this type (dummy signature)
    R(u16),
}

#[derive(Clone, Debug, PartialEq, Eq, Hash, PartialOrd, Ord)]
pub struct Rec {
    pub name: usize,
    pub ttl: u32,
    pub data: RD,
}

#[derive(Clone, Debug, PartialEq, Eq, Default)]
pub struct Resp {
    pub rcode: u16,
    pub aa: bool,
    /// TC bit: 0 never, 1 over UDP only (`t`), 2 over TCP as well (`T`)
    pub tc: u8,
    pub ans: Vec<Rec>,
    pub auth: Vec<Rec>,
    pub add: Vec<Rec>,
}

impl Resp {
    fn all(&self) -> impl Iterator<Item = &Rec> {
        self.ans.iter().chain(self.auth.iter()).chain(self.add.iter())
    }
}

#[derive(Clone, Debug)]
pub struct Group {
    pub ips: Vec<IpAddr>,
    pub default: Resp,
}

#[derive(Clone, Debug)]
pub struct Case {
    pub rl: u8,
    pub nl: u8,
    pub roots: Vec<IpAddr>,
    pub deny_srv: Vec<IpNet>,
    pub allow_srv: Vec<IpNet>,
    pub deny_ans: Vec<IpNet>,
    pub allow_ans: Vec<IpNet>,
    pub names: Vec<Name>,
    pub groups: Vec<Group>,
    pub table: BTreeMap<(usize, usize, u16), Resp>,
    /// all queries in execution order; for a `conc` line: warm-up, then the concurrent batch, then probes
    pub queries: Vec<(usize, u16)>,
    /// `conc` lines: (number of warm-up queries, size of the concurrent batch)
    pub conc: Option<(usize, usize)>,
    /// `val` lines: the recursor runs in DNSSEC-validating mode (built-in trust anchor; the simulated internets
    /// are unsigned, so nothing validates) — implementation-vs-oracle only
    pub validating: bool,
}

pub fn ip_tok(ip: &IpAddr) -> String {
    match ip {
        IpAddr::V4(a) => format!("4.{}", u32::from(*a)),
        IpAddr::V6(a) => format!("6.{}", u128::from(*a)),
    }
}

fn parse_ip(t: &str) -> Option<IpAddr> {
    let (k, v) = t.split_once('.')?;
    match k {
        "4" => Some(IpAddr::V4(Ipv4Addr::from(v.parse::<u32>().ok()?))),
        "6" => Some(IpAddr::V6(Ipv6Addr::from(v.parse::<u128>().ok()?))),
        _ => None,
    }
}

fn parse_list<T>(t: &str, sep: char, f: impl Fn(&str) -> Option<T>) -> Option<Vec<T>> {
    if t == "-" {
        return Some(vec![]);
    }
    t.split(sep).map(|x| f(x)).collect()
}

fn parse_net(t: &str) -> Option<IpNet> {
    let (ip, len) = t.split_once('/')?;
    IpNet::new(parse_ip(ip)?, len.parse().ok()?).ok()
}

fn net_tok(n: &IpNet) -> String {
    format!("{}/{}", ip_tok(&n.addr()), n.prefix_len())
}

fn parse_rec(t: &str) -> Option<Rec> {
    let mut it = t.splitn(3, ':');
    let name = it.next()?.parse().ok()?;
    let ttl = it.next()?.parse().ok()?;
    let d = it.next()?;
    let (k, v) = d.split_at(1);
    let data = match k {
        "A" => RD::A(v.parse().ok()?),
        "Q" => RD::Q(v.parse().ok()?),
        "N" => RD::N(v.parse().ok()?),
        "C" => RD::C(v.parse().ok()?),
        "S" => RD::S(v.parse().ok()?),
        "T" => RD::T(v.parse().ok()?),
        "V" => RD::V(v.parse().ok()?),
        "R" => RD::R(v.parse().ok()?),
        _ => return None,
    };
    Some(Rec { name, ttl, data })
}

fn rec_tok(r: &Rec) -> String {
    let d = match &r.data {
        RD::A(x) => format!("A{x}"),
        RD::Q(x) => format!("Q{x}"),
        RD::N(x) => format!("N{x}"),
        RD::C(x) => format!("C{x}"),
        RD::S(x) => format!("S{x}"),
        RD::T(x) => format!("T{x}"),
        RD::V(x) => format!("V{x}"),
        RD::R(x) => format!("R{x}"),
    };
    format!("{}:{}:{}", r.name, r.ttl, d)
}

fn recs_tok(rs: &[Rec]) -> String {
    if rs.is_empty() { "-".into() } else { rs.iter().map(rec_tok).collect::<Vec<_>>().join("+") }
}

fn parse_resp(t: &str) -> Option<Resp> {
    let p: Vec<&str> = t.split('/').collect();
    if p.len() != 5 {
        return None;
    }
    Some(Resp {
        rcode: p[0].parse().ok()?,
        aa: p[1].starts_with('1'),
        tc: if p[1].ends_with('t') { 1 } else if p[1].ends_with('T') { 2 } else { 0 },
        ans: parse_list(p[2], '+', parse_rec)?,
        auth: parse_list(p[3], '+', parse_rec)?,
        add: parse_list(p[4], '+', parse_rec)?,
    })
}

fn resp_tok(r: &Resp) -> String {
    format!("{}/{}{}/{}/{}/{}", r.rcode, b(r.aa), ["", "t", "T"][r.tc as usize], recs_tok(&r.ans), recs_tok(&r.auth), recs_tok(&r.add))
}

fn list_tok<T>(xs: &[T], sep: &str, f: impl Fn(&T) -> String) -> String {
    if xs.is_empty() { "-".into() } else { xs.iter().map(f).collect::<Vec<_>>().join(sep) }
}

impl Case {
    pub fn parse(t: &[&str]) -> Option<Case> {
        if t.len() != 12 || (t[0] != "res" && t[0] != "conc" && t[0] != "val") {
            return None;
        }
        let names = parse_list(t[8], ',', parse_name)?;
        let groups = parse_list(t[9], ';', |g| {
            let (ips, d) = g.split_once('@')?;
            Some(Group { ips: parse_list(ips, ',', parse_ip)?, default: parse_resp(d)? })
        })?;
        let mut table = BTreeMap::new();
        for e in parse_list(t[10], ';', |e| {
            let (k, r) = e.split_once('=')?;
            let k: Vec<&str> = k.split(',').collect();
            if k.len() != 3 {
                return None;
            }
            Some(((k[0].parse().ok()?, k[1].parse().ok()?, k[2].parse().ok()?), parse_resp(r)?))
        })? {
            table.insert(e.0, e.1);
        }
        let parse_qs = |tok: &str| {
            parse_list(tok, ';', |q| {
                let (n, ty) = q.split_once(',')?;
                Some((n.parse::<usize>().ok()?, ty.parse::<u16>().ok()?))
            })
        };
        let (queries, conc) = if t[0] == "conc" {
            let parts: Vec<&str> = t[11].split('|').collect();
            if parts.len() != 3 {
                return None;
            }
            let (w, b_, p) = (parse_qs(parts[0])?, parse_qs(parts[1])?, parse_qs(parts[2])?);
            if b_.is_empty() || b_.len() > 8 {
                return None;
            }
            let conc = Some((w.len(), b_.len()));
            (w.into_iter().chain(b_).chain(p).collect::<Vec<_>>(), conc)
        } else {
            (parse_qs(t[11])?, None)
        };
        let c = Case {
            rl: t[1].parse().ok()?,
            nl: t[2].parse().ok()?,
            roots: parse_list(t[3], ',', parse_ip)?,
            deny_srv: parse_list(t[4], ',', parse_net)?,
            allow_srv: parse_list(t[5], ',', parse_net)?,
            deny_ans: parse_list(t[6], ',', parse_net)?,
            allow_ans: parse_list(t[7], ',', parse_net)?,
            names,
            groups,
            table,
            queries,
            conc,
            validating: t[0] == "val",
        };
        // indices in range
        let nn = c.names.len();
        let ok_rec = |r: &Rec| {
            r.name < nn
                && match r.data {
                    RD::N(x) | RD::C(x) | RD::V(x) => x < nn,
                    _ => true,
                }
        };
        let ok_resp = |r: &Resp| r.all().all(ok_rec);
        if !c.groups.iter().all(|g| ok_resp(&g.default)) {
            return None;
        }
        if !c.table.iter().all(|((g, n, _), r)| *g < c.groups.len() && *n < nn && ok_resp(r)) {
            return None;
        }
        if !c.queries.iter().all(|(n, _)| *n < nn) || c.queries.is_empty() || c.roots.is_empty() {
            return None;
        }
        Some(c)
    }

    pub fn line(&self) -> String {
        let qtok = |qs: &[(usize, u16)]| list_tok(qs, ";", |(n, t)| format!("{n},{t}"));
        let queries = match self.conc {
            None => qtok(&self.queries),
            Some((w, b_)) => format!("{}|{}|{}", qtok(&self.queries[..w]), qtok(&self.queries[w..w + b_]), qtok(&self.queries[w + b_..])),
        };
        format!(
            "{} {} {} {} {} {} {} {} {} {} {} {}",
            if self.validating { "val" } else if self.conc.is_some() { "conc" } else { "res" },
            self.rl,
            self.nl,
            list_tok(&self.roots, ",", ip_tok),
            list_tok(&self.deny_srv, ",", net_tok),
            list_tok(&self.allow_srv, ",", net_tok),
            list_tok(&self.deny_ans, ",", net_tok),
            list_tok(&self.allow_ans, ",", net_tok),
            list_tok(&self.names, ",", name_tok),
            list_tok(&self.groups, ";", |g| format!("{}@{}", list_tok(&g.ips, ",", ip_tok), resp_tok(&g.default))),
            list_tok(&self.table.iter().collect::<Vec<_>>(), ";", |((g, n, t), r)| format!("{g},{n},{t}={}", resp_tok(r))),
            queries,
        )
    }

    /// deterministic choice of the DNSSEC policy variant from the case itself
    pub fn security_aware(&self) -> bool {
        (self.names.len() + self.table.len() + self.queries.len()) % 4 == 0
    }

    /// some server sets the TC bit over stream transports as well
    pub fn truncates_always(&self) -> bool {
        self.groups.iter().any(|g| g.default.tc == 2) || self.table.values().any(|r| r.tc == 2)
    }

    fn group_of(&self, ip: &IpAddr) -> Option<usize> {
        self.groups.iter().position(|g| g.ips.contains(ip))
    }

    fn name_idx(&self, n: &Name) -> Option<usize> {
        // exact (case-sensitive) match first, then case-insensitive
        self.names.iter().position(|x| x.eq_case(n)).or_else(|| self.names.iter().position(|x| x == n))
    }

    /// ground truth: what group `g` answers to `(name, qtype)`
    fn respond(&self, g: usize, q: &Query) -> &Resp {
        match self.name_idx(&q.name) {
            Some(n) => self.table.get(&(g, n, u16::from(q.query_type))).unwrap_or(&self.groups[g].default),
            None => &self.groups[g].default,
        }
    }

    fn record(&self, r: &Rec) -> Record {
        let name = self.names[r.name].clone();
        let data = match &r.data {
            RD::A(x) => RData::A(A(Ipv4Addr::from(*x))),
            RD::Q(x) => RData::AAAA(AAAA(Ipv6Addr::from(*x))),
            RD::N(x) => RData::NS(NS(self.names[*x].clone())),
            RD::C(x) => RData::CNAME(CNAME(self.names[*x].clone())),
            RD::S(m) => RData::SOA(SOA::new(name.clone(), name.clone(), 1, 1, 1, 1, *m)),
            RD::T(t) => RData::TXT(TXT::new(vec![t.to_string()])),
            RD::V(x) => RData::SRV(hickory_proto::rr::rdata::SRV::new(1, 1, 53, self.names[*x].clone())),
            RD::R(covered) => {
                use hickory_proto::dnssec::rdata::{sig::SigInput, DNSSECRData, RRSIG};
                let input = SigInput {
                    type_covered: RecordType::from(*covered),
                    algorithm: hickory_proto::dnssec::Algorithm::ED25519,
                    num_labels: name.num_labels(),
                    original_ttl: r.ttl,
                    sig_expiration: hickory_proto::rr::SerialNumber::from(2_000_000_000u32),
                    sig_inception: hickory_proto::rr::SerialNumber::from(1_000_000_000u32),
                    key_tag: 7,
                    signer_name: name.clone(),
                };
                RData::DNSSEC(DNSSECRData::RRSIG(RRSIG::from_sig(input, vec![1, 2, 3, 4])))
            }
        };
        Record::from_rdata(name, r.ttl, data)
    }

    fn message(&self, r: &Resp, id: u16, q: &Query, tcp: bool) -> Message {
        let mut m = Message::response(id, OpCode::Query);
        m.metadata.truncation = r.tc == 2 || (r.tc == 1 && !tcp);
        m.add_query(q.clone());
        m.metadata.response_code = ResponseCode::from(0, r.rcode as u8);
        m.metadata.authoritative = r.aa;
        for x in &r.ans {
            m.add_answer(self.record(x));
        }
        for x in &r.auth {
            m.add_authority(self.record(x));
        }
        for x in &r.add {
            m.add_additional(self.record(x));
        }
        m
    }
}

/// canonical text of a record as seen in the implementation's output (no TTL)
fn canon_record(r: &Record) -> String {
    let d = match &r.data {
        RData::A(a) => format!("A{}", u32::from(a.0)),
        RData::AAAA(a) => format!("Q{}", u128::from(a.0)),
        RData::NS(n) => format!("N{}", name_tok(&n.0)),
        RData::CNAME(n) => format!("C{}", name_tok(&n.0)),
        RData::SOA(s) => format!("S{}", s.minimum),
        RData::SRV(v) => format!("V{}", name_tok(&v.target)),
        RData::DNSSEC(hickory_proto::dnssec::rdata::DNSSECRData::RRSIG(sig)) => format!("R{}", u16::from(sig.input().type_covered)),
        RData::TXT(t) => format!(
            "T{}",
            t.txt_data.first().map(|s| String::from_utf8_lossy(s).to_string()).unwrap_or_default()
        ),
        other => format!("?{}", u16::from(other.record_type())),
    };
    format!("{}/{}", name_tok(&r.name), d)
}

fn canon_rec(c: &Case, r: &Rec) -> String {
    let d = match &r.data {
        RD::A(x) => format!("A{x}"),
        RD::Q(x) => format!("Q{x}"),
        RD::N(x) => format!("N{}", name_tok(&c.names[*x])),
        RD::C(x) => format!("C{}", name_tok(&c.names[*x])),
        RD::S(x) => format!("S{x}"),
        RD::T(x) => format!("T{x}"),
        RD::V(x) => format!("V{}", name_tok(&c.names[*x])),
        RD::R(x) => format!("R{x}"),
    };
    format!("{}/{}", name_tok(&c.names[r.name]), d)
}

// ------------------------------------------------------------------------------------------ mock network

#[derive(Clone, Debug, PartialEq, Eq, PartialOrd, Ord)]
enum Event {
    /// a query received by a live server
    Send(IpAddr, Name, u16),
    /// a connection attempt to an address where nothing listens
    Dead(IpAddr),
}

#[derive(Clone)]
struct MockNet {
    case: Arc<Case>,
    log: Arc<Mutex<Vec<Event>>>,
    rt: TokioRuntimeProvider,
    /// servers answer after this delay (concurrent-clients cases: the lookups must really overlap)
    delay: Duration,
}

#[derive(Clone)]
struct MockConn {
    ip: IpAddr,
    /// the connection the pool asked for is a stream transport (after a truncated UDP answer)
    tcp: bool,
    group: usize,
    net: MockNet,
}

impl DnsHandle for MockConn {
    type Response = Pin<Box<dyn Stream<Item = Result<DnsResponse, NetError>> + Send>>;
    type Runtime = TokioRuntimeProvider;

    fn send(&self, request: DnsRequest) -> Self::Response {
        let this = self.clone();
        Box::pin(once(async move {
            let Some(q) = request.queries.first().cloned() else {
                return Err(NetError::from("no query"));
            };
            this.net.log.lock().unwrap().push(Event::Send(this.ip, q.name.clone(), u16::from(q.query_type)));
            let resp = this.net.case.respond(this.group, &q);
            let msg = this.net.case.message(resp, request.metadata.id, &q, this.tcp);
            // through the wire format once, as a real transport would
            let bytes = msg.to_vec().map_err(NetError::from)?;
            // let other tasks interleave, as a real socket would
            if this.net.delay.is_zero() {
                tokio::task::yield_now().await;
            } else {
                tokio::time::sleep(this.net.delay).await;
            }
            DnsResponse::from_buffer(bytes).map_err(NetError::from)
        }))
    }
}

impl ConnectionProvider for MockNet {
    type Conn = MockConn;
    type FutureConn = Pin<Box<dyn std::future::Future<Output = Result<MockConn, NetError>> + Send>>;
    type RuntimeProvider = TokioRuntimeProvider;

    fn new_connection(&self, ip: IpAddr, config: &ConnectionConfig, _cx: &PoolContext) -> Result<Self::FutureConn, NetError> {
        let this = self.clone();
        let tcp = !matches!(config.protocol, hickory_resolver::config::ProtocolConfig::Udp);
        Ok(Box::pin(async move {
            match this.case.group_of(&ip) {
                Some(group) => Ok(MockConn { ip, tcp, group, net: this }),
                None => {
                    this.log.lock().unwrap().push(Event::Dead(ip));
                    Err(NetError::from(std::io::Error::new(std::io::ErrorKind::ConnectionRefused, "nothing listens here")))
                }
            }
        }))
    }

    fn runtime_provider(&self) -> &TokioRuntimeProvider {
        &self.rt
    }
}

// ------------------------------------------------------------------------------------------ running the recursor

#[derive(Debug, Clone)]
struct QueryOutcome {
    class: String,
    rcode: u16,
    aa: bool,
    /// returned records (message sections, or the payload of a negative / referral error), canonical
    records: Vec<(String, Record)>,
    events: Vec<Event>,
    /// number of resolutions whose events this outcome carries (the first client of a concurrent batch
    /// carries the events of the whole batch, the others none)
    weight: u128,
}

/// The other ways a caller can look at a returned error (`Clone`, `is_nx_domain`, `is_no_records_found`,
/// `into_soa`, `From<RecursorError> for NetError` — what the server and the validating recursor use) must expose
/// exactly the records of the variant itself; returns a description of the first inconsistency.
fn error_views_consistent(e: &RecursorError) -> Option<String> {
    let c = e.clone();
    if c.is_nx_domain() != e.is_nx_domain() || c.is_no_records_found() != e.is_no_records_found() || c.is_timeout() != e.is_timeout() {
        return Some("a clone of the error answers is_nx_domain / is_no_records_found / is_timeout differently".into());
    }
    match e {
        RecursorError::Negative(a) => {
            let soa = c.into_soa();
            let same_soa = match (&soa, &a.soa) {
                (Some(x), Some(y)) => x.name == y.name && x.data == y.data,
                (None, None) => true,
                _ => false,
            };
            if !same_soa {
                return Some("into_soa() differs from the SOA of the Negative variant".into());
            }
            if e.is_nx_domain() != a.nx_domain {
                return Some("is_nx_domain() differs from the nx_domain flag".into());
            }
            match NetError::from(e.clone()) {
                NetError::Dns(DnsError::NoRecordsFound(nr)) => {
                    let au = |x: &Option<Arc<[Record]>>| x.as_ref().map(|v| v.iter().map(canon_record).collect::<Vec<_>>()).unwrap_or_default();
                    if au(&nr.authorities) != au(&a.authorities) {
                        return Some("NetError::from(error) carries other authority records than the Negative variant".into());
                    }
                    let s = |x: &Option<Box<Record<SOA>>>| x.as_ref().map(|r| format!("{}/{}", name_tok(&r.name), r.data.minimum));
                    if s(&nr.soa) != s(&a.soa) {
                        return Some("NetError::from(error) carries another SOA than the Negative variant".into());
                    }
                    if (nr.response_code == ResponseCode::NXDomain) != a.nx_domain {
                        return Some("NetError::from(error) has another response code than the Negative variant".into());
                    }
                    None
                }
                _ => Some("NetError::from(Negative) is not NoRecordsFound".into()),
            }
        }
        _ => {
            if c.into_soa().is_some() && !matches!(e, RecursorError::Net(_)) {
                return Some("into_soa() of an error without records".into());
            }
            None
        }
    }
}

fn classify(res: Result<Message, RecursorError>) -> (String, u16, bool, Vec<(String, Record)>) {
    if let Err(e) = &res {
        if let Some(what) = error_views_consistent(e) {
            return (format!("inconsistent-error({what})"), 0, false, vec![]);
        }
    }
    match res {
        Ok(m) => {
            let mut v = vec![];
            for r in &m.answers {
                v.push(("an".to_string(), r.clone()));
            }
            for r in &m.authorities {
                v.push(("au".to_string(), r.clone()));
            }
            for r in &m.additionals {
                v.push(("ad".to_string(), r.clone()));
            }
            ("ok".into(), u16::from(m.metadata.response_code), m.metadata.authoritative, v)
        }
        Err(RecursorError::Negative(a)) => {
            let mut v = vec![];
            if let Some(s) = &a.soa {
                v.push(("soa".to_string(), Record::from_rdata(s.name.clone(), s.ttl, RData::SOA(s.data.clone()))));
            }
            if let Some(au) = &a.authorities {
                for r in au.iter() {
                    v.push(("au".to_string(), r.clone()));
                }
            }
            let class = if a.nx_domain { "nx" } else { "nodata" };
            (class.into(), 0, false, v)
        }
        Err(RecursorError::ForwardNS(ns)) => {
            let mut v = vec![];
            for f in ns.iter() {
                v.push(("ns".to_string(), f.ns.clone()));
                for g in f.glue.iter() {
                    v.push(("gl".to_string(), g.clone()));
                }
            }
            ("fwd".into(), 0, false, v)
        }
        Err(RecursorError::RecursionLimitExceeded { .. }) | Err(RecursorError::MaxRecordLimitExceeded { .. }) => {
            ("limit".into(), 0, false, vec![])
        }
        Err(RecursorError::Net(NetError::Dns(DnsError::ResponseCode(c)))) => ("err".into(), u16::from(c), false, vec![]),
        Err(_) => ("err".into(), 0, false, vec![]),
    }
}

fn run_case(case: Arc<Case>) -> Result<Vec<QueryOutcome>, String> {
    let rt = tokio::runtime::Builder::new_current_thread().enable_all().build().map_err(|e| e.to_string())?;
    rt.block_on(async move {
        let log = Arc::new(Mutex::new(vec![]));
        let net = MockNet { case: case.clone(), log: log.clone(), rt: TokioRuntimeProvider::default(), delay: if case.conc.is_some() { Duration::from_millis(2) } else { Duration::ZERO } };
        let options = RecursorOptions {
            recursion_limit: case.rl,
            ns_recursion_limit: case.nl,
            deny_server: case.deny_srv.clone(),
            allow_server: case.allow_srv.clone(),
            deny_answers: case.deny_ans.clone(),
            allow_answers: case.allow_ans.clone(),
            ..RecursorOptions::default()
        };
        // every fourth internet runs with DnssecPolicy::ValidationDisabled (security aware, not validating:
        // DO bit in the upstream queries, same resolution logic) instead of SecurityUnaware
        let recursor = if case.validating {
            Recursor::new(
                &case.roots,
                hickory_resolver::recursor::DnssecPolicy::ValidateWithStaticKey(hickory_resolver::recursor::DnssecConfig::default()),
                None,
                options,
                net,
            )
        } else if case.security_aware() {
            Recursor::new(&case.roots, hickory_resolver::recursor::DnssecPolicy::ValidationDisabled, None, options, net)
        } else {
            Recursor::with_options(&case.roots, options, net)
        }
        .map_err(|e| format!("build: {e}"))?;
        let mut out = vec![];
        let (warm, batch) = case.conc.unwrap_or((case.queries.len(), 0));
        let mut k = 0;
        while k < case.queries.len() {
            if k == warm && batch > 0 {
                // the concurrent clients: all resolutions are polled together on this thread
                log.lock().unwrap().clear();
                let futs = case.queries[k..k + batch].iter().map(|(n, t)| {
                    let q = Query::new(case.names[*n].clone(), RecordType::from(*t));
                    recursor.resolve(q, Instant::now(), case.security_aware())
                });
                let res = tokio::time::timeout(Duration::from_secs(40), futures_util::future::join_all(futs)).await;
                let events = log.lock().unwrap().clone();
                let Ok(res) = res else {
                    return Err("hang".to_string());
                };
                for (i, r) in res.into_iter().enumerate() {
                    let (class, rcode, aa, records) = classify(r);
                    let first = i == 0;
                    out.push(QueryOutcome { class, rcode, aa, records, events: if first { events.clone() } else { vec![] }, weight: if first { batch as u128 } else { 0 } });
                }
                k += batch;
                continue;
            }
            let (n, t) = &case.queries[k];
            let q = Query::new(case.names[*n].clone(), RecordType::from(*t));
            log.lock().unwrap().clear();
            let res = tokio::time::timeout(Duration::from_secs(40), recursor.resolve(q, Instant::now(), case.security_aware())).await;
            let events = log.lock().unwrap().clone();
            let Ok(res) = res else {
                return Err("hang".to_string());
            };
            let (class, rcode, aa, records) = classify(res);
            out.push(QueryOutcome { class, rcode, aa, records, events, weight: 1 });
            k += 1;
        }
        Ok(out)
    })
}

/// A resolution that has not returned after this long is a hang (the slowest legitimate case, a server
/// truncating over TCP as well, keeps one lookup busy for the pool's 5 s deadline).
const STUCK: Duration = Duration::from_secs(45);

/// The hung case is written to `<out>/HANG.case` and to stdout as `HANG: <case>`, then this process exits 3;
/// `bin/check` turns that into a VIOLATION whose replay is the hung case (AGENT_GUIDE, "Crashes …").
fn report_hang(line: &str, out_dir: &std::path::Path) -> ! {
    let _ = std::fs::create_dir_all(out_dir);
    let _ = std::fs::write(out_dir.join("HANG.case"), format!("{line}\n"));
    println!("HANG: {line}");
    eprintln!("HANG: no result after {STUCK:?} (written to {}/HANG.case)", out_dir.display());
    use std::io::Write as _;
    let _ = std::io::stdout().flush();
    std::process::exit(3);
}

/// Runs the case on its own thread (bounded stack) with a watchdog: a resolution that does not return — blocked,
/// or busy without ever yielding — is reported with the case.
fn run_with_watchdog(case: Arc<Case>, line: &str, out_dir: &std::path::Path) -> Result<Vec<QueryOutcome>, String> {
    let (tx, rx) = std::sync::mpsc::channel();
    std::thread::Builder::new()
        .stack_size(4 << 20)
        .spawn(move || {
            let r = catch(|| run_case(case));
            let _ = tx.send(match r {
                Ok(r) => r,
                Err(p) => Err(format!("panic {p}")),
            });
        })
        .map_err(|e| e.to_string())?;
    match rx.recv_timeout(STUCK) {
        Ok(Err(e)) if e == "hang" => report_hang(line, out_dir),
        Ok(r) => r,
        Err(_) => report_hang(line, out_dir),
    }
}

// ------------------------------------------------------------------------------------------ oracle (ground truth, model-independent)

fn is_subzone(parent: &Name, child: &Name) -> bool {
    // independent statement of the bailiwick rule: same qualification, parent's labels are a suffix of child's
    if parent.is_fqdn() != child.is_fqdn() {
        return false;
    }
    let p: Vec<Vec<u8>> = parent.iter().map(|l| l.to_ascii_lowercase()).collect();
    let c: Vec<Vec<u8>> = child.iter().map(|l| l.to_ascii_lowercase()).collect();
    p.len() <= c.len() && c[c.len() - p.len()..] == p[..]
}

/// what the configured lists say about an address (independent reference, see `acl::ref_denied`: the address
/// is judged in canonical form — only `::ffff:0:0/96` maps to IPv4 — by the networks of its own family)
fn denied(deny: &[IpNet], allow: &[IpNet], ip: &IpAddr) -> bool {
    acl::ref_denied(allow, deny, ip)
}

fn rec_ip(r: &Rec) -> Option<IpAddr> {
    match r.data {
        RD::A(x) => Some(IpAddr::V4(Ipv4Addr::from(x))),
        RD::Q(x) => Some(IpAddr::V6(Ipv6Addr::from(x))),
        _ => None,
    }
}

struct Truth {
    /// zones legitimately delegated to each address (least fixpoint of bailiwick-respecting referrals from the roots)
    delegated: BTreeMap<IpAddr, BTreeSet<usize>>,
    strict: bool,
    /// memo of `in_some_zone` / `legit_addrs`, cleared whenever `delegated` grows
    memo_zone: std::cell::RefCell<HashMap<(usize, usize), bool>>,
    memo_addrs: std::cell::RefCell<HashMap<usize, BTreeSet<IpAddr>>>,
}

impl Truth {
    /// every (group, query key, response) the simulated internet can produce
    fn responses(c: &Case) -> Vec<(usize, Option<(usize, u16)>, &Resp)> {
        let mut v = vec![];
        for (g, grp) in c.groups.iter().enumerate() {
            v.push((g, None, &grp.default));
        }
        for ((g, n, t), r) in &c.table {
            v.push((*g, Some((*n, *t)), r));
        }
        v
    }

    fn zones_of_group(&self, c: &Case, g: usize) -> BTreeSet<usize> {
        let mut s = BTreeSet::new();
        for ip in &c.groups[g].ips {
            if let Some(z) = self.delegated.get(ip) {
                s.extend(z.iter().copied());
            }
        }
        s
    }

    fn in_some_zone(&self, c: &Case, g: usize, owner: usize) -> bool {
        if let Some(v) = self.memo_zone.borrow().get(&(g, owner)) {
            return *v;
        }
        let v = self.zones_of_group(c, g).iter().any(|z| is_subzone(&c.names[*z], &c.names[owner]));
        self.memo_zone.borrow_mut().insert((g, owner), v);
        v
    }

    fn invalidate(&self) {
        self.memo_zone.borrow_mut().clear();
        self.memo_addrs.borrow_mut().clear();
    }

    /// addresses a name-server name `t` may legitimately be given: address records owned by `t`, or any
    /// answer to an address query for `t`, said by a server inside a zone delegated to it.
    /// `strict = false` additionally admits what `append_ips_from_lookup` admits (answers to an address
    /// query for `t` by a server delegated a zone enclosing `t`, whatever the owner of the record).
    fn legit_addrs(&self, c: &Case, t: usize) -> BTreeSet<IpAddr> {
        if let Some(v) = self.memo_addrs.borrow().get(&t) {
            return v.clone();
        }
        let v = self.legit_addrs_uncached(c, t);
        self.memo_addrs.borrow_mut().insert(t, v.clone());
        v
    }

    fn legit_addrs_uncached(&self, c: &Case, t: usize) -> BTreeSet<IpAddr> {
        let mut s = BTreeSet::new();
        for (g, key, r) in Self::responses(c) {
            let to_t = matches!(key, Some((n, ty)) if c.names[n] == c.names[t] && (ty == 1 || ty == 28));
            for (sec, rec) in r.ans.iter().map(|x| (0, x)).chain(r.auth.iter().map(|x| (1, x))).chain(r.add.iter().map(|x| (2, x))) {
                let Some(ip) = rec_ip(rec) else { continue };
                if !self.strict && to_t && sec == 0 && self.in_some_zone(c, g, t) {
                    s.insert(ip);
                }
                if !self.in_some_zone(c, g, rec.name) {
                    continue;
                }
                if c.names[rec.name] == c.names[t] || (to_t && sec == 0) {
                    s.insert(ip);
                }
            }
        }
        s
    }

    fn compute(c: &Case, strict: bool) -> Truth {
        let root = c.names.iter().position(|n| n.is_root());
        let mut t = Truth { delegated: BTreeMap::new(), strict, memo_zone: Default::default(), memo_addrs: Default::default() };
        let Some(root) = root else { return t };
        for ip in &c.roots {
            t.delegated.entry(*ip).or_default().insert(root);
        }
        loop {
            let mut add: Vec<(IpAddr, usize)> = vec![];
            for (g, key, r) in Self::responses(c) {
                let zones = t.zones_of_group(c, g);
                for z in &zones {
                    for rec in r.all() {
                        let RD::N(target) = rec.data else { continue };
                        if !is_subzone(&c.names[*z], &c.names[rec.name]) {
                            continue;
                        }
                        let mut grants = vec![rec.name];
                        if let Some((qn, 2)) = key {
                            if is_subzone(&c.names[*z], &c.names[qn]) {
                                grants.push(qn);
                            }
                        }
                        for ip in t.legit_addrs(c, target) {
                            if denied(&c.deny_srv, &c.allow_srv, &ip) {
                                continue;
                            }
                            for w in &grants {
                                if !t.delegated.get(&ip).map_or(false, |s| s.contains(w)) {
                                    add.push((ip, *w));
                                }
                            }
                        }
                    }
                }
            }
            if add.is_empty() {
                break;
            }
            for (ip, w) in add {
                t.delegated.entry(ip).or_default().insert(w);
            }
            t.invalidate();
        }
        t
    }

    /// is `(owner, data)` a record some server said while in the bailiwick of a zone delegated to it?
    fn attributable(&self, c: &Case, canon: &str) -> bool {
        for (g, _, r) in Self::responses(c) {
            for rec in r.all() {
                if canon_rec(c, rec) == canon && self.in_some_zone(c, g, rec.name) {
                    return true;
                }
            }
        }
        false
    }
}

/// Every pool the recursor can form *while it respects the bailiwick rule* consists of addresses of a single
/// server group (then the pool's random server order cannot influence the canonical summary).  Computed from
/// the ground truth with the lenient closure (which also admits what `append_ips_from_lookup` admits).
fn homogeneous(c: &Case) -> bool {
    let key_of = |ip: &IpAddr| -> (u8, usize, IpAddr) {
        match c.group_of(ip) {
            Some(g) => (0, g, IpAddr::V4(Ipv4Addr::UNSPECIFIED)),
            None => (1, 0, *ip),
        }
    };
    let rootk: BTreeSet<_> = c.roots.iter().map(key_of).collect();
    if rootk.len() > 1 {
        return false;
    }
    let lenient = Truth::compute(c, false);
    for (g, _, r) in Truth::responses(c) {
        let mut pool = BTreeSet::new();
        for rec in r.all() {
            if let RD::N(t) = rec.data {
                if !lenient.in_some_zone(c, g, rec.name) {
                    continue;
                }
                for ip in lenient.legit_addrs(c, t) {
                    if !denied(&c.deny_srv, &c.allow_srv, &ip) {
                        pool.insert(key_of(&ip));
                    }
                }
            }
        }
        // unreachable addresses: a pool may consist of several of them (all are tried), but not mixed with live ones
        let live = pool.iter().filter(|k| k.0 == 0).count();
        let dead = pool.iter().filter(|k| k.0 == 1).count();
        if live > 1 || (live == 1 && dead > 0) {
            if std::env::var_os("C19_DEBUG").is_some() {
                eprintln!("heterogeneous pool {pool:?} from {}", resp_tok(r));
            }
            return false;
        }
    }
    true
}

/// Closed-form bound on the number of pool-level lookups of one resolution, proved in
/// `Proofs/C19.lean` (`queries_bounded`):  `B(L, N) = (MAX_CNAME_LOOKUPS + 2) * (1 + L * (1 + 2 N))^(L + 1)`
/// with `L = ns_recursion_limit`, `N` = NS records per response; saturating.
pub fn lookup_bound(nl: u32, ns: u128) -> u128 {
    let base = 1u128.saturating_add((nl as u128).saturating_mul(1 + 2 * ns));
    let mut p = 1u128;
    for _ in 0..=nl {
        p = p.saturating_mul(base);
    }
    66u128.saturating_mul(p)
}

/// `(N, R)`: most NS records / most records in any response the simulated internet can give
fn case_params(c: &Case) -> (u128, u128) {
    let mut ns = 0usize;
    let mut recs = 0usize;
    for (_, _, r) in Truth::responses(c) {
        ns = ns.max(r.all().filter(|x| matches!(x.data, RD::N(_))).count());
        recs = recs.max(r.all().count());
    }
    (ns as u128, recs as u128)
}

/// `Pmax` of `sends_bounded`: entries of a pool = root hints, or what one NS response can yield
pub fn pool_bound(roots: u128, n: u128, r: u128) -> u128 {
    roots
        .saturating_add(n.saturating_mul(r.saturating_add(2u128.saturating_mul(r).saturating_mul(n))))
        .saturating_add(2u128.saturating_mul(r).saturating_mul(n))
}

// ------------------------------------------------------------------------------------------ exec

fn fmt_outcome(c: &Case, o: &QueryOutcome) -> String {
    let mut recs: Vec<String> = o.records.iter().map(|(s, r)| format!("{s}:{}", canon_record(r))).collect();
    recs.sort();
    recs.dedup();
    let mut sends = BTreeSet::new();
    let mut dead = BTreeSet::new();
    for e in &o.events {
        match e {
            Event::Send(ip, n, t) => {
                let g = c.group_of(ip).map(|g| g.to_string()).unwrap_or("?".into());
                sends.insert(format!("{g}.{}.{t}", name_tok(n)));
            }
            Event::Dead(ip) => {
                dead.insert(ip_tok(ip));
            }
        }
    }
    format!(
        "{} {} {} [{}] T={} X={}",
        o.class,
        o.rcode,
        b(o.aa),
        recs.join(","),
        list_tok(&sends.into_iter().collect::<Vec<_>>(), ",", |s| s.clone()),
        list_tok(&dead.into_iter().collect::<Vec<_>>(), ",", |s| s.clone()),
    )
}

/// class, rcode, AA and records only — what is deterministic for a client of a concurrent batch
fn fmt_short(o: &QueryOutcome) -> String {
    let mut recs: Vec<String> = o.records.iter().map(|(s, r)| format!("{s}:{}", canon_record(r))).collect();
    recs.sort();
    recs.dedup();
    format!("{} {} {} [{}]", o.class, o.rcode, b(o.aa), recs.join(","))
}

pub fn exec(line: &str, rec: &mut Recorder) {
    let t: Vec<&str> = line.split_whitespace().collect();
    // if the code under test kills the process (stack overflow, abort) bin/check reports this case
    rec.announce(line);
    match t.first() {
        Some(&"res") | Some(&"conc") | Some(&"val") => exec_res(line, &t, rec),
        Some(&"stub") => stub::exec(line, &t, rec),
        Some(&"acl") => acl::exec(line, &t, rec),
        _ => rec.stat("skipped.unparsable-case"),
    }
}

fn exec_res(line: &str, t: &[&str], rec: &mut Recorder) {
    let Some(case) = Case::parse(t) else {
        rec.stat("skipped.unparsable-case");
        return;
    };
    let case = Arc::new(case);
    // records with TTL 0 make name-server pools expire at once (NameServerPool::ttl_expired); the model has no
    // pool expiry (checks/C19.json), so such internets are implementation-vs-oracle only
    let ttl0 = Truth::responses(&case).iter().any(|(_, _, r)| r.all().any(|x| x.ttl == 0 || matches!(x.data, RD::S(0))));
    // a server truncating over TCP too keeps the pool busy until its wall-clock deadline: no model side
    let homog = homogeneous(&case) && !ttl0 && !case.truncates_always() && !case.validating;
    if ttl0 {
        rec.stat("ttl-zero-records(impl-vs-oracle only)");
    }
    let out_dir = rec.out_dir.clone();
    let res = run_with_watchdog(case.clone(), line, &out_dir);
    let outs = match res {
        Ok(o) => o,
        Err(e) => {
            let idx = rec.case(line.to_string(), e.clone());
            rec.fail(idx, format!("resolution did not end with an answer or an error: {e}"), "");
            return;
        }
    };
    let out_line = match case.conc {
        None => outs.iter().map(|o| fmt_outcome(&case, o)).collect::<Vec<_>>().join(" | "),
        Some((w, b_)) => outs
            .iter()
            .enumerate()
            .map(|(k, o)| {
                // a client that gave up (depth limit, unreachable / refusing servers) leaves a partial cache state
                // that depends on the interleaving: the probes then have no deterministic model side
                let unstable = outs[w..(w + b_).min(outs.len())].iter().any(|x| x.class == "err" || x.class == "limit");
                // with lowered limits a client's outcome depends on what the other clients have cached meanwhile
                let tight = case.nl < 24 || case.rl < 24;
                if k < w {
                    fmt_outcome(&case, o)
                } else if tight {
                    (if k < w + b_ { "B:~" } else { "P:~" }).to_string()
                } else if k < w + b_ {
                    format!("B:{}", fmt_short(o))
                } else if unstable {
                    "P:~".to_string()
                } else {
                    format!("P:{}", fmt_short(o))
                }
            })
            .collect::<Vec<_>>()
            .join(" | "),
    };
    if std::env::var_os("C19_DEBUG").is_some() {
        eprintln!("sends per query: {:?}", outs.iter().map(|o| o.events.len()).collect::<Vec<_>>());
        eprintln!("homog={homog} {out_line}");
    }
    let idx = if homog {
        rec.case(line.to_string(), out_line)
    } else {
        rec.impl_only += 1;
        if !ttl0 && !case.validating {
            rec.stat("pools.heterogeneous(impl-vs-oracle only)");
        }
        // keep the observed summary in the stats sample but give the model no side to compare
        rec.case(line.to_string(), "~".to_string())
    };
    rec.stat(if case.validating { "op.val" } else if case.conc.is_some() { "op.conc" } else { "op.res" });
    rec.stat(if case.validating { "policy.ValidateWithStaticKey" } else if case.security_aware() { "policy.ValidationDisabled" } else { "policy.SecurityUnaware" });
    if Truth::responses(&case).iter().any(|(_, _, r)| r.tc > 0) {
        rec.stat("internet.truncating-servers");
    }
    if case.queries.iter().any(|(n, _)| !case.names[*n].is_fqdn()) {
        rec.stat("query.not-fully-qualified");
    }
    if let Some((_, b_)) = case.conc {
        rec.stat(&format!("conc.clients.{b_}"));
        let (lo, hi) = (case.conc.unwrap().0, case.conc.unwrap().0 + b_);
        let same = case.queries[lo..hi].iter().all(|q| *q == case.queries[lo]);
        rec.stat(if same { "conc.identical-queries" } else { "conc.different-queries" });
        if !case.deny_ans.is_empty() {
            rec.stat("conc.answer-filter-set");
        }
        // request de-duplication observed: fewer final-query sends than identical clients
        if same && outs.len() > lo {
            let (qn, qt) = case.queries[lo];
            let sends = outs[lo].events.iter().filter(|e| matches!(e, Event::Send(_, n, t) if *n == case.names[qn] && *t == qt)).count();
            if sends > 0 && sends < b_ {
                rec.stat("conc.de-duplicated-lookup-observed");
            }
        }
    }
    rec.stat(&format!("queries.{}", case.queries.len()));
    rec.stat(&format!("limits.nl{}", if case.nl < 4 { "<4" } else if case.nl < 12 { "<12" } else { ">=12" }));

    // ---- the property's oracle, from the ground truth only
    let truth = Truth::compute(&case, true);
    // `sends_bounded` (Proofs/C19.lean): sends <= Pmax(roots, N, R) * B(ns_recursion_limit, N)
    let (ns, recs) = case_params(&case);
    let bound = lookup_bound(case.nl as u32, ns).saturating_mul(pool_bound(case.roots.len() as u128, ns, recs));
    let mut any_send = false;
    // addresses contacted although nobody legitimately made them name servers, through the
    // foreign-owner shape of the known finding (consequences of the same root cause get the same class)
    let mut flagged: BTreeSet<IpAddr> = BTreeSet::new();
    for (k, o) in outs.iter().enumerate() {
        if o.class.starts_with("inconsistent-error") {
            rec.fail(idx, format!("query {k}: {}", o.class), "");
            rec.stat("answer.inconsistent-error");
        } else {
            rec.stat(&format!("answer.{}", o.class));
        }
        // (1) contacted addresses
        let mut n_sends: u128 = 0;
        for e in &o.events {
            let ip = match e {
                Event::Send(ip, _, _) => {
                    n_sends += 1;
                    any_send = true;
                    ip
                }
                Event::Dead(ip) => ip,
            };
            let is_root = case.roots.contains(ip);
            if !is_root && denied(&case.deny_srv, &case.allow_srv, ip) {
                rec.fail(idx, format!("query {k}: contacted {} which the name-server filter denies", ip_tok(ip)), "");
            }
            if is_root {
                continue;
            }
            let ok = match e {
                // a query for `qn` may only go to a server that was delegated a zone enclosing `qn`
                Event::Send(_, qn, _) => truth
                    .delegated
                    .get(ip)
                    .map_or(false, |zs| zs.iter().any(|z| is_subzone(&case.names[*z], qn))),
                Event::Dead(_) => truth.delegated.contains_key(ip),
            };
            if !ok {
                let class = class_ns_addr(&case, ip);
                if class == CLASS_NSADDR {
                    flagged.insert(*ip);
                }
                rec.fail(
                    idx,
                    format!(
                        "query {k}: contacted {} ({}) although no bailiwick-respecting delegation chain from the root hints makes it a name server for that name",
                        ip_tok(ip),
                        match e {
                            Event::Send(_, qn, t) => format!("{} type {t}", name_tok(qn)),
                            Event::Dead(_) => "unreachable".into(),
                        }
                    ),
                    class,
                );
            }
        }
        // (2) returned records
        for (sec, r) in &o.records {
            let canon = canon_record(r);
            if !truth.attributable(&case, &canon) {
                let said_by_flagged = Truth::responses(&case).iter().any(|(g, _, resp)| {
                    case.groups[*g].ips.iter().any(|ip| flagged.contains(ip)) && resp.all().any(|x| canon_rec(&case, x) == canon)
                });
                // (error payloads are filtered since fix 030930c: no known class for them any more)
                let class = if said_by_flagged { CLASS_NSADDR } else { "" };
                rec.fail(
                    idx,
                    format!("query {k}: returned record {sec}:{canon} whose owner is outside every zone delegated to a server that said it ({})", o.class),
                    class,
                );
            }
            if let Some(ip) = r.data.ip_addr() {
                if denied(&case.deny_ans, &case.allow_ans, &ip) {
                    // (negative outcomes are filtered too since fix a600360: no known class any more)
                    rec.fail(idx, format!("query {k}: returned address {} which the answer filter denies ({})", ip_tok(&ip), o.class), "");
                }
            }
        }
        // (3) bounded work.  Besides the proved (astronomic) bound: one (server, query) pair is asked again only
        // when another lookup needs it — an envelope linear in the configured limits (validated, not proved)
        let mut per_pair: HashMap<(IpAddr, String, u16), u128> = HashMap::new();
        for e in &o.events {
            if let Event::Send(ip, n, t) = e {
                *per_pair.entry((*ip, name_tok(n), *t)).or_default() += 1;
            }
        }
        let envelope = 4 * (case.nl as u128 + case.rl as u128 + 64 + 8) * o.weight.max(1);
        if let Some(((ip, n, t), cnt)) = per_pair.iter().max_by_key(|(_, c)| **c) {
            if *cnt > envelope {
                let class = if case.truncates_always() { CLASS_TRUNC } else { "" };
                rec.fail(
                    idx,
                    format!("query {k}: {} was sent the query {n} type {t} {cnt} times in one resolution (> {envelope} = 4 x (ns_recursion_limit + recursion_limit + MAX_CNAME_LOOKUPS + 8)): the number of upstream queries is bounded by wall-clock time only", ip_tok(ip)),
                    class,
                );
            }
        }
        if n_sends > bound.saturating_mul(o.weight.max(1)) {
            rec.fail(idx, format!("query {k}: {n_sends} upstream queries > proved bound {bound}"), "");
        }
        rec.stat(&format!("sends.{}", match n_sends { 0 => "0", 1..=3 => "1-3", 4..=9 => "4-9", 10..=29 => "10-29", _ => "30+" }));
    }
    // which paths of the recursor the case went through (from the trace only)
    let ns_targets: BTreeSet<usize> = Truth::responses(&case)
        .iter()
        .flat_map(|(_, _, r)| r.all().filter_map(|x| if let RD::N(t) = x.data { Some(t) } else { None }).collect::<Vec<_>>())
        .collect();
    for (k, o) in outs.iter().enumerate() {
        let (qn, qt) = case.queries[k];
        let glueless = o.events.iter().any(|e| match e {
            Event::Send(_, n, t) => (*t == 1 || *t == 28) && !(case.names[qn] == *n && qt == *t) && ns_targets.iter().any(|x| case.names[*x] == *n),
            _ => false,
        });
        if glueless {
            rec.stat("path.glueless-ns-address-lookup");
        }
        let distinct_names: BTreeSet<String> = o
            .events
            .iter()
            .filter_map(|e| match e {
                Event::Send(_, n, t) if *t == qt && qt != 2 => Some(name_tok(n)),
                _ => None,
            })
            .collect();
        if distinct_names.len() > 1 {
            rec.stat("path.cname-chase-upstream");
        }
        if o.events.is_empty() && k > 0 && o.weight == 1 {
            rec.stat(if o.class == "ok" { "path.served-from-cache.positive" } else { "path.served-from-cache.negative-or-error" });
        }
        if o.events.iter().any(|e| matches!(e, Event::Dead(_))) {
            rec.stat("path.unreachable-server-tried");
        }
        let groups: BTreeSet<usize> = o.events.iter().filter_map(|e| match e { Event::Send(ip, _, _) => case.group_of(ip), _ => None }).collect();
        rec.stat(&format!("groups-contacted.{}", groups.len().min(6)));
    }
    if !case.deny_srv.is_empty() {
        rec.stat("filters.name-server-filter-set");
    }
    if !case.deny_ans.is_empty() {
        rec.stat("filters.answer-filter-set");
    }
    // non-trivial: the recursor had to follow at least one delegation and the internet contains at least one
    // record that is out of bailiwick for the server saying it, or a cycle / lame delegation made it fail
    let hostile = Truth::responses(&case).iter().any(|(g, _, r)| r.all().any(|x| !truth.in_some_zone(&case, *g, x.name)));
    if any_send && (hostile || outs.iter().any(|o| o.class != "ok")) {
        rec.nontrivial(idx);
    }
    if hostile {
        rec.stat("internet.hostile-records");
    }
}

const CLASS_NSADDR: &str = "C19.GluelessNsAddressOwnerUnchecked";
const CLASS_TRUNC: &str = "C19.TruncatedStreamAnswerRetriedUnbounded";

/// Narrow class of the "contacted an address nobody legitimately made a name server" failure: the internet
/// contains a response to an address query `(T, A|AAAA)` whose *answer section* carries this address under an
/// owner name other than `T` — the shape `append_ips_from_lookup` accepts (it takes every address in the answer
/// section of its unfiltered pool lookups, whatever the owner).  Mirrored by `Model.Recursor.foreignOwnerAnswer`.
fn class_ns_addr(c: &Case, ip: &IpAddr) -> &'static str {
    for (_, key, r) in Truth::responses(c) {
        let Some((qn, ty)) = key else { continue };
        if ty != 1 && ty != 28 {
            continue;
        }
        for rec in &r.ans {
            if rec_ip(rec).as_ref() == Some(ip) && c.names[rec.name] != c.names[qn] {
                return CLASS_NSADDR;
            }
        }
    }
    ""
}

pub fn run(o: &Opts, rec: &mut Recorder) {
    rec.rule = "the recursor sent at least one upstream query and the simulated internet contains a record that is out of bailiwick for the server saying it, or the resolution ended in an error (cycle, lame delegation, limit)".into();
    for l in o.pre_lines.clone() {
        exec(&l, rec);
        rec.corpus_cases += 1;
    }
    if let Some(dir) = std::env::var_os("C19_DUMP_SCENARIOS") {
        for (name, c) in gen::scenarios() {
            let path = std::path::Path::new(&dir).join(format!("{name}.case"));
            std::fs::write(path, format!("# hand-built adversarial internet: {name}\n{}\n", c.line())).expect("dump");
        }
    }
    let mut r = Rng::new(o.seed);
    let n = o.n(600, 20000);
    for i in 0..n {
        let line = gen::case(&mut r, i);
        exec(&line, rec);
    }
    let n = o.n(150, 4000);
    for _ in 0..n {
        let line = stub::gen(&mut r);
        exec(&line, rec);
    }
    // the address filters: AccessControlSet::denied directly, then end to end through the recursor
    acl::run(o, &mut r, rec);
    let n = o.n(200, 5000);
    for _ in 0..n {
        let line = gen::acl_world(&mut r).line();
        exec(&line, rec);
    }
    // two-step histories: a cached NS-host address inside a deny_server network (all 128 variants in quick)
    if !o.replay_only {
        for v in 0..128u32 {
            exec(&gen::cached_ns_world(v).line(), rec);
        }
    }
    // alias graphs with fan-out (termination clause: the CNAME budget bounds the work, not the number of names)
    let n = o.n(120, 3000);
    for i in 0..n {
        let c = gen::random_dag(&mut r, o.thorough() && i % 3 == 0);
        exec(&c.line(), rec);
    }
    // the DNSSEC-validating mode over the same (unsigned) internets: implementation-vs-oracle only — which servers
    // it talks to and what it returns is still subject to the filters and the bailiwick rule
    let n = o.n(60, 1500);
    for i in 0..n {
        let mut c = if i % 3 == 0 { gen::acl_world(&mut r) } else { gen::random_world(&mut r) };
        c.validating = true;
        exec(&c.line(), rec);
    }
    // concurrent clients (servers answer after 2 ms of real time, so these are the slow cases)
    let n = o.n(120, 2500);
    for _ in 0..n {
        let line = gen::conc_world(&mut r).line();
        exec(&line, rec);
    }
}

pub mod gen {
    //! Simulated internets: a small zone tree served honestly (RFC 1034 §4.3.2 answers, referrals with or
    //! without glue) plus hostile additions; flattened to the `(group, query) → response` table of a case.
    use super::*;

    #[derive(Clone, Debug)]
    pub struct Zone {
        pub name: usize,
        pub group: usize,
        /// NS host names
        pub ns: Vec<usize>,
        /// does the parent attach address records for the NS hosts to its referral?
        pub glue: bool,
        /// authoritative data (NS/SOA at the apex are added by `finish`)
        pub records: Vec<Rec>,
    }

    #[derive(Clone, Debug)]
    pub struct Extra {
        pub group: usize,
        /// restrict to one query name / type (None = every non-REFUSED response of the group)
        pub qname: Option<usize>,
        pub qtype: Option<u16>,
        /// 0 answer, 1 authority, 2 additional
        pub section: u8,
        pub rec: Rec,
    }

    #[derive(Clone, Debug, Default)]
    pub struct World {
        pub names: Vec<Name>,
        pub zones: Vec<Zone>,
        pub group_ips: Vec<Vec<IpAddr>>,
        /// groups that answer REFUSED / SERVFAIL / an upward referral to everything (lame)
        pub lame: BTreeMap<usize, u8>,
        pub extras: Vec<Extra>,
        pub ttl: u32,
        /// TTL of the address records `finish` creates for NS hosts (glue); 0 = same as `ttl`
        pub glue_ttl: u32,
    }

    pub fn v4(a: u8, b_: u8, c: u8, d: u8) -> IpAddr {
        IpAddr::V4(Ipv4Addr::new(a, b_, c, d))
    }

    impl World {
        pub fn new() -> Self {
            let mut w = World { ttl: 3600, ..Default::default() };
            w.intern(".");
            w
        }
        pub fn intern(&mut self, s: &str) -> usize {
            let n = Name::from_ascii(s).expect("name");
            self.intern_name(n)
        }
        pub fn intern_name(&mut self, n: Name) -> usize {
            if let Some(i) = self.names.iter().position(|x| x.eq_case(&n)) {
                return i;
            }
            self.names.push(n);
            self.names.len() - 1
        }
        pub fn group(&mut self, ips: Vec<IpAddr>) -> usize {
            self.group_ips.push(ips);
            self.group_ips.len() - 1
        }
        /// standard addresses of group k: 44.0.k.1, 44.0.k.2 / 2a00::k:1
        pub fn std_group(&mut self, n_ips: usize) -> usize {
            let k = self.group_ips.len() as u8;
            let ips = (0..n_ips).map(|i| v4(44, 0, k, 1 + i as u8)).collect();
            self.group(ips)
        }
        pub fn zone(&mut self, name: &str, group: usize, ns: &[&str], glue: bool) -> usize {
            let name = self.intern(name);
            let ns = ns.iter().map(|h| self.intern(h)).collect();
            self.zones.push(Zone { name, group, ns, glue, records: vec![] });
            self.zones.len() - 1
        }
        pub fn rec(&mut self, owner: &str, data: RD) -> Rec {
            Rec { name: self.intern(owner), ttl: self.ttl, data }
        }
        pub fn a(&mut self, owner: &str, ip: IpAddr) -> Rec {
            let d = match ip {
                IpAddr::V4(x) => RD::A(u32::from(x)),
                IpAddr::V6(x) => RD::Q(u128::from(x)),
            };
            self.rec(owner, d)
        }
        pub fn cname(&mut self, owner: &str, target: &str) -> Rec {
            let t = self.intern(target);
            self.rec(owner, RD::C(t))
        }
        pub fn nsrec(&mut self, owner: &str, target: &str) -> Rec {
            let t = self.intern(target);
            self.rec(owner, RD::N(t))
        }
        /// deepest zone (index) whose name encloses `n`
        pub fn zone_of(&self, n: usize) -> Option<usize> {
            let mut best: Option<usize> = None;
            for (i, z) in self.zones.iter().enumerate() {
                if is_subzone(&self.names[z.name], &self.names[n]) {
                    if best.map_or(true, |b| self.names[self.zones[b].name].num_labels() < self.names[z.name].num_labels()) {
                        best = Some(i);
                    }
                }
            }
            best
        }
        pub fn add(&mut self, zone: usize, r: Rec) {
            self.zones[zone].records.push(r);
        }
        /// put `r` into the deepest zone enclosing its owner
        pub fn add_auto(&mut self, r: Rec) {
            if let Some(z) = self.zone_of(r.name) {
                self.zones[z].records.push(r);
            }
        }
        /// apex NS + SOA, and address records for NS hosts (host i of a zone → address i of the zone's group)
        pub fn finish(&mut self) {
            for zi in 0..self.zones.len() {
                let z = self.zones[zi].clone();
                let ttl = self.ttl;
                for h in &z.ns {
                    self.zones[zi].records.push(Rec { name: z.name, ttl, data: RD::N(*h) });
                }
                self.zones[zi].records.push(Rec { name: z.name, ttl, data: RD::S(ttl) });
                let ips = self.group_ips[z.group].clone();
                for (i, h) in z.ns.iter().enumerate() {
                    // each host gets one address; the last host takes the remaining ones
                    let mine: Vec<IpAddr> = if z.ns.len() == 1 {
                        ips.clone()
                    } else if i + 1 == z.ns.len() {
                        ips.iter().skip(i).cloned().collect()
                    } else {
                        ips.iter().skip(i).take(1).cloned().collect()
                    };
                    for ip in mine {
                        let d = match ip {
                            IpAddr::V4(x) => RD::A(u32::from(x)),
                            IpAddr::V6(x) => RD::Q(u128::from(x)),
                        };
                        let r = Rec { name: *h, ttl: if self.glue_ttl > 0 { self.glue_ttl } else { ttl }, data: d };
                        if let Some(hz) = self.zone_of(*h) {
                            if !self.zones[hz].records.contains(&r) {
                                self.zones[hz].records.push(r);
                            }
                        }
                    }
                }
            }
        }

        fn rtype(d: &RD) -> u16 {
            match d {
                RD::A(_) => 1,
                RD::Q(_) => 28,
                RD::N(_) => 2,
                RD::C(_) => 5,
                RD::S(_) => 6,
                RD::T(_) => 16,
                RD::V(_) => 33,
                RD::R(_) => 46,
            }
        }

        /// addresses known anywhere in the world for host `h` (used as glue)
        fn host_addrs(&self, h: usize) -> Vec<Rec> {
            let mut v = vec![];
            for z in &self.zones {
                for r in &z.records {
                    if self.names[r.name] == self.names[h] && matches!(r.data, RD::A(_) | RD::Q(_)) && !v.contains(r) {
                        v.push(r.clone());
                    }
                }
            }
            v
        }

        /// what an honest server of `group` answers
        pub fn honest(&self, group: usize, n: usize, t: u16) -> Resp {
            let refused = Resp { rcode: 5, ..Default::default() };
            if let Some(kind) = self.lame.get(&group) {
                return match kind {
                    0 => refused,
                    1 => Resp { rcode: 2, ..Default::default() },
                    _ => {
                        // upward referral to the root
                        let root = &self.zones[0];
                        Resp {
                            rcode: 0,
                            aa: false,
                            tc: 0,
                            ans: vec![],
                            auth: root.ns.iter().map(|h| Rec { name: root.name, ttl: self.ttl, data: RD::N(*h) }).collect(),
                            add: vec![],
                        }
                    }
                };
            }
            let qn = &self.names[n];
            // deepest zone served by this group that encloses n
            let mut best: Option<&Zone> = None;
            for z in self.zones.iter().filter(|z| z.group == group) {
                if is_subzone(&self.names[z.name], qn)
                    && best.map_or(true, |b| self.names[b.name].num_labels() < self.names[z.name].num_labels())
                {
                    best = Some(z);
                }
            }
            let Some(z) = best else { return refused };
            let zname = &self.names[z.name];
            // shallowest cut below z that encloses n and is not served here
            let mut cut: Option<&Zone> = None;
            for c in &self.zones {
                let cn = &self.names[c.name];
                if cn != zname && is_subzone(zname, cn) && is_subzone(cn, qn) && c.group != group {
                    if cut.map_or(true, |b| self.names[b.name].num_labels() > cn.num_labels()) {
                        cut = Some(c);
                    }
                }
            }
            let soa = Rec { name: z.name, ttl: self.ttl, data: RD::S(self.ttl) };
            if let Some(c) = cut {
                if t == 43 && self.names[c.name] == *qn {
                    return Resp { rcode: 0, aa: true, tc: 0, ans: vec![], auth: vec![soa], add: vec![] };
                }
                let auth: Vec<Rec> = c.ns.iter().map(|h| Rec { name: c.name, ttl: self.ttl, data: RD::N(*h) }).collect();
                let mut add = vec![];
                if c.glue {
                    for h in &c.ns {
                        add.extend(self.host_addrs(*h));
                    }
                }
                return Resp { rcode: 0, aa: false, tc: 0, ans: vec![], auth, add };
            }
            let at = |name: &Name| -> Vec<&Rec> { z.records.iter().filter(|r| self.names[r.name] == *name).collect() };
            let here = at(qn);
            let cn: Vec<&Rec> = here.iter().copied().filter(|r| matches!(r.data, RD::C(_))).collect();
            if !cn.is_empty() && t != 5 && t != 255 {
                // every CNAME record at the owner (a hostile zone may hold several), then the in-zone chain of the first
                let mut ans: Vec<Rec> = cn.iter().map(|r| (*r).clone()).collect();
                let mut cur = cn[0].clone();
                for _ in 0..4 {
                    let RD::C(tn) = cur.data else { break };
                    let tname = self.names[tn].clone();
                    if !is_subzone(zname, &tname) {
                        break;
                    }
                    let recs = at(&tname);
                    let ty: Vec<&Rec> = recs.iter().copied().filter(|r| Self::rtype(&r.data) == t).collect();
                    if !ty.is_empty() {
                        ans.extend(ty.into_iter().cloned());
                        break;
                    }
                    match recs.iter().copied().find(|r| matches!(r.data, RD::C(_))) {
                        Some(next) if !ans.contains(next) => {
                            ans.push(next.clone());
                            cur = next.clone();
                        }
                        _ => break,
                    }
                }
                return Resp { rcode: 0, aa: true, tc: 0, ans, auth: vec![], add: vec![] };
            }
            let ty: Vec<Rec> = here.iter().copied().filter(|r| t == 255 || Self::rtype(&r.data) == t).cloned().collect();
            if !ty.is_empty() {
                let mut add = vec![];
                if t == 2 {
                    for r in &ty {
                        if let RD::N(h) = r.data {
                            for a in z.records.iter().filter(|a| self.names[a.name] == self.names[h] && matches!(a.data, RD::A(_) | RD::Q(_))) {
                                add.push(a.clone());
                            }
                        }
                    }
                }
                return Resp { rcode: 0, aa: true, tc: 0, ans: ty, auth: vec![], add };
            }
            let exists = z.records.iter().any(|r| is_subzone(qn, &self.names[r.name]));
            if exists {
                Resp { rcode: 0, aa: true, tc: 0, ans: vec![], auth: vec![soa], add: vec![] }
            } else {
                Resp { rcode: 3, aa: true, tc: 0, ans: vec![], auth: vec![soa], add: vec![] }
            }
        }

        /// flatten to a case
        pub fn case(&mut self, roots: Vec<IpAddr>, queries: Vec<(usize, u16)>, rl: u8, nl: u8) -> Case {
            // candidate query names: every suffix of every name
            let base = self.names.clone();
            for n in base {
                let k = n.num_labels() as usize;
                for i in 0..=k {
                    let s = n.trim_to(i);
                    self.intern_name(s);
                }
            }
            let mut types: BTreeSet<u16> = [1u16, 28, 2].into_iter().collect();
            for (_, t) in &queries {
                types.insert(*t);
            }
            let refused = Resp { rcode: 5, ..Default::default() };
            let mut table = BTreeMap::new();
            for g in 0..self.group_ips.len() {
                for n in 0..self.names.len() {
                    for t in &types {
                        let mut r = self.honest(g, n, *t);
                        if r.rcode == 0 || r.rcode == 3 {
                            for e in self.extras.iter().filter(|e| e.group == g) {
                                if e.qname.map_or(true, |q| self.names[q] == self.names[n]) && e.qtype.map_or(true, |q| q == *t) {
                                    match e.section {
                                        0 => r.ans.push(e.rec.clone()),
                                        1 => r.auth.push(e.rec.clone()),
                                        _ => r.add.push(e.rec.clone()),
                                    }
                                }
                            }
                        }
                        if r != refused {
                            table.insert((g, n, *t), r);
                        }
                    }
                }
            }
            Case {
                rl,
                nl,
                roots,
                deny_srv: vec![],
                allow_srv: vec![],
                deny_ans: vec![],
                allow_ans: vec![],
                names: self.names.clone(),
                groups: self.group_ips.iter().map(|ips| Group { ips: ips.clone(), default: refused.clone() }).collect(),
                table,
                queries,
                conc: None,
                validating: false,
            }
        }
    }

    /// root + com (+ net) with in-zone NS hosts and glue; returns (world, root group, com zone idx)
    pub fn base(two_ips: bool) -> World {
        let mut w = World::new();
        let k = if two_ips { 2 } else { 1 };
        let g0 = w.std_group(k);
        w.zone(".", g0, &["a.root-servers.net."], true);
        let g1 = w.std_group(k);
        w.zone("com.", g1, &["a.gtld.com.", "b.gtld.com."][..k], true);
        let g2 = w.std_group(1);
        w.zone("net.", g2, &["a.gtld.net."], true);
        w
    }

    pub fn net32(ip: IpAddr) -> IpNet {
        IpNet::new(ip, if ip.is_ipv4() { 32 } else { 128 }).unwrap()
    }

    /// the hand-built adversarial internets (classic attacks); also written to corpus/C19/
    pub fn scenarios() -> Vec<(&'static str, Case)> {
        let mut out = vec![];
        let evil = v4(66, 6, 6, 6);

        // 1. Kaminsky-style: the attacker.com servers add `www.victim.com A evil` (additional) and a
        //    `victim.com NS ns.attacker.com` (authority) to every answer
        {
            let mut w = base(true);
            let gv = w.std_group(2);
            w.zone("victim.com.", gv, &["ns1.victim.com.", "ns2.victim.com."], true);
            let ga = w.std_group(2);
            w.zone("attacker.com.", ga, &["ns1.attacker.com.", "ns2.attacker.com."], true);
            let r = w.a("www.victim.com.", v4(44, 1, 1, 1));
            w.add_auto(r);
            let r = w.a("www.attacker.com.", v4(44, 2, 2, 2));
            w.add_auto(r);
            w.finish();
            let inj = w.a("www.victim.com.", evil);
            w.extras.push(Extra { group: ga, qname: None, qtype: None, section: 2, rec: inj.clone() });
            let qa = w.intern("www.attacker.com.");
            w.extras.push(Extra { group: ga, qname: Some(qa), qtype: Some(1), section: 0, rec: inj });
            let inj = w.nsrec("victim.com.", "ns1.attacker.com.");
            w.extras.push(Extra { group: ga, qname: None, qtype: None, section: 1, rec: inj });
            let q1 = w.intern("www.attacker.com.");
            let q2 = w.intern("www.victim.com.");
            let roots = w.group_ips[0].clone();
            out.push(("kaminsky-additional-injection", w.case(roots, vec![(q1, 1), (q2, 1), (q2, 1)], 24, 24)));
        }
        // 2. an example.com server injects a delegation of com. (NS + glue) into its answers
        {
            let mut w = base(false);
            let ge = w.std_group(1);
            w.zone("example.com.", ge, &["ns.example.com."], true);
            let go = w.std_group(1);
            w.zone("other.com.", go, &["ns.other.com."], true);
            let r = w.a("www.example.com.", v4(44, 1, 1, 1));
            w.add_auto(r);
            let r = w.a("www.other.com.", v4(44, 1, 1, 2));
            w.add_auto(r);
            w.finish();
            let inj = w.nsrec("com.", "ns.example.com.");
            w.extras.push(Extra { group: ge, qname: None, qtype: None, section: 1, rec: inj });
            let inj = w.a("a.gtld.com.", w.group_ips[ge][0]);
            w.extras.push(Extra { group: ge, qname: None, qtype: None, section: 2, rec: inj });
            let inj = w.a("www.other.com.", evil);
            w.extras.push(Extra { group: ge, qname: None, qtype: None, section: 2, rec: inj });
            let q1 = w.intern("www.example.com.");
            let q2 = w.intern("www.other.com.");
            let q3 = w.intern("com.");
            let roots = w.group_ips[0].clone();
            out.push(("ns-for-com-injected-by-example-com", w.case(roots, vec![(q1, 1), (q2, 1), (q3, 2)], 24, 24)));
        }
        // 3. sibling glue: a.example.com NS ns.b.example.com, glue supplied by the example.com servers
        {
            let mut w = base(false);
            let ge = w.std_group(1);
            w.zone("example.com.", ge, &["ns.example.com."], true);
            let gb = w.std_group(2);
            w.zone("b.example.com.", gb, &["ns.b.example.com."], true);
            w.zone("a.example.com.", gb, &["ns.b.example.com."], true);
            let r = w.a("www.a.example.com.", v4(44, 1, 1, 1));
            w.add_auto(r);
            w.finish();
            let q1 = w.intern("www.a.example.com.");
            let roots = w.group_ips[0].clone();
            out.push(("sibling-glue", w.case(roots, vec![(q1, 1), (q1, 1)], 24, 24)));
        }
        // 4. glueless cycle: a.example.com NS ns.b.example.com / b.example.com NS ns.a.example.com, no glue
        {
            let mut w = base(false);
            let ge = w.std_group(1);
            w.zone("example.com.", ge, &["ns.example.com."], true);
            let ga = w.std_group(1);
            w.zone("a.example.com.", ga, &["ns.b.example.com."], false);
            let gb = w.std_group(1);
            w.zone("b.example.com.", gb, &["ns.a.example.com."], false);
            let r = w.a("www.a.example.com.", v4(44, 1, 1, 1));
            w.add_auto(r);
            w.finish();
            let q1 = w.intern("www.a.example.com.");
            let q2 = w.intern("www.b.example.com.");
            let roots = w.group_ips[0].clone();
            for (nl, tag) in [(24u8, "glueless-cycle"), (6, "glueless-cycle-nl6")] {
                out.push((tag, w.clone().case(roots.clone(), vec![(q1, 1), (q2, 1)], 24, nl)));
            }
        }
        // 5. self-referential glueless delegation: self.com NS ns.self.com without glue
        {
            let mut w = base(false);
            let gs = w.std_group(1);
            w.zone("self.com.", gs, &["ns.self.com."], false);
            let r = w.a("www.self.com.", v4(44, 1, 1, 1));
            w.add_auto(r);
            w.finish();
            let q1 = w.intern("www.self.com.");
            let roots = w.group_ips[0].clone();
            out.push(("self-referential-delegation", w.case(roots, vec![(q1, 1)], 24, 24)));
        }
        // 6. CNAME loop across two zones
        {
            let mut w = base(false);
            let g1 = w.std_group(1);
            w.zone("one.com.", g1, &["ns.one.com."], true);
            let g2 = w.std_group(1);
            w.zone("two.com.", g2, &["ns.two.com."], true);
            let r = w.cname("a.one.com.", "b.two.com.");
            w.add_auto(r);
            let r = w.cname("b.two.com.", "a.one.com.");
            w.add_auto(r);
            w.finish();
            let q1 = w.intern("a.one.com.");
            let roots = w.group_ips[0].clone();
            out.push(("cname-loop", w.clone().case(roots.clone(), vec![(q1, 1), (q1, 28)], 24, 24)));
            out.push(("cname-loop-rl200", w.case(roots, vec![(q1, 1)], 200, 24)));
        }
        // 7. CNAME chain longer than every limit (70 hops alternating between two zones)
        {
            let mut w = base(false);
            let g1 = w.std_group(1);
            w.zone("one.com.", g1, &["ns.one.com."], true);
            let g2 = w.std_group(1);
            w.zone("two.com.", g2, &["ns.two.com."], true);
            for i in 0..70 {
                let z = if i % 2 == 0 { "one" } else { "two" };
                let z2 = if i % 2 == 0 { "two" } else { "one" };
                let r = w.cname(&format!("c{i}.{z}.com."), &format!("c{}.{z2}.com.", i + 1));
                w.add_auto(r);
            }
            let r = w.a("c70.one.com.", v4(44, 1, 1, 1));
            w.add_auto(r);
            w.finish();
            let q1 = w.intern("c0.one.com.");
            let q2 = w.intern("c60.one.com.");
            let roots = w.group_ips[0].clone();
            out.push(("cname-chain-70", w.clone().case(roots.clone(), vec![(q1, 1), (q2, 1)], 24, 24)));
            out.push(("cname-chain-70-rl255", w.case(roots, vec![(q1, 1)], 255, 24)));
        }
        // 8. lame delegations: REFUSED / SERVFAIL / upward referral
        for kind in 0..3u8 {
            let mut w = base(false);
            let gl = w.std_group(2);
            w.zone("lame.com.", gl, &["ns1.lame.com.", "ns2.lame.com."], true);
            let r = w.a("www.lame.com.", v4(44, 1, 1, 1));
            w.add_auto(r);
            w.finish();
            w.lame.insert(gl, kind);
            let q1 = w.intern("www.lame.com.");
            let roots = w.group_ips[0].clone();
            out.push((["lame-refused", "lame-servfail", "lame-upward-referral"][kind as usize], w.case(roots, vec![(q1, 1), (q1, 1)], 24, 24)));
        }
        // 9. unreachable servers (nothing listens on the glue addresses)
        {
            let mut w = base(false);
            let gd = w.group(vec![]);
            w.zone("dead.com.", gd, &["ns.dead.com."], true);
            w.finish();
            let r = w.a("ns.dead.com.", v4(44, 9, 9, 9));
            let cz = w.zone_of(r.name).unwrap();
            w.add(cz, r.clone());
            let r2 = w.a("ns.dead.com.", v4(44, 9, 9, 10));
            w.add(cz, r2);
            let q1 = w.intern("www.dead.com.");
            let roots = w.group_ips[0].clone();
            out.push(("unreachable-servers", w.case(roots, vec![(q1, 1)], 24, 24)));
        }
        // 10. name-server filter: the glue address is denied
        {
            let mut w = base(false);
            let ge = w.std_group(2);
            w.zone("example.com.", ge, &["ns1.example.com.", "ns2.example.com."], true);
            let r = w.a("www.example.com.", v4(44, 1, 1, 1));
            w.add_auto(r);
            w.finish();
            let q1 = w.intern("www.example.com.");
            let roots = w.group_ips[0].clone();
            let ips = w.group_ips[ge].clone();
            let mut c = w.clone().case(roots.clone(), vec![(q1, 1)], 24, 24);
            c.deny_srv = ips.iter().map(|ip| net32(*ip)).collect();
            out.push(("server-filter-denies-glue", c));
            let mut c = w.clone().case(roots.clone(), vec![(q1, 1)], 24, 24);
            c.deny_srv = vec![IpNet::new(v4(44, 0, 0, 0), 16).unwrap()];
            c.allow_srv = vec![IpNet::new(v4(44, 0, 0, 0), 22).unwrap()];
            out.push(("server-filter-deny-with-allow-exception", c));
            // 11. answer filter
            let mut c = w.case(roots, vec![(q1, 1)], 24, 24);
            c.deny_ans = vec![net32(v4(44, 1, 1, 1))];
            out.push(("answer-filter-denies-address", c));
        }
        // 12. glueless out-of-zone NS whose address lookup is answered with a foreign owner name
        {
            let mut w = base(false);
            let gh = w.std_group(1);
            w.zone("hoster.net.", gh, &["ns.hoster.net."], true);
            let ge = w.std_group(1);
            w.zone("example.com.", ge, &["dns.hoster.net."], false);
            let r = w.a("www.example.com.", v4(44, 1, 1, 1));
            w.add_auto(r);
            w.finish();
            let q1 = w.intern("www.example.com.");
            let roots = w.group_ips[0].clone();
            out.push(("glueless-out-of-zone-ns", w.clone().case(roots.clone(), vec![(q1, 1), (q1, 1)], 24, 24)));
            // hostile hoster: answers the address query for dns.hoster.net with `elsewhere.org A <attacker server>`
            let mut w2 = base(false);
            let gh = w2.std_group(1);
            w2.zone("hoster.net.", gh, &["ns.hoster.net."], true);
            let ge = w2.std_group(1);
            w2.zone("example.com.", ge, &["dns.hoster.net."], false);
            let r = w2.a("www.example.com.", v4(44, 1, 1, 1));
            w2.add_auto(r);
            let gx = w2.std_group(1);
            w2.zone("evil.net.", gx, &["ns.evil.net."], true);
            let xip = w2.group_ips[gx][0];
            w2.finish();
            let dn = w2.intern("dns.hoster.net.");
            let inj = w2.a("elsewhere.org.", xip);
            w2.extras.push(Extra { group: gh, qname: Some(dn), qtype: Some(1), section: 0, rec: inj });
            let q1 = w2.intern("www.example.com.");
            let mut c = w2.case(roots, vec![(q1, 1)], 24, 24);
            // remove the honest address of dns.hoster.net so that only the foreign-owner record remains
            for ((g, n, t), r) in c.table.iter_mut() {
                if *g == gh && c.names[*n] == c.names[dn] && *t == 1 {
                    r.ans.retain(|x| c.names[x.name] != c.names[dn]);
                }
            }
            // the attacker's server answers for www.example.com
            let evil_rec = Rec { name: q1, ttl: 3600, data: RD::A(u32::from(Ipv4Addr::new(66, 6, 6, 6))) };
            for t in [1u16, 2] {
                c.table.insert((gx, q1, t), Resp { rcode: 0, aa: true, tc: 0, ans: if t == 1 { vec![evil_rec.clone()] } else { vec![] }, auth: vec![], add: vec![] });
            }
            out.push(("glueless-ns-address-with-foreign-owner", c));
        }
        // 12c. the address of a glueless NS host is already in the response cache (asked for by an earlier query)
        {
            let mut w = base(false);
            let gh = w.std_group(1);
            w.zone("hoster.net.", gh, &["ns.hoster.net."], true);
            let ge = w.std_group(1);
            w.zone("example.com.", ge, &["dns.hoster.net."], false);
            let r = w.a("www.example.com.", v4(44, 1, 1, 1));
            w.add_auto(r);
            w.finish();
            let q0 = w.intern("dns.hoster.net.");
            let q1 = w.intern("www.example.com.");
            let roots = w.group_ips[0].clone();
            out.push(("cached-address-used-as-glue", w.case(roots, vec![(q0, 1), (q1, 1)], 24, 24)));
            // the same with address records that live shorter than the NS records (pool TTL = the smaller one)
            let mut w = base(false);
            w.glue_ttl = 300;
            let gh = w.std_group(1);
            w.zone("hoster.net.", gh, &["ns.hoster.net."], true);
            let ge = w.std_group(1);
            w.zone("example.com.", ge, &["dns.hoster.net."], false);
            let r = w.a("www.example.com.", v4(44, 1, 1, 1));
            w.add_auto(r);
            w.finish();
            let q0 = w.intern("dns.hoster.net.");
            let q1 = w.intern("www.example.com.");
            let roots = w.group_ips[0].clone();
            out.push(("cached-address-shorter-ttl-used-as-glue", w.case(roots, vec![(q0, 1), (q1, 1), (q1, 1)], 24, 24)));
        }
        // 12d. wildcard owner name, mixed-case query, DS query (parent side), ANY and CNAME queries
        {
            let mut w = base(false);
            let ge = w.std_group(2);
            w.zone("example.com.", ge, &["ns1.example.com.", "ns2.example.com."], true);
            let gs = w.std_group(1);
            w.zone("sub.example.com.", gs, &["ns.sub.example.com."], true);
            let r = w.a("*.example.com.", v4(44, 1, 1, 9));
            w.add_auto(r);
            let r = w.a("www.example.com.", v4(44, 1, 1, 1));
            w.add_auto(r);
            let r = w.cname("alias.example.com.", "www.sub.example.com.");
            w.add_auto(r);
            let r = w.a("www.sub.example.com.", v4(44, 1, 1, 2));
            w.add_auto(r);
            w.finish();
            let qw = w.intern("*.example.com.");
            let qu = w.intern_name(Name::from_ascii("WWW.Example.COM.").unwrap());
            let qs = w.intern("sub.example.com.");
            let qa = w.intern("alias.example.com.");
            let roots = w.group_ips[0].clone();
            out.push(("wildcard-mixed-case-ds-any-cname", w.case(roots, vec![(qw, 1), (qu, 1), (qs, 43), (qa, 255), (qa, 5), (qa, 1), (qa, 1)], 24, 24)));
        }
        // 12e. records with TTL 0 (nothing is kept in the caches)
        {
            let mut w = base(false);
            w.ttl = 0;
            let ge = w.std_group(1);
            w.zone("zero.com.", ge, &["ns.zero.com."], true);
            let r = w.a("www.zero.com.", v4(44, 1, 1, 1));
            w.add_auto(r);
            w.finish();
            let q1 = w.intern("www.zero.com.");
            let roots = w.group_ips[0].clone();
            out.push(("ttl-zero", w.case(roots, vec![(q1, 1), (q1, 1)], 24, 24)));
        }
        // 14. concurrent clients: identical queries overlapping on a cached pool (request de-duplication) with an
        //     answer filter; and different queries sharing their NS lookups on a cold recursor
        {
            let mut w = base(false);
            let ge = w.std_group(2);
            w.zone("example.com.", ge, &["ns1.example.com.", "ns2.example.com."], true);
            let r = w.a("www.example.com.", v4(44, 1, 1, 1));
            w.add_auto(r);
            let r = w.a("www.example.com.", v4(44, 1, 1, 2));
            w.add_auto(r);
            let r = w.a("mail.example.com.", v4(44, 1, 1, 2));
            w.add_auto(r);
            w.finish();
            let q1 = w.intern("www.example.com.");
            let q2 = w.intern("mail.example.com.");
            let roots = w.group_ips[0].clone();
            let mut c = w.clone().case(roots.clone(), vec![(q1, 16), (q1, 1), (q1, 1), (q1, 1), (q1, 1)], 24, 24);
            c.conc = Some((1, 3));
            c.deny_ans = vec![net32(v4(44, 1, 1, 2))];
            out.push(("concurrent-clients-answer-filter", c));
            let mut c = w.clone().case(roots.clone(), vec![(q1, 16), (q2, 1), (q2, 1), (q2, 1), (q2, 1), (q2, 1)], 24, 24);
            c.conc = Some((1, 4));
            c.deny_ans = vec![net32(v4(44, 1, 1, 2))];
            out.push(("concurrent-clients-answer-all-denied", c));
            let mut c = w.case(roots, vec![(q1, 1), (q2, 1), (q1, 28), (q1, 1), (q1, 1), (q2, 1)], 24, 24);
            c.conc = Some((0, 4));
            c.deny_ans = vec![net32(v4(44, 1, 1, 2))];
            out.push(("concurrent-clients-cold-different-queries", c));
        }
        {
            // Kaminsky internet, four clients at once on a cold recursor
            let mut w = base(true);
            let gv = w.std_group(2);
            w.zone("victim.com.", gv, &["ns1.victim.com.", "ns2.victim.com."], true);
            let ga = w.std_group(2);
            w.zone("attacker.com.", ga, &["ns1.attacker.com.", "ns2.attacker.com."], true);
            let r = w.a("www.victim.com.", v4(44, 1, 1, 1));
            w.add_auto(r);
            let r = w.a("www.attacker.com.", v4(44, 2, 2, 2));
            w.add_auto(r);
            w.finish();
            let inj = w.a("www.victim.com.", evil);
            w.extras.push(Extra { group: ga, qname: None, qtype: None, section: 2, rec: inj });
            let inj = w.nsrec("victim.com.", "ns1.attacker.com.");
            w.extras.push(Extra { group: ga, qname: None, qtype: None, section: 1, rec: inj });
            let q1 = w.intern("www.attacker.com.");
            let q2 = w.intern("www.victim.com.");
            let roots = w.group_ips[0].clone();
            let mut c = w.case(roots, vec![(q1, 1), (q2, 1), (q1, 1), (q2, 1), (q2, 1), (q1, 1)], 24, 24);
            c.conc = Some((0, 4));
            out.push(("concurrent-clients-kaminsky", c));
        }
        // 15. the address filters with IPv6 entries: loopback / unspecified / v4-compatible / v4-mapped addresses
        //     as glue, as results of glueless lookups, and as answers
        {
            use super::acl::v6;
            let m = 0xffffu128 << 32;
            // glue `ns.lame.com AAAA ::1` with deny_server ::1/128 (+ an unrelated v4 list)
            let mut w = base(false);
            let gl = w.group(vec![v6(1)]);
            w.zone("lame.com.", gl, &["ns.lame.com."], true);
            let r = w.a("www.lame.com.", evil);
            w.add_auto(r);
            w.finish();
            let q1 = w.intern("www.lame.com.");
            let roots = w.group_ips[0].clone();
            let mut c = w.case(roots, vec![(q1, 1), (q1, 1)], 24, 24);
            c.deny_srv = vec![IpNet::new(v6(1), 128).unwrap(), IpNet::new(v4(10, 0, 0, 0), 8).unwrap()];
            out.push(("acl-v6-loopback-glue-denied", c));
            // glueless: the NS host (under net.) resolves to `::` and `::44.0.9.1`, deny_server ::/96
            let mut w = base(false);
            let gl = w.group(vec![v6(0), v6(0x2c00_0901)]);
            w.zone("lame.com.", gl, &["ns1.hoster.net.", "ns2.hoster.net."], false);
            let r = w.a("www.lame.com.", evil);
            w.add_auto(r);
            w.finish();
            let q1 = w.intern("www.lame.com.");
            let roots = w.group_ips[0].clone();
            let mut c = w.case(roots, vec![(q1, 1)], 24, 24);
            c.deny_srv = vec![IpNet::new(v6(0), 96).unwrap()];
            out.push(("acl-v6-unspecified-and-compatible-glueless-denied", c));
            // a v4-mapped server address is judged by the v4 list, not by a v6 network covering the mapped range
            let mut w = base(false);
            let gl = w.group(vec![v6(m | 0x2c00_0901)]);
            w.zone("mapped.com.", gl, &["ns.mapped.com."], true);
            let r = w.a("www.mapped.com.", v4(44, 1, 1, 1));
            w.add_auto(r);
            w.finish();
            let q1 = w.intern("www.mapped.com.");
            let roots = w.group_ips[0].clone();
            let mut c = w.clone().case(roots.clone(), vec![(q1, 1)], 24, 24);
            c.deny_srv = vec![net32(v4(44, 0, 9, 1))];
            out.push(("acl-v4-mapped-server-denied-by-v4-list", c));
            let mut c = w.case(roots, vec![(q1, 1)], 24, 24);
            c.deny_srv = vec![IpNet::new(v6(m), 96).unwrap()];
            out.push(("acl-v4-mapped-server-not-denied-by-v6-net", c));
            // answers
            let mut w = base(false);
            let ge = w.std_group(1);
            w.zone("example.com.", ge, &["ns.example.com."], true);
            for ip in [v6(1), v6(0), v6((0x2a00u128 << 112) | 7), v6(m | 0x2c01_0101), v6(0x2c01_0101), v6((0xfe80u128 << 112) | 1)] {
                let r = w.a("www.example.com.", ip);
                w.add_auto(r);
            }
            let r = w.a("www.example.com.", v4(44, 1, 1, 1));
            w.add_auto(r);
            let r = w.a("www.example.com.", v4(0, 0, 0, 1));
            w.add_auto(r);
            w.finish();
            let q1 = w.intern("www.example.com.");
            let roots = w.group_ips[0].clone();
            let mut c = w.clone().case(roots.clone(), vec![(q1, 28), (q1, 1), (q1, 28)], 24, 24);
            c.deny_ans = vec![IpNet::new(v6(1), 128).unwrap(), IpNet::new(v6(0), 128).unwrap(), net32(v4(44, 1, 1, 1))];
            out.push(("acl-v6-answers-loopback-unspecified-mapped", c));
            let mut c = w.clone().case(roots.clone(), vec![(q1, 28), (q1, 1)], 24, 24);
            c.deny_ans = vec![IpNet::new(v6(0), 64).unwrap(), IpNet::new(v6(0xfe80u128 << 112), 10).unwrap()];
            c.allow_ans = vec![IpNet::new(v6(0x2c01_0101), 128).unwrap()];
            out.push(("acl-v6-answers-low64-denied-with-exception", c));
            let mut c = w.case(roots, vec![(q1, 28), (q1, 1)], 24, 24);
            c.deny_ans = vec![IpNet::new(v4(0, 0, 0, 0), 8).unwrap(), IpNet::new(v6(m), 96).unwrap()];
            out.push(("acl-v4-zero-net-does-not-cover-v6-loopback", c));
        }
        // 16. coverage-driven additions: truncated answers (UDP only / over TCP as well), a query name that is not
        //     fully qualified, an answer that sits in the additional section only next to a foreign authority record
        {
            let mut w = base(false);
            let ge = w.std_group(2);
            w.zone("example.com.", ge, &["ns1.example.com.", "ns2.example.com."], true);
            let r = w.a("www.example.com.", v4(44, 1, 1, 1));
            w.add_auto(r);
            w.finish();
            let q1 = w.intern("www.example.com.");
            let roots = w.group_ips[0].clone();
            let mut c = w.clone().case(roots.clone(), vec![(q1, 1), (q1, 1)], 24, 24);
            for r in c.table.values_mut() {
                r.tc = 1;
            }
            out.push(("truncated-over-udp-everywhere", c));
            let mut c = w.clone().case(roots.clone(), vec![(q1, 1)], 24, 24);
            for ((g, n, t), r) in c.table.iter_mut() {
                if *g == ge && c.names[*n] == c.names[q1] && *t == 1 {
                    r.tc = 2;
                }
            }
            out.push(("truncated-over-tcp-as-well", c));
            // relative query name
            let mut c = w.clone().case(roots.clone(), vec![(q1, 1)], 24, 24);
            let mut rel = c.names[q1].clone();
            rel.set_fqdn(false);
            c.names.push(rel);
            c.queries = vec![(c.names.len() - 1, 1), (q1, 1)];
            out.push(("query-name-not-fully-qualified", c));
            // answer only in the additional section + an authority record of another zone: the filter strips the
            // authority section to nothing while the answer section was empty from the start
            let mut c = w.case(roots, vec![(q1, 1), (q1, 1)], 24, 24);
            let com = c.names.iter().position(|n| *n == Name::from_ascii("com.").unwrap()).unwrap();
            let nsx = c.names.iter().position(|n| *n == Name::from_ascii("ns1.example.com.").unwrap()).unwrap();
            for ((g, n, t), r) in c.table.iter_mut() {
                if *g == ge && c.names[*n] == c.names[q1] && *t == 1 {
                    r.add = std::mem::take(&mut r.ans);
                    r.auth = vec![Rec { name: com, ttl: 3600, data: RD::N(nsx) }];
                }
            }
            out.push(("answer-in-additional-only-foreign-authority", c.clone()));
            // the same shape for the answer filter of the pool: the authority section holds only an address the filter
            // denies (stripped to nothing while the answer section was empty from the start)
            for ((g, n, t), r) in c.table.iter_mut() {
                if *g == ge && c.names[*n] == c.names[q1] && *t == 1 {
                    r.auth = vec![Rec { name: q1, ttl: 3600, data: RD::A(u32::from(Ipv4Addr::new(66, 6, 6, 6))) }];
                }
            }
            c.deny_ans = vec![net32(evil)];
            out.push(("answer-in-additional-only-denied-authority-address", c));
        }
        // 17. RRSIGs along a CNAME chain across two zones: carried along for a client with the DO bit (every fourth
        //     internet, see Case::security_aware — the name table is padded to get there), stripped without it
        {
            let mut w = base(false);
            let g1 = w.std_group(1);
            w.zone("one.com.", g1, &["ns.one.com."], true);
            let g2 = w.std_group(1);
            w.zone("two.com.", g2, &["ns.two.com."], true);
            let r = w.cname("a.one.com.", "b.two.com.");
            w.add_auto(r);
            let r = w.a("b.two.com.", v4(44, 1, 1, 1));
            w.add_auto(r);
            w.finish();
            let q1 = w.intern("a.one.com.");
            let roots = w.group_ips[0].clone();
            let mut c = w.case(roots, vec![(q1, 1), (q1, 1), (q1, 46)], 24, 24);
            for e in c.table.values_mut() {
                if e.rcode == 0 && !e.ans.is_empty() {
                    let first = e.ans[0].clone();
                    let covered = match first.data {
                        RD::C(_) => 5,
                        RD::A(_) => 1,
                        RD::N(_) => 2,
                        _ => 6,
                    };
                    e.ans.push(Rec { name: first.name, ttl: 3600, data: RD::R(covered) });
                    e.ans.push(Rec { name: first.name, ttl: 3600, data: RD::R(16) });
                }
            }
            let mut with_do = c.clone();
            let mut k = 0;
            while !with_do.security_aware() {
                with_do.names.push(Name::from_ascii(format!("pad{k}.invalid-pad.")).unwrap());
                k += 1;
            }
            out.push(("rrsigs-along-cname-chain-do-bit", with_do));
            let mut k = 0;
            while c.security_aware() {
                c.names.push(Name::from_ascii(format!("pad{k}.invalid-pad.")).unwrap());
                k += 1;
            }
            out.push(("rrsigs-along-cname-chain-stripped", c));
        }
        // 18. alias graphs with fan-out (several CNAME records per owner): layered DAGs, diamonds, a DAG closed into a
        //     loop — exponentially many paths, every name fetched once; cold, then the same lookup on the warm cache
        {
            out.push(("alias-dag-5x3-243-paths", dag_world(5 + 1, 3, 3, false, DagEnd::Address, 24, 24, 1, true)));
            out.push(("alias-dag-12x3-deep-limits-255", dag_world(12, 3, 3, false, DagEnd::Address, 255, 255, 1, false)));
            out.push(("alias-dag-16x3-default-limits", dag_world(16, 3, 3, false, DagEnd::Address, 24, 24, 1, false)));
            out.push(("alias-dag-16x3-limits-255", dag_world(16, 3, 3, false, DagEnd::Address, 255, 255, 1, false)));
            out.push(("alias-dag-diamonds", dag_world(8, 2, 2, true, DagEnd::Address, 64, 64, 1, true)));
            out.push(("alias-dag-closed-into-loop", dag_world(4, 3, 3, false, DagEnd::LoopBack, 24, 24, 1, false)));
            out.push(("alias-dag-small-2x2-within-budget", dag_world(3, 2, 2, false, DagEnd::Address, 24, 24, 28, true)));
            out.push(("alias-dag-dead-ends", dag_world(5, 3, 3, false, DagEnd::Nothing, 24, 24, 1, false)));
        }
        // 19. the cached address of a glueless NS host lies in a deny_server network (two-step histories)
        {
            out.push(("cached-ns-address-denied-v4-foreign-host", cached_ns_world(0)));
            out.push(("cached-ns-address-denied-v6-sibling-host-via-alias", cached_ns_world(1 | 2 | 4 | 32)));
            out.push(("cached-ns-address-denied-one-of-two-v4", cached_ns_world(8 | 64)));
            out.push(("cached-ns-address-denied-one-of-two-v6-via-alias", cached_ns_world(1 | 4 | 8)));
            out.push(("cached-ns-address-no-deny-list-control", cached_ns_world(16)));
        }
        // 13b. negative answer carrying an in-bailiwick address the answer filter denies
        {
            let mut w = base(false);
            let ga = w.std_group(1);
            w.zone("attacker.com.", ga, &["ns.attacker.com."], true);
            w.finish();
            let inj = w.a("x.attacker.com.", evil);
            let q2 = w.intern("nothing.attacker.com.");
            w.extras.push(Extra { group: ga, qname: Some(q2), qtype: None, section: 1, rec: inj });
            let roots = w.group_ips[0].clone();
            let mut c = w.case(roots, vec![(q2, 16), (q2, 16)], 24, 24);
            c.deny_ans = vec![net32(evil)];
            out.push(("negative-answer-with-denied-address", c));
        }
        // 13. negative answer carrying out-of-bailiwick authority data
        {
            let mut w = base(false);
            let ga = w.std_group(1);
            w.zone("attacker.com.", ga, &["ns.attacker.com."], true);
            w.finish();
            let inj = w.nsrec("com.", "ns.attacker.com.");
            w.extras.push(Extra { group: ga, qname: None, qtype: Some(28), section: 1, rec: inj });
            let inj = w.rec("com.", RD::S(3600));
            w.extras.push(Extra { group: ga, qname: None, qtype: Some(16), section: 1, rec: inj });
            let q1 = w.intern("ns.attacker.com.");
            let q2 = w.intern("nothing.attacker.com.");
            let roots = w.group_ips[0].clone();
            out.push(("negative-answer-with-foreign-authority", w.case(roots, vec![(q1, 28), (q1, 28), (q2, 16), (q2, 16)], 24, 24)));
        }
        out
    }

    pub fn case(r: &mut Rng, i: usize) -> String {
        // the hand-built scenarios live in corpus/C19/*.case (written by C19_DUMP_SCENARIOS) and run first
        let _ = i;
        random_world(r).line()
    }

    /// concurrent clients on a random internet: an optional warm-up query (same name, other type: every pool
    /// on the path ends up in the name-server cache), 2..4 clients at once (mostly the same query — request
    /// de-duplication —, sometimes different ones sharing NS lookups), then the same queries again as probes;
    /// half of the time the answer filter denies an address the batch query resolves to
    pub fn conc_world(r: &mut Rng) -> Case {
        let mut c = random_world(r);
        let pool = c.queries.clone();
        let main = *r.pick(&pool);
        let k = r.range(2, 4) as usize;
        let mut batch = vec![];
        for _ in 0..k {
            batch.push(if r.chance(3, 4) { main } else { *r.pick(&pool) });
        }
        let warm: Vec<(usize, u16)> = match r.below(4) {
            0 => vec![],
            1 => vec![*r.pick(&pool)],
            _ => vec![(main.0, if main.1 == 16 { 1 } else { 16 })],
        };
        let mut probes = batch.clone();
        probes.dedup();
        c.conc = Some((warm.len(), batch.len()));
        if r.chance(1, 2) {
            // deny an address the main query resolves to (any server's answer for it)
            let addrs: Vec<IpAddr> = c
                .table
                .iter()
                .filter(|((_, n, t), _)| c.names[*n] == c.names[main.0] && *t == main.1)
                .flat_map(|(_, resp)| resp.ans.iter().filter_map(rec_ip).collect::<Vec<_>>())
                .collect();
            if !addrs.is_empty() {
                let ip = *r.pick(&addrs);
                if !c.deny_ans.iter().any(|n| n.contains(&ip)) {
                    c.deny_ans.push(net32(ip));
                }
            }
        }
        c.queries = warm.into_iter().chain(batch).chain(probes).collect();
        c
    }

    /// the address filters end to end: a zone whose servers live on special addresses (glue or glueless), hosts
    /// with special A/AAAA answers, custom allow/deny lists of both families for both filters
    pub fn acl_world(r: &mut Rng) -> Case {
        use super::acl::{addrs, nets};
        let special = addrs();
        let mut w = base(false);
        let nsrv = r.range(1, 2) as usize;
        let ips: Vec<IpAddr> = (0..nsrv).map(|_| *r.pick(&special)).collect();
        let gl = w.group(ips);
        let glueless = r.chance(1, 2);
        if glueless {
            w.zone("filtered.com.", gl, &["ns1.hoster.net.", "ns2.hoster.net."][..nsrv], false);
        } else {
            w.zone("filtered.com.", gl, &["ns1.filtered.com.", "ns2.filtered.com."][..nsrv], true);
        }
        let nans = r.range(1, 5);
        for _ in 0..nans {
            let ip = *r.pick(&special);
            let rec = w.a("www.filtered.com.", ip);
            if !w.zones.iter().any(|z| z.records.contains(&rec)) {
                w.add_auto(rec);
            }
        }
        w.finish();
        let q1 = w.intern("www.filtered.com.");
        let roots = w.group_ips[0].clone();
        let mut qs = vec![(q1, 28), (q1, 1)];
        if r.chance(1, 2) {
            qs.push((q1, *r.pick(&[1u16, 28])));
        }
        let mut c = w.case(roots, qs, 24, 24);
        let all = nets();
        let pick_list = |r: &mut Rng, lo: u64, hi: u64| -> Vec<IpNet> { (0..r.range(lo, hi)).map(|_| *r.pick(&all)).collect() };
        if r.chance(3, 4) {
            c.deny_srv = pick_list(r, 1, 3);
            if r.chance(1, 3) {
                c.allow_srv = pick_list(r, 1, 2);
            }
            // the honest infrastructure (44.0.x.y) stays reachable unless a /0 was drawn
            c.allow_srv.push(IpNet::new(v4(44, 0, 0, 0), 16).unwrap());
        }
        if r.chance(3, 4) {
            c.deny_ans = pick_list(r, 1, 3);
            if r.chance(1, 3) {
                c.allow_ans = pick_list(r, 1, 2);
            }
        }
        c
    }

    /// Two-step histories around the cached-address step of `ns_pool_for_name`: step 1 is an ordinary client query
    /// that puts the address of a name-server host into the response cache (directly or as a CNAME target); the
    /// address passes the answer filter but lies in a `deny_server` network.  Step 2 resolves a name below a
    /// glueless delegation to that host: the denied address must not be contacted (a second, allowed address of the
    /// same host may).  `variant` bits: 0 v6, 1 sibling host (in the parent's bailiwick) instead of a foreign one,
    /// 2 warm-up through an alias, 3 the host has an allowed address too, 4 no deny list (control), 5..6 prefix class.
    pub fn cached_ns_world(variant: u32) -> Case {
        use super::acl::v6;
        let six = variant & 1 != 0;
        let sibling = variant & 2 != 0;
        let via_alias = variant & 4 != 0;
        let also_allowed = variant & 8 != 0;
        let control = variant & 16 != 0;
        let denied_ip = if six { v6((0xfd00u128 << 112) | 0x53) } else { v4(172, 16, 0, 53) };
        let mut w = base(false);
        let gh = w.std_group(1);
        w.zone("hoster.net.", gh, &["ns.hoster.net."], true);
        let ge = w.std_group(1);
        w.zone("example.com.", ge, &["ns.example.com."], true);
        let k = w.group_ips.len() as u8;
        let mut ips = vec![denied_ip];
        if also_allowed {
            ips.push(v4(44, 0, k, 1));
        }
        let gs = w.group(ips);
        let host = if sibling { "dns.example.com." } else { "dns.hoster.net." };
        w.zone("sub.example.com.", gs, &[host], false);
        let r = w.a("www.sub.example.com.", v4(44, 1, 1, 1));
        w.add_auto(r);
        let alias = if sibling { "alias.example.com." } else { "alias.hoster.net." };
        let r = w.cname(alias, host);
        w.add_auto(r);
        w.finish();
        let qh = w.intern(host);
        let qa = w.intern(alias);
        let qw = w.intern("www.sub.example.com.");
        let t = if six { 28 } else { 1 };
        let roots = w.group_ips[0].clone();
        let mut c = w.case(roots, vec![(if via_alias { qa } else { qh }, t), (qw, 1), (qw, 1)], 24, 24);
        if !control {
            let len = match (variant >> 5) & 3 {
                0 => if six { 8 } else { 12 },
                1 => if six { 64 } else { 24 },
                2 => if six { 128 } else { 32 },
                _ => if six { 7 } else { 16 },
            };
            c.deny_srv = vec![IpNet::new(denied_ip, len).unwrap().trunc()];
        }
        c
    }

    /// what the last layer of an alias DAG looks like
    #[derive(Clone, Copy, PartialEq)]
    pub enum DagEnd {
        Address,
        Nothing,
        /// aliases back to the first layer: a DAG mixed with a loop
        LoopBack,
    }

    /// A hostile zone `dag.com.` whose names form a layered alias graph: every name of layer `i` carries CNAME
    /// records to `fan` names of layer `i + 1` (several CNAME records per owner); `merge` makes every second layer a
    /// single name (diamonds).  The number of paths is `fan^(layers-1)` while every name is fetched only once.
    /// Queries: the first name cold, the same again (warm cache), optionally another first-layer name.
    pub fn dag_world(layers: usize, width: usize, fan: usize, merge: bool, end: DagEnd, rl: u8, nl: u8, qtype: u16, extra_query: bool) -> Case {
        let mut w = base(false);
        let gd = w.std_group(1);
        w.zone("dag.com.", gd, &["ns.dag.com."], true);
        w.finish();
        let width_of = |i: usize| if merge && i % 2 == 1 { 1 } else { width };
        let mut ids: Vec<Vec<usize>> = vec![];
        for i in 0..layers {
            ids.push((0..width_of(i)).map(|j| w.intern(&format!("l{i}n{j}.dag.com."))).collect());
        }
        let apex = w.intern("dag.com.");
        let roots = w.group_ips[0].clone();
        let mut qs = vec![(ids[0][0], qtype), (ids[0][0], qtype)];
        if extra_query && ids[0].len() > 1 {
            qs.push((ids[0][1], qtype));
        }
        let mut c = w.case(roots, qs, rl, nl);
        let soa = Rec { name: apex, ttl: 3600, data: RD::S(3600) };
        let idx_of = |c: &Case, n: usize| c.names.iter().position(|x| *x == w.names[n]).unwrap();
        for i in 0..layers {
            for (j, n) in ids[i].iter().enumerate() {
                let ni = idx_of(&c, *n);
                let ans: Vec<Rec> = if i + 1 < layers {
                    let next = &ids[i + 1];
                    (0..fan.min(next.len()).max(1)).map(|k| Rec { name: ni, ttl: 3600, data: RD::C(idx_of(&c, next[(j + k) % next.len()])) }).collect()
                } else {
                    match end {
                        DagEnd::Address => vec![Rec { name: ni, ttl: 3600, data: if qtype == 28 { RD::Q((0x2a00u128 << 112) | 9) } else { RD::A(u32::from(Ipv4Addr::new(44, 1, 1, 9))) } }],
                        DagEnd::Nothing => vec![],
                        DagEnd::LoopBack => ids[0].iter().take(fan).map(|t| Rec { name: ni, ttl: 3600, data: RD::C(idx_of(&c, *t)) }).collect(),
                    }
                };
                let keys: Vec<(usize, usize, u16)> = c.table.keys().filter(|(g, n2, _)| *g == gd && *n2 == ni).cloned().collect();
                for k in keys {
                    let resp = if k.2 == qtype && !ans.is_empty() {
                        Resp { rcode: 0, aa: true, tc: 0, ans: ans.clone(), auth: vec![], add: vec![] }
                    } else {
                        Resp { rcode: 0, aa: true, tc: 0, ans: vec![], auth: vec![soa.clone()], add: vec![] }
                    };
                    c.table.insert(k, resp);
                }
            }
        }
        c
    }

    pub fn random_dag(r: &mut Rng, big: bool) -> Case {
        let layers = if big { r.range(6, 16) } else { r.range(2, 7) } as usize;
        let width = r.range(2, 3) as usize;
        let fan = r.range(2, if width == 3 { 4 } else { 2 }).min(4) as usize;
        let merge = r.chance(1, 4);
        let end = *r.pick(&[DagEnd::Address, DagEnd::Address, DagEnd::Nothing, DagEnd::LoopBack]);
        let rl = *r.pick(&[24u8, 24, 24, 255, 8, 64]);
        let nl = *r.pick(&[24u8, 24, 255, 64]);
        let qtype = *r.pick(&[1u16, 1, 28]);
        dag_world(layers, width, fan.min(width.max(2)), merge, end, rl, nl, qtype, r.chance(1, 2))
    }

    const TLDS: [&str; 3] = ["com.", "net.", "org."];
    const SLDS: [&str; 5] = ["example", "victim", "attacker", "hoster", "x"];

    pub fn random_world(r: &mut Rng) -> Case {
        let mut w = World::new();
        let two = r.chance(1, 2);
        let g0 = w.std_group(if two { 2 } else { 1 });
        w.zone(".", g0, &["a.root-servers.net."], true);
        let mut zone_names: Vec<String> = vec![];
        let ntld = r.range(1, 2) as usize;
        for t in 0..ntld {
            let tld = TLDS[(t + r.below(2) as usize) % 3];
            if zone_names.iter().any(|z| z == tld) {
                continue;
            }
            let g = w.std_group(r.range(1, 2) as usize);
            let host = format!("a.nic.{tld}");
            w.zone(tld, g, &[&host], true);
            zone_names.push(tld.to_string());
        }
        // second / third level zones
        let nz = r.range(1, 4) as usize;
        let mut hostile: Vec<usize> = vec![];
        for _ in 0..nz {
            let parent = r.pick(&zone_names).clone();
            if parent.matches('.').count() > 2 {
                continue;
            }
            let label = if parent.matches('.').count() == 1 { *r.pick(&SLDS) } else { *r.pick(&["a", "b", "sub"]) };
            let zn = format!("{label}.{parent}");
            if zone_names.contains(&zn) {
                continue;
            }
            let nips = r.range(1, 2) as usize;
            let g = if r.chance(1, 6) && w.group_ips.len() > 2 { r.range(2, w.group_ips.len() as u64 - 1) as usize } else { w.std_group(nips) };
            // NS host names: in zone, sibling / other zone, or under an unrelated TLD
            let nhosts = r.range(1, 2) as usize;
            let mut hosts: Vec<String> = vec![];
            for h in 0..nhosts {
                let style = r.below(6);
                let host = match style {
                    0 | 1 | 2 => format!("ns{}.{zn}", h + 1),
                    3 => format!("ns{}.{}", h + 1, r.pick(&zone_names).clone()),
                    4 => format!("ns.{}.{}", r.pick(&SLDS), r.pick(&zone_names).clone()),
                    _ => format!("dns{}.outside.{}", h + 1, TLDS[r.below(3) as usize]),
                };
                let host = if host.starts_with("ns1..") || host.contains("..") { format!("ns{}.{zn}", h + 1) } else { host };
                hosts.push(host);
            }
            let all_in_zone = hosts.iter().all(|h| h.ends_with(&format!(".{zn}")));
            let glue = if all_in_zone { r.chance(11, 12) } else { r.chance(1, 2) };
            let hs: Vec<&str> = hosts.iter().map(|s| s.as_str()).collect();
            let zi = w.zone(&zn, g, &hs, glue);
            zone_names.push(zn.clone());
            if r.chance(1, 3) {
                hostile.push(w.zones[zi].group);
            }
            if r.chance(1, 14) {
                w.lame.insert(g, r.below(3) as u8);
            }
        }
        // host data
        let mut hostnames: Vec<String> = vec![];
        for zn in zone_names.clone() {
            if zn.matches('.').count() < 2 && r.chance(1, 2) {
                continue;
            }
            let nh = r.range(1, 3);
            for k in 0..nh {
                let hn = format!("{}.{zn}", ["www", "mail", "alias", "c"][(k as usize + r.below(4) as usize) % 4]);
                if hostnames.contains(&hn) {
                    continue;
                }
                hostnames.push(hn);
            }
        }
        for (k, hn) in hostnames.clone().iter().enumerate() {
            match r.below(7) {
                0 | 1 if hostnames.len() > 1 => {
                    let t = r.pick(&hostnames).clone();
                    let rec = w.cname(hn, &t);
                    w.add_auto(rec);
                    // sometimes 2..4 CNAME records at the same owner (alias graphs with fan-out)
                    if r.chance(1, 3) {
                        for _ in 0..r.range(1, 3) {
                            let t = r.pick(&hostnames).clone();
                            let rec = w.cname(hn, &t);
                            if !w.zones.iter().any(|z| z.records.contains(&rec)) {
                                w.add_auto(rec);
                            }
                        }
                    }
                }
                2 => {
                    let rec = w.rec(hn, RD::T(k as u32));
                    w.add_auto(rec);
                }
                3 => {
                    let rec = w.rec(hn, RD::Q((0x2a00u128 << 112) | (k as u128 + 1)));
                    w.add_auto(rec);
                    let rec = w.a(hn, v4(44, 1, 1, k as u8 + 1));
                    w.add_auto(rec);
                }
                _ => {
                    let rec = w.a(hn, v4(44, 1, 1, k as u8 + 1));
                    w.add_auto(rec);
                }
            }
        }
        // TTL variety: glue shorter or longer than the NS records, hosts different again (nothing expires within a
        // case; this exercises the pool-TTL bookkeeping of ns_pool_for_name)
        if r.chance(1, 2) {
            w.glue_ttl = *r.pick(&[300u32, 600, 7200]);
            w.ttl = *r.pick(&[900u32, 3600]);
        }
        w.finish();
        // hostile additions: records with arbitrary owners in arbitrary sections
        let all_names: Vec<usize> = (0..w.names.len()).collect();
        let evil_ips = [v4(66, 6, 6, 6), v4(66, 6, 6, 7)];
        for g in hostile.clone() {
            let n_inj = r.range(1, 3);
            for _ in 0..n_inj {
                let owner = *r.pick(&all_names);
                let attacker_ip = if !w.group_ips[g].is_empty() && r.chance(1, 2) { w.group_ips[g][0] } else { *r.pick(&evil_ips) };
                let data = match r.below(5) {
                    0 | 1 => match attacker_ip {
                        IpAddr::V4(x) => RD::A(u32::from(x)),
                        IpAddr::V6(x) => RD::Q(u128::from(x)),
                    },
                    2 | 3 => RD::N(*r.pick(&all_names)),
                    _ => RD::C(*r.pick(&all_names)),
                };
                let rec = Rec { name: owner, ttl: w.ttl, data };
                w.extras.push(Extra {
                    group: g,
                    qname: if r.chance(1, 3) { Some(*r.pick(&all_names)) } else { None },
                    qtype: if r.chance(1, 2) { Some(*r.pick(&[1u16, 28, 2])) } else { None },
                    section: r.below(3) as u8,
                    rec,
                });
            }
        }
        // queries
        let mut qs = vec![];
        let nq = r.range(1, 3);
        for _ in 0..nq {
            let name = if r.chance(4, 5) && !hostnames.is_empty() {
                r.pick(&hostnames).clone()
            } else if r.chance(1, 2) {
                r.pick(&zone_names).clone()
            } else {
                format!("nx{}.{}", r.below(3), r.pick(&zone_names))
            };
            let n = w.intern(&name);
            let t = *r.pick(&[1u16, 1, 1, 28, 2, 16, 5, 43, 255]);
            qs.push((n, t));
            if r.chance(1, 3) {
                qs.push((n, t));
            }
        }
        let rl = if r.chance(3, 4) { 24 } else { *r.pick(&[0u8, 1, 2, 3, 5, 8, 255]) };
        let nl = if r.chance(3, 4) { 24 } else { *r.pick(&[0u8, 1, 2, 3, 4, 5, 6, 8, 16, 255]) };
        let roots = w.group_ips[0].clone();
        let mut c = w.case(roots, qs, rl, nl);
        // filters
        let mut all_ips: Vec<IpAddr> = c.groups.iter().flat_map(|g| g.ips.clone()).collect();
        all_ips.extend(evil_ips);
        if r.chance(1, 6) {
            c.deny_srv.push(net32(*r.pick(&all_ips)));
            if r.chance(1, 3) {
                c.deny_srv.push(IpNet::new(v4(44, 0, 0, 0), 16).unwrap());
                c.allow_srv.push(IpNet::new(v4(44, 0, 0, 0), *r.pick(&[21u8, 22, 23])).unwrap());
            }
        }
        if r.chance(1, 6) {
            c.deny_ans.push(IpNet::new(v4(44, 1, 1, 0), *r.pick(&[24u8, 30, 31, 32])).unwrap());
            if r.chance(1, 3) {
                c.allow_ans.push(net32(v4(44, 1, 1, 1)));
            }
        }
        if r.chance(1, 8) {
            c.deny_ans.push(net32(evil_ips[0]));
        }
        // some answers are accompanied by RRSIGs covering their records (never validated here: what matters is which
        // of them CNAME chasing carries along and whether they are stripped for a client without the DO bit)
        if r.chance(1, 3) {
            let keys: Vec<(usize, usize, u16)> = c.table.keys().cloned().collect();
            for k in keys {
                let e = c.table.get_mut(&k).unwrap();
                if e.rcode == 0 && !e.ans.is_empty() && r.chance(1, 2) {
                    let first = e.ans[0].clone();
                    let covered = match first.data {
                        RD::A(_) => 1,
                        RD::Q(_) => 28,
                        RD::N(_) => 2,
                        RD::C(_) => 5,
                        RD::S(_) => 6,
                        RD::T(_) => 16,
                        RD::V(_) => 33,
                        RD::R(_) => 46,
                    };
                    e.ans.push(Rec { name: first.name, ttl: first.ttl, data: RD::R(covered) });
                    if r.chance(1, 4) {
                        e.ans.push(Rec { name: first.name, ttl: first.ttl, data: RD::R(*r.pick(&[1u16, 5, 16, 28])) });
                    }
                }
            }
        }
        // some answers come truncated over UDP (the pool repeats the query over TCP and gets the full answer)
        if r.chance(1, 4) {
            let keys: Vec<(usize, usize, u16)> = c.table.keys().cloned().collect();
            for k in keys {
                if r.chance(1, 3) {
                    c.table.get_mut(&k).unwrap().tc = 1;
                }
            }
        }
        // raw table mutations: a random record dropped into a random section of a random entry
        let keys: Vec<(usize, usize, u16)> = c.table.keys().cloned().collect();
        if !keys.is_empty() {
            let nm = if r.chance(1, 2) { r.range(0, 3) } else { 0 };
            for _ in 0..nm {
                let k = *r.pick(&keys);
                let pool: Vec<Rec> = c.table.values().flat_map(|x| x.all().cloned().collect::<Vec<_>>()).collect();
                if pool.is_empty() {
                    break;
                }
                let mut rec = r.pick(&pool).clone();
                if r.chance(1, 2) {
                    rec.name = r.below(c.names.len() as u64) as usize;
                }
                let e = c.table.get_mut(&k).unwrap();
                match r.below(4) {
                    0 => e.ans.push(rec),
                    1 => e.auth.push(rec),
                    2 => e.add.push(rec),
                    _ => e.aa = !e.aa,
                }
            }
        }
        c
    }
}

pub mod acl {
    //! `acl <allow nets> <deny nets> <ip>`: the real `AccessControlSet::denied` against the model and against an
    //! independent reference (RFC 4291 §2.5.5.2: only `::ffff:0:0/96` is the IPv4-mapped range).
    use super::*;
    use hickory_proto::access_control::AccessControlSetBuilder;

    fn bits(ip: &IpAddr) -> (bool, u128, u32) {
        match ip {
            IpAddr::V4(a) => (false, u32::from(*a) as u128, 32),
            IpAddr::V6(a) => (true, u128::from(*a), 128),
        }
    }

    /// reference: family match + equal leading bits
    fn ref_contains(n: &IpNet, ip: &IpAddr) -> bool {
        let (n6, na, w) = bits(&n.addr());
        let (i6, ia, _) = bits(ip);
        if n6 != i6 {
            return false;
        }
        let len = n.prefix_len() as u32;
        if len == 0 {
            return true;
        }
        (na >> (w - len)) == (ia >> (w - len))
    }

    pub fn ref_denied(allow: &[IpNet], deny: &[IpNet], ip: &IpAddr) -> bool {
        let canon = match ip {
            IpAddr::V6(a) => match a.to_ipv4_mapped() {
                Some(v4) => IpAddr::V4(v4),
                None => *ip,
            },
            _ => *ip,
        };
        !deny.is_empty() && deny.iter().any(|n| ref_contains(n, &canon)) && !allow.iter().any(|n| ref_contains(n, &canon))
    }

    pub fn exec(line: &str, t: &[&str], rec: &mut Recorder) {
        if t.len() != 4 {
            rec.stat("skipped.unparsable-case");
            return;
        }
        let (Some(allow), Some(deny), Some(ip)) = (parse_list(t[1], ',', parse_net), parse_list(t[2], ',', parse_net), parse_ip(t[3])) else {
            rec.stat("skipped.unparsable-case");
            return;
        };
        let r = catch(|| AccessControlSetBuilder::new("verif").allow(allow.iter()).deny(deny.iter()).build().map(|acs| acs.denied(ip)));
        // the other ways to arrive at the same set: entries added and cleared again first; the empty set
        let junk = [IpNet::new(gen::v4(0, 0, 0, 0), 0).unwrap(), IpNet::new(v6(0), 0).unwrap()];
        let r2 = catch(|| {
            AccessControlSetBuilder::new("verif")
                .allow(junk.iter())
                .deny(junk.iter())
                .clear_allow()
                .clear_deny()
                .allow(allow.iter())
                .deny(deny.iter())
                .build()
                .map(|acs| acs.denied(ip))
        });
        let same = match (&r, &r2) {
            (Ok(Ok(a)), Ok(Ok(b_))) => a == b_,
            (Ok(Err(_)), Ok(Err(_))) => true,
            _ => false,
        };
        let empty_ok = !(allow.is_empty() && deny.is_empty()) || {
            let e = hickory_proto::access_control::AccessControlSet::empty("verif");
            e.allows_all() && !e.denied(ip)
        };
        rec.stat("op.acl");
        match r {
            Ok(Ok(d)) => {
                let idx = rec.case(line.to_string(), b(d).to_string());
                let want = ref_denied(&allow, &deny, &ip);
                if !same {
                    rec.fail(idx, "a set built after clear_allow()/clear_deny() of other entries gives another verdict", "");
                }
                if !empty_ok {
                    rec.fail(idx, "AccessControlSet::empty() denies an address", "");
                }
                if d != want {
                    rec.fail(idx, format!("AccessControlSet::denied({}) = {d} but the lists say {want} (allow {}, deny {})", ip_tok(&ip), t[1], t[2]), "");
                }
                let fam = match ip {
                    IpAddr::V4(_) => "v4",
                    IpAddr::V6(a) if a.to_ipv4_mapped().is_some() => "v6-mapped",
                    IpAddr::V6(a) if u128::from(a) < (1u128 << 32) => "v6-low32(compatible,::1,::)",
                    IpAddr::V6(_) => "v6",
                };
                rec.stat(&format!("acl.{fam}.{}", if d { "denied" } else { "allowed" }));
                if !deny.is_empty() {
                    rec.nontrivial(idx);
                }
            }
            Ok(Err(_)) => {
                let idx = rec.case(line.to_string(), "err".to_string());
                if !(deny.is_empty() && !allow.is_empty()) {
                    rec.fail(idx, "AccessControlSetBuilder::build failed on a set with deny networks", "");
                }
            }
            Err(p) => {
                let idx = rec.case(line.to_string(), format!("panic {p}"));
                rec.fail(idx, format!("panic: {p}"), "");
            }
        }
    }

    pub fn v6(x: u128) -> IpAddr {
        IpAddr::V6(Ipv6Addr::from(x))
    }

    /// networks of every prefix-length class, both families
    pub fn nets() -> Vec<IpNet> {
        let n = |ip: IpAddr, len: u8| IpNet::new(ip, len).unwrap();
        let m = 0xffffu128 << 32;
        vec![
            n(gen::v4(0, 0, 0, 0), 0),
            n(gen::v4(0, 0, 0, 0), 8),
            n(gen::v4(10, 0, 0, 0), 8),
            n(gen::v4(127, 0, 0, 0), 8),
            n(gen::v4(44, 1, 1, 0), 31),
            n(gen::v4(44, 1, 1, 1), 32),
            n(gen::v4(0, 0, 0, 1), 32),
            n(v6(0), 0),
            n(v6(0), 8),
            n(v6(0), 64),
            n(v6(0), 96),
            n(v6(0), 128),
            n(v6(1), 128),
            n(v6(m), 96),
            n(v6(m | 0x2c01_0101), 128),
            n(v6(0x2c01_0101), 128),
            n(v6(0xfe80u128 << 112), 10),
            n(v6(0xfe80u128 << 112), 64),
            n(v6(0x2a00u128 << 112), 8),
            n(v6((0x2a00u128 << 112) | 7), 128),
        ]
    }

    /// ordinary, mapped, compatible, loopback, unspecified, link-local addresses
    pub fn addrs() -> Vec<IpAddr> {
        let m = 0xffffu128 << 32;
        vec![
            gen::v4(44, 1, 1, 1),
            gen::v4(44, 1, 1, 0),
            gen::v4(44, 1, 1, 2),
            gen::v4(10, 0, 0, 0),
            gen::v4(9, 255, 255, 255),
            gen::v4(11, 0, 0, 0),
            gen::v4(0, 0, 0, 0),
            gen::v4(0, 0, 0, 1),
            gen::v4(1, 0, 0, 0),
            gen::v4(127, 0, 0, 1),
            gen::v4(255, 255, 255, 255),
            v6((0x2a00u128 << 112) | 7),
            v6((0x2a00u128 << 112) | 6),
            v6((0x2a00u128 << 112) | 8),
            v6(m | 0x2c01_0101),
            v6(m | 0x2c01_0102),
            v6(m),
            v6(m | 0xffff_ffff),
            v6(m - 1),
            v6(1u128 << 48),
            v6(0x2c01_0101),
            v6(1),
            v6(0),
            v6(2),
            v6(0xffff_ffff),
            v6(1u128 << 32),
            v6((1u128 << 64) - 1),
            v6(1u128 << 64),
            v6((0xfe80u128 << 112) | 1),
            v6((0xfe80u128 << 112) | (1u128 << 64)),
            v6((0xfe7fu128 << 112) | 1),
            v6(0xfec0u128 << 112),
            v6(1u128 << 120),
            v6(0xffu128 << 120),
            v6(u128::MAX),
        ]
    }

    /// first - 1, first, last, last + 1 of a network
    fn boundaries(n: &IpNet) -> Vec<IpAddr> {
        let (six, a, w) = bits(&n.addr());
        let len = n.prefix_len() as u32;
        let host = if len == 0 { if w == 32 { u32::MAX as u128 } else { u128::MAX } } else if len == w { 0 } else { (1u128 << (w - len)) - 1 };
        let first = a & !host;
        let last = first | host;
        let max = if w == 32 { u32::MAX as u128 } else { u128::MAX };
        let mk = |x: u128| if six { v6(x) } else { IpAddr::V4(Ipv4Addr::from(x as u32)) };
        let mut v = vec![mk(first), mk(last)];
        if first > 0 {
            v.push(mk(first - 1));
        }
        if last < max {
            v.push(mk(last + 1));
        }
        v
    }

    fn line(allow: &[IpNet], deny: &[IpNet], ip: &IpAddr) -> String {
        format!("acl {} {} {}", list_tok(allow, ",", net_tok), list_tok(deny, ",", net_tok), ip_tok(ip))
    }

    /// the directed grid (always run in full: it is cheap) + random combinations
    pub fn run(o: &Opts, r: &mut Rng, rec: &mut Recorder) {
        if o.replay_only {
            return;
        }
        let nets = nets();
        let addrs = addrs();
        // one deny network, no allow list: every address class and the boundaries of the network
        for d in &nets {
            for ip in addrs.iter().cloned().chain(boundaries(d)) {
                super::exec(&line(&[], &[*d], &ip), rec);
            }
        }
        // a broad deny network with every allow exception
        let broad: Vec<IpNet> = nets.iter().filter(|n| n.prefix_len() <= 8 || (n.prefix_len() == 96) || n.prefix_len() == 64).cloned().collect();
        for d in &broad {
            for a in &nets {
                for ip in addrs.iter().cloned().chain(boundaries(a)) {
                    super::exec(&line(&[*a], &[*d], &ip), rec);
                }
            }
        }
        // an allow list without deny networks is rejected by the builder
        super::exec(&line(&[nets[0]], &[], &addrs[0]), rec);
        super::exec(&line(&[], &[], &addrs[0]), rec);
        // random combinations
        let n = o.n(1500, 30000);
        for _ in 0..n {
            let na = r.below(3) as usize;
            let nd = r.range(1, 3) as usize;
            let allow: Vec<IpNet> = (0..na).map(|_| *r.pick(&nets)).collect();
            let deny: Vec<IpNet> = (0..nd).map(|_| *r.pick(&nets)).collect();
            let ip = if r.chance(1, 3) {
                {
                    let d = *r.pick(&deny);
                    *r.pick(&boundaries(&d))
                }
            } else {
                *r.pick(&addrs)
            };
            super::exec(&line(&allow, &deny, &ip), rec);
        }
    }
}

mod stub {
    //! alias chasing of the stub resolver: the real `Resolver` (CachingClient::inner_lookup, DepthTracker)
    //! over one mocked upstream that answers from a table; default answer NXDOMAIN.
    use super::*;
    use hickory_resolver::config::{NameServerConfig, ResolverConfig, ResolverOpts};
    use hickory_resolver::Resolver;

    const UPSTREAM: IpAddr = IpAddr::V4(Ipv4Addr::new(44, 9, 9, 9));

    fn parse(t: &[&str]) -> Option<Case> {
        if t.len() != 4 && t.len() != 5 {
            return None;
        }
        let names = parse_list(t[1], ',', parse_name)?;
        let mut table = BTreeMap::new();
        for (k, r) in parse_list(t[2], ';', |e| {
            let (k, r) = e.split_once('=')?;
            let (n, ty) = k.split_once(',')?;
            Some(((0usize, n.parse::<usize>().ok()?, ty.parse::<u16>().ok()?), parse_resp(r)?))
        })? {
            table.insert(k, r);
        }
        let (n, ty) = t[3].split_once(',')?;
        let c = Case {
            rl: 0,
            nl: 0,
            roots: vec![UPSTREAM],
            deny_srv: vec![],
            allow_srv: vec![],
            deny_ans: vec![],
            allow_ans: vec![],
            names,
            groups: vec![Group { ips: vec![UPSTREAM], default: Resp { rcode: 3, aa: true, ..Default::default() } }],
            table,
            queries: vec![(n.parse().ok()?, ty.parse().ok()?)],
            conc: None,
            validating: false,
        };
        let nn = c.names.len();
        let ok = c.table.iter().all(|((_, n, _), r)| {
            *n < nn
                && r.all().all(|x| {
                    x.name < nn
                        && match x.data {
                            RD::N(y) | RD::C(y) | RD::V(y) => y < nn,
                            _ => true,
                        }
                })
        });
        if !ok || c.queries[0].0 >= nn {
            return None;
        }
        Some(c)
    }

    /// returns (answered, upstream queries) of the first lookup and, with `twice`, of a second identical lookup
    fn run_stub(case: Arc<Case>, pi: bool, twice: bool) -> Result<((bool, usize), Option<(bool, usize)>), String> {
        let rt = tokio::runtime::Builder::new_current_thread().enable_all().build().map_err(|e| e.to_string())?;
        rt.block_on(async move {
            let log = Arc::new(Mutex::new(vec![]));
            let net = MockNet { case: case.clone(), log: log.clone(), rt: TokioRuntimeProvider::default(), delay: if case.conc.is_some() { Duration::from_millis(2) } else { Duration::ZERO } };
            let config = ResolverConfig::from_parts(None, vec![], vec![NameServerConfig::udp(UPSTREAM)]);
            let mut opts = ResolverOpts::default();
            opts.attempts = 0;
            opts.ndots = 0;
            opts.preserve_intermediates = pi;
            let resolver = Resolver::builder_with_config(config, net).with_options(opts).build().map_err(|e| format!("build: {e}"))?;
            let (n, t) = case.queries[0];
            let fut = resolver.lookup(case.names[n].clone(), RecordType::from(t));
            let res = tokio::time::timeout(Duration::from_secs(60), fut).await.map_err(|_| "hang".to_string())?;
            let sends = log.lock().unwrap().iter().filter(|e| matches!(e, Event::Send(..))).count();
            let first = (res.is_ok(), sends);
            let second = if twice {
                log.lock().unwrap().clear();
                let fut = resolver.lookup(case.names[n].clone(), RecordType::from(t));
                let res = tokio::time::timeout(Duration::from_secs(60), fut).await.map_err(|_| "hang".to_string())?;
                let sends = log.lock().unwrap().iter().filter(|e| matches!(e, Event::Send(..))).count();
                Some((res.is_ok(), sends))
            } else {
                None
            };
            Ok((first, second))
        })
    }

    pub fn exec(line: &str, t: &[&str], rec: &mut Recorder) {
        let Some(case) = parse(t) else {
            rec.stat("skipped.unparsable-case");
            return;
        };
        let case = Arc::new(case);
        let (tx, rx) = std::sync::mpsc::channel();
        let c2 = case.clone();
        let flags = t.get(4).copied().unwrap_or("");
        let (pi, twice) = (!flags.starts_with("p0"), flags.ends_with('x'));
        std::thread::spawn(move || {
            let r = catch(|| run_stub(c2, pi, twice));
            let _ = tx.send(match r {
                Ok(r) => r,
                Err(p) => Err(format!("panic {p}")),
            });
        });
        let res = rx.recv_timeout(Duration::from_secs(120)).unwrap_or(Err("hang".into()));
        rec.stat("op.stub");
        match res {
            Ok(((ok, n), second)) => {
                let idx = rec.case(line.to_string(), format!("{} n={n}", b(ok)));
                if !pi {
                    rec.stat("stub.preserve_intermediates-off");
                }
                // the same lookup again (from the stub's cache where it keeps the outcome): same verdict, and again
                // at most MAX_QUERY_DEPTH upstream queries
                if let Some((ok2, n2)) = second {
                    rec.stat(if n2 == 0 { "stub.second-lookup.from-cache" } else { "stub.second-lookup.upstream-again" });
                    if ok2 != ok {
                        rec.fail(idx, format!("the same stub lookup a second time ends differently ({ok} then {ok2})"), "");
                    }
                    if n2 > 8 {
                        rec.fail(idx, format!("stub resolver sent {n2} upstream queries for the repeated lookup (> MAX_QUERY_DEPTH = 8)"), "");
                    }
                }
                rec.stat(&format!("stub.upstream-queries.{n}"));
                rec.stat(if ok { "stub.answered" } else { "stub.failed" });
                if n > 8 {
                    rec.fail(idx, format!("stub resolver sent {n} upstream queries for one lookup (> MAX_QUERY_DEPTH = 8)"), "");
                }
                if n >= 2 {
                    rec.nontrivial(idx);
                }
            }
            Err(e) => {
                let idx = rec.case(line.to_string(), e.clone());
                rec.fail(idx, format!("stub lookup did not end with an answer or an error: {e}"), "");
            }
        }
    }

    /// alias chains of every length (shorter, equal to, longer than the limit), loops, chains packed into one
    /// answer, data for the final name present or absent
    pub fn gen(r: &mut Rng) -> String {
        let mut names: Vec<Name> = vec![];
        let k = r.range(0, 12) as usize;
        let looped = r.chance(1, 5);
        let nn = k + 1;
        for i in 0..nn {
            names.push(Name::from_ascii(format!("h{i}.example{}.test-zone.", i % 3)).unwrap());
        }
        let qt = *r.pick(&[1u16, 1, 1, 28, 16, 5, 255, 33]);
        let srv_hops = qt != 33 && r.chance(1, 6);
        let mut table: Vec<String> = vec![];
        let data = |n: usize, qt: u16| -> String {
            match qt {
                28 => format!("{n}:300:Q{}", 0x2a00u128 << 112 | 7),
                16 => format!("{n}:300:T7"),
                33 => format!("{n}:300:V{}", (n + 1) % nn),
                _ => format!("{n}:300:A{}", u32::from(Ipv4Addr::new(44, 1, 1, 1))),
            }
        };
        let mut i = 0;
        while i < nn {
            // how many hops this response carries in its answer section
            let pack = if r.chance(1, 4) { r.range(2, 3) as usize } else { 1 };
            let mut ans: Vec<String> = vec![];
            let mut j = i;
            while j < i + pack && j < nn {
                let last = j + 1 == nn;
                if last && !looped {
                    if r.chance(4, 5) {
                        ans.push(data(j, if qt == 5 || qt == 255 { 1 } else { qt }));
                    }
                } else {
                    let target = if last { r.below(nn as u64) as usize } else { j + 1 };
                    // an SRV record in the answer redirects the search like an alias (the `SRV` arm of handle_noerror)
                    ans.push(if srv_hops && r.chance(1, 2) { format!("{j}:300:V{target}") } else { format!("{j}:300:C{target}") });
                    // sometimes the target's data rides along
                    if r.chance(1, 6) {
                        ans.push(data(target, qt));
                    }
                }
                j += 1;
            }
            let resp = format!("0/1/{}/-/-", if ans.is_empty() { "-".to_string() } else { ans.join("+") });
            if !ans.is_empty() {
                table.push(format!("{i},{qt}={resp}"));
            }
            i += 1;
        }
        let flags = format!("{}{}", if r.chance(1, 3) { "p0" } else { "p1" }, if r.chance(1, 2) { "x" } else { "" });
        format!(
            "stub {} {} 0,{qt} {flags}",
            list_tok(&names, ",", name_tok),
            if table.is_empty() { "-".to_string() } else { table.join(";") }
        )
    }
}
