//! C15 — resolver response cache: entries expire on time, TTLs only count down.
//!
//! Drives the real `hickory_resolver::ResponseCache::{new, insert, get}` with explicit `Instant`s
//! (`base + offset`, the base lying in the future so that moka's own real-time expiry, which is
//! derived from the same `valid_until`, can never fire during a run) over stateful blocks
//!
//!   begin [d:<b>] [<type>:<b>]…   b = posMin,posMax,negMin,negMax in ns (`-` = unset)
//!   ins <q> <t> pos <answers> <authorities> <additionals>     records `type:ttl:pid,…` or `-`
//!   ins <q> <t> neg <rcode> <nttl|-> <soa|-> <auth|-|e> <ns|-|e>
//!   ins <q> <t> err <kind>
//!   get <q> <t>
//!   end <digest>
//!
//! and, because `ResponseCache::clear` / `clear_query` are `pub(crate)`, the public route to them,
//! `CachingClient::{new, lookup, clear_cache, clear_cache_query}` over a scripted `DnsHandle`
//! (default `TtlConfig`, real clock, TTLs of hours so that real time does not matter):
//!
//!   begin cc
//!   cclookup <q> <result>    → `miss` (upstream asked, result cached) / `hit` (served from cache)
//!   clear | clearq <q>
//!   end <digest>
//!
//! Outside blocks:
//!
//!   fromresp <rcode> <tc> <ans> <match> <soa_ttl|-> <soa_minimum>   a real response message →
//!                     `DnsError::from_response`: `ok` / `neg <negative_ttl>` (cacheable) / `err <rcode>`
//!   realtime <lifetime_ms>                      implementation only (`~`): real clock, moka's own expiry
//!                                               included — after sleeping past the lifetime nothing is served
//!
//! The oracle (independent of the Lean model) recomputes the clauses of the property from the
//! history: never served after `t_ins + L`, every TTL = clamped stored TTL ⊖ whole seconds elapsed,
//! TTLs non-increasing between refreshes, negative answers bounded, transient errors never cached,
//! no panic.
use std::collections::HashMap;
use std::net::{Ipv4Addr, Ipv6Addr};
use std::sync::atomic::{AtomicUsize, Ordering as AtomicOrdering};
use std::sync::{Arc, Mutex};
use std::time::{Duration, Instant};

use futures_util::stream::{once, Stream};
use hickory_net::runtime::TokioRuntimeProvider;
use hickory_net::xfer::DnsHandle;
use hickory_net::{DnsError, ForwardNSData, NetError, NoRecords};
use hickory_proto::op::{DnsRequest, DnsRequestOptions, DnsResponse, Message, OpCode, Query, ResponseCode};
use hickory_proto::rr::rdata::{A, AAAA, CNAME, MX, NS, NULL, SOA, TXT};
use hickory_proto::rr::{Name, RData, Record, RecordType};
use hickory_proto::ProtoError;
use hickory_resolver::caching_client::CachingClient;
use hickory_resolver::config::ResolverOpts;
use hickory_resolver::{ResponseCache, TtlBounds, TtlConfig};

use crate::common::*;

const NS_PER_S: u128 = 1_000_000_000;
const MAX_TTL: u32 = 86_400;
const T_A: u16 = 1;
const T_NS: u16 = 2;
const T_CNAME: u16 = 5;
const T_SOA: u16 = 6;
const T_MX: u16 = 15;
const T_TXT: u16 = 16;
const T_AAAA: u16 = 28;
const T_ANY: u16 = 255;

// ------------------------------------------------------------------ abstract values (= the model's)

#[derive(Clone, Debug, PartialEq, Eq)]
struct ARec {
    ty: u16,
    ttl: u32,
    pid: u32,
}

#[derive(Clone, Debug, PartialEq, Eq)]
struct ANs {
    ns: ARec,
    glue: Vec<ARec>,
}

#[derive(Clone, Debug, PartialEq, Eq)]
enum ARes {
    Pos { an: Vec<ARec>, au: Vec<ARec>, ad: Vec<ARec> },
    Neg { rcode: u16, nttl: Option<u32>, soa: Option<ARec>, auth: Option<Vec<ARec>>, ns: Option<Vec<ANs>> },
    Err(u32),
}

#[derive(Clone, Copy, Debug, PartialEq, Eq, Hash)]
struct AQuery {
    id: u32,
    upper: bool,
    ty: u16,
}

impl AQuery {
    fn key(&self) -> (u32, u16) {
        (self.id, self.ty)
    }
}

fn show_rec(r: &ARec) -> String {
    format!("{}:{}:{}", r.ty, r.ttl, r.pid)
}
fn show_recs_sep(l: &[ARec], sep: &str) -> String {
    if l.is_empty() { "-".into() } else { l.iter().map(show_rec).collect::<Vec<_>>().join(sep) }
}
fn show_recs(l: &[ARec]) -> String {
    show_recs_sep(l, ",")
}
fn show_opt_recs(l: &Option<Vec<ARec>>) -> String {
    match l {
        None => "-".into(),
        Some(v) if v.is_empty() => "e".into(),
        Some(v) => show_recs(v),
    }
}
fn show_ns(d: &ANs) -> String {
    format!("{}/{}", show_rec(&d.ns), if d.glue.is_empty() { String::new() } else { show_recs_sep(&d.glue, "+") })
}
fn show_opt_ns(l: &Option<Vec<ANs>>) -> String {
    match l {
        None => "-".into(),
        Some(v) if v.is_empty() => "e".into(),
        Some(v) => v.iter().map(show_ns).collect::<Vec<_>>().join(";"),
    }
}
fn show_opt<T: ToString>(o: &Option<T>) -> String {
    o.as_ref().map(|x| x.to_string()).unwrap_or_else(|| "-".into())
}
fn show_res(r: &ARes) -> String {
    match r {
        ARes::Pos { an, au, ad } => format!("pos {} {} {}", show_recs(an), show_recs(au), show_recs(ad)),
        ARes::Neg { rcode, nttl, soa, auth, ns } => format!(
            "neg {} {} {} {} {}",
            rcode,
            show_opt(nttl),
            soa.as_ref().map(show_rec).unwrap_or_else(|| "-".into()),
            show_opt_recs(auth),
            show_opt_ns(ns)
        ),
        ARes::Err(k) => format!("err {k}"),
    }
}
fn show_query(q: &AQuery) -> String {
    format!("{}{}/{}", q.id, if q.upper { "u" } else { "" }, q.ty)
}

fn parse_rec(s: &str) -> Option<ARec> {
    let p: Vec<&str> = s.split(':').collect();
    if p.len() != 3 {
        return None;
    }
    Some(ARec { ty: p[0].parse().ok()?, ttl: p[1].parse().ok()?, pid: p[2].parse().ok()? })
}
fn parse_recs_sep(s: &str, sep: char) -> Option<Vec<ARec>> {
    if s == "-" || s.is_empty() {
        return Some(vec![]);
    }
    s.split(sep).map(parse_rec).collect()
}
fn parse_recs(s: &str) -> Option<Vec<ARec>> {
    parse_recs_sep(s, ',')
}
fn parse_opt_recs(s: &str) -> Option<Option<Vec<ARec>>> {
    match s {
        "-" => Some(None),
        "e" => Some(Some(vec![])),
        _ => parse_recs(s).map(Some),
    }
}
fn parse_opt_ns(s: &str) -> Option<Option<Vec<ANs>>> {
    match s {
        "-" => Some(None),
        "e" => Some(Some(vec![])),
        _ => s
            .split(';')
            .map(|e| {
                let (r, g) = e.split_once('/')?;
                Some(ANs { ns: parse_rec(r)?, glue: parse_recs_sep(g, '+')? })
            })
            .collect::<Option<Vec<_>>>()
            .map(Some),
    }
}
fn parse_res(t: &[&str]) -> Option<ARes> {
    match t {
        ["pos", an, au, ad] => Some(ARes::Pos { an: parse_recs(an)?, au: parse_recs(au)?, ad: parse_recs(ad)? }),
        ["neg", rc, nt, soa, auth, ns] => Some(ARes::Neg {
            rcode: rc.parse().ok()?,
            nttl: if *nt == "-" { None } else { Some(nt.parse().ok()?) },
            soa: if *soa == "-" { None } else { Some(parse_rec(soa)?) },
            auth: parse_opt_recs(auth)?,
            ns: parse_opt_ns(ns)?,
        }),
        ["err", k] => Some(ARes::Err(k.parse().ok()?)),
        _ => None,
    }
}
fn parse_query(s: &str) -> Option<AQuery> {
    let (i, ty) = s.split_once('/')?;
    let (i, upper) = match i.strip_suffix('u') {
        Some(x) => (x, true),
        None => (i, false),
    };
    Some(AQuery { id: i.parse().ok()?, upper, ty: ty.parse().ok()? })
}

// ------------------------------------------------------------------ abstract → real → abstract

fn name(prefix: &str, n: u32) -> Name {
    Name::from_ascii(format!("{prefix}{n}.example.")).unwrap()
}

fn mk_rdata(ty: u16, pid: u32) -> RData {
    match ty {
        T_A => RData::A(A(Ipv4Addr::new(10, (pid >> 16) as u8, (pid >> 8) as u8, pid as u8))),
        T_AAAA => RData::AAAA(AAAA(Ipv6Addr::new(0x2001, 0xdb8, 0, 0, 0, 0, (pid >> 16) as u16, pid as u16))),
        T_CNAME => RData::CNAME(CNAME(name("t", pid))),
        T_NS => RData::NS(NS(name("ns", pid))),
        T_MX => RData::MX(MX::new(10, name("mx", pid))),
        T_TXT => RData::TXT(TXT::new(vec![format!("p{pid}")])),
        T_SOA => RData::SOA(mk_soa(pid)),
        _ => RData::Unknown { code: RecordType::from(ty), rdata: NULL::with(pid.to_be_bytes().to_vec()) },
    }
}
fn mk_soa(pid: u32) -> SOA {
    SOA::new(name("m", pid), name("h", pid), pid, 7200, 600, 360_000, 60)
}
fn mk_rec(r: &ARec) -> Record {
    Record::from_rdata(name("r", r.pid), r.ttl, mk_rdata(r.ty, r.pid))
}
fn pid_of(n: &Name) -> Option<u32> {
    let l = n.iter().next()?;
    std::str::from_utf8(l).ok()?.strip_prefix('r')?.parse().ok()
}
/// abstraction of a real record; `None` if its identity (owner, data) is not what `mk_rec` builds
fn abs_rec(r: &Record) -> Option<ARec> {
    let pid = pid_of(&r.name)?;
    let ty = u16::from(r.record_type());
    if r.data != mk_rdata(ty, pid) || r.name != name("r", pid) {
        return None;
    }
    Some(ARec { ty, ttl: r.ttl, pid })
}
fn abs_recs<'a>(rs: impl IntoIterator<Item = &'a Record>) -> Option<Vec<ARec>> {
    rs.into_iter().map(abs_rec).collect()
}

fn mk_query(q: &AQuery) -> Query {
    let n = if q.upper { format!("Q{}.EXAMPLE.", q.id) } else { format!("q{}.example.", q.id) };
    Query::new(Name::from_ascii(n).unwrap(), RecordType::from(q.ty))
}

fn mk_message(an: &[ARec], au: &[ARec], ad: &[ARec], q: &AQuery) -> Message {
    let mut m = Message::response(0x1234, OpCode::Query);
    m.add_query(mk_query(q));
    m.answers.extend(an.iter().map(mk_rec));
    m.authorities.extend(au.iter().map(mk_rec));
    m.additionals.extend(ad.iter().map(mk_rec));
    m
}

fn mk_err(k: u32) -> NetError {
    match k % 10 {
        0 => NetError::Timeout,
        1 => NetError::Busy,
        2 => NetError::NoConnections,
        3 => NetError::from(std::io::Error::new(std::io::ErrorKind::ConnectionReset, "verif")),
        4 => NetError::Message("verif"),
        5 => NetError::Msg("verif".into()),
        6 => NetError::Dns(DnsError::ResponseCode(ResponseCode::ServFail)),
        7 => NetError::Dns(DnsError::ResponseCode(ResponseCode::Refused)),
        8 => NetError::Proto(ProtoError::from("verif")),
        _ => NetError::Dns(DnsError::ResponseCode(ResponseCode::NXDomain)),
    }
}

fn mk_result(r: &ARes, q: &AQuery) -> Option<Result<Message, NetError>> {
    Some(match r {
        ARes::Pos { an, au, ad } => Ok(mk_message(an, au, ad, q)),
        ARes::Neg { rcode, nttl, soa, auth, ns } => {
            let mut n = NoRecords::new(mk_query(q), <ResponseCode as From<u16>>::from(*rcode));
            n.negative_ttl = *nttl;
            if let Some(s) = soa {
                if s.ty != T_SOA {
                    return None;
                }
                n.soa = Some(Box::new(Record::from_rdata(name("r", s.pid), s.ttl, mk_soa(s.pid))));
            }
            n.authorities = auth.as_ref().map(|v| v.iter().map(mk_rec).collect::<Vec<_>>().into());
            n.ns = ns.as_ref().map(|v| {
                v.iter()
                    .map(|d| ForwardNSData { ns: mk_rec(&d.ns), glue: d.glue.iter().map(mk_rec).collect::<Vec<_>>().into() })
                    .collect::<Vec<_>>()
                    .into()
            });
            Err(NetError::Dns(DnsError::NoRecordsFound(n)))
        }
        ARes::Err(k) => Err(mk_err(*k)),
    })
}

/// abstraction of what `get` returned; `Err(why)` when it is not the image of any abstract value
fn abs_result(r: &Result<Message, NetError>) -> Result<ARes, String> {
    match r {
        Ok(m) => Ok(ARes::Pos {
            an: abs_recs(&m.answers).ok_or("answer record altered")?,
            au: abs_recs(&m.authorities).ok_or("authority record altered")?,
            ad: abs_recs(&m.additionals).ok_or("additional record altered")?,
        }),
        Err(NetError::Dns(DnsError::NoRecordsFound(n))) => Ok(ARes::Neg {
            rcode: u16::from(n.response_code),
            nttl: n.negative_ttl,
            soa: match &n.soa {
                None => None,
                Some(s) => {
                    let pid = pid_of(&s.name).ok_or("soa altered")?;
                    if s.data != mk_soa(pid) {
                        return Err("soa data altered".into());
                    }
                    Some(ARec { ty: T_SOA, ttl: s.ttl, pid })
                }
            },
            auth: match &n.authorities {
                None => None,
                Some(v) => Some(abs_recs(v.iter()).ok_or("NoRecords authority altered")?),
            },
            ns: match &n.ns {
                None => None,
                Some(v) => Some(
                    v.iter()
                        .map(|d| Some(ANs { ns: abs_rec(&d.ns)?, glue: abs_recs(d.glue.iter())? }))
                        .collect::<Option<Vec<_>>>()
                        .ok_or("NoRecords ns altered")?,
                ),
            },
        }),
        Err(e) => Err(format!("cache returned a non-cacheable error: {e}")),
    }
}

// ------------------------------------------------------------------ configuration

#[derive(Clone, Copy, Debug, Default, PartialEq, Eq)]
struct B {
    pmin: Option<u128>,
    pmax: Option<u128>,
    nmin: Option<u128>,
    nmax: Option<u128>,
}

#[derive(Clone, Debug, Default)]
struct Cfg {
    default: B,
    /// in call order of `with_query_type_ttl_bounds`; a later call for the same type wins
    by: Vec<(u16, B)>,
}

fn show_b(b: &B) -> String {
    format!("{},{},{},{}", show_opt(&b.pmin), show_opt(&b.pmax), show_opt(&b.nmin), show_opt(&b.nmax))
}
fn show_cfg(c: &Cfg) -> String {
    let mut v = vec![];
    if c.default != B::default() {
        v.push(format!("d:{}", show_b(&c.default)));
    }
    for (ty, b) in &c.by {
        v.push(format!("{}:{}", ty, show_b(b)));
    }
    v.join(" ")
}
fn parse_b(s: &str) -> Option<B> {
    let p: Vec<&str> = s.split(',').collect();
    if p.len() != 4 {
        return None;
    }
    let f = |x: &str| -> Option<Option<u128>> { if x == "-" { Some(None) } else { Some(Some(x.parse().ok()?)) } };
    Some(B { pmin: f(p[0])?, pmax: f(p[1])?, nmin: f(p[2])?, nmax: f(p[3])? })
}
fn parse_cfg(toks: &[&str]) -> Option<Cfg> {
    let mut c = Cfg::default();
    for t in toks {
        let (k, b) = t.split_once(':')?;
        let b = parse_b(b)?;
        if k == "d" { c.default = b } else { c.by.push((k.parse().ok()?, b)) }
    }
    Some(c)
}
fn dur(ns: u128) -> Option<Duration> {
    let s = u64::try_from(ns / NS_PER_S).ok()?;
    Some(Duration::new(s, (ns % NS_PER_S) as u32))
}
fn opt_dur(x: Option<u128>) -> Option<Option<Duration>> {
    match x {
        None => Some(None),
        Some(ns) => Some(Some(dur(ns)?)),
    }
}

/// Builds the real `TtlConfig` through the public API only: global bounds through
/// `ResolverOpts` + `TtlConfig::from_opts`, per-type bounds through serde (`TtlBounds` has private
/// fields; whole seconds only) + `with_query_type_ttl_bounds`.
fn build_cfg(c: &Cfg) -> Option<TtlConfig> {
    let mut opts = ResolverOpts::default();
    opts.positive_min_ttl = opt_dur(c.default.pmin)?;
    opts.positive_max_ttl = opt_dur(c.default.pmax)?;
    opts.negative_min_ttl = opt_dur(c.default.nmin)?;
    opts.negative_max_ttl = opt_dur(c.default.nmax)?;
    let mut cfg = TtlConfig::from_opts(&opts);
    for (ty, b) in &c.by {
        let mut fields = vec![];
        for (k, v) in [("positive_min_ttl", b.pmin), ("positive_max_ttl", b.pmax), ("negative_min_ttl", b.nmin), ("negative_max_ttl", b.nmax)] {
            if let Some(ns) = v {
                if ns % NS_PER_S != 0 {
                    return None;
                }
                fields.push(format!("\"{k}\": {}", u64::try_from(ns / NS_PER_S).ok()?));
            }
        }
        let tb: TtlBounds = serde_json::from_str(&format!("{{{}}}", fields.join(", "))).ok()?;
        cfg.with_query_type_ttl_bounds(RecordType::from(*ty), tb);
    }
    Some(cfg)
}

impl Cfg {
    fn bounds_for(&self, ty: u16) -> &B {
        self.by.iter().rev().find(|(k, _)| *k == ty).map(|(_, b)| b).unwrap_or(&self.default)
    }
    fn pos(&self, ty: u16) -> (u128, u128) {
        let b = self.bounds_for(ty);
        (b.pmin.unwrap_or(0), b.pmax.unwrap_or(MAX_TTL as u128 * NS_PER_S))
    }
    fn neg(&self, ty: u16) -> (u128, u128) {
        let b = self.bounds_for(ty);
        (b.nmin.unwrap_or(0), b.nmax.unwrap_or(MAX_TTL as u128 * NS_PER_S))
    }
    fn all_bounds(&self) -> impl Iterator<Item = &B> {
        std::iter::once(&self.default).chain(self.by.iter().map(|(_, b)| b))
    }
    /// class `C15.bounds-min-gt-max`
    fn min_gt_max(&self) -> bool {
        self.all_bounds().any(|b| {
            b.pmin.unwrap_or(0) > b.pmax.unwrap_or(MAX_TTL as u128 * NS_PER_S)
                || b.nmin.unwrap_or(0) > b.nmax.unwrap_or(MAX_TTL as u128 * NS_PER_S)
        })
    }
    /// some configured bound is ≥ 2^32 s (statistics only: since hickory-dns 617ee15 such
    /// configurations are judged like any other)
    fn over_u32(&self) -> bool {
        let lim = (1u128 << 32) * NS_PER_S;
        self.all_bounds().any(|b| [b.pmin, b.pmax, b.nmin, b.nmax].iter().any(|x| x.is_some_and(|v| v >= lim)))
    }
    fn class(&self) -> &'static str {
        if self.min_gt_max() {
            "C15.bounds-min-gt-max"
        } else {
            ""
        }
    }
}

// ------------------------------------------------------------------ the property, computed from the history

fn clamp_u128(x: u128, lo: u128, hi: u128) -> u128 {
    // only used with lo <= hi (other configurations are classified, not judged)
    x.max(lo).min(hi.max(lo))
}
fn sat_u32(x: u128) -> u32 {
    u32::try_from(x).unwrap_or(u32::MAX)
}
/// "per-type clamped stored TTL": the TTL clamped to the positive bounds (whole seconds) of the
/// record's own type
fn stored_ttl(c: &Cfg, r: &ARec) -> u32 {
    let (lo, hi) = c.pos(r.ty);
    let (lo, hi) = (sat_u32(lo / NS_PER_S), sat_u32(hi / NS_PER_S));
    r.ttl.max(lo).min(hi.max(lo))
}
fn stored(c: &Cfg, r: &ARes) -> ARes {
    match r {
        ARes::Pos { an, au, ad } => {
            let f = |v: &Vec<ARec>| v.iter().map(|r| ARec { ttl: stored_ttl(c, r), ..r.clone() }).collect::<Vec<_>>();
            ARes::Pos { an: f(an), au: f(au), ad: f(ad) }
        }
        other => other.clone(),
    }
}
/// `L` in ns
fn lifetime(c: &Cfg, qt: u16, r: &ARes) -> u128 {
    match r {
        ARes::Pos { an, au, ad } => {
            let (lo, hi) = c.pos(qt);
            let m = an
                .iter()
                .chain(au)
                .chain(ad)
                .filter(|r| r.ty == qt || r.ty == T_CNAME)
                .map(|r| stored_ttl(c, r) as u128 * NS_PER_S)
                .min();
            clamp_u128(m.unwrap_or(lo), lo, hi)
        }
        ARes::Neg { nttl, .. } => {
            let (lo, hi) = c.neg(qt);
            match nttl {
                Some(t) => clamp_u128(*t as u128 * NS_PER_S, lo, hi),
                None => lo,
            }
        }
        ARes::Err(_) => 0,
    }
}
fn ttls(r: &ARes) -> Vec<u32> {
    match r {
        ARes::Pos { an, au, ad } => an.iter().chain(au).chain(ad).map(|r| r.ttl).collect(),
        ARes::Neg { nttl, soa, auth, ns, .. } => {
            let mut v: Vec<u32> = nttl.iter().copied().collect();
            v.extend(soa.iter().map(|r| r.ttl));
            v.extend(auth.iter().flatten().map(|r| r.ttl));
            for d in ns.iter().flatten() {
                v.push(d.ns.ttl);
                v.extend(d.glue.iter().map(|r| r.ttl));
            }
            v
        }
        ARes::Err(_) => vec![],
    }
}
fn with_ttls(r: &ARes, f: impl Fn(u32) -> u32 + Copy) -> ARes {
    let fr = |r: &ARec| ARec { ttl: f(r.ttl), ..r.clone() };
    let fv = |v: &Vec<ARec>| v.iter().map(fr).collect::<Vec<_>>();
    match r {
        ARes::Pos { an, au, ad } => ARes::Pos { an: fv(an), au: fv(au), ad: fv(ad) },
        ARes::Neg { rcode, nttl, soa, auth, ns } => ARes::Neg {
            rcode: *rcode,
            nttl: nttl.map(f),
            soa: soa.as_ref().map(fr),
            auth: auth.as_ref().map(fv),
            ns: ns.as_ref().map(|v| v.iter().map(|d| ANs { ns: fr(&d.ns), glue: fv(&d.glue) }).collect()),
        },
        ARes::Err(k) => ARes::Err(*k),
    }
}

struct Shadow {
    res: ARes,
    t: u128,
    /// instant and TTL vector of the last answer served since this insert
    last: Option<(u128, Vec<u32>)>,
}

struct Direct {
    cache: ResponseCache,
    base: Instant,
    cfg: Cfg,
    shadow: HashMap<(u32, u16), Shadow>,
}

// ------------------------------------------------------------------ caching-client route (clear)

#[derive(Clone)]
struct Scripted {
    next: Arc<Mutex<Option<Result<Message, NetError>>>>,
    calls: Arc<AtomicUsize>,
}

impl DnsHandle for Scripted {
    type Response = std::pin::Pin<Box<dyn Stream<Item = Result<DnsResponse, NetError>> + Send>>;
    type Runtime = TokioRuntimeProvider;

    fn send(&self, _request: DnsRequest) -> Self::Response {
        self.calls.fetch_add(1, AtomicOrdering::SeqCst);
        let r = self.next.lock().unwrap().take().unwrap_or(Err(NetError::Message("no scripted answer")));
        let r = r.and_then(|m| DnsResponse::from_message(m).map_err(NetError::from));
        Box::pin(once(async move { r }))
    }
}

struct Cc {
    client: CachingClient<Scripted>,
    handle: Scripted,
    rt: tokio::runtime::Runtime,
    cached: HashMap<(u32, u16), ()>,
}

enum Blk {
    None,
    Direct(Box<Direct>),
    Cc(Box<Cc>),
    /// the `begin` line could not be honoured (unparsable / not expressible through the public API)
    Skipped,
}

pub struct Ctx {
    blk: Blk,
    hits: u64,
    expired: u64,
    reins_live: u64,
}

fn at(base: Instant, t: u128) -> Option<Instant> {
    base.checked_add(dur(t)?)
}

fn panic_kind(msg: &str) -> &'static str {
    if msg.contains("min <= max") || msg.contains("min > max") {
        "clamp"
    } else if msg.contains("overflow when adding duration to instant") {
        "instant"
    } else {
        "other"
    }
}

fn exec_direct(d: &mut Direct, t: &[&str], line: &str, rec: &mut Recorder, ctx_counts: &mut (u64, u64, u64)) -> Option<()> {
    match t {
        ["ins", q, tm, rest @ ..] => {
            let q = parse_query(q)?;
            let tm: u128 = tm.parse().ok()?;
            let res = parse_res(rest)?;
            let real = mk_result(&res, &q)?;
            let now = at(d.base, tm)?;
            let rq = mk_query(&q);
            let out = catch(|| d.cache.insert(rq, real, now));
            let cacheable = !matches!(res, ARes::Err(_));
            match out {
                Ok(()) => {
                    let idx = rec.case(line.to_string(), "ok".into());
                    rec.stat(match &res {
                        ARes::Pos { .. } => "op.ins.pos",
                        ARes::Neg { .. } => "op.ins.neg",
                        ARes::Err(_) => "op.ins.err",
                    });
                    if cacheable {
                        if let Some(old) = d.shadow.get(&q.key()) {
                            if tm >= old.t && tm <= old.t + lifetime(&d.cfg, q.ty, &old.res) {
                                ctx_counts.2 += 1;
                                rec.stat("ins.replaces-live-entry");
                                rec.nontrivial(idx);
                            }
                        }
                        d.shadow.insert(q.key(), Shadow { res, t: tm, last: None });
                    } else if d.shadow.contains_key(&q.key()) {
                        rec.stat("ins.err-over-existing-entry");
                    }
                }
                Err(p) => {
                    let kind = panic_kind(&p);
                    let idx = rec.case(line.to_string(), format!("panic {kind}"));
                    rec.stat(&format!("op.ins.panic.{kind}"));
                    let class = d.cfg.class();
                    if class == "C15.bounds-min-gt-max" && kind == "clamp" {
                        // min > max is outside the property's quantifier; `Ord::clamp` documents this panic
                        rec.stat("expected-panic.min-gt-max");
                    } else {
                        rec.fail(idx, format!("insert panicked ({kind}): {p}; config [{}]", show_cfg(&d.cfg)), class);
                    }
                }
            }
        }
        ["get", q, tm] => {
            let q = parse_query(q)?;
            let tm: u128 = tm.parse().ok()?;
            let now = at(d.base, tm)?;
            let rq = mk_query(&q);
            let out = catch(|| d.cache.get(&rq, now));
            let class = d.cfg.class();
            match out {
                Err(p) => {
                    let idx = rec.case(line.to_string(), "panic get".into());
                    rec.fail(idx, format!("get panicked: {p}"), "");
                }
                Ok(None) => {
                    let idx = rec.case(line.to_string(), "none".into());
                    rec.stat("op.get.none");
                    if let Some(sh) = d.shadow.get(&q.key()) {
                        if tm > sh.t + lifetime(&d.cfg, q.ty, &sh.res) {
                            ctx_counts.1 += 1;
                            rec.stat("get.miss-after-expiry");
                            rec.nontrivial(idx);
                        }
                    }
                }
                Ok(Some(r)) => {
                    let a = abs_result(&r);
                    let shown = match &a {
                        Ok(a) => show_res(a),
                        Err(_) => "unrepresentable".into(),
                    };
                    let idx = rec.case(line.to_string(), shown);
                    rec.stat("op.get.hit");
                    ctx_counts.0 += 1;
                    rec.nontrivial(idx);
                    let a = match a {
                        Ok(a) => a,
                        Err(why) => {
                            rec.fail(idx, format!("served answer is not the inserted one: {why}"), "");
                            return Some(());
                        }
                    };
                    let Some(sh) = d.shadow.get_mut(&q.key()) else {
                        rec.fail(idx, "an answer was served although nothing cacheable was inserted for this query (transient error cached?)", "");
                        return Some(());
                    };
                    if tm < sh.t {
                        // clock went backwards w.r.t. the insert: outside the property's quantifier
                        rec.stat("get.before-insert-instant");
                        return Some(());
                    }
                    // (1) never stale
                    let l = lifetime(&d.cfg, q.ty, &sh.res);
                    if tm > sh.t + l {
                        let what = if matches!(sh.res, ARes::Neg { .. }) { "negative answer kept longer than its clamped negative TTL" } else { "entry served after t_ins + L" };
                        rec.fail(idx, format!("{what}: t_ins={} L={}ns now={}", sh.t, l, tm), class);
                    }
                    if tm == sh.t + l {
                        rec.stat("get.hit-at-exact-expiry");
                    }
                    // (2) exact TTLs
                    let elapsed = sat_u32((tm - sh.t) / NS_PER_S);
                    let want = with_ttls(&stored(&d.cfg, &sh.res), |x| x.saturating_sub(elapsed));
                    if a != want {
                        rec.fail(idx, format!("reported TTLs differ from clamped stored TTL - elapsed({elapsed}s): got [{}] want [{}]", show_res(&a), show_res(&want)), class);
                    }
                    if elapsed > 0 {
                        rec.stat("get.hit-with-elapsed>0");
                    }
                    // (3) monotone between refreshes
                    let now_ttls = ttls(&a);
                    if let Some((tp, prev)) = &sh.last {
                        if tm >= *tp && (prev.len() != now_ttls.len() || prev.iter().zip(&now_ttls).any(|(p, n)| n > p)) {
                            rec.fail(idx, format!("a TTL increased between refreshes: at {tp} {prev:?}, at {tm} {now_ttls:?}"), "");
                        }
                    }
                    if sh.last.as_ref().map_or(true, |(tp, _)| tm >= *tp) {
                        sh.last = Some((tm, now_ttls));
                    }
                }
            }
        }
        _ => return None,
    }
    Some(())
}

fn exec_cc(c: &mut Cc, t: &[&str], line: &str, rec: &mut Recorder) -> Option<()> {
    match t {
        ["cclookup", q, rest @ ..] => {
            let q = parse_query(q)?;
            let res = parse_res(rest)?;
            // the scripted upstream's answer, used only on a miss
            let upstream = match &res {
                ARes::Pos { an, .. } => {
                    // the caching client only keeps answers owned by the query name
                    let mut m = Message::response(0x1234, OpCode::Query);
                    m.add_query(mk_query(&q));
                    for r in an {
                        m.answers.push(Record::from_rdata(mk_query(&q).name.clone(), r.ttl, mk_rdata(r.ty, r.pid)));
                    }
                    Ok(m)
                }
                ARes::Neg { rcode, soa, .. } => {
                    // a real NXDOMAIN / NODATA response carrying the SOA; `DnsError::from_response` makes the `NoRecords`
                    let mut m = Message::error_msg(0x1234, OpCode::Query, <ResponseCode as From<u16>>::from(*rcode));
                    m.add_query(mk_query(&q));
                    if let Some(s) = soa {
                        m.authorities.push(Record::from_rdata(name("r", s.pid), s.ttl, RData::SOA(mk_soa(s.pid))));
                    }
                    Ok(m)
                }
                ARes::Err(k) => Err(mk_err(*k)),
            };
            *c.handle.next.lock().unwrap() = Some(upstream);
            let before = c.handle.calls.load(AtomicOrdering::SeqCst);
            let client = c.client.clone();
            let rq = mk_query(&q);
            let out = catch(|| c.rt.block_on(client.lookup(rq, DnsRequestOptions::default())));
            let asked = c.handle.calls.load(AtomicOrdering::SeqCst) - before;
            let o = match (&out, asked) {
                (Err(_), _) => "panic".to_string(),
                (Ok(_), 0) => "hit".to_string(),
                (Ok(_), _) => "miss".to_string(),
            };
            let idx = rec.case(line.to_string(), o.clone());
            rec.stat(&format!("op.cclookup.{o}"));
            if out.is_err() {
                rec.fail(idx, "CachingClient::lookup panicked", "");
            }
            // oracle: a hit needs a cacheable result inserted since the last clear
            if o == "hit" {
                rec.nontrivial(idx);
                if !c.cached.contains_key(&q.key()) {
                    rec.fail(idx, "served from the cache although nothing cacheable was inserted since the last clear", "");
                }
            } else if o == "miss" && (matches!(res, ARes::Pos { .. }) || matches!(res, ARes::Neg { rcode: 0 | 3, .. })) {
                c.cached.insert(q.key(), ());
            }
        }
        ["clear"] => {
            c.client.clear_cache();
            c.cached.clear();
            rec.case(line.to_string(), "ok".into());
            rec.stat("op.clear");
        }
        ["clearq", q] => {
            let q = parse_query(q)?;
            c.client.clear_cache_query(&mk_query(&q));
            c.cached.remove(&q.key());
            rec.case(line.to_string(), "ok".into());
            rec.stat("op.clearq");
        }
        _ => return None,
    }
    Some(())
}

pub fn exec(line: &str, ctx: &mut Ctx, rec: &mut Recorder) {
    let t: Vec<&str> = line.split_whitespace().collect();
    match t.as_slice() {
        ["begin", "cc"] => {
            let handle = Scripted { next: Arc::new(Mutex::new(None)), calls: Arc::new(AtomicUsize::new(0)) };
            let rt = tokio::runtime::Builder::new_current_thread().enable_time().build().unwrap();
            let client = CachingClient::new(10_000, handle.clone(), false);
            ctx.blk = Blk::Cc(Box::new(Cc { client, handle, rt, cached: HashMap::new() }));
            rec.case(line.to_string(), "ok".into());
            rec.stat("block.cc");
            ctx.hits = 0;
            ctx.expired = 0;
            ctx.reins_live = 0;
        }
        ["begin", cfg @ ..] => {
            let built = parse_cfg(cfg).and_then(|c| build_cfg(&c).map(|r| (c, r)));
            match built {
                Some((c, real)) => {
                    rec.stat("block.direct");
                    if c.min_gt_max() {
                        rec.stat("cfg.min-gt-max");
                    } else if c.over_u32() {
                        rec.stat("cfg.bound-over-u32");
                    }
                    if !c.by.is_empty() {
                        rec.stat("cfg.per-type-bounds");
                    }
                    if c.default != B::default() {
                        rec.stat("cfg.global-bounds");
                    }
                    if c.all_bounds().any(|b| b.pmin.is_some() && b.pmin == b.pmax) {
                        rec.stat("cfg.min=max");
                    }
                    if c.all_bounds().any(|b| [b.pmin, b.pmax, b.nmin, b.nmax].iter().any(|x| x.is_some_and(|v| v % NS_PER_S != 0))) {
                        rec.stat("cfg.sub-second-bound");
                    }
                    // the base lies 30 years ahead of the real clock: moka's own expiry (valid_until
                    // measured against the real clock) cannot fire, only hickory's `is_current` decides
                    let base = Instant::now() + Duration::from_secs(30 * 365 * 86_400);
                    ctx.blk = Blk::Direct(Box::new(Direct { cache: ResponseCache::new(100_000, real), base, cfg: c, shadow: HashMap::new() }));
                    rec.case(line.to_string(), "ok".into());
                }
                None => {
                    ctx.blk = Blk::Skipped;
                    rec.stat("skipped.unbuildable-config");
                    // keep the block bracketed for the driver: it sees a plain `begin`
                    rec.case("begin".into(), "ok".into());
                }
            }
            ctx.hits = 0;
            ctx.expired = 0;
            ctx.reins_live = 0;
        }
        ["end", ..] => {
            let idx = rec.case(line.to_string(), "ok".into());
            if ctx.hits > 0 && (ctx.expired > 0 || ctx.reins_live > 0) {
                rec.nontrivial(idx);
                rec.stat("block.with-hit-and-expiry-or-live-reinsert");
            }
            ctx.blk = Blk::None;
        }
        ["fromresp", rcode, tc, ans, mt, soa_ttl, minimum] if matches!(ctx.blk, Blk::None) => {
            let (Ok(minimum), Ok(rcode)) = (minimum.parse::<u32>(), rcode.parse::<u16>()) else {
                rec.stat("skipped.unparsable-or-out-of-block");
                return;
            };
            let soa_ttl: Option<u32> = if *soa_ttl == "-" { None } else { soa_ttl.parse().ok() };
            let q = AQuery { id: 0, upper: false, ty: T_A };
            let qn = mk_query(&q).name.clone();
            let mut m = Message::error_msg(0x1234, OpCode::Query, <ResponseCode as From<u16>>::from(rcode));
            m.add_query(mk_query(&q));
            m.metadata.truncation = *tc == "1";
            if *ans == "1" {
                // an answer that does not match the query: `contains_answer` only asks for a non-empty section
                m.answers.push(mk_rec(&ARec { ty: T_TXT, ttl: 30, pid: 9 }));
            }
            m.authorities.push(mk_rec(&ARec { ty: T_NS, ttl: 5, pid: 1 }));
            if let Some(t) = soa_ttl {
                let mut soa = mk_soa(2);
                soa.minimum = minimum;
                m.authorities.push(Record::from_rdata(name("r", 2), t, RData::SOA(soa)));
                // a second SOA must be ignored (`.next()` takes the first)
                m.authorities.push(Record::from_rdata(name("r", 3), 1, RData::SOA(mk_soa(3))));
            }
            // near misses of "query type and owner name": other name / other type
            m.additionals.push(mk_rec(&ARec { ty: T_A, ttl: 7, pid: 4 }));
            m.additionals.push(Record::from_rdata(qn.clone(), 7, mk_rdata(T_AAAA, 5)));
            if *mt == "1" {
                m.additionals.push(Record::from_rdata(qn, 7, mk_rdata(T_A, 6)));
            }
            let out = catch(|| DnsResponse::from_message(m).ok().map(DnsError::from_response));
            let shown = match &out {
                Ok(Some(Err(DnsError::NoRecordsFound(n)))) => format!("neg {}", show_opt(&n.negative_ttl)),
                Ok(Some(Err(DnsError::ResponseCode(c)))) => format!("err {}", u16::from(*c)),
                Ok(Some(Ok(_))) => "ok".to_string(),
                Ok(_) => "other".to_string(),
                Err(_) => "panic".to_string(),
            };
            let idx = rec.case(line.to_string(), shown.clone());
            rec.stat(&format!("op.fromresp.{}", shown.split(' ').next().unwrap_or("")));
            if out.is_err() {
                rec.fail(idx, "DnsError::from_response panicked", "");
            }
            // transient failures (SERVFAIL, REFUSED, …) must never turn into the cacheable NoRecordsFound
            if matches!(rcode, 1 | 2 | 4 | 5 | 9) && !shown.starts_with("err") {
                rec.fail(idx, format!("a response with error rcode {rcode} became `{shown}` instead of a non-cacheable error"), "");
            }
            // RFC 2308 §5: the negative TTL is the minimum of the SOA's TTL and its MINIMUM field
            if let Some(got) = shown.strip_prefix("neg ") {
                let want = show_opt(&soa_ttl.map(|t| t.min(minimum)));
                if got != want {
                    rec.fail(idx, format!("negative_ttl derived from the response is {got}, RFC 2308 says {want}"), "");
                } else if soa_ttl.is_some() {
                    rec.nontrivial(idx);
                }
            }
        }
        ["realtime", ms] if matches!(ctx.blk, Blk::None) => {
            let Ok(ms) = ms.parse::<u64>() else {
                rec.stat("skipped.unparsable-or-out-of-block");
                return;
            };
            // real clock, real moka expiry: lifetime = `ms` for everything (positive min = max)
            let life = Duration::from_millis(ms);
            let mut opts = ResolverOpts::default();
            opts.positive_min_ttl = Some(life);
            opts.positive_max_ttl = Some(life);
            let cache = ResponseCache::new(100_000, TtlConfig::from_opts(&opts));
            let q = AQuery { id: 0, upper: false, ty: T_A };
            let msg = mk_message(&[ARec { ty: T_A, ttl: 3600, pid: 1 }], &[], &[], &q);
            let t0 = Instant::now();
            cache.insert(mk_query(&q), Ok(msg), t0);
            let early = cache.get(&mk_query(&q), t0).is_some();
            std::thread::sleep(life + Duration::from_millis(30));
            let late = cache.get(&mk_query(&q), Instant::now());
            rec.impl_only += 1;
            let idx = rec.case(line.to_string(), "~".into());
            rec.stat("op.realtime");
            rec.stat(if early { "realtime.served-at-insert-instant" } else { "realtime.not-served-at-insert-instant(stall)" });
            if late.is_some() {
                rec.fail(idx, format!("real clock: an entry with a lifetime of {ms} ms was served {} ms after its insert", t0.elapsed().as_millis()), "");
            } else {
                rec.nontrivial(idx);
            }
        }
        _ => {
            let mut counts = (0, 0, 0);
            let r = match &mut ctx.blk {
                Blk::Direct(d) => exec_direct(d, &t, line, rec, &mut counts),
                Blk::Cc(c) => exec_cc(c, &t, line, rec),
                Blk::Skipped | Blk::None => None,
            };
            ctx.hits += counts.0;
            ctx.expired += counts.1;
            ctx.reins_live += counts.2;
            if r.is_none() {
                rec.stat("skipped.unparsable-or-out-of-block");
            }
        }
    }
}

// ------------------------------------------------------------------ generator

const QTYPES: &[u16] = &[T_A, T_A, T_AAAA, T_CNAME, T_MX, T_TXT, T_SOA, T_ANY];
const RTYPES: &[u16] = &[T_A, T_AAAA, T_CNAME, T_MX, T_TXT, T_SOA, T_NS, 99];
const TTLS: &[u32] = &[0, 0, 1, 1, 2, 3, 5, 9, 10, 30, 59, 60, 61, 300, 3600, 86_399, 86_400, 86_401, 100_000, 604_800, 0x7fff_ffff, 0x8000_0000, u32::MAX - 1, u32::MAX];
const SMALL_TTLS: &[u32] = &[0, 1, 2, 3, 5, 7, 10, 30, 60];
const BOUND_S: &[u64] = &[0, 0, 1, 2, 3, 5, 10, 30, 60, 300, 3600, 86_400, 86_401, 172_800, 1_000_000, 0xffff_ffff];

fn gen_ttl(r: &mut Rng) -> u32 {
    match r.below(10) {
        0..=4 => *r.pick(SMALL_TTLS),
        5..=8 => *r.pick(TTLS),
        _ => r.next() as u32,
    }
}

fn gen_bound(r: &mut Rng, sub_second: bool) -> u128 {
    let s = *r.pick(BOUND_S) as u128 * NS_PER_S;
    if sub_second && r.chance(1, 2) { s + *r.pick(&[1u128, 500_000_000, 999_999_999]) } else { s }
}

/// ordered pair of optional bounds (min ≤ max after defaults), flavours: unset / min>ttl / max<ttl / min=max / 0
fn gen_pair(r: &mut Rng, sub_second: bool) -> (Option<u128>, Option<u128>) {
    let dflt_max = MAX_TTL as u128 * NS_PER_S;
    match r.below(8) {
        0 => (None, None),
        1 => {
            let m = gen_bound(r, sub_second).min(dflt_max);
            (Some(m), None)
        }
        2 => (None, Some(gen_bound(r, sub_second))),
        3 => {
            let m = gen_bound(r, sub_second);
            (Some(m), Some(m))
        }
        4 => (Some(0), Some(0)),
        _ => {
            let (a, b) = (gen_bound(r, sub_second), gen_bound(r, sub_second));
            (Some(a.min(b)), Some(a.max(b)))
        }
    }
}

fn gen_b(r: &mut Rng, sub_second: bool) -> B {
    let (pmin, pmax) = gen_pair(r, sub_second);
    let (nmin, nmax) = if r.chance(1, 2) { gen_pair(r, sub_second) } else { (None, None) };
    B { pmin, pmax, nmin, nmax }
}

fn gen_cfg(r: &mut Rng) -> Cfg {
    let mut c = Cfg::default();
    match r.below(100) {
        0..=9 => {}
        10..=39 => {
            let sub = r.chance(1, 4);
            c.default = gen_b(r, sub)
        }
        40..=89 => {
            if r.chance(2, 3) {
                let sub = r.chance(1, 5);
                c.default = gen_b(r, sub);
            }
            for _ in 0..r.range(1, 3) {
                let ty = *r.pick(&[T_A, T_A, T_AAAA, T_CNAME, T_CNAME, T_MX, T_TXT, T_SOA, T_NS]);
                c.by.push((ty, gen_b(r, false)));
            }
        }
        90..=95 => {
            // a bound of 2^32 s or more (the TtlConfig docs say such durations are fine)
            let big = *r.pick(&[1u128 << 32, (1u128 << 32) + 5, 1u128 << 33, 1u128 << 40]) * NS_PER_S;
            let small = *r.pick(&[0u128, 60, 86_400, 86_401, 100_000, 0xffff_ffff]) * NS_PER_S;
            let b = match r.below(3) {
                0 => B { pmin: Some(small), pmax: Some(big), ..B::default() },
                1 => B { pmin: Some(big), pmax: Some(big + r.below(2) as u128 * NS_PER_S), ..B::default() },
                _ => B { nmin: Some(small.min(3600 * NS_PER_S)), nmax: Some(big), pmax: Some(big), ..B::default() },
            };
            if r.chance(1, 2) { c.default = b } else { c.by.push((*r.pick(&[T_A, T_CNAME, T_TXT]), b)) }
        }
        _ => {
            // min > max: dedicated blocks whose expected outcome is the clamp panic
            let b = match r.below(3) {
                0 => B { pmin: Some(172_800 * NS_PER_S), ..B::default() },
                1 => B { pmin: Some(100 * NS_PER_S), pmax: Some(10 * NS_PER_S), ..B::default() },
                _ => B { nmin: Some(100 * NS_PER_S), nmax: Some(10 * NS_PER_S), ..B::default() },
            };
            if r.chance(1, 2) { c.default = b } else { c.by.push((*r.pick(&[T_A, T_CNAME, T_TXT]), b)) }
        }
    }
    c
}

fn gen_rec(r: &mut Rng, qt: u16, pid: &mut u32) -> ARec {
    let ty = match r.below(10) {
        0..=4 => qt,
        5..=6 => T_CNAME,
        _ => *r.pick(RTYPES),
    };
    let ty = if ty == T_ANY { T_A } else { ty };
    *pid += 1;
    ARec { ty, ttl: gen_ttl(r), pid: *pid }
}

fn gen_recs(r: &mut Rng, qt: u16, max: u64, pid: &mut u32) -> Vec<ARec> {
    (0..r.below(max + 1)).map(|_| gen_rec(r, qt, pid)).collect()
}

fn gen_res(r: &mut Rng, qt: u16, pid: &mut u32) -> ARes {
    match r.below(10) {
        0..=5 => ARes::Pos { an: gen_recs(r, qt, 4, pid), au: gen_recs(r, qt, 2, pid), ad: gen_recs(r, qt, 2, pid) },
        6..=7 => {
            *pid += 1;
            let soa_ttl = gen_ttl(r);
            let soa = if r.chance(3, 4) { Some(ARec { ty: T_SOA, ttl: soa_ttl, pid: *pid }) } else { None };
            // as `DnsResponse::negative_ttl` derives it (min of SOA TTL and SOA minimum = 60), or arbitrary, or absent
            let nttl = match r.below(4) {
                0 => None,
                1 => Some(gen_ttl(r)),
                _ => soa.as_ref().map(|s| s.ttl.min(60)),
            };
            let auth = match r.below(3) {
                0 => None,
                _ => Some((0..r.below(3)).map(|_| { *pid += 1; ARec { ty: *r.pick(&[T_SOA, T_NS, 99]), ttl: gen_ttl(r), pid: *pid } }).collect()),
            };
            let ns = match r.below(3) {
                0 | 1 => None,
                _ => Some(
                    (0..r.below(3))
                        .map(|_| {
                            *pid += 1;
                            let ns = ARec { ty: T_NS, ttl: gen_ttl(r), pid: *pid };
                            let glue = (0..r.below(3)).map(|_| { *pid += 1; ARec { ty: *r.pick(&[T_A, T_AAAA]), ttl: gen_ttl(r), pid: *pid } }).collect();
                            ANs { ns, glue }
                        })
                        .collect(),
                ),
            };
            ARes::Neg { rcode: if r.chance(1, 2) { 3 } else { 0 }, nttl, soa, auth, ns }
        }
        _ => ARes::Err(r.below(10) as u32),
    }
}

fn digest(lines: &[String]) -> String {
    use std::hash::{Hash, Hasher};
    let mut h = std::collections::hash_map::DefaultHasher::new();
    lines.hash(&mut h);
    format!("{:016x}", h.finish())
}

/// one direct block: a few query keys, inserts / lookups at non-decreasing instants, lookups aimed
/// at the interesting instants (the insert instant, whole-second edges, `t_ins + L` and 1 ns later)
fn gen_direct_block(r: &mut Rng) -> Vec<String> {
    let cfg = gen_cfg(r);
    let mut lines = vec![format!("begin {}", show_cfg(&cfg)).trim_end().to_string()];
    let nkeys = r.range(1, 4) as usize;
    let keys: Vec<AQuery> = (0..nkeys).map(|_| AQuery { id: r.below(3) as u32, upper: false, ty: *r.pick(QTYPES) }).collect();
    let mut t: u128 = if r.chance(1, 3) { 0 } else { r.below(5_000_000_000) as u128 };
    let mut pid = 0u32;
    let mut live: HashMap<(u32, u16), (u128, u128)> = HashMap::new(); // key -> (t_ins, L) by the oracle's arithmetic
    let far = r.chance(1, 25);
    let backwards = r.chance(1, 20);
    for _ in 0..r.range(4, 30) {
        let mut q = *r.pick(&keys);
        q.upper = r.chance(1, 5);
        // advance the clock
        let target = live.get(&q.key()).copied();
        t = match (r.below(18), target) {
            (0..=5, _) => t,
            (6, _) => t + r.below(1_000_000_000) as u128,
            (7, _) => t + NS_PER_S - 1,
            (8, _) => t + NS_PER_S,
            (9, _) => t + r.range(1, 90) as u128 * NS_PER_S + r.below(2) as u128 * r.below(NS_PER_S as u64) as u128,
            (10..=12, Some((ti, l))) if ti + l >= t => ti + l,
            (13, Some((ti, l))) if ti + l + 1 >= t => ti + l + 1,
            (14 | 15, Some((ti, _))) => {
                // a whole-second edge after the insert
                let k = (t.saturating_sub(ti)) / NS_PER_S + r.range(0, 3) as u128;
                (ti + k * NS_PER_S).saturating_sub(r.below(2) as u128).max(t)
            }
            _ if far => t + *r.pick(&[86_400u128, 86_401, 1 << 31, (1 << 32) - 1, 1 << 32, (1 << 32) + 1]) * NS_PER_S,
            (16, _) => t + r.range(1, 10) as u128 * NS_PER_S,
            _ => t + r.range(0, 2) as u128 * NS_PER_S,
        };
        let t_line = if backwards && r.chance(1, 6) { t.saturating_sub(r.range(1, 3) as u128 * NS_PER_S) } else { t };
        if r.chance(2, 5) {
            let res = gen_res(r, q.ty, &mut pid);
            if !matches!(res, ARes::Err(_)) {
                live.insert(q.key(), (t_line, lifetime(&cfg, q.ty, &res)));
            }
            lines.push(format!("ins {} {} {}", show_query(&q), t_line, show_res(&res)));
        } else {
            lines.push(format!("get {} {}", show_query(&q), t_line));
        }
    }
    lines.push(format!("end {}", digest(&lines)));
    lines
}

fn gen_cc_block(r: &mut Rng) -> Vec<String> {
    let mut lines = vec!["begin cc".to_string()];
    let keys: Vec<AQuery> = (0..r.range(1, 3)).map(|_| AQuery { id: r.below(3) as u32, upper: false, ty: *r.pick(&[T_A, T_AAAA, T_TXT, T_MX]) }).collect();
    let mut pid = 0u32;
    for _ in 0..r.range(3, 14) {
        let mut q = *r.pick(&keys);
        q.upper = r.chance(1, 5);
        match r.below(10) {
            0 | 1 => lines.push("clear".into()),
            2 => lines.push(format!("clearq {}", show_query(&q))),
            _ => {
                pid += 1;
                // answers the caching client caches as they are: records of the query type owned by the
                // query name are not required by the cache itself, hours-long TTLs keep real time out
                let res = match r.below(8) {
                    0 => ARes::Err(r.below(9) as u32),
                    1 | 2 => ARes::Neg { rcode: if r.chance(1, 2) { 3 } else { 0 }, nttl: Some(60), soa: Some(ARec { ty: T_SOA, ttl: 3600, pid }), auth: None, ns: None },
                    // SERVFAIL / REFUSED *responses* (not transport errors): must never be served from the cache
                    3 => ARes::Neg { rcode: *r.pick(&[2u16, 5, 2, 1, 4, 9]), nttl: None, soa: if r.chance(1, 2) { Some(ARec { ty: T_SOA, ttl: 3600, pid }) } else { None }, auth: None, ns: None },
                    // NXDOMAIN without SOA: cacheable, but with the default negative minimum of 0 it is already expired at the next lookup
                    4 => ARes::Neg { rcode: 3, nttl: None, soa: None, auth: None, ns: None },
                    _ => ARes::Pos { an: vec![ARec { ty: q.ty, ttl: *r.pick(&[3600u32, 7200, 86_400]), pid }], au: vec![], ad: vec![] },
                };
                lines.push(format!("cclookup {} {}", show_query(&q), show_res(&res)));
            }
        }
    }
    lines.push(format!("end {}", digest(&lines)));
    lines
}

/// exhaustive small scope: every sequence of `len` steps over one key from an alphabet of
/// (clock advance) × (lookup / insert of a few results), under a few configurations
fn enumerate_small(len: usize) -> Vec<Vec<String>> {
    let cfgs = [
        "",
        "d:2000000000,4000000000,1000000000,2000000000",
        "1:1000000000,1000000000,-,- 5:3000000000,3000000000,-,-",
        "d:-,1500000000,-,0",
    ];
    let dts: [u128; 4] = [0, 999_999_999, 1_000_000_000, 2_000_000_000];
    let acts = [
        "get",
        "pos 1:0:1 - -",
        "pos 1:1:1 - 16:9:2",
        "pos 1:3:1 - -",
        "pos 5:1:1,1:5:2 - -",
        "neg 3 1 6:1:1 - -",
        "err 0",
    ];
    let syms = dts.len() * acts.len();
    let mut out = vec![];
    for cfg in cfgs {
        let total = syms.pow(len as u32);
        for code in 0..total {
            let mut lines = vec![format!("begin {cfg}").trim_end().to_string()];
            let (mut c, mut t) = (code, 0u128);
            for _ in 0..len {
                let sym = c % syms;
                c /= syms;
                t += dts[sym % dts.len()];
                let a = acts[sym / dts.len()];
                lines.push(if a == "get" { format!("get 0/1 {t}") } else { format!("ins 0/1 {t} {a}") });
            }
            lines.push(format!("get 0/1 {t}"));
            lines.push(format!("get 0/1 {}", t + 1_000_000_000));
            lines.push(format!("end {}", digest(&lines)));
            out.push(lines);
        }
    }
    out
}

pub fn run(o: &Opts, rec: &mut Recorder) {
    rec.rule = "histories (begin…end blocks) of insert/get at explicit instants over 1-4 query keys × TTL-bound configurations (none / global / per-type / min>ttl / max<ttl / min=max / 0 / sub-second / ≥2^32 s / dedicated min>max), lookups aimed at the insert instant, whole-second edges, t_ins+L and t_ins+L+1ns; a case is non-trivial when it is a lookup that was served, a lookup that missed because the entry had expired, an insert replacing a live entry, or the `end` line (carrying the digest of its history) of a block with at least one served lookup and one expiry or live re-insert; distinct by case line".into();
    let mut ctx = Ctx { blk: Blk::None, hits: 0, expired: 0, reins_live: 0 };
    for l in o.pre_lines.clone() {
        exec(&l, &mut ctx, rec);
    }
    rec.corpus_cases = rec.cases.len();
    if o.replay_only {
        return;
    }
    for lines in enumerate_small(if o.thorough() { 3 } else { 2 }) {
        rec.stat("block.enumerated");
        for l in lines {
            exec(&l, &mut ctx, rec);
        }
    }
    for ms in if o.thorough() { vec![1u64, 50, 300, 1000] } else { vec![1, 120] } {
        exec(&format!("realtime {ms}"), &mut ctx, rec);
    }
    let mut r = Rng::new(o.seed);
    for _ in 0..o.n(600, 20_000) {
        let soa_ttl = if r.chance(1, 6) { "-".to_string() } else { gen_ttl(&mut r).to_string() };
        let rcode = match r.below(10) {
            0..=2 => 3,
            3..=5 => 0,
            6 => 2,
            7 => 5,
            8 => *r.pick(&[1u64, 4, 6, 7, 8, 9, 10, 16, 17, 18, 19, 20, 21, 22, 23]),
            _ => *r.pick(&[11u64, 12, 15, 24, 100, 3841, 4095]),
        };
        let l = format!("fromresp {} {} {} {} {} {}", rcode, b(r.chance(1, 6)), b(r.chance(1, 5)), b(r.chance(1, 5)), soa_ttl, gen_ttl(&mut r));
        exec(&l, &mut ctx, rec);
    }
    let blocks = o.n(12_000, 300_000);
    for i in 0..blocks {
        let lines = if i % 12 == 11 { gen_cc_block(&mut r) } else { gen_direct_block(&mut r) };
        for l in lines {
            exec(&l, &mut ctx, rec);
        }
    }
}
