//! UDP half of C16: a scripted `DnsUdpSocket` behind a scripted `RuntimeProvider`, the real
//! `UdpClientStream::send_message`, and the property's oracle.
use std::collections::VecDeque;
use std::future::Future;
use std::io;
use std::net::{IpAddr, Ipv4Addr, Ipv6Addr, SocketAddr};
use std::pin::Pin;
use std::collections::HashSet;
use std::sync::{Arc, Mutex, OnceLock};
use std::task::{Context, Poll, Waker};
use std::time::Duration;

use futures_util::StreamExt;
use hickory_net::runtime::iocompat::AsyncIoTokioAsStd;
use hickory_net::runtime::{DnsUdpSocket, RuntimeProvider, Spawn};
use hickory_net::udp::UdpClientStream;
use hickory_net::xfer::DnsRequestSender;
use hickory_net::DnsHandle;
use hickory_proto::op::{DnsRequest, DnsRequestOptions, Message, MessageType, OpCode, Query};
use hickory_proto::rr::rdata::tsig::TsigAlgorithm;
use hickory_proto::rr::rdata::TXT;
use hickory_proto::rr::TSigner;
use hickory_proto::rr::{DNSClass, Name, RData, Record, RecordType};

use super::vtime::{self, VTime};
use crate::common::*;

// ------------------------------------------------------------------------------------------------
// script types (what a case line denotes)

#[derive(Clone, Debug, PartialEq, Eq)]
pub struct Q {
    pub labels: Vec<Vec<u8>>,
    pub qtype: u16,
    pub qclass: u16,
}

#[derive(Clone, Debug)]
pub enum Ev {
    /// delay, src, parses, is-response, id, questions, raw bytes (None = build from the descriptor)
    /// `hdr`: the whole flags word of the header (QR opcode AA TC RD RA Z AD CD rcode) when the datagram is
    /// built from the descriptor; None = 0x8180 / 0x0100
    D { delay: u64, src: SocketAddr, parses: bool, resp: bool, id: u16, qs: Vec<Q>, raw: Option<Vec<u8>>, hdr: Option<u16> },
    E { delay: u64 },
}

/// what the provider answers to `bind_udp` for one transmission
#[derive(Clone, Copy, Debug, PartialEq, Eq)]
pub enum Bind {
    Ok,
    /// this many `AddrInUse` results in a row, then success
    InUse(u32),
    /// this many `PermissionDenied` results in a row, then success
    Denied(u32),
    /// an error of another kind
    Other,
    /// the bind future is not ready at once (pending once, then success)
    Slow,
}

#[derive(Clone, Copy, Debug, PartialEq, Eq)]
pub enum SendMode {
    Ok,
    Err,
    /// `send_to` reports one byte less than the message has
    Short,
}

#[derive(Clone, Copy, Debug, PartialEq, Eq)]
pub struct Setup {
    pub bind: Bind,
    pub send: SendMode,
}

impl Default for Setup {
    fn default() -> Self {
        Setup { bind: Bind::Ok, send: SendMode::Ok }
    }
}

#[derive(Clone, Debug)]
pub struct UdpCase {
    pub timeout: u64,
    pub retry_interval: u64,
    pub floor: u64,
    pub max_retries: u8,
    pub server: SocketAddr,
    pub id: u16,
    pub case_rand: bool,
    /// how the `DnsRequest` is obtained:
    /// `n` = `DnsRequest::new(message, options)`; `o` = the same `.with_original_query(Some(..))` when
    /// case randomisation is on; `m` = `DnsRequest::from(message)` + `*options_mut() = options`;
    /// `f` = `DnsRequest::from_query(query, options)` (one question; it randomises the letter case
    /// itself when asked to, so the line's question is the *original* one and the scripted questions
    /// are re-expressed relative to the name that really went out, see `effective`)
    pub ctor: char,
    /// entry point: `UdpClientStreamBuilder::exchange()` + `DnsHandle::send` instead of `build()` + `send_message`
    pub via_exchange: bool,
    /// the request carries a record that cannot be encoded (`request.to_vec()` fails)
    pub unencodable: bool,
    /// `with_signer(Some(..))`: requests with an AXFR / IXFR question go out TSIG-signed and the reply
    /// is verified; the scripted datagrams are never signed
    pub signer: bool,
    pub qs: Vec<Q>,
    pub scripts: Vec<Vec<Ev>>,
    /// per transmission (missing = all fine)
    pub setups: Vec<Setup>,
}

pub fn addr_tok(a: &SocketAddr) -> String {
    match a.ip() {
        IpAddr::V4(x) => format!("4:{}:{}", u32::from(x), a.port()),
        IpAddr::V6(x) => format!("6:{}:{}", u128::from(x), a.port()),
    }
}

fn parse_addr(s: &str) -> Option<SocketAddr> {
    let p: Vec<&str> = s.split(':').collect();
    if p.len() != 3 {
        return None;
    }
    let port: u16 = p[2].parse().ok()?;
    match p[0] {
        "4" => Some(SocketAddr::new(IpAddr::V4(Ipv4Addr::from(p[1].parse::<u32>().ok()?)), port)),
        "6" => Some(SocketAddr::new(IpAddr::V6(Ipv6Addr::from(p[1].parse::<u128>().ok()?)), port)),
        _ => None,
    }
}

pub fn q_tok(q: &Q) -> String {
    format!("F:{}/{}/{}", labels_tok(&q.labels), q.qtype, q.qclass)
}

pub fn qs_tok(qs: &[Q]) -> String {
    if qs.is_empty() {
        "-".into()
    } else {
        qs.iter().map(q_tok).collect::<Vec<_>>().join(",")
    }
}

fn parse_q(s: &str) -> Option<Q> {
    let p: Vec<&str> = s.split('/').collect();
    if p.len() != 3 {
        return None;
    }
    let labels = parse_labels(p[0].strip_prefix("F:")?)?;
    // must be a valid Name (1..=63 per label, <= 255 on the wire)
    if labels.iter().any(|l| l.is_empty() || l.len() > 63) || labels.iter().map(|l| l.len() + 1).sum::<usize>() + 1 > 255 {
        return None;
    }
    Some(Q { labels, qtype: p[1].parse().ok()?, qclass: p[2].parse().ok()? })
}

fn parse_qs(s: &str) -> Option<Vec<Q>> {
    if s == "-" {
        return Some(vec![]);
    }
    s.split(',').map(parse_q).collect()
}

pub fn ev_tok(e: &Ev) -> String {
    match e {
        Ev::E { delay } => format!("E;{delay}"),
        Ev::D { delay, src, parses, resp, id, qs, raw, hdr } => format!(
            "D;{};{};{};{};{};{};{}{}",
            delay,
            addr_tok(src),
            b(*parses),
            b(*resp),
            id,
            qs_tok(qs),
            raw.as_ref().map(|r| format!("={}", if r.is_empty() { String::new() } else { hex(r) })).unwrap_or_else(|| "-".into()),
            hdr.map(|h| format!(";h{h:04x}")).unwrap_or_default()
        ),
    }
}

fn parse_ev(s: &str) -> Option<Ev> {
    let p: Vec<&str> = s.split(';').collect();
    match p.as_slice() {
        ["E", d] => Some(Ev::E { delay: d.parse().ok()? }),
        ["D", d, a, pa, r, i, q, raw] | ["D", d, a, pa, r, i, q, raw, _] => Some(Ev::D {
            delay: d.parse().ok()?,
            src: parse_addr(a)?,
            parses: match *pa { "1" => true, "0" => false, _ => return None },
            resp: match *r { "1" => true, "0" => false, _ => return None },
            id: i.parse().ok()?,
            qs: parse_qs(q)?,
            raw: if *raw == "-" { None } else { let h = raw.strip_prefix('=')?; Some(if h.is_empty() { vec![] } else { unhex(h)? }) },
            hdr: match p.get(8) {
                None => None,
                Some(h) => Some(u16::from_str_radix(h.strip_prefix('h')?, 16).ok()?),
            },
        }),
        _ => None,
    }
}

pub fn case_line(c: &UdpCase) -> String {
    let mut s = format!(
        "udp {} {} {} {} {} {} {}{}{}{}{} {}",
        c.timeout,
        c.retry_interval,
        c.floor,
        c.max_retries,
        addr_tok(&c.server),
        c.id,
        b(c.case_rand),
        c.ctor,
        if c.via_exchange { "x" } else { "" },
        if c.unencodable { "e" } else { "" },
        if c.signer { "s" } else { "" },
        qs_tok(&c.qs)
    );
    for (t, sc) in c.scripts.iter().enumerate() {
        s.push_str(" |");
        if let Some(su) = c.setups.get(t).filter(|su| **su != Setup::default()) {
            s.push_str(&format!(
                " S;{};{}",
                match su.bind {
                    Bind::Ok => "ok".to_string(),
                    Bind::InUse(n) => format!("inuse{n}"),
                    Bind::Denied(n) => format!("denied{n}"),
                    Bind::Other => "other".to_string(),
                    Bind::Slow => "slow".to_string(),
                },
                match su.send {
                    SendMode::Ok => "ok",
                    SendMode::Err => "err",
                    SendMode::Short => "short",
                }
            ));
        }
        for e in sc {
            s.push(' ');
            s.push_str(&ev_tok(e));
        }
    }
    s
}

pub fn parse_case(t: &[&str]) -> Option<UdpCase> {
    if t.len() < 9 || t[0] != "udp" {
        return None;
    }
    let mut scripts: Vec<Vec<Ev>> = vec![];
    let mut setups: Vec<Setup> = vec![];
    for tok in &t[9..] {
        if *tok == "|" {
            scripts.push(vec![]);
            setups.push(Setup::default());
        } else if let Some(rest) = tok.strip_prefix("S;") {
            if !scripts.last()?.is_empty() {
                return None;
            }
            let (bd, sd) = rest.split_once(';')?;
            let bind = if bd == "ok" {
                Bind::Ok
            } else if bd == "other" {
                Bind::Other
            } else if bd == "slow" {
                Bind::Slow
            } else if let Some(n) = bd.strip_prefix("inuse") {
                Bind::InUse(n.parse().ok()?)
            } else if let Some(n) = bd.strip_prefix("denied") {
                Bind::Denied(n.parse().ok()?)
            } else {
                return None;
            };
            let send = match sd {
                "ok" => SendMode::Ok,
                "err" => SendMode::Err,
                "short" => SendMode::Short,
                _ => return None,
            };
            *setups.last_mut()? = Setup { bind, send };
        } else {
            scripts.last_mut()?.push(parse_ev(tok)?);
        }
    }
    let flags = &t[7][1..];
    let mut ctor = 'o';
    let (mut via_exchange, mut unencodable, mut signer) = (false, false, false);
    for ch in flags.chars() {
        match ch {
            'n' | 'o' | 'm' | 'f' => ctor = ch,
            'x' => via_exchange = true,
            'e' => unencodable = true,
            's' => signer = true,
            _ => return None,
        }
    }
    Some(UdpCase {
        timeout: t[1].parse().ok()?,
        retry_interval: t[2].parse().ok()?,
        floor: t[3].parse().ok()?,
        max_retries: t[4].parse().ok()?,
        server: parse_addr(t[5])?,
        id: t[6].parse().ok()?,
        case_rand: match &t[7][..1] { "1" => true, "0" => false, _ => return None },
        ctor,
        via_exchange,
        unencodable,
        signer,
        qs: parse_qs(t[8])?,
        scripts,
        setups,
    })
}

// ------------------------------------------------------------------------------------------------
// wire bytes of a scripted datagram (hand-encoded, uncompressed: exactly the descriptor)

pub fn encode_dgram(id: u16, resp: bool, qs: &[Q], marker: u32) -> Vec<u8> {
    encode_dgram_hdr(id, resp, qs, marker, None)
}

/// `hdr`: the flags word; its QR bit decides whether the marker answer is appended
pub fn encode_dgram_hdr(id: u16, resp: bool, qs: &[Q], marker: u32, hdr: Option<u16>) -> Vec<u8> {
    let resp = hdr.map(|h| h & 0x8000 != 0).unwrap_or(resp);
    let mut v = vec![];
    v.extend_from_slice(&id.to_be_bytes());
    v.extend_from_slice(&hdr.unwrap_or(if resp { 0x8180u16 } else { 0x0100u16 }).to_be_bytes());
    v.extend_from_slice(&(qs.len() as u16).to_be_bytes());
    v.extend_from_slice(&(if resp { 1u16 } else { 0u16 }).to_be_bytes());
    v.extend_from_slice(&[0, 0, 0, 0]);
    for q in qs {
        for l in &q.labels {
            v.push(l.len() as u8);
            v.extend_from_slice(l);
        }
        v.push(0);
        v.extend_from_slice(&q.qtype.to_be_bytes());
        v.extend_from_slice(&q.qclass.to_be_bytes());
    }
    if resp {
        // one answer: `. 'marker' IN A 192.0.2.1`; the TTL identifies the scripted datagram
        v.push(0);
        v.extend_from_slice(&[0, 1, 0, 1]);
        v.extend_from_slice(&(marker & 0x7fff_ffff).to_be_bytes());
        v.extend_from_slice(&[0, 4, 192, 0, 2, 1]);
    }
    v
}

/// what the real parser makes of a byte string: (parses, is-response, id, questions)
pub fn abstract_bytes(bytes: &[u8]) -> (bool, bool, u16, Vec<Q>) {
    match Message::from_vec(bytes) {
        Ok(m) => (
            true,
            m.metadata.message_type == MessageType::Response,
            m.metadata.id,
            m.queries
                .iter()
                .map(|q| Q {
                    labels: q.name.iter().map(|l| l.to_vec()).collect(),
                    qtype: q.query_type.into(),
                    qclass: q.query_class.into(),
                })
                .collect(),
        ),
        Err(_) => (false, false, 0, vec![]),
    }
}

pub fn q_to_query(q: &Q) -> Option<Query> {
    let mut n = Name::from_labels(q.labels.iter().map(|l| &l[..])).ok()?;
    n.set_fqdn(true);
    let mut qq = Query::new(n, RecordType::from(q.qtype));
    qq.set_query_class(DNSClass::from(q.qclass));
    Some(qq)
}

// ------------------------------------------------------------------------------------------------
// scripted socket / provider

struct SockEv {
    at: u64,
    /// None = io error
    dgram: Option<(Vec<u8>, SocketAddr)>,
}

#[derive(Default)]
pub struct SockState {
    send_mode: Option<SendMode>,
    /// number of `bind_udp` calls made for this transmission
    pub binds: u32,
    evs: VecDeque<SockEv>,
    pub consumed: usize,
    pub sent: Vec<(Vec<u8>, SocketAddr)>,
    pub bound: Option<SocketAddr>,
}

pub struct ScriptedUdp(Arc<Mutex<SockState>>);

impl DnsUdpSocket for ScriptedUdp {
    type Time = VTime;

    fn poll_recv_from(&self, cx: &mut Context<'_>, buf: &mut [u8]) -> Poll<io::Result<(usize, SocketAddr)>> {
        let mut s = self.0.lock().unwrap();
        let now = vtime::now();
        match s.evs.front() {
            None => Poll::Pending, // nothing will ever arrive: only the query's own timers can end it
            Some(e) if e.at > now => {
                vtime::wake_at(e.at, cx.waker());
                Poll::Pending
            }
            Some(_) => {
                let e = s.evs.pop_front().unwrap();
                s.consumed += 1;
                match e.dgram {
                    None => Poll::Ready(Err(io::Error::new(io::ErrorKind::ConnectionRefused, "scripted recv error"))),
                    Some((bytes, src)) => {
                        let n = bytes.len().min(buf.len());
                        buf[..n].copy_from_slice(&bytes[..n]);
                        Poll::Ready(Ok((n, src)))
                    }
                }
            }
        }
    }

    fn poll_send_to(&self, _cx: &mut Context<'_>, buf: &[u8], target: SocketAddr) -> Poll<io::Result<usize>> {
        let mut s = self.0.lock().unwrap();
        s.sent.push((buf.to_vec(), target));
        match s.send_mode.unwrap_or(SendMode::Ok) {
            SendMode::Ok => Poll::Ready(Ok(buf.len())),
            SendMode::Short => Poll::Ready(Ok(buf.len().saturating_sub(1))),
            SendMode::Err => Poll::Ready(Err(io::Error::new(io::ErrorKind::NetworkUnreachable, "scripted send error"))),
        }
    }
}

type BgFuture = Pin<Box<dyn Future<Output = ()> + Send + 'static>>;

/// `Spawn` handle that keeps the spawned background futures for the harness' own executor
#[derive(Clone, Default)]
pub struct KeepSpawn(pub Arc<Mutex<Vec<BgFuture>>>);
impl Spawn for KeepSpawn {
    fn spawn_bg(&mut self, future: impl Future<Output = ()> + Send + 'static) {
        self.0.lock().unwrap().push(Box::pin(future));
    }
}

#[derive(Default)]
pub struct ProvState {
    /// per transmission: set-up behaviour and (delay, datagram) lists, still relative
    scripts: VecDeque<(Setup, Vec<(u64, Option<(Vec<u8>, SocketAddr)>)>)>,
    /// one entry per transmission that reached `bind_udp` (also when the bind then failed)
    pub sockets: Vec<Arc<Mutex<SockState>>>,
    /// a transmission = all `bind_udp` calls made at one virtual instant
    last_bind_at: Option<u64>,
    cur: Option<(Setup, Vec<(u64, Option<(Vec<u8>, SocketAddr)>)>)>,
    fails_left: u32,
}

#[derive(Clone, Default)]
pub struct ScriptedProvider(pub Arc<Mutex<ProvState>>, pub KeepSpawn);

impl RuntimeProvider for ScriptedProvider {
    type Handle = KeepSpawn;
    type Timer = VTime;
    type Udp = ScriptedUdp;
    type Tcp = AsyncIoTokioAsStd<tokio::net::TcpStream>;

    fn create_handle(&self) -> Self::Handle {
        self.1.clone()
    }

    fn connect_tcp(
        &self,
        _server_addr: SocketAddr,
        _bind_addr: Option<SocketAddr>,
        _timeout: Option<Duration>,
    ) -> Pin<Box<dyn Send + Future<Output = Result<Self::Tcp, io::Error>>>> {
        Box::pin(async { Err(io::Error::new(io::ErrorKind::Unsupported, "no tcp in this script")) })
    }

    fn bind_udp(
        &self,
        local_addr: SocketAddr,
        _server_addr: SocketAddr,
    ) -> Pin<Box<dyn Send + Future<Output = Result<Self::Udp, io::Error>>>> {
        let mut p = self.0.lock().unwrap();
        let now = vtime::now();
        if p.last_bind_at != Some(now) {
            // a new transmission
            p.last_bind_at = Some(now);
            let (su, script) = p.scripts.pop_front().unwrap_or_default();
            p.fails_left = match su.bind {
                Bind::InUse(n) | Bind::Denied(n) => n,
                _ => 0,
            };
            p.cur = Some((su, script));
            p.sockets.push(Arc::new(Mutex::new(SockState::default())));
        }
        let st = p.sockets.last().unwrap().clone();
        st.lock().unwrap().binds += 1;
        let su = p.cur.as_ref().map(|c| c.0).unwrap_or_default();
        if p.fails_left > 0 {
            p.fails_left -= 1;
            let kind = if matches!(su.bind, Bind::Denied(_)) { io::ErrorKind::PermissionDenied } else { io::ErrorKind::AddrInUse };
            return Box::pin(async move { Err(io::Error::new(kind, "scripted bind failure")) });
        }
        if su.bind == Bind::Other {
            return Box::pin(async { Err(io::Error::new(io::ErrorKind::AddrNotAvailable, "scripted bind failure")) });
        }
        let script = p.cur.take().map(|c| c.1).unwrap_or_default();
        let mut t = now;
        let mut evs = VecDeque::new();
        for (d, dg) in script {
            t += d;
            evs.push_back(SockEv { at: t, dgram: dg });
        }
        {
            let mut s = st.lock().unwrap();
            s.evs = evs;
            s.send_mode = Some(su.send);
            s.bound = Some(local_addr);
        }
        let mut slow = su.bind == Bind::Slow;
        Box::pin(std::future::poll_fn(move |cx| {
            if slow {
                slow = false;
                cx.waker().wake_by_ref();
                return Poll::Pending;
            }
            Poll::Ready(Ok(ScriptedUdp(st.clone())))
        }))
    }
}

// ------------------------------------------------------------------------------------------------
// running one case on the real code

pub struct UdpRun {
    /// "ok t.j" / "err" / "timeout" / "hang"
    pub outcome: String,
    pub accepted: Option<(usize, usize)>,
    pub consumed: Vec<usize>,
    pub end_time: u64,
    /// the request as it went out (bytes of the first transmission)
    pub sent_first: Option<Vec<u8>>,
    pub all_sent_to_server: bool,
    /// local address each transmission's socket was bound to (None: the bind failed)
    pub bound: Vec<Option<SocketAddr>>,
    /// `bind_udp` calls per transmission
    pub binds: Vec<u32>,
    /// which builder options were set (derived from the query id, see `builder_variant`)
    pub variant: u16,
    /// via `exchange()`: did the background task end once every handle was dropped
    pub bg_done: Option<bool>,
}

/// builder options exercised besides the scripted ones, chosen by the query id so that the case line
/// stays as it is: 0 = none, 1 = `with_bind_addr(port 4444)`, 2 = `with_os_port_selection(true)`,
/// 3 = `avoid_local_ports(all but 5000..=5063)`
pub fn builder_variant(c: &UdpCase) -> u16 {
    if c.setups.iter().any(|s| !matches!(s.bind, Bind::Ok | Bind::Slow)) {
        return 0; // the bind retry budget is shared with avoided ports: keep the two apart
    }
    match c.id % 8 {
        1 => 1,
        2 => 2,
        3 => 3,
        _ => 0,
    }
}

pub fn avoided_ports() -> Arc<HashSet<u16>> {
    static SET: OnceLock<Arc<HashSet<u16>>> = OnceLock::new();
    SET.get_or_init(|| Arc::new((1024..=u16::MAX).filter(|p| !(5000..=5063).contains(p)).collect())).clone()
}

pub fn fixed_bind_addr(server: &SocketAddr) -> SocketAddr {
    match server {
        SocketAddr::V4(_) => SocketAddr::new(IpAddr::V4(Ipv4Addr::UNSPECIFIED), 4444),
        SocketAddr::V6(_) => SocketAddr::new(IpAddr::V6(Ipv6Addr::UNSPECIFIED), 4444),
    }
}

fn marker(t: usize, j: usize) -> u32 {
    (1 + t * 64 + j) as u32
}

pub fn dgram_bytes(t: usize, j: usize, e: &Ev) -> Option<(Vec<u8>, SocketAddr)> {
    match e {
        Ev::E { .. } => None,
        Ev::D { src, resp, id, qs, raw, hdr, .. } => Some((
            match raw {
                Some(r) => r.clone(),
                None => encode_dgram_hdr(*id, *resp, qs, marker(t, j), *hdr),
            },
            *src,
        )),
    }
}

pub fn test_signer() -> TSigner {
    TSigner::new(b"0123456789abcdef0123456789abcdef".to_vec(), TsigAlgorithm::HmacSha256, Name::from_ascii("key.test.").unwrap(), 300).unwrap()
}

pub fn unencodable_record() -> Record {
    Record::from_rdata(Name::root(), 0, RData::TXT(TXT::from_bytes(vec![&[b'x'; 300][..]])))
}

fn lower_bytes(l: &[u8]) -> Vec<u8> {
    l.iter().map(|c| if c.is_ascii_uppercase() { c + 32 } else { *c }).collect()
}

/// `q` re-expressed relative to the name that really went out: where `q` is `line` up to letter case,
/// the result is `sent` with the case toggled exactly where `q` differs from `line` (so "same as the
/// request" stays the same and "differs in these letters" still differs in these letters).
fn rebase(q: &Q, line: &Q, sent: &Q) -> Q {
    let same_shape = q.labels.len() == line.labels.len()
        && q.labels.iter().zip(&line.labels).all(|(a, bb)| lower_bytes(a) == lower_bytes(bb));
    if !same_shape {
        return q.clone();
    }
    let labels = q
        .labels
        .iter()
        .zip(&line.labels)
        .zip(&sent.labels)
        .map(|((ql, ll), sl)| ql.iter().zip(ll).zip(sl).map(|((qc, lc), sc)| if qc != lc { sc ^ 0x20 } else { *sc }).collect())
        .collect();
    Q { labels, qtype: q.qtype, qclass: q.qclass }
}

/// Builds the request the way the case says and returns it with the *effective* case: the questions
/// as they really are in the request, and the scripted questions re-expressed relative to them.
pub fn prepare(c: &UdpCase) -> Option<(DnsRequest, UdpCase)> {
    let mut opts = DnsRequestOptions::default();
    opts.case_randomization = c.case_rand;
    opts.retry_interval = Duration::from_millis(c.retry_interval);
    let mut msg = Message::new(c.id, MessageType::Query, OpCode::Query);
    msg.metadata.recursion_desired = true;
    for q in &c.qs {
        msg.queries.push(q_to_query(q)?);
    }
    if c.unencodable {
        // a TXT record with a 300-octet character-string: `emit_character_data` refuses it (an oversize
        // message would merely be truncated by the encoder, not refused)
        msg.additionals.push(unencodable_record());
        if msg.to_vec().is_ok() || c.ctor == 'f' {
            return None;
        }
    }
    let req = match c.ctor {
        'n' => DnsRequest::new(msg, opts),
        'o' => {
            let original = if c.case_rand {
                msg.queries.first().map(|q| {
                    let mut q = q.clone();
                    q.name = q.name.to_lowercase();
                    q
                })
            } else {
                None
            };
            DnsRequest::new(msg, opts).with_original_query(original)
        }
        'm' => {
            let mut r = DnsRequest::from(msg);
            *r.options_mut() = opts;
            r
        }
        'f' => {
            if c.qs.len() != 1 {
                return None;
            }
            let mut r = DnsRequest::from_query(q_to_query(&c.qs[0])?, opts);
            r.metadata.id = c.id; // `Message::query()` drew a random one
            r
        }
        _ => return None,
    };
    let sent: Vec<Q> = req
        .queries
        .iter()
        .map(|q| Q { labels: q.name.iter().map(|l| l.to_vec()).collect(), qtype: q.query_type.into(), qclass: q.query_class.into() })
        .collect();
    let mut eff = c.clone();
    if c.ctor == 'f' {
        let (line, sentq) = (&c.qs[0], &sent[0]);
        for sc in eff.scripts.iter_mut() {
            for e in sc.iter_mut() {
                if let Ev::D { qs, raw, parses, .. } = e {
                    if raw.is_some() && *parses && !qs.is_empty() {
                        return None; // raw bytes cannot be re-expressed
                    }
                    for q in qs.iter_mut() {
                        *q = rebase(q, line, sentq);
                    }
                }
            }
        }
    }
    eff.qs = sent;
    Some((req, eff))
}

/// runs the effective case `c` (from `prepare`) with its request on the real code
pub fn run_case(c: &UdpCase, req: DnsRequest) -> Option<UdpRun> {
    vtime::reset();
    let prov = ScriptedProvider::default();
    let mut all_bytes: Vec<Vec<Option<Vec<u8>>>> = vec![];
    {
        let mut p = prov.0.lock().unwrap();
        for (t, sc) in c.scripts.iter().enumerate() {
            let mut v = vec![];
            let mut bs = vec![];
            for (j, e) in sc.iter().enumerate() {
                let d = match e {
                    Ev::E { delay } | Ev::D { delay, .. } => *delay,
                };
                let dg = dgram_bytes(t, j, e);
                bs.push(dg.as_ref().map(|x| x.0.clone()));
                v.push((d, dg));
            }
            p.scripts.push_back((c.setups.get(t).copied().unwrap_or_default(), v));
            all_bytes.push(bs);
        }
    }

    let variant = builder_variant(c);
    let mut builder = UdpClientStream::builder(c.server, prov.clone())
        .with_timeout(Some(Duration::from_millis(c.timeout)))
        .with_max_retries(c.max_retries)
        .with_retry_interval_floor(c.floor);
    if c.signer {
        builder = builder.with_signer(Some(test_signer()));
    }
    builder = match variant {
        1 => builder.with_bind_addr(Some(fixed_bind_addr(&c.server))),
        2 => builder.with_os_port_selection(true),
        3 => builder.avoid_local_ports(avoided_ports()),
        _ => builder,
    };
    let mut bg_done = None;
    let (res, end_time) = if c.via_exchange {
        // the other public entry point: DnsExchange around the stream, background task on our executor
        let exchange = builder.exchange();
        let mut bgs: Vec<BgFuture> = std::mem::take(&mut *prov.1 .0.lock().unwrap());
        let mut resp = exchange.send(req);
        let res = vtime::run_virtual(std::future::poll_fn(|cx| {
            for bg in bgs.iter_mut() {
                let _ = bg.as_mut().poll(cx);
            }
            resp.poll_next_unpin(cx)
        }));
        let end_time = vtime::now();
        drop(resp);
        drop(exchange);
        // nobody can send any more: the background task must shut the stream down and end
        let w = Waker::from(vtime::CountWaker::new());
        let mut cx = Context::from_waker(&w);
        bg_done = Some(bgs.len() == 1 && bgs.iter_mut().all(|bg| (0..3).any(|_| bg.as_mut().poll(&mut cx).is_ready())));
        (res, end_time)
    } else {
        let mut client = builder.build();
        let mut stream = client.send_message(req);
        let res = vtime::run_virtual(stream.next());
        let end_time = vtime::now();
        drop(stream);
        (res, end_time)
    };
    let p = prov.0.lock().unwrap();
    let consumed: Vec<usize> = p.sockets.iter().map(|s| s.lock().unwrap().consumed).collect();
    let sent_first = p.sockets.first().and_then(|s| s.lock().unwrap().sent.first().map(|x| x.0.clone()));
    let all_sent_to_server = p.sockets.iter().all(|s| s.lock().unwrap().sent.iter().all(|x| x.1 == c.server));
    let bound: Vec<Option<SocketAddr>> = p.sockets.iter().map(|s| s.lock().unwrap().bound).collect();
    let binds: Vec<u32> = p.sockets.iter().map(|s| s.lock().unwrap().binds).collect();
    let mut accepted = None;
    let outcome = match res {
        None => "hang".to_string(),
        Some(None) => "timeout".to_string(),
        Some(Some(Err(_))) => "err".to_string(),
        Some(Some(Ok(resp))) => {
            let buf = resp.as_buffer();
            // which scripted datagram is it?  (the first consumed one with exactly these bytes)
            'find: for (t, bs) in all_bytes.iter().enumerate() {
                for (j, bts) in bs.iter().enumerate() {
                    if j < consumed.get(t).copied().unwrap_or(0) && bts.as_deref() == Some(buf) {
                        accepted = Some((t, j));
                        break 'find;
                    }
                }
            }
            match accepted {
                Some((t, j)) => format!("ok {t}.{j}"),
                None => "ok ?".to_string(),
            }
        }
    };
    Some(UdpRun { outcome, accepted, consumed, end_time, sent_first, all_sent_to_server, bound, binds, variant, bg_done })
}

// ------------------------------------------------------------------------------------------------
// the property's oracle, on the script and the implementation's result only

fn canon(ip: IpAddr) -> IpAddr {
    // own reading of "canonical": ::ffff:a.b.c.d is a.b.c.d
    match ip {
        IpAddr::V6(x) => {
            let o = x.octets();
            if o[..10].iter().all(|b| *b == 0) && o[10] == 0xff && o[11] == 0xff {
                IpAddr::V4(Ipv4Addr::new(o[12], o[13], o[14], o[15]))
            } else {
                ip
            }
        }
        v4 => v4,
    }
}

fn lower(l: &[u8]) -> Vec<u8> {
    l.iter().map(|c| if c.is_ascii_uppercase() { c + 32 } else { *c }).collect()
}

fn same_question(a: &Q, bq: &Q, case_sensitive: bool) -> bool {
    a.qtype == bq.qtype
        && a.qclass == bq.qclass
        && a.labels.len() == bq.labels.len()
        && a.labels.iter().zip(&bq.labels).all(|(x, y)| if case_sensitive { x == y } else { lower(x) == lower(y) })
}

/// Why the scripted datagram `e` is not an acceptable reply to `c` (None = it is acceptable).
pub fn mismatch(c: &UdpCase, e: &Ev) -> Option<&'static str> {
    match e {
        Ev::E { .. } => Some("not a datagram"),
        Ev::D { src, parses, resp, id, qs, .. } => {
            if canon(src.ip()) != canon(c.server.ip()) {
                Some("wrong source address")
            } else if src.port() != c.server.port() {
                Some("wrong source port")
            } else if !*parses {
                Some("unparsable")
            } else if !*resp {
                Some("not a response")
            } else if *id != c.id {
                Some("wrong id")
            } else if !qs.iter().all(|q| c.qs.iter().any(|r| same_question(r, q, false))) {
                Some("question that was not asked")
            } else if c.case_rand && !qs.iter().all(|q| c.qs.iter().any(|r| same_question(r, q, true))) {
                Some("letter case differs with case randomisation on")
            } else {
                None
            }
        }
    }
}

/// The rest of `UdpClientStream`'s `DnsRequestSender` / `Stream` contract (no model side): ready while
/// open, `shutdown` ends the stream, and `send_message` after it is the documented panic.
pub fn sender_contract() -> Vec<String> {
    let mut fails = vec![];
    vtime::reset();
    let server: SocketAddr = "192.0.2.1:53".parse().unwrap();
    let mut client = UdpClientStream::builder(server, ScriptedProvider::default()).build();
    if format!("{client}") != "UDP(192.0.2.1:53)" {
        fails.push("Display of the client stream does not name the queried server".into());
    }
    let w = Waker::from(vtime::CountWaker::new());
    let mut cx = Context::from_waker(&w);
    if client.is_shutdown() || !matches!(client.poll_next_unpin(&mut cx), Poll::Ready(Some(Ok(())))) {
        fails.push("an open UdpClientStream is not ready".into());
    }
    client.shutdown();
    if !client.is_shutdown() || !matches!(client.poll_next_unpin(&mut cx), Poll::Ready(None)) {
        fails.push("a shut down UdpClientStream does not end".into());
    }
    // the `Boxed` variant of DnsResponseStream (what the h2/h3/quic senders return): one item, then the end;
    // a Timeout error is the end of the stream, any other error is an item
    {
        use hickory_net::xfer::DnsResponseStream;
        use hickory_net::NetError;
        use hickory_proto::op::DnsResponse;
        let resp = DnsResponse::from_buffer(encode_dgram(7, true, &[], 1)).unwrap();
        let mut ok: DnsResponseStream = Box::pin(async move { Ok::<_, NetError>(resp) }).into();
        if !matches!(ok.poll_next_unpin(&mut cx), Poll::Ready(Some(Ok(r))) if r.id == 7) || !matches!(ok.poll_next_unpin(&mut cx), Poll::Ready(None)) {
            fails.push("boxed response stream: not `response, end`".into());
        }
        let mut to: DnsResponseStream = Box::pin(async { Err::<DnsResponse, _>(NetError::Timeout) }).into();
        if !matches!(to.poll_next_unpin(&mut cx), Poll::Ready(None)) {
            fails.push("boxed response stream: a timeout is not the end of the stream".into());
        }
        let mut er: DnsResponseStream = Box::pin(async { Err::<DnsResponse, _>(NetError::from("x")) }).into();
        if !matches!(er.poll_next_unpin(&mut cx), Poll::Ready(Some(Err(_)))) || !matches!(er.poll_next_unpin(&mut cx), Poll::Ready(None)) {
            fails.push("boxed response stream: not `error, end`".into());
        }
    }
    let msg = Message::new(1, MessageType::Query, OpCode::Query);
    match crate::common::catch(move || {
        let _ = client.send_message(DnsRequest::new(msg, DnsRequestOptions::default()));
    }) {
        Err(p) if p.contains("can not send messages after stream is shutdown") => {}
        Err(p) => fails.push(format!("send_message after shutdown panicked with: {p}")),
        Ok(()) => fails.push("send_message after shutdown was accepted".into()),
    }
    fails
}
