//! End-to-end: `DnsExchange` + `DnsExchangeBackground` + `DnsMultiplexer` over a scripted stream,
//! run by a *wake-driven* executor: a task is polled only after its waker was invoked (or once at
//! the start).  This is where real waker registration matters: a multiplexer that goes to sleep with
//! frames unread loses the responses behind them.  Implementation-vs-oracle only (no model side).
use std::cell::RefCell;
use std::collections::{HashMap, VecDeque};
use std::future::Future;
use std::net::SocketAddr;
use std::pin::Pin;
use std::rc::Rc;
use std::sync::{Arc, Mutex};
use std::task::{Context, Poll, Waker};
use std::time::Duration;

use futures_util::{Stream, StreamExt};
use hickory_net::xfer::{DnsClientStream, DnsExchange, FirstAnswer, StreamReceiver};
use hickory_net::{BufDnsStreamHandle, DnsHandle, DnsMultiplexer, NetError};
use hickory_proto::op::{DnsRequest, DnsRequestOptions, DnsResponse, Message, MessageType, OpCode, Query, SerialMessage};
use hickory_proto::rr::{Name, RecordType};

use super::mux::FrameEv;
use super::udp::{encode_dgram, ScriptedProvider};
use super::vtime::{self, CountWaker, VTime};

#[derive(Default)]
struct XShared {
    inbox: VecDeque<FrameEv>,
    waker: Option<Waker>,
    /// query name → id the request went out with
    ids: HashMap<String, u16>,
    closed: bool,
}

/// like a real connection: takes the buffered outbound messages whenever polled, then reads
struct XStream {
    shared: Arc<Mutex<XShared>>,
    rx: StreamReceiver,
    addr: SocketAddr,
}

impl Stream for XStream {
    type Item = Result<SerialMessage, NetError>;
    fn poll_next(mut self: Pin<&mut Self>, cx: &mut Context<'_>) -> Poll<Option<Self::Item>> {
        while let Poll::Ready(Some(m)) = self.rx.poll_next_unpin(cx) {
            if let Ok(msg) = Message::from_vec(m.bytes()) {
                if let Some(q) = msg.queries.first() {
                    self.shared.lock().unwrap().ids.insert(q.name.to_ascii(), msg.metadata.id);
                }
            }
        }
        let mut s = self.shared.lock().unwrap();
        match s.inbox.pop_front() {
            None => {
                s.waker = Some(cx.waker().clone());
                Poll::Pending
            }
            Some(FrameEv::Msg(b)) => Poll::Ready(Some(Ok(SerialMessage::new(b, self.addr)))),
            Some(FrameEv::Err) => {
                s.closed = true;
                Poll::Ready(Some(Err(NetError::from("scripted stream error"))))
            }
            Some(FrameEv::Eof) => {
                s.closed = true;
                Poll::Ready(None)
            }
        }
    }
}

impl DnsClientStream for XStream {
    type Time = VTime;
    fn name_server_addr(&self) -> SocketAddr {
        self.addr
    }
}

struct Task {
    fut: Pin<Box<dyn Future<Output = ()>>>,
    waker: Arc<CountWaker>,
    done: bool,
}

impl Task {
    fn new(f: impl Future<Output = ()> + 'static) -> Self {
        let waker = CountWaker::new();
        waker.wake_flag();
        Self { fut: Box::pin(f), waker, done: false }
    }
}

/// polls flagged tasks until nobody asks to be polled; returns the number of polls made
fn run_until_quiescent(tasks: &mut [Task]) -> usize {
    let mut polls = 0;
    loop {
        let mut any = false;
        for t in tasks.iter_mut() {
            if !t.done && t.waker.take() {
                any = true;
                polls += 1;
                let w = Waker::from(t.waker.clone());
                let mut cx = Context::from_waker(&w);
                if t.fut.as_mut().poll(&mut cx).is_ready() {
                    t.done = true;
                }
            }
        }
        if !any || polls > 100_000 {
            return polls;
        }
    }
}

pub struct XCase {
    pub k: usize,
    pub flood: usize,
    /// deliver everything in one burst, or one script item at a time
    pub burst: bool,
    /// `r<j>` / `u` / `c` / `e`
    pub script: Vec<String>,
    /// `clone` (requests go through clones of the exchange handle), `dropcaller<j>` (caller j drops its
    /// response before the background task has run), `bgdrop0` / `bgdrop1` (the background task is dropped
    /// before its first poll / after the requests were written), `late` (one more request after that)
    pub mods: Vec<String>,
}

pub fn parse(t: &[&str]) -> Option<XCase> {
    if (t.len() != 5 && t.len() != 6) || t[0] != "xchg" {
        return None;
    }
    let mods: Vec<String> = t.get(5).map(|m| m.split(',').map(String::from).collect()).unwrap_or_default();
    for m in &mods {
        let ok = ["clone", "bgdrop0", "bgdrop1", "late"].contains(&m.as_str())
            || m.strip_prefix("dropcaller").map(|j| j.parse::<usize>().is_ok()).unwrap_or(false);
        if !ok {
            return None;
        }
    }
    let script: Vec<String> = if t[4] == "-" { vec![] } else { t[4].split(',').map(String::from).collect() };
    for s in &script {
        let ok = s == "u" || s == "c" || s == "e" || (s.starts_with('r') && s[1..].parse::<usize>().is_ok());
        if !ok {
            return None;
        }
    }
    Some(XCase { k: t[1].parse().ok()?, flood: t[2].parse().ok()?, burst: t[3] == "1", script, mods })
}

/// returns (stats, failures)
pub fn run(c: &XCase) -> (Vec<String>, Vec<String>) {
    let mut fails = vec![];
    let mut stats = vec![];
    vtime::reset();
    let addr: SocketAddr = "192.0.2.53:53".parse().unwrap();
    let shared = Arc::new(Mutex::new(XShared::default()));
    let (handle, rx) = BufDnsStreamHandle::new(addr);
    let stream = XStream { shared: shared.clone(), rx, addr };
    let mux = DnsMultiplexer::new(stream, handle).with_timeout(Duration::from_millis(1000));
    let (exchange, bg) = DnsExchange::<ScriptedProvider>::from_stream(mux);

    type Res = Result<DnsResponse, NetError>;
    let results: Rc<RefCell<Vec<Option<Res>>>> = Rc::new(RefCell::new((0..c.k).map(|_| None).collect()));
    let has = |m: &str| c.mods.iter().any(|x| x == m);
    let dropped_early: Vec<usize> = c.mods.iter().filter_map(|m| m.strip_prefix("dropcaller").and_then(|j| j.parse().ok())).collect();
    let bg_dropped = has("bgdrop0") || has("bgdrop1");
    let mut tasks = vec![Task::new(bg)];
    for j in 0..c.k {
        let mut msg = Message::new(0, MessageType::Query, OpCode::Query);
        msg.queries.push(Query::new(Name::from_ascii(format!("r{j}.test.")).unwrap(), RecordType::A));
        let req = DnsRequest::new(msg, DnsRequestOptions::default());
        let resp = if has("clone") { exchange.clone().send(req) } else { exchange.send(req) };
        let results = results.clone();
        if dropped_early.contains(&j) {
            // the requester goes away before the background task has even seen the request
            drop(resp);
            results.borrow_mut()[j] = Some(Err(NetError::from("dropped by the script")));
            tasks.push(Task::new(async {}));
            continue;
        }
        tasks.push(Task::new(async move {
            let r = resp.first_answer().await;
            results.borrow_mut()[j] = Some(r);
        }));
    }
    // after the background task is gone: pending requests fail, a new one fails at once, nobody hangs
    let after_bg_drop = |tasks: &mut Vec<Task>, fails: &mut Vec<String>, stats: &mut Vec<String>| {
        run_until_quiescent(tasks);
        for _ in 0..100 {
            if tasks[1..].iter().all(|t| t.done) || !vtime::advance_next() {
                break;
            }
            run_until_quiescent(tasks);
        }
        for (j, r) in results.borrow().iter().enumerate() {
            match r {
                Some(Err(_)) => stats.push("xchg.result.err".into()),
                Some(Ok(_)) => fails.push(format!("request {j} completed with a response although the background task was dropped before any was delivered")),
                None => fails.push(format!("request {j} is still pending after the background task was dropped")),
            }
        }
        if has("late") {
            let mut msg = Message::new(0, MessageType::Query, OpCode::Query);
            msg.queries.push(Query::new(Name::from_ascii("late.test.").unwrap(), RecordType::A));
            let mut resp = exchange.send(DnsRequest::new(msg, DnsRequestOptions::default()));
            let w = Waker::from(CountWaker::new());
            let mut cx = Context::from_waker(&w);
            match resp.poll_next_unpin(&mut cx) {
                Poll::Ready(Some(Err(_))) => stats.push("xchg.late-send.err".into()),
                _ => fails.push("a request sent after the background task was gone did not fail at once".into()),
            }
        }
    };
    if has("bgdrop0") {
        tasks[0] = Task::new(async {});
        tasks[0].done = true;
        stats.push("xchg.background-dropped.before-first-poll".into());
        after_bg_drop(&mut tasks, &mut fails, &mut stats);
        return (stats, fails);
    }
    run_until_quiescent(&mut tasks);
    // every request must be on the wire now
    let ids: Vec<Option<u16>> = (0..c.k).map(|j| shared.lock().unwrap().ids.get(&format!("r{j}.test.")).copied()).collect();
    if ids.iter().enumerate().any(|(j, i)| i.is_none() && !dropped_early.contains(&j)) {
        fails.push("a request was not written to the stream although the background task went idle".into());
        return (stats, fails);
    }
    // (a request whose requester left early may or may not have been written: give it an id nobody has)
    let ids: Vec<u16> = ids.into_iter().enumerate().map(|(j, i)| i.unwrap_or(60_000 + j as u16)).collect();
    for a in 0..ids.len() {
        for bb in a + 1..ids.len() {
            if ids[a] == ids[bb] {
                fails.push(format!("requests {a} and {bb} are in flight with the same id {}", ids[a]));
            }
        }
    }
    if has("bgdrop1") {
        tasks[0] = Task::new(async {});
        tasks[0].done = true;
        stats.push("xchg.background-dropped.after-requests-written".into());
        after_bg_drop(&mut tasks, &mut fails, &mut stats);
        return (stats, fails);
    }
    let mut unknown = 0u16;
    let mut fresh_unknown = |ids: &Vec<u16>| {
        while ids.contains(&unknown) {
            unknown = unknown.wrapping_add(1);
        }
        let u = unknown;
        unknown = unknown.wrapping_add(1);
        u
    };
    // what was delivered for whom, before any close
    let mut tag = 0u32;
    let mut delivered: Vec<Vec<u32>> = vec![vec![]; c.k];
    let mut tag_id: HashMap<u32, u16> = HashMap::new();
    let mut closed_by_script = false;
    let mut batches: Vec<Vec<FrameEv>> = vec![];
    let mut first: Vec<FrameEv> = vec![];
    for _ in 0..c.flood {
        let u = fresh_unknown(&ids);
        first.push(FrameEv::Msg(encode_dgram(u, true, &[], 0x7000_0000)));
    }
    batches.push(first);
    for s in &c.script {
        let ev = match s.as_str() {
            "u" => FrameEv::Msg(encode_dgram(fresh_unknown(&ids), true, &[], 0x7000_0000)),
            "c" => {
                closed_by_script = true;
                FrameEv::Eof
            }
            "e" => {
                closed_by_script = true;
                FrameEv::Err
            }
            r => {
                let j: usize = r[1..].parse().unwrap();
                if j >= c.k {
                    continue;
                }
                tag += 1;
                if !closed_by_script {
                    delivered[j].push(tag);
                }
                tag_id.insert(tag, ids[j]);
                FrameEv::Msg(encode_dgram(ids[j], true, &[], tag))
            }
        };
        if c.burst {
            batches[0].push(ev);
        } else {
            batches.push(vec![ev]);
        }
    }
    for batch in batches {
        {
            let mut s = shared.lock().unwrap();
            s.inbox.extend(batch);
            if let Some(w) = s.waker.take() {
                drop(s);
                w.wake();
            }
        }
        run_until_quiescent(&mut tasks);
    }
    // let virtual time pass until every caller has its result
    let mut hung = false;
    for _ in 0..10_000 {
        if tasks[1..].iter().all(|t| t.done) {
            break;
        }
        if !vtime::advance_next() {
            hung = true;
            break;
        }
        run_until_quiescent(&mut tasks);
    }
    let left = shared.lock().unwrap().inbox.len();
    stats.push(format!("xchg.frames-left-unread.{}", if left == 0 { "0" } else { ">0" }));
    for (j, r) in results.borrow().iter().enumerate() {
        if dropped_early.contains(&j) {
            stats.push("xchg.requester-left-before-the-request-was-forwarded".into());
            continue;
        }
        match r {
            None => {
                fails.push(format!("request {j} never completed ({}; {left} frames unread)", if hung { "no task runnable and no timer pending" } else { "step budget exhausted" }));
            }
            Some(Ok(resp)) => {
                stats.push("xchg.result.ok".into());
                let tg = resp.answers.first().map(|r| r.ttl).unwrap_or(u32::MAX);
                if resp.id != ids[j] {
                    fails.push(format!("request {j} (id {}) completed with a response carrying id {}", ids[j], resp.id));
                }
                if tag_id.get(&tg) != Some(&ids[j]) {
                    fails.push(format!("request {j} completed with a response that was not delivered for its id (tag {tg})"));
                }
            }
            Some(Err(_)) => {
                stats.push("xchg.result.err".into());
                // a response for j was put on the stream (before any close, long before its timeout):
                // it must have reached j
                if !delivered[j].is_empty() {
                    fails.push(format!(
                        "request {j} failed although its response was delivered on the open connection ({left} frames left unread): the response did not reach the pending request"
                    ));
                }
            }
        }
    }
    // every requester and every handle goes away: the background task must shut down and end
    let _ = bg_dropped;
    tasks.truncate(1);
    drop(exchange);
    run_until_quiescent(&mut tasks);
    for _ in 0..100 {
        if tasks[0].done || !vtime::advance_next() {
            break;
        }
        run_until_quiescent(&mut tasks);
    }
    if tasks[0].done {
        stats.push("xchg.background-ended-after-last-handle-dropped".into());
    } else {
        fails.push("the background task did not end after every requester and every handle was dropped".into());
    }
    drop(tasks);
    (stats, fails)
}
