//! A virtual clock + `Time` implementation + a tiny single-threaded executor, so that timeouts and
//! retransmission timers of the code under test run in scripted (not wall-clock) time.
//!
//! `VTime::delay_for` / `VTime::timeout` mirror `TokioTime`: they are `async fn`s behind
//! `#[async_trait]`, so — exactly as with tokio — the deadline is fixed at the *first poll* of the
//! returned future, not at the call.
use std::future::Future;
use std::io;
use std::pin::Pin;
use std::sync::atomic::{AtomicBool, AtomicUsize, Ordering};
use std::sync::{Arc, Mutex};
use std::task::{Context, Poll, Wake, Waker};
use std::time::Duration;

use async_trait::async_trait;
use hickory_net::runtime::Time;

struct Clock {
    now: u64,
    timers: Vec<(u64, Waker)>,
}

static CLOCK: Mutex<Clock> = Mutex::new(Clock { now: 0, timers: Vec::new() });

fn clock() -> std::sync::MutexGuard<'static, Clock> {
    CLOCK.lock().unwrap_or_else(|e| e.into_inner())
}

pub fn reset() {
    let mut c = clock();
    c.now = 0;
    c.timers.clear();
}

pub fn now() -> u64 {
    clock().now
}

/// register a wake-up at virtual time `at`
pub fn wake_at(at: u64, w: &Waker) {
    clock().timers.push((at, w.clone()));
}

/// Moves the clock to `t` (never backwards) and wakes every timer due by then.
pub fn advance_to(t: u64) {
    let due: Vec<Waker> = {
        let mut c = clock();
        if t > c.now {
            c.now = t;
        }
        let now = c.now;
        let mut due = vec![];
        c.timers.retain(|(at, w)| {
            if *at <= now {
                due.push(w.clone());
                false
            } else {
                true
            }
        });
        due
    };
    for w in due {
        w.wake();
    }
}

/// jump to the earliest timer in the future; false if there is none
pub fn advance_next() -> bool {
    match next_timer() {
        Some(t) => {
            advance_to(t);
            true
        }
        None => false,
    }
}

/// earliest registered timer strictly in the future
fn next_timer() -> Option<u64> {
    let c = clock();
    c.timers.iter().map(|(at, _)| *at).filter(|at| *at > c.now).min()
}

pub struct VSleep {
    dur: u64,
    deadline: Option<u64>,
}

impl VSleep {
    pub fn new(d: Duration) -> Self {
        Self { dur: d.as_millis() as u64, deadline: None }
    }
}

impl Future for VSleep {
    type Output = ();
    fn poll(mut self: Pin<&mut Self>, cx: &mut Context<'_>) -> Poll<()> {
        let n = now();
        let dur = self.dur;
        let dl = *self.deadline.get_or_insert(n + dur);
        if n >= dl {
            Poll::Ready(())
        } else {
            wake_at(dl, cx.waker());
            Poll::Pending
        }
    }
}

struct VTimeout<F> {
    fut: Pin<Box<F>>,
    sleep: VSleep,
}

impl<F: Future> Future for VTimeout<F> {
    type Output = Result<F::Output, io::Error>;
    fn poll(mut self: Pin<&mut Self>, cx: &mut Context<'_>) -> Poll<Self::Output> {
        // like tokio::time::timeout: the value first, then the deadline
        if let Poll::Ready(v) = self.fut.as_mut().poll(cx) {
            return Poll::Ready(Ok(v));
        }
        match Pin::new(&mut self.sleep).poll(cx) {
            Poll::Ready(()) => Poll::Ready(Err(io::Error::new(io::ErrorKind::TimedOut, "future timed out"))),
            Poll::Pending => Poll::Pending,
        }
    }
}

#[derive(Clone, Copy, Debug)]
pub struct VTime;

#[async_trait]
impl Time for VTime {
    async fn delay_for(duration: Duration) {
        VSleep::new(duration).await
    }

    async fn timeout<F: 'static + Future + Send>(duration: Duration, future: F) -> Result<F::Output, io::Error> {
        VTimeout { fut: Box::pin(future), sleep: VSleep::new(duration) }.await
    }

    fn current_time() -> u64 {
        1_700_000_000 + now() / 1000
    }
}

/// A waker that counts how often it was asked to wake and remembers that it was.
pub struct CountWaker {
    pub flag: AtomicBool,
    pub count: AtomicUsize,
}

impl CountWaker {
    pub fn new() -> Arc<Self> {
        Arc::new(Self { flag: AtomicBool::new(false), count: AtomicUsize::new(0) })
    }
    pub fn take(&self) -> bool {
        self.flag.swap(false, Ordering::SeqCst)
    }
    pub fn wake_flag(&self) {
        self.flag.store(true, Ordering::SeqCst);
    }
    pub fn wakes(&self) -> usize {
        self.count.load(Ordering::SeqCst)
    }
}

impl Wake for CountWaker {
    fn wake(self: Arc<Self>) {
        self.wake_by_ref()
    }
    fn wake_by_ref(self: &Arc<Self>) {
        self.flag.store(true, Ordering::SeqCst);
        self.count.fetch_add(1, Ordering::SeqCst);
    }
}

/// Runs `fut` to completion in virtual time: poll; if it asked to be woken poll again; otherwise jump
/// the clock to the next timer. `None` = the future is pending with no timer left (it would hang), or
/// the step budget ran out.
pub fn run_virtual<F: Future>(fut: F) -> Option<F::Output> {
    let mut fut = Box::pin(fut);
    let cw = CountWaker::new();
    let waker = Waker::from(cw.clone());
    let mut cx = Context::from_waker(&waker);
    for _ in 0..100_000 {
        cw.take();
        if let Poll::Ready(v) = fut.as_mut().poll(&mut cx) {
            return Some(v);
        }
        if cw.take() {
            continue;
        }
        match next_timer() {
            Some(t) => advance_to(t),
            None => return None,
        }
    }
    None
}
