//! Stream half of C16: the real `DnsMultiplexer` over a scripted `DnsClientStream`, driven poll by
//! poll with a counting waker, in virtual time.
use std::collections::{HashMap, HashSet, VecDeque};
use std::net::SocketAddr;
use std::pin::Pin;
use std::sync::{Arc, Mutex};
use std::task::{Context, Poll, Waker};
use std::time::Duration;

use futures_util::{FutureExt, Stream, StreamExt};
use hickory_net::xfer::{DnsClientStream, DnsRequestSender, DnsResponseStream, StreamReceiver};
use hickory_net::{BufDnsStreamHandle, DnsMultiplexer, NetError};
use hickory_proto::op::{DnsRequest, DnsRequestOptions, Message, MessageType, OpCode, Query, SerialMessage};
use hickory_proto::rr::{Name, RecordType};

use super::udp::{encode_dgram, encode_dgram_hdr};
use super::vtime::{self, CountWaker, VTime};
use crate::common::*;

pub enum FrameEv {
    Msg(Vec<u8>),
    Err,
    Eof,
}

#[derive(Default)]
pub struct Shared {
    pub inbox: VecDeque<FrameEv>,
    /// the stream returned `Poll::Pending` (and kept the waker) since this flag was last cleared
    pub returned_pending: bool,
    pub waker: Option<Waker>,
    /// the stream has yielded its error / end
    pub close_consumed: bool,
    pub frames_read: usize,
}

pub struct ScriptedStream {
    shared: Arc<Mutex<Shared>>,
    addr: SocketAddr,
}

impl Stream for ScriptedStream {
    type Item = Result<SerialMessage, NetError>;
    fn poll_next(self: Pin<&mut Self>, cx: &mut Context<'_>) -> Poll<Option<Self::Item>> {
        let mut s = self.shared.lock().unwrap();
        match s.inbox.pop_front() {
            None => {
                s.returned_pending = true;
                s.waker = Some(cx.waker().clone());
                Poll::Pending
            }
            Some(FrameEv::Msg(b)) => {
                s.frames_read += 1;
                Poll::Ready(Some(Ok(SerialMessage::new(b, self.addr))))
            }
            Some(FrameEv::Err) => {
                s.close_consumed = true;
                Poll::Ready(Some(Err(NetError::from("scripted stream error"))))
            }
            Some(FrameEv::Eof) => {
                s.close_consumed = true;
                Poll::Ready(None)
            }
        }
    }
}

impl DnsClientStream for ScriptedStream {
    type Time = VTime;
    fn name_server_addr(&self) -> SocketAddr {
        self.addr
    }
}

pub struct CallerSt {
    pub k: usize,
    pub stream: Option<DnsResponseStream>,
    pub id: Option<u16>,
    pub sent_at: u64,
    pub send_ok: bool,
    pub cancelled: bool,
    /// the caller has seen an error or the end of its stream
    pub finished: bool,
    pub got: usize,
}

pub struct MuxRun {
    pub mux: DnsMultiplexer<ScriptedStream>,
    pub rx: StreamReceiver,
    pub shared: Arc<Mutex<Shared>>,
    pub callers: Vec<CallerSt>,
    pub next_tag: u32,
    pub used_ids: HashSet<u16>,
    pub tag_ids: HashMap<u32, u16>,
    pub timeout: u64,
    pub stalled: bool,
    pub waker: Arc<CountWaker>,
    pub script_shutdown: bool,
    /// an id was drawn that this block had already used for something else: from here on the
    /// symbolic ids of the model no longer describe the run (lines become implementation-only)
    pub id_reused: bool,
    pub max_concurrent: usize,
    pub frames_routed: usize,
}

fn noop_cx<R>(f: impl FnOnce(&mut Context<'_>) -> R) -> R {
    let w = Waker::from(CountWaker::new());
    let mut cx = Context::from_waker(&w);
    f(&mut cx)
}

pub struct StepOut {
    pub out: String,
    pub fails: Vec<String>,
}

impl MuxRun {
    pub fn new(timeout: u64, max_active: usize, stalled: bool, signer: bool) -> Self {
        vtime::reset();
        let addr: SocketAddr = "192.0.2.53:53".parse().unwrap();
        let shared = Arc::new(Mutex::new(Shared::default()));
        let (handle, rx) = BufDnsStreamHandle::new(addr);
        let stream = ScriptedStream { shared: shared.clone(), addr };
        let mux = DnsMultiplexer::new(stream, handle)
            .with_timeout(Duration::from_millis(timeout))
            .with_max_active_requests(max_active);
        let mux = if signer { mux.with_signer(super::udp::test_signer()) } else { mux };
        Self {
            mux,
            rx,
            shared,
            callers: vec![],
            next_tag: 0,
            used_ids: HashSet::new(),
            tag_ids: HashMap::new(),
            timeout,
            stalled,
            waker: CountWaker::new(),
            script_shutdown: false,
            id_reused: false,
            max_concurrent: 0,
            frames_routed: 0,
        }
    }

    fn caller(&mut self, k: usize) -> Option<&mut CallerSt> {
        self.callers.iter_mut().find(|c| c.k == k)
    }

    /// in flight by the script alone: sent, not dropped, not finished, younger than the timeout, stream open
    fn in_flight(&self, c: &CallerSt) -> bool {
        c.send_ok
            && !c.cancelled
            && !c.finished
            && vtime::now() - c.sent_at < self.timeout
            && !self.shared.lock().unwrap().close_consumed
    }

    fn closed(&self) -> bool {
        self.shared.lock().unwrap().close_consumed
    }

    fn fresh_unknown_id(&mut self) -> u16 {
        let mut id = 0u16;
        while self.used_ids.contains(&id) {
            id = id.wrapping_add(1);
        }
        self.used_ids.insert(id);
        id
    }

    pub fn step(&mut self, t: &[&str]) -> Option<StepOut> {
        let mut fails = vec![];
        let out = match t {
            ["send", k] | ["send", k, "e"] | ["send", k, "x"] | ["send", k, "e", "x"] => {
                let unencodable = t.contains(&"e");
                let axfr = t.contains(&"x");
                let k: usize = k.parse().ok()?;
                if self.caller(k).is_some() {
                    "bad".to_string()
                } else {
                    let mut msg = Message::new(0, MessageType::Query, OpCode::Query);
                    msg.queries.push(Query::new(Name::from_ascii(format!("r{k}.test.")).ok()?, if axfr { RecordType::AXFR } else { RecordType::A }));
                    if unencodable {
                        msg.additionals.push(super::udp::unencodable_record());
                    }
                    let req = DnsRequest::new(msg, DnsRequestOptions::default());
                    let mux = &mut self.mux;
                    match catch(|| mux.send_message(req)) {
                        Err(p) => {
                            let documented = p.contains("can not send messages after stream is shutdown")
                                && (self.script_shutdown || self.closed());
                            if !documented {
                                fails.push(format!("send_message panicked: {p}"));
                            }
                            "panic".to_string()
                        }
                        Ok(mut stream) => {
                            let probe = noop_cx(|cx| stream.poll_next_unpin(cx));
                            let mut st = CallerSt {
                                k,
                                stream: None,
                                id: None,
                                sent_at: vtime::now(),
                                send_ok: false,
                                cancelled: false,
                                finished: false,
                                got: 0,
                            };
                            let o = match probe {
                                Poll::Ready(Some(Err(_))) => {
                                    st.finished = true;
                                    "err"
                                }
                                Poll::Pending => {
                                    st.send_ok = true;
                                    "sent"
                                }
                                Poll::Ready(Some(Ok(_))) => {
                                    fails.push("a response before anything was delivered".into());
                                    "weird-ok"
                                }
                                Poll::Ready(None) => "weird-end",
                            };
                            st.stream = Some(stream);
                            if st.send_ok && !self.stalled {
                                // the stream takes the message: the peer (the script) learns the id
                                let mut n = 0;
                                while let Some(Some(m)) = self.rx.next().now_or_never() {
                                    n += 1;
                                    if let Ok(m) = Message::from_vec(m.bytes()) {
                                        let name_ok = m.queries.first().map(|q| q.name.to_ascii() == format!("r{k}.test.")).unwrap_or(false);
                                        if !name_ok {
                                            fails.push("outbound message is not the request just sent".into());
                                        }
                                        let id = m.metadata.id;
                                        // property: in-flight ids are pairwise distinct
                                        for o in &self.callers {
                                            if o.id == Some(id) && self.in_flight(o) {
                                                fails.push(format!("requests {} and {k} are in flight with the same id {id}", o.k));
                                            }
                                        }
                                        if !self.used_ids.insert(id) {
                                            self.id_reused = true;
                                        }
                                        st.id = Some(id);
                                    } else {
                                        fails.push("outbound message does not parse".into());
                                    }
                                }
                                if n != 1 {
                                    fails.push(format!("{n} outbound messages for one send_message"));
                                }
                            }
                            self.callers.push(st);
                            let live = self.callers.iter().filter(|c| self.in_flight(c)).count();
                            self.max_concurrent = self.max_concurrent.max(live);
                            o.to_string()
                        }
                    }
                }
            }
            ["deliver", kind, n] => {
                let n: usize = n.parse().ok()?;
                let (c0, rest) = kind.split_at(1);
                let target: Option<usize> = match c0 {
                    "r" | "q" => Some(rest.parse().ok()?),
                    "u" | "g" | "e" | "c" if rest.is_empty() => None,
                    _ => return None,
                };
                let id = match target {
                    Some(k) => match self.caller(k).and_then(|c| c.id) {
                        Some(id) => Some(id),
                        None => {
                            return Some(StepOut { out: "noid".into(), fails });
                        }
                    },
                    None => None,
                };
                for _ in 0..n {
                    let tag = self.next_tag;
                    self.next_tag += 1;
                    let ev = match c0 {
                        "r" => {
                            self.tag_ids.insert(tag, id.unwrap());
                            // flag bits and rcode vary with the tag: the multiplexer routes by id alone
                            FrameEv::Msg(encode_dgram_hdr(id.unwrap(), true, &[], tag, Some(0x8000 | (tag.wrapping_mul(37) as u16 & 0x07bf))))
                        }
                        "q" => FrameEv::Msg(encode_dgram(id.unwrap(), false, &[], tag)),
                        "u" => {
                            let u = self.fresh_unknown_id();
                            self.tag_ids.insert(tag, u);
                            FrameEv::Msg(encode_dgram_hdr(u, true, &[], tag, Some(0x8000 | (tag.wrapping_mul(37) as u16 & 0x07bf))))
                        }
                        "g" => FrameEv::Msg(vec![0xde, 0xad, tag as u8]),
                        "e" => FrameEv::Err,
                        _ => FrameEv::Eof,
                    };
                    let mut s = self.shared.lock().unwrap();
                    s.inbox.push_back(ev);
                    if let Some(w) = s.waker.take() {
                        drop(s);
                        w.wake();
                    }
                }
                "ok".to_string()
            }
            ["poll"] => {
                self.shared.lock().unwrap().returned_pending = false;
                let w0 = self.waker.wakes();
                let waker = Waker::from(self.waker.clone());
                let mut cx = Context::from_waker(&waker);
                let mux = &mut self.mux;
                let r = match catch(|| Pin::new(mux).poll_next(&mut cx)) {
                    Err(p) => {
                        fails.push(format!("poll_next panicked: {p}"));
                        return Some(StepOut { out: "panic".into(), fails });
                    }
                    Ok(r) => r,
                };
                let w = self.waker.wakes() - w0;
                let (sp, left) = {
                    let s = self.shared.lock().unwrap();
                    (s.returned_pending, s.inbox.len())
                };
                match r {
                    Poll::Ready(None) => "done".to_string(),
                    Poll::Ready(Some(Ok(()))) => "some-ok".to_string(),
                    Poll::Ready(Some(Err(_))) => "some-err".to_string(),
                    Poll::Pending => {
                        // property (progress): a Pending multiplexer must be wakeable — either the
                        // stream holds its waker, or it asked to be polled again
                        if !sp && w == 0 {
                            fails.push(format!(
                                "poll_next returned Pending with {left} frames unread, the stream never returned Pending (no waker registered) and no self-wake was requested"
                            ));
                        }
                        format!("pending w={} sp={}", w.min(1), b(sp))
                    }
                }
            }
            ["recv", k] => {
                let k: usize = k.parse().ok()?;
                let tag_ids = &self.tag_ids;
                match self.callers.iter_mut().find(|c| c.k == k) {
                    None => "noreq".to_string(),
                    Some(c) if c.cancelled => "noreq".to_string(),
                    Some(c) => {
                        let (o, f) = recv_once(c, tag_ids);
                        fails.extend(f);
                        o
                    }
                }
            }
            ["cancel", k] => {
                let k: usize = k.parse().ok()?;
                match self.caller(k) {
                    Some(c) if !c.cancelled => {
                        c.cancelled = true;
                        c.stream = None;
                        "ok".to_string()
                    }
                    _ => "noreq".to_string(),
                }
            }
            ["advance", dt] => {
                let dt: u64 = dt.parse().ok()?;
                vtime::advance_to(vtime::now() + dt);
                "ok".to_string()
            }
            ["shutdown"] => {
                self.mux.shutdown();
                self.script_shutdown = true;
                "ok".to_string()
            }
            _ => return None,
        };
        Some(StepOut { out, fails })
    }

    /// `end`: every live caller drains its stream
    pub fn finish(&mut self) -> StepOut {
        let mut fails = vec![];
        let closed = self.closed();
        let mut parts = vec![];
        let tag_ids = &self.tag_ids;
        for c in self.callers.iter_mut().filter(|c| !c.cancelled) {
            let mut toks = vec![];
            for _ in 0..12 {
                let (o, f) = recv_once(c, tag_ids);
                fails.extend(f);
                let stop = o == "end" || o == "pending";
                toks.push(o.replace(' ', ""));
                if stop {
                    break;
                }
            }
            // property: a closed connection fails every pending request
            if closed && toks.last().map(|s| s.as_str()) != Some("end") {
                fails.push(format!("connection closed but request {} is still pending: {}", c.k, toks.join(",")));
            }
            parts.push(format!("{}:{}", c.k, toks.join(",")));
        }
        StepOut { out: if parts.is_empty() { "-".into() } else { parts.join(" ") }, fails }
    }
}

/// one poll of a caller's response stream + the routing oracle
fn recv_once(c: &mut CallerSt, tag_ids: &HashMap<u32, u16>) -> (String, Vec<String>) {
    let mut fails = vec![];
    let Some(stream) = c.stream.as_mut() else {
        return ("noreq".into(), fails);
    };
    let o = match noop_cx(|cx| stream.poll_next_unpin(cx)) {
        Poll::Pending => "pending".to_string(),
        Poll::Ready(None) => {
            c.finished = true;
            "end".to_string()
        }
        Poll::Ready(Some(Err(_))) => {
            c.finished = true;
            "err".to_string()
        }
        Poll::Ready(Some(Ok(resp))) => {
            c.got += 1;
            let tag = resp.answers.first().map(|r| r.ttl).unwrap_or(u32::MAX);
            // property: a caller only ever receives a response carrying the id of its own request
            if Some(resp.id) != c.id {
                fails.push(format!("request {} (id {:?}) received a response with id {}", c.k, c.id, resp.id));
            }
            if tag_ids.get(&tag) != Some(&resp.id) {
                fails.push(format!("request {} received a response (tag {tag}) that was never delivered with id {}", c.k, resp.id));
            }
            format!("ok {tag}")
        }
    };
    (o, fails)
}

/// Fills the id space of a real multiplexer (no model side): every assigned id must be new, and once
/// all 65 536 are in flight `send_message` must fail cleanly instead of looping or reusing one.
pub fn id_fill(target: usize, rec: &mut Recorder) -> (String, Vec<String>) {
    let mut fails = vec![];
    let mut m = MuxRun::new(3_600_000, 100_000, false, false);
    let mut ids: HashSet<u16> = HashSet::new();
    let mut keep = vec![];
    let mut attempts = 0usize;
    let mut errs = 0usize;
    while ids.len() < target && attempts < 400_000 {
        attempts += 1;
        let mut msg = Message::new(0, MessageType::Query, OpCode::Query);
        msg.queries.push(Query::new(Name::root(), RecordType::A));
        let mut s = m.mux.send_message(DnsRequest::new(msg, DnsRequestOptions::default()));
        match noop_cx(|cx| s.poll_next_unpin(cx)) {
            Poll::Pending => {
                let mut n = 0;
                while let Some(Some(sm)) = m.rx.next().now_or_never() {
                    n += 1;
                    let id = u16::from_be_bytes([sm.bytes()[0], sm.bytes()[1]]);
                    if !ids.insert(id) {
                        fails.push(format!("id {id} assigned to two requests in flight"));
                    }
                }
                if n != 1 {
                    fails.push(format!("{n} outbound messages for one send"));
                }
                keep.push(s);
            }
            Poll::Ready(Some(Err(_))) => errs += 1,
            _ => fails.push("unexpected first poll of a fresh response stream".into()),
        }
    }
    // (the number of failed attempts on the way depends on the real RNG: not recorded)
    rec.stat_n("mux.idfill.ids-in-flight", ids.len() as u64);
    let _ = errs;
    if ids.len() == 65_536 {
        // nothing is free: the next sends must all fail
        for _ in 0..20 {
            let mut msg = Message::new(0, MessageType::Query, OpCode::Query);
            msg.queries.push(Query::new(Name::root(), RecordType::A));
            let mut s = m.mux.send_message(DnsRequest::new(msg, DnsRequestOptions::default()));
            match noop_cx(|cx| s.poll_next_unpin(cx)) {
                Poll::Ready(Some(Err(_))) => {}
                _ => fails.push("send_message with all 65536 ids in flight did not fail".into()),
            }
            if m.rx.next().now_or_never().flatten().is_some() {
                fails.push("a message went out although no id was free".into());
            }
        }
    }
    if ids.len() < target {
        fails.push(format!("only {} of {target} ids could be put in flight in {attempts} attempts", ids.len()));
    }
    drop(keep);
    ("~".into(), fails)
}
