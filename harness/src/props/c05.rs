//! C05 — RRset signed data equals the RFC 4034/4035 canonical form.
//!
//! Runs `TBS::from_input` (and `DNSKEY::verify_rrsig`, the built-in signer) on generated RRsets and
//! RRSIG parameter tuples.  Ops (all but `rdata` share the argument format
//! `NAME CLS TYPE ALG LABELS ORIGTTL EXP INC TAG SIGNER REC*`, `REC = NAME/TYPE/CLS/TTL/RDATA`):
//!
//! * `tbs`   implementation: `TBS::from_input(..).as_ref()`; model: `Tbs.tbsImpl`; oracle: the
//!           independent reference encoder below (RFC 4035 §5.3.2 + RFC 4034 §6)
//! * `spec`  "implementation" side is the Rust reference encoder, model side is `Spec.signedData`
//!           (ties the Lean spec to the oracle actually used)
//! * `class` the three deviation-class flags as computed here vs the Lean predicates
//! * `rdata TYPE RDATA`  `to_bytes()` sort key and canonical RDATA of one record vs the model;
//!           oracle: canonical RDATA = RFC 4034 §6.2 form computed by the reference
//! * `sv`    implementation only: for every supported algorithm a conforming third-party signer
//!           (ring over the *reference* bytes) must verify with `DNSKEY::verify_rrsig`, and the
//!           built-in signer must verify with the built-in verifier (also with the records reversed)
use std::collections::BTreeSet;
use std::net::{Ipv4Addr, Ipv6Addr};
use std::sync::OnceLock;

use hickory_proto::dnssec::crypto::{EcdsaSigningKey, Ed25519SigningKey, RsaSigningKey};
use hickory_proto::dnssec::rdata::{DNSKEY, RRSIG, SigInput};
use hickory_proto::dnssec::{Algorithm, SigningKey, TBS, Verifier};
use hickory_proto::rr::rdata::{A, AAAA, CNAME, MX, NS, PTR, SOA, SRV, TXT};
use hickory_proto::rr::{DNSClass, Name, RData, Record, RecordType, SerialNumber};
use hickory_proto::serialize::binary::{BinDecoder, BinEncodable, BinEncoder, NameEncoding};
use rustls_pki_types::PrivatePkcs8KeyDer;

use crate::common::*;

// ------------------------------------------------------------------ own representation

#[derive(Clone, Debug, PartialEq, Eq)]
pub struct N {
    pub labels: Vec<Vec<u8>>,
    pub fqdn: bool,
}

#[derive(Clone, Debug)]
pub enum RD {
    A(Vec<u8>),
    Aaaa(Vec<u8>),
    Ns(N),
    Cname(N),
    Ptr(N),
    Mx(u16, N),
    Soa(N, N, u32, u32, u32, u32, u32),
    Srv(u16, u16, u16, N),
    Txt(Vec<Vec<u8>>),
    /// any other type: raw wire RDATA (types whose canonical form is the wire form)
    Op(Vec<u8>),
    /// any other type whose canonical form lower-cases an embedded name (RFC 4034 §6.2 list: NAPTR,
    /// RRSIG, …): raw wire RDATA + the byte region `[start, start+len)` holding that name
    OpL(Vec<u8>, usize, usize),
}

#[derive(Clone, Debug)]
pub struct Rec {
    pub name: N,
    pub rtype: u16,
    pub cls: u16,
    pub ttl: u32,
    pub rd: RD,
}

#[derive(Clone, Debug)]
pub struct Case {
    pub name: N,
    pub cls: u16,
    pub tc: u16,
    pub alg: u8,
    pub labels: u8,
    pub ottl: u32,
    pub exp: u32,
    pub inc: u32,
    pub tag: u16,
    pub signer: N,
    pub recs: Vec<Rec>,
}

impl N {
    pub fn tok(&self) -> String {
        format!("{}:{}", if self.fqdn { "F" } else { "R" }, labels_tok(&self.labels))
    }
    pub fn parse(t: &str) -> Option<N> {
        let (f, rest) = t.split_once(':')?;
        let fqdn = match f {
            "F" => true,
            "R" => false,
            _ => return None,
        };
        Some(N { labels: parse_labels(rest)?, fqdn })
    }
    pub fn to_name(&self) -> Option<Name> {
        parse_name(&self.tok())
    }
    pub fn lower_labels(&self) -> Vec<Vec<u8>> {
        self.labels.iter().map(|l| lower(l)).collect()
    }
    /// RFC 4034 §6.2: uncompressed, lower case
    fn wire_lower(&self) -> Vec<u8> {
        wire(&self.lower_labels())
    }
    fn is_lower(&self) -> bool {
        self.labels.iter().all(|l| lower(l) == *l)
    }
}

pub fn lower(l: &[u8]) -> Vec<u8> {
    l.iter().map(|b| if (b'A'..=b'Z').contains(b) { b + 32 } else { *b }).collect()
}

pub fn wire(labels: &[Vec<u8>]) -> Vec<u8> {
    let mut o = vec![];
    for l in labels {
        o.push(l.len() as u8);
        o.extend_from_slice(l);
    }
    o.push(0);
    o
}

const T_A: u16 = 1;
const T_NS: u16 = 2;
const T_CNAME: u16 = 5;
const T_SOA: u16 = 6;
const T_PTR: u16 = 12;
const T_MX: u16 = 15;
const T_TXT: u16 = 16;
const T_AAAA: u16 = 28;
const T_SRV: u16 = 33;

impl RD {
    fn tier_type(&self) -> Option<u16> {
        Some(match self {
            RD::A(_) => T_A,
            RD::Aaaa(_) => T_AAAA,
            RD::Ns(_) => T_NS,
            RD::Cname(_) => T_CNAME,
            RD::Ptr(_) => T_PTR,
            RD::Mx(..) => T_MX,
            RD::Soa(..) => T_SOA,
            RD::Srv(..) => T_SRV,
            RD::Txt(_) => T_TXT,
            RD::Op(_) | RD::OpL(..) => return None,
        })
    }

    /// the token; for `Op` the key / canonical bytes computed by the real code are appended
    fn tok(&self, rtype: u16) -> Option<String> {
        Some(match self {
            RD::A(o) => format!("a,{}", hex(o)),
            RD::Aaaa(o) => format!("aaaa,{}", hex(o)),
            RD::Ns(n) => format!("ns,{}", n.tok()),
            RD::Cname(n) => format!("cname,{}", n.tok()),
            RD::Ptr(n) => format!("ptr,{}", n.tok()),
            RD::Mx(p, n) => format!("mx,{p},{}", n.tok()),
            RD::Soa(m, r, s, rf, rt, e, mi) => format!("soa,{},{},{s},{rf},{rt},{e},{mi}", m.tok(), r.tok()),
            RD::Srv(p, w, po, t) => format!("srv,{p},{w},{po},{}", t.tok()),
            RD::Txt(ss) => format!("txt,{}", ss.iter().map(|s| hex(s)).collect::<Vec<_>>().join(";")),
            RD::Op(raw) => {
                let rd = self.to_rdata(rtype)?;
                let c = match real_canon(&rd) {
                    Some(c) => hex(&c),
                    None => "!".into(),
                };
                format!("op,{},{},{}", hex(raw), hex(&real_key(&rd)), c)
            }
            RD::OpL(raw, st, ln) => {
                let rd = self.to_rdata(rtype)?;
                let c = match real_canon(&rd) {
                    Some(c) => hex(&c),
                    None => "!".into(),
                };
                format!("opl,{},{st},{ln},{},{}", hex(raw), hex(&real_key(&rd)), c)
            }
        })
    }

    fn parse(t: &str) -> Option<RD> {
        let f: Vec<&str> = t.split(',').collect();
        Some(match f.as_slice() {
            ["a", h] => RD::A(unhex(h)?),
            ["aaaa", h] => RD::Aaaa(unhex(h)?),
            ["ns", n] => RD::Ns(N::parse(n)?),
            ["cname", n] => RD::Cname(N::parse(n)?),
            ["ptr", n] => RD::Ptr(N::parse(n)?),
            ["mx", p, n] => RD::Mx(p.parse().ok()?, N::parse(n)?),
            ["soa", m, r, s, rf, rt, e, mi] => RD::Soa(
                N::parse(m)?,
                N::parse(r)?,
                s.parse().ok()?,
                rf.parse().ok()?,
                rt.parse().ok()?,
                e.parse().ok()?,
                mi.parse().ok()?,
            ),
            ["srv", p, w, po, n] => RD::Srv(p.parse().ok()?, w.parse().ok()?, po.parse().ok()?, N::parse(n)?),
            ["txt", ss] => RD::Txt(if ss.is_empty() {
                vec![]
            } else {
                ss.split(';').map(unhex).collect::<Option<Vec<_>>>()?
            }),
            ["op", raw] | ["op", raw, _, _] => RD::Op(unhex(raw)?),
            ["opl", raw, st, ln] | ["opl", raw, st, ln, _, _] => {
                let raw = unhex(raw)?;
                let (st, ln): (usize, usize) = (st.parse().ok()?, ln.parse().ok()?);
                if st + ln > raw.len() {
                    return None;
                }
                RD::OpL(raw, st, ln)
            }
            _ => return None,
        })
    }

    fn to_rdata(&self, rtype: u16) -> Option<RData> {
        if let Some(t) = self.tier_type() {
            if t != rtype {
                return None;
            }
        }
        Some(match self {
            RD::A(o) => {
                let o: [u8; 4] = o.as_slice().try_into().ok()?;
                RData::A(A(Ipv4Addr::from(o)))
            }
            RD::Aaaa(o) => {
                let o: [u8; 16] = o.as_slice().try_into().ok()?;
                RData::AAAA(AAAA(Ipv6Addr::from(o)))
            }
            RD::Ns(n) => RData::NS(NS(n.to_name()?)),
            RD::Cname(n) => RData::CNAME(CNAME(n.to_name()?)),
            RD::Ptr(n) => RData::PTR(PTR(n.to_name()?)),
            RD::Mx(p, n) => RData::MX(MX::new(*p, n.to_name()?)),
            RD::Soa(m, r, s, rf, rt, e, mi) => {
                RData::SOA(SOA::new(m.to_name()?, r.to_name()?, *s, *rf as i32, *rt as i32, *e as i32, *mi))
            }
            RD::Srv(p, w, po, t) => RData::SRV(SRV::new(*p, *w, *po, t.to_name()?)),
            RD::Txt(ss) => RData::TXT(TXT::from_bytes(ss.iter().map(|s| &s[..]).collect())),
            RD::Op(raw) | RD::OpL(raw, ..) => {
                if [T_A, T_NS, T_CNAME, T_SOA, T_PTR, T_MX, T_TXT, T_AAAA, T_SRV].contains(&rtype) {
                    return None;
                }
                let rd = RData::read(BinDecoder::new(raw), RecordType::from(rtype)).ok()?;
                if u16::from(rd.record_type()) != rtype {
                    return None;
                }
                rd
            }
        })
    }

    /// RFC 4034 §6.2 canonical RDATA, written from the RFCs (independent of hickory's encoders).
    /// `None`: no wire form (character-string longer than 255).
    pub fn ref_canon(&self) -> Option<Vec<u8>> {
        Some(match self {
            RD::A(o) | RD::Aaaa(o) | RD::Op(o) => o.clone(),
            RD::OpL(o, st, ln) => {
                let mut c = o.clone();
                c[*st..*st + *ln].make_ascii_lowercase();
                c
            }
            RD::Ns(n) | RD::Cname(n) | RD::Ptr(n) => n.wire_lower(),
            RD::Mx(p, n) => [&p.to_be_bytes()[..], &n.wire_lower()].concat(),
            RD::Soa(m, r, s, rf, rt, e, mi) => {
                let mut o = m.wire_lower();
                o.extend(r.wire_lower());
                for x in [s, rf, rt, e, mi] {
                    o.extend(x.to_be_bytes());
                }
                o
            }
            RD::Srv(p, w, po, t) => {
                let mut o = vec![];
                for x in [p, w, po] {
                    o.extend(x.to_be_bytes());
                }
                o.extend(t.wire_lower());
                o
            }
            RD::Txt(ss) => {
                let mut o = vec![];
                for s in ss {
                    if s.len() > 255 {
                        return None;
                    }
                    o.push(s.len() as u8);
                    o.extend_from_slice(s);
                }
                o
            }
        })
    }
}

/// `RData::to_bytes()` is private; it is `emit` into a fresh default encoder, errors ignored.
fn real_key(rd: &RData) -> Vec<u8> {
    let mut buf = Vec::new();
    {
        let mut enc = BinEncoder::new(&mut buf);
        let _ = rd.emit(&mut enc);
    }
    buf
}

/// RDATA as `TBS::new` emits it: `canonical_form = true`, uncompressed
fn real_canon(rd: &RData) -> Option<Vec<u8>> {
    let mut buf = Vec::new();
    let ok = {
        let mut enc = BinEncoder::new(&mut buf);
        enc.canonical_form = true;
        enc.name_encoding = NameEncoding::Uncompressed;
        rd.emit(&mut enc).is_ok()
    };
    ok.then_some(buf)
}

impl Rec {
    pub fn tok(&self) -> Option<String> {
        Some(format!("{}/{}/{}/{}/{}", self.name.tok(), self.rtype, self.cls, self.ttl, self.rd.tok(self.rtype)?))
    }
    pub fn parse(t: &str) -> Option<Rec> {
        let f: Vec<&str> = t.split('/').collect();
        let [n, ty, c, ttl, rd] = f.as_slice() else { return None };
        Some(Rec { name: N::parse(n)?, rtype: ty.parse().ok()?, cls: c.parse().ok()?, ttl: ttl.parse().ok()?, rd: RD::parse(rd)? })
    }
    pub fn to_record(&self) -> Option<Record> {
        let mut r = Record::from_rdata(self.name.to_name()?, self.ttl, self.rd.to_rdata(self.rtype)?);
        r.dns_class = DNSClass::from(self.cls);
        Some(r)
    }
}

impl Case {
    pub fn args(&self) -> Option<String> {
        let mut s = format!(
            "{} {} {} {} {} {} {} {} {} {}",
            self.name.tok(),
            self.cls,
            self.tc,
            self.alg,
            self.labels,
            self.ottl,
            self.exp,
            self.inc,
            self.tag,
            self.signer.tok()
        );
        for r in &self.recs {
            s.push(' ');
            s.push_str(&r.tok()?);
        }
        Some(s)
    }

    pub fn parse(t: &[&str]) -> Option<Case> {
        if t.len() < 10 {
            return None;
        }
        Some(Case {
            name: N::parse(t[0])?,
            cls: t[1].parse().ok()?,
            tc: t[2].parse().ok()?,
            alg: t[3].parse().ok()?,
            labels: t[4].parse().ok()?,
            ottl: t[5].parse().ok()?,
            exp: t[6].parse().ok()?,
            inc: t[7].parse().ok()?,
            tag: t[8].parse().ok()?,
            signer: N::parse(t[9])?,
            recs: t[10..].iter().map(|r| Rec::parse(r)).collect::<Option<Vec<_>>>()?,
        })
    }

    pub fn input(&self) -> Option<SigInput> {
        Some(SigInput {
            type_covered: RecordType::from(self.tc),
            algorithm: Algorithm::from_u8(self.alg),
            num_labels: self.labels,
            original_ttl: self.ottl,
            sig_expiration: SerialNumber::new(self.exp),
            sig_inception: SerialNumber::new(self.inc),
            key_tag: self.tag,
            signer_name: self.signer.to_name()?,
        })
    }

    /// the RRset the case is about: same class, type covered, owner equal up to ASCII case
    pub fn rrset(&self) -> Vec<&Rec> {
        self.recs
            .iter()
            .filter(|r| {
                r.cls == self.cls
                    && r.rtype == self.tc
                    && r.name.fqdn == self.name.fqdn
                    && r.name.lower_labels() == self.name.lower_labels()
            })
            .collect()
    }

    pub fn owner_label_count(&self) -> usize {
        let n = self.name.labels.len();
        if self.name.labels.first().map(|l| l == b"*").unwrap_or(false) { n - 1 } else { n }
    }

    /// RFC 4035 §5.3.2 "to calculate the name", canonical wire form
    fn ref_owner(&self) -> Option<Vec<u8>> {
        let fqdn = self.name.lower_labels();
        let cnt = self.owner_label_count();
        let l = self.labels as usize;
        if l == cnt {
            Some(wire(&fqdn))
        } else if l < cnt {
            let mut ls = vec![b"*".to_vec()];
            ls.extend_from_slice(&fqdn[fqdn.len() - l..]);
            Some(wire(&ls))
        } else {
            None
        }
    }

    fn ref_prefix(&self) -> Vec<u8> {
        let mut o = vec![];
        o.extend(self.tc.to_be_bytes());
        o.push(self.alg);
        o.push(self.labels);
        o.extend(self.ottl.to_be_bytes());
        o.extend(self.exp.to_be_bytes());
        o.extend(self.inc.to_be_bytes());
        o.extend(self.tag.to_be_bytes());
        o.extend(self.signer.wire_lower());
        o
    }

    fn ref_rr(&self, owner: &[u8], rd: &[u8]) -> Vec<u8> {
        let mut o = owner.to_vec();
        o.extend(self.tc.to_be_bytes());
        o.extend(self.cls.to_be_bytes());
        o.extend(self.ottl.to_be_bytes());
        o.extend((rd.len() as u16).to_be_bytes());
        o.extend_from_slice(rd);
        o
    }

    /// the reference: RFC 4035 §5.3.2 signed data (`None`: the RRSIG must not be used / no wire form)
    pub fn ref_signed_data(&self) -> Option<Vec<u8>> {
        let owner = self.ref_owner()?;
        let mut set = BTreeSet::new(); // distinct, sorted as left-justified octet strings
        for r in self.rrset() {
            set.insert(r.rd.ref_canon()?);
        }
        let mut o = self.ref_prefix();
        for rd in &set {
            o.extend(self.ref_rr(&owner, rd));
        }
        Some(o)
    }

    /// (dup, ttl, case): which hypotheses of `tbs_eq_spec_partial` the collected RRset violates
    fn classes(&self, keys: &[Vec<u8>]) -> (bool, bool, bool) {
        let rr = self.rrset();
        let canon: Vec<Option<Vec<u8>>> = rr.iter().map(|r| r.rd.ref_canon()).collect();
        let mut dup = false;
        for i in 0..canon.len() {
            for j in i + 1..canon.len() {
                dup |= canon[i] == canon[j];
            }
        }
        let ttl = rr.iter().any(|r| r.ttl != rr[0].ttl);
        let case = canon.iter().zip(keys).any(|(c, k)| c.as_ref() != Some(k));
        (dup, ttl, case)
    }
}

/// which of the pre-repair deviations (repaired in /repo 628570a) an order/duplication difference
/// would look like — used only to word the violation; none of them is tolerated any more
fn class_of(d: (bool, bool, bool)) -> &'static str {
    match d {
        (true, _, _) => "tbs-duplicate-rr-kept",
        (false, true, _) => "tbs-order-ttl-before-rdata",
        (false, false, true) => "tbs-order-noncanonical-rdata-case",
        _ => "",
    }
}

/// `bytes` = prefix ++ the canonical RRs of *all* collected records (duplicates included) in some order
fn is_reordering(c: &Case, bytes: &[u8]) -> bool {
    let Some(owner) = c.ref_owner() else { return false };
    let prefix = c.ref_prefix();
    if !bytes.starts_with(&prefix) {
        return false;
    }
    let mut blocks: Vec<Vec<u8>> = vec![];
    for r in c.rrset() {
        match r.rd.ref_canon() {
            Some(rd) => blocks.push(c.ref_rr(&owner, &rd)),
            None => return false,
        }
    }
    let mut rest = &bytes[prefix.len()..];
    while !rest.is_empty() {
        match blocks.iter().position(|b| rest.starts_with(b)) {
            Some(i) => {
                rest = &rest[blocks[i].len()..];
                blocks.swap_remove(i);
            }
            None => return false,
        }
    }
    blocks.is_empty()
}

// ------------------------------------------------------------------ keys

pub struct Key {
    pub alg: Algorithm,
    pub key: Box<dyn SigningKey>,
    pub dnskey: DNSKEY,
    pub tag: u16,
    /// the private key as PKCS#8 DER (a `DnssecSigner` takes ownership of its signing key)
    pub pkcs8: Vec<u8>,
}

impl Key {
    /// a fresh signing key through the generic loader `signing_key_from_der`
    pub fn load(&self) -> Box<dyn SigningKey> {
        hickory_proto::dnssec::crypto::signing_key_from_der(&rustls_pki_types::PrivateKeyDer::Pkcs8(PrivatePkcs8KeyDer::from(self.pkcs8.clone())), self.alg).expect("signing_key_from_der")
    }
}

const RSA_PK8: &[u8] = include_bytes!("/repo/crates/proto/tests/test-data/rsa-2048-private-key-1.pk8");

pub fn sign_keys() -> &'static Vec<Key> {
    static K: OnceLock<Vec<Key>> = OnceLock::new();
    K.get_or_init(|| {
        let mut v: Vec<(Algorithm, Box<dyn SigningKey>, Vec<u8>)> = vec![];
        let pk = Ed25519SigningKey::generate_pkcs8().expect("ed25519");
        v.push((Algorithm::ED25519, Box::new(Ed25519SigningKey::from_pkcs8(&pk).expect("ed25519")), pk.secret_pkcs8_der().to_vec()));
        for alg in [Algorithm::ECDSAP256SHA256, Algorithm::ECDSAP384SHA384] {
            let pk = EcdsaSigningKey::generate_pkcs8(alg).expect("ecdsa");
            v.push((alg, Box::new(EcdsaSigningKey::from_pkcs8(&pk, alg).expect("ecdsa")), pk.secret_pkcs8_der().to_vec()));
        }
        for alg in [Algorithm::RSASHA256, Algorithm::RSASHA512] {
            let k = RsaSigningKey::from_pkcs8(&PrivatePkcs8KeyDer::from(RSA_PK8), alg).expect("rsa");
            v.push((alg, Box::new(k), RSA_PK8.to_vec()));
        }
        v.into_iter()
            .map(|(alg, key, pkcs8)| {
                let dnskey = DNSKEY::from_key(&key.to_public_key().expect("public key"));
                let tag = dnskey.calculate_key_tag().expect("tag");
                Key { alg, key, dnskey, tag, pkcs8 }
            })
            .collect()
    })
}

/// `bs KEYIDX DURATION <case args>` — the built-in signer entry point (implementation only):
/// `RecordSet` → `DnssecSigner::new` → `RRSIG::from_rrset` (`SigInput::from_rrset`, `TBS::from_input`,
/// `DnssecSigner::sign`).  The RRSIG fields must be the ones RFC 4034 §3.1 prescribes for this RRset and key, the
/// signature must verify (ring) over the *reference* signed data with these fields, and through
/// `DNSKEY::verify_rrsig` with the records in either order.  The case's INC is the inception; its ALG, LABELS,
/// ORIGTTL, EXP, TAG fields are ignored (the signer computes them).
fn exec_builtin_signer(t: &[&str]) -> Option<Out> {
    use hickory_proto::dnssec::DnssecSigner;
    use hickory_proto::rr::RecordSet;
    let [_, ki, dur, args @ ..] = t else { return None };
    let ki: usize = ki.parse().ok()?;
    let dur: u32 = dur.parse().ok()?;
    let c = Case::parse(args)?;
    let key = sign_keys().get(ki % sign_keys().len())?;
    let line = format!("bs {ki} {dur} {}", c.args()?);
    let name = c.name.to_name()?;
    let class = DNSClass::from(c.cls);
    let signer_name = c.signer.to_name()?;
    let mut fails: Vec<(String, String)> = vec![];
    let mut stats = vec![];
    // the zone-store representation of the RRset
    let mut set = RecordSet::new(name.clone(), RecordType::from(c.tc), 0);
    let mine: Vec<&Rec> = c.rrset();
    for r in &mine {
        let rec = r.to_record()?;
        if rec.name.is_fqdn() != name.is_fqdn() {
            continue;
        }
        set.insert(rec, 0);
    }
    let held: Vec<Record> = set.records_without_rrsigs().cloned().collect();
    if held.is_empty() {
        return Some(Out { line, out: "~".into(), fails, stats: vec!["bs.empty-rrset".into()], nontrivial: false });
    }
    // which of my records the set holds (exact wire RDATA)
    let mut kept: Vec<Rec> = vec![];
    for h in &held {
        let hk = real_key(&h.data);
        if let Some(r) = mine.iter().find(|r| r.ttl == h.ttl && r.rd.to_rdata(r.rtype).map(|d| real_key(&d) == hk).unwrap_or(false)) {
            kept.push((*r).clone());
        } else {
            return Some(Out { line, out: "~".into(), fails, stats: vec!["bs.unmatched-record".into()], nontrivial: false });
        }
    }
    let signer = DnssecSigner::new(key.dnskey.clone(), key.load(), signer_name.clone(), std::time::Duration::from_secs(dur as u64));
    if signer.calculate_key_tag().ok() != Some(key.tag) || signer.to_dnskey() != key.dnskey || signer.dnskey() != &key.dnskey || signer.signer_name() != &signer_name || signer.sig_duration().as_secs() != dur as u64 || !signer.is_zone_signing_key() || signer.key().algorithm() != key.alg || signer.test_key().is_err() {
        fails.push(("DnssecSigner accessors disagree with what it was built from".into(), String::new()));
    }
    let inception = time::OffsetDateTime::from_unix_timestamp(c.inc as i64).ok()?;
    let rrsig = match RRSIG::from_rrset(&set, class, inception, &signer) {
        Ok(r) => r,
        Err(_) => {
            let big = c.ref_signed_data().map(|b| b.len() > 65535).unwrap_or(true);
            if !big {
                fails.push(("RRSIG::from_rrset failed on a well-formed RRset".into(), String::new()));
            }
            return Some(Out { line, out: "~".into(), fails, stats: vec!["bs.error".into()], nontrivial: false });
        }
    };
    let inp = rrsig.input().clone();
    // what RFC 4034 §3.1 prescribes, computed here
    let mut want = c.clone();
    want.recs = kept.clone();
    want.alg = u8::from(key.alg);
    want.labels = c.owner_label_count() as u8;
    want.ottl = set.ttl();
    want.exp = c.inc.wrapping_add(dur);
    want.tag = key.tag;
    let got_fields = (u16::from(inp.type_covered), u8::from(inp.algorithm), inp.num_labels, inp.original_ttl, inp.sig_expiration.get(), inp.sig_inception.get(), inp.key_tag);
    let want_fields = (want.tc, want.alg, want.labels, want.ottl, want.exp, want.inc, want.tag);
    if got_fields != want_fields || inp.signer_name != signer_name {
        fails.push((format!("the built-in signer's RRSIG fields {got_fields:?} differ from RFC 4034 §3.1 {want_fields:?}"), String::new()));
    }
    if !kept.iter().any(|r| r.ttl == want.ottl) {
        fails.push(("the Original TTL is not the TTL of any record of the RRset".into(), String::new()));
    }
    match want.ref_signed_data() {
        Some(bytes) => {
            let ok = key.dnskey.verify(&bytes, rrsig.sig()).is_ok();
            stats.push(format!("bs.{:?}.{}", key.alg, if ok { "verifies-over-reference" } else { "REJECTED" }));
            if !ok {
                fails.push((format!("the built-in signer's signature ({:?}) does not verify over the reference signed data", key.alg), String::new()));
            }
        }
        None => fails.push(("the built-in signer signed an RRset that has no signed data".into(), String::new())),
    }
    for (what, recs) in [("", held.clone()), (" (records reversed)", held.iter().rev().cloned().collect::<Vec<_>>())] {
        if key.dnskey.verify_rrsig(&name, class, &rrsig, recs.iter()).is_err() {
            fails.push((format!("the built-in signer's RRSIG does not verify with the built-in verifier{what}"), String::new()));
        }
    }
    stats.push(format!("bs.rrset-size.{}", kept.len().min(6)));
    Some(Out { line, out: "~".into(), fails, stats, nontrivial: true })
}

/// `wr KEYIDX <case args>` — the RRSIG **through the wire** (implementation only): the harness writes the RRSIG (type 46)
/// and SIG (type 24) record octets itself from the case's fields, hickory reads them back with `Record::read`, and
/// everything downstream uses the DECODED value: every field must come back verbatim (RFC 4034 §3.1: the fields are
/// signed as they are on the wire — no decoder may "sanitise" an Original TTL, a Labels count, a time …),
/// `TBS::from_input` of the decoded input must equal the reference signed data built from the wire octets, hickory's own
/// encoding of the RRSIG must be those octets, and a signature made over the reference bytes (key KEYIDX, the case's ALG and
/// TAG replaced by the key's) must verify through `DNSKEY::verify_rrsig` with the decoded RRSIG.
fn exec_wire(t: &[&str]) -> Option<Out> {
    use hickory_proto::dnssec::rdata::DNSSECRData;
    use hickory_proto::serialize::binary::{BinDecodable, BinDecoder, BinEncodable, BinEncoder};
    let [_, ki, args @ ..] = t else { return None };
    let ki: usize = ki.parse().ok()?;
    let given = Case::parse(args)?;
    let key = sign_keys().get(ki % sign_keys().len())?;
    let line = format!("wr {ki} {}", given.args()?);
    let name = given.name.to_name()?;
    let class = DNSClass::from(given.cls);
    let records: Vec<Record> = given.recs.iter().map(|r| r.to_record()).collect::<Option<Vec<_>>>()?;
    let mut fails: Vec<(String, String)> = vec![];
    let mut stats = vec![];
    let mut signed = given.clone();
    signed.alg = u8::from(key.alg);
    signed.tag = key.tag;
    let signed_ref = signed.ref_signed_data();
    let real_sig = signed_ref.as_ref().and_then(|b| key.key.sign(&TBS::from(&b[..])).ok());
    for (what, c, sig) in [("as given", &given, vec![0xA5u8; 9]), ("signed", &signed, real_sig.clone().unwrap_or_else(|| vec![1, 2, 3]))] {
        // the RDATA octets, RFC 4034 §3.1 (signer's name as it is, not compressed)
        let mut rdata = vec![];
        rdata.extend(c.tc.to_be_bytes());
        rdata.push(c.alg);
        rdata.push(c.labels);
        rdata.extend(c.ottl.to_be_bytes());
        rdata.extend(c.exp.to_be_bytes());
        rdata.extend(c.inc.to_be_bytes());
        rdata.extend(c.tag.to_be_bytes());
        rdata.extend(wire(&c.signer.labels));
        rdata.extend_from_slice(&sig);
        if !c.signer.fqdn || !c.name.fqdn {
            continue;
        }
        for rtype in [46u16, 24] {
            let mut octets = wire(&c.name.labels);
            octets.extend(rtype.to_be_bytes());
            octets.extend(c.cls.to_be_bytes());
            octets.extend(c.ottl.to_be_bytes());
            octets.extend((rdata.len() as u16).to_be_bytes());
            octets.extend_from_slice(&rdata);
            let mut dec = BinDecoder::new(&octets);
            let back = match Record::read(&mut dec) {
                Ok(r) => r,
                Err(e) => {
                    // names of more than 255 octets and the like never get here (the case would not build)
                    fails.push((format!("Record::read rejects a well-formed type {rtype} record ({what}): {e}"), String::new()));
                    continue;
                }
            };
            let (inp, got_sig) = match &back.data {
                RData::DNSSEC(DNSSECRData::RRSIG(r)) => (r.input().clone(), r.sig().to_vec()),
                RData::DNSSEC(DNSSECRData::SIG(r)) => (r.input().clone(), r.sig().to_vec()),
                other => {
                    fails.push((format!("a type {rtype} record decodes as {}", other.record_type()), String::new()));
                    continue;
                }
            };
            let got = (u16::from(inp.type_covered), u8::from(inp.algorithm), inp.num_labels, inp.original_ttl, inp.sig_expiration.get(), inp.sig_inception.get(), inp.key_tag);
            let want = (c.tc, c.alg, c.labels, c.ottl, c.exp, c.inc, c.tag);
            let signer_same = c.signer.to_name().map(|n| n.eq_case(&inp.signer_name)).unwrap_or(false);
            if got != want || !signer_same || got_sig != sig || back.ttl != c.ottl {
                fails.push((
                    format!("the decoder altered an RRSIG field (type {rtype}, {what}): (type covered, algorithm, labels, original TTL, expiration, inception, key tag) on the wire {want:?}, decoded {got:?}; signer verbatim: {signer_same}; signature verbatim: {}; record TTL {} → {}", got_sig == sig, c.ottl, back.ttl),
                    String::new(),
                ));
            }
            // the signed data computed from the decoded value
            let tbs = TBS::from_input(&name, class, &inp, records.iter()).map(|t| t.as_ref().to_vec()).ok();
            let reference = c.ref_signed_data();
            let too_big = reference.as_ref().map(|b| b.len() > 65535).unwrap_or(false);
            if tbs != reference && !(too_big && tbs.is_none()) {
                fails.push((
                    format!(
                        "the signed data computed from the DECODED type {rtype} record differs from the RFC 4034 §3.1.8.1 data built from the wire octets ({what}; {} vs {})",
                        tbs.as_ref().map(|b| format!("{} octets", b.len())).unwrap_or("error".into()),
                        reference.as_ref().map(|b| format!("{} octets", b.len())).unwrap_or("must not be used".into())
                    ),
                    String::new(),
                ));
            }
            if rtype == 46 {
                // hickory's own encoding of the decoded RRSIG record is the same octets
                let mut out = Vec::new();
                let ok = {
                    let mut enc = BinEncoder::new(&mut out);
                    back.emit(&mut enc).is_ok()
                };
                if !ok || out != octets {
                    fails.push((format!("re-encoding the decoded RRSIG record does not give back its wire octets ({what})"), String::new()));
                }
                if what == "signed" {
                    if let RData::DNSSEC(DNSSECRData::RRSIG(r)) = &back.data {
                        let v = key.dnskey.verify_rrsig(&name, class, r, records.iter()).is_ok();
                        let should = real_sig.is_some() && !too_big;
                        stats.push(format!("wr.{}", if v { "verifies" } else if should { "REJECTED" } else { "not-usable" }));
                        if v != should {
                            fails.push((
                                if should { format!("a conforming signature ({:?}) is rejected when the RRSIG went through the wire", key.alg) } else { "an RRSIG that must not be used verifies after the wire".to_string() },
                                String::new(),
                            ));
                        }
                    }
                }
            }
        }
    }
    Some(Out { line, out: "~".into(), fails, stats, nontrivial: real_sig.is_some() })
}

/// a name of exactly `total` wire octets (63-octet labels, then the rest), letters in mixed case
pub fn name_of_wire_len(total: usize, seed: u8) -> N {
    let mut labels: Vec<Vec<u8>> = vec![];
    let mut left = total - 1; // the root octet
    let mut k = seed;
    while left > 0 {
        let l = (left - 1).min(63);
        if l == 0 {
            // one octet left cannot hold a label: lengthen the previous label instead (only when it is short enough)
            break;
        }
        labels.push((0..l).map(|i| { k = k.wrapping_mul(31).wrapping_add(7); let c = b'a' + (k.wrapping_add(i as u8) % 26); if k & 4 == 0 { c.to_ascii_uppercase() } else { c } }).collect());
        left -= l + 1;
    }
    let n = N { labels, fqdn: true };
    debug_assert_eq!(wire(&n.labels).len(), total - left);
    n
}

/// RRSIG field extremes and names at the 255-octet limit (directed, every run)
fn limit_cases() -> Vec<Case> {
    let mut v = vec![];
    let owner = nm("Www.Example.COM.");
    let base = |name: &N, tc: u16, rds: Vec<RD>| Case {
        name: name.clone(),
        cls: 1,
        tc,
        alg: 13,
        labels: name.labels.len() as u8 - if name.labels.first().map(|l| l == b"*").unwrap_or(false) { 1 } else { 0 },
        ottl: 3600,
        exp: 1_700_003_600,
        inc: 1_700_000_000,
        tag: 12345,
        signer: nm("Example.COM."),
        recs: rds.into_iter().map(|rd| Rec { name: name.clone(), rtype: tc, cls: 1, ttl: 300, rd }).collect(),
    };
    let a2 = || vec![RD::A(vec![192, 0, 2, 1]), RD::A(vec![192, 0, 2, 2])];
    let ext32 = [0u32, 1, 0x7FFF_FFFF, 0x8000_0000, 0x8000_0001, 0xFFFF_FFFF];
    // one field at an extreme
    for x in ext32 {
        let mut c = base(&owner, T_A, a2());
        c.ottl = x;
        v.push(c);
        let mut c = base(&owner, T_A, a2());
        c.exp = x;
        v.push(c);
        let mut c = base(&owner, T_A, a2());
        c.inc = x;
        v.push(c);
        // all three, and the records' own TTLs as well
        let mut c = base(&owner, T_A, a2());
        c.ottl = x;
        c.exp = x;
        c.inc = x ^ 0x8000_0000;
        for r in c.recs.iter_mut() {
            r.ttl = x;
        }
        v.push(c);
    }
    for l in [0u8, 1, 2, 3, 4, 127, 128, 255] {
        let mut c = base(&owner, T_A, a2());
        c.labels = l;
        v.push(c);
    }
    for tag in [0u16, 1, 0x7FFF, 0x8000, 0xFFFF] {
        let mut c = base(&owner, T_A, a2());
        c.tag = tag;
        v.push(c);
    }
    for alg in [0u8, 1, 5, 8, 13, 15, 16, 253, 255] {
        let mut c = base(&owner, T_A, a2());
        c.alg = alg;
        v.push(c);
    }
    // type covered: unknown / reserved / meta types, with records of exactly that type
    for tc in [0u16, 3, 41, 46, 99, 250, 255, 256, 32768, 65280, 65534, 65535] {
        v.push(base(&owner, tc, vec![RD::Op(vec![1, 2, 3]), RD::Op(vec![])]));
    }
    // signer: root, mixed case, 253 / 254 / 255 wire octets
    for signer in [N { labels: vec![], fqdn: true }, nm("COM."), nm("eXaMpLe.CoM."), name_of_wire_len(253, 1), name_of_wire_len(254, 2), name_of_wire_len(255, 3)] {
        let mut c = base(&owner, T_A, a2());
        c.signer = signer;
        v.push(c);
    }
    // names at the limit: owners (plain, wildcard, reduced Labels) and embedded RDATA names of 253, 254, 255 wire octets
    for total in [253usize, 254, 255] {
        let long = name_of_wire_len(total, total as u8);
        let mut c = base(&long, T_A, a2());
        c.signer = N { labels: long.labels[long.labels.len() - 1..].to_vec(), fqdn: true };
        v.push(c.clone());
        // the same owner, RRSIG of the wildcard one / two labels up
        for up in [1u8, 2] {
            let mut w = c.clone();
            w.labels = c.labels.saturating_sub(up);
            v.push(w);
        }
        // a wildcard owner of that length
        let mut wl = name_of_wire_len(total - 2, (total as u8).wrapping_add(9));
        wl.labels.insert(0, b"*".to_vec());
        v.push(base(&wl, T_A, a2()));
        let mut w = base(&wl, T_TXT, vec![RD::Txt(vec![b"x".to_vec()])]);
        w.labels = w.labels.saturating_sub(1);
        v.push(w);
        // owner and signer both at the limit (the signer is the owner)
        let mut c2 = base(&long, T_NS, vec![RD::Ns(long.clone()), RD::Ns(name_of_wire_len(total, 77))]);
        c2.signer = long.clone();
        v.push(c2);
        let other = name_of_wire_len(total, 41);
        v.push(base(&owner, T_NS, vec![RD::Ns(long.clone()), RD::Ns(other.clone())]));
        v.push(base(&owner, T_CNAME, vec![RD::Cname(long.clone())]));
        v.push(base(&owner, T_PTR, vec![RD::Ptr(long.clone()), RD::Ptr(nm("short.example."))]));
        v.push(base(&owner, T_MX, vec![RD::Mx(10, long.clone()), RD::Mx(10, other.clone()), RD::Mx(5, nm("mx.example."))]));
        v.push(base(&owner, T_SOA, vec![RD::Soa(long.clone(), other.clone(), 1, 2, 3, 4, 5)]));
        v.push(base(&owner, T_SOA, vec![RD::Soa(nm("ns.example."), long.clone(), 1, 2, 3, 4, 5)]));
        v.push(base(&owner, T_SRV, vec![RD::Srv(1, 2, 443, long.clone()), RD::Srv(1, 2, 443, other.clone())]));
        v.push(base(&long, T_SRV, vec![RD::Srv(0, 0, 53, long.clone())]));
    }
    v
}

/// `bk ALG PUBKEYHEX` — malformed public keys of the supported algorithms (implementation only): decoding and
/// verification return an error, never accept, never panic
fn exec_bad_key(t: &[&str]) -> Option<Out> {
    let [_, alg, pk] = t else { return None };
    let alg: u8 = alg.parse().ok()?;
    let pk = unhex(pk)?;
    let a = Algorithm::from_u8(alg);
    if !a.is_supported() {
        return None;
    }
    let dnskey = DNSKEY::with_flags(257, hickory_proto::dnssec::PublicKeyBuf::new(pk.clone(), a));
    let mut fails = vec![];
    let mut accepted = false;
    for sig_len in [0usize, 1, 32, 64, 96, 128, 256] {
        let sig: Vec<u8> = (0..sig_len).map(|i| (i * 7 + alg as usize) as u8).collect();
        if dnskey.verify(b"signed data", &sig).is_ok() {
            accepted = true;
        }
    }
    if accepted {
        fails.push((format!("a made-up signature verifies under the public key {} (algorithm {alg})", hex(&pk)), String::new()));
    }
    let _ = dnskey.calculate_key_tag();
    Some(Out { line: format!("bk {alg} {}", hex(&pk)), out: "~".into(), fails, stats: vec![format!("bk.alg{alg}.refused")], nontrivial: false })
}

const RSA_PKCS1_PEM: &str = include_str!("/repo/crates/proto/tests/test-data/rsa-2048-pkcs1.pem");
const RSA_PK8_2: &[u8] = include_bytes!("/repo/crates/proto/tests/test-data/rsa-2048-private-key-2.pk8");

fn pem_to_der(pem: &str) -> Vec<u8> {
    let b64: String = pem.lines().filter(|l| !l.starts_with("-----")).collect();
    let mut out = vec![];
    let (mut acc, mut bits) = (0u32, 0);
    for c in b64.bytes() {
        let v = match c {
            b'A'..=b'Z' => c - b'A',
            b'a'..=b'z' => c - b'a' + 26,
            b'0'..=b'9' => c - b'0' + 52,
            b'+' => 62,
            b'/' => 63,
            _ => continue,
        } as u32;
        acc = (acc << 6) | v;
        bits += 6;
        if bits >= 8 {
            bits -= 8;
            out.push((acc >> bits) as u8);
            acc &= (1 << bits) - 1;
        }
    }
    out
}

/// `kl` — the key-loading entry points (implementation only): every loader yields the same public key for the same
/// private key; a key of one algorithm does not load as another; garbage is an error, not a panic
fn exec_key_loading() -> Option<Out> {
    use hickory_proto::dnssec::crypto::signing_key_from_der;
    use rustls_pki_types::{PrivateKeyDer, PrivatePkcs1KeyDer};
    let mut fails: Vec<(String, String)> = vec![];
    let mut stats = vec![];
    let pubkey = |k: &dyn SigningKey| k.to_public_key().ok().map(|p| p.into_inner());
    for k in sign_keys() {
        let want = pubkey(&*k.key);
        let der = PrivateKeyDer::Pkcs8(PrivatePkcs8KeyDer::from(k.pkcs8.clone()));
        let generic = signing_key_from_der(&der, k.alg);
        match &generic {
            Ok(g) => {
                if pubkey(&**g) != want || g.algorithm() != k.alg {
                    fails.push((format!("signing_key_from_der yields another key / algorithm than from_pkcs8 ({:?})", k.alg), String::new()));
                }
                // both loaders' keys sign, both signatures verify under the DNSKEY
                for key in [&*k.key, &**g] {
                    let sig = key.sign(&TBS::from(&b"hickory verification"[..]));
                    if !sig.map(|s| k.dnskey.verify(b"hickory verification", &s).is_ok()).unwrap_or(false) {
                        fails.push((format!("a loaded {:?} key does not produce a verifying signature", k.alg), String::new()));
                    }
                }
            }
            Err(_) => fails.push((format!("signing_key_from_der rejects the {:?} key that from_pkcs8 loads", k.alg), String::new())),
        }
        let specific = match k.alg {
            Algorithm::ED25519 => Ed25519SigningKey::from_key_der(&der).map(|x| pubkey(&x)),
            Algorithm::ECDSAP256SHA256 | Algorithm::ECDSAP384SHA384 => EcdsaSigningKey::from_key_der(&der, k.alg).map(|x| pubkey(&x)),
            _ => RsaSigningKey::from_key_der(&der, k.alg).map(|x| pubkey(&x)),
        };
        if specific.ok() != Some(want.clone()) {
            fails.push((format!("from_key_der yields another key than from_pkcs8 ({:?})", k.alg), String::new()));
        }
        // the same DER under every other algorithm: an error, or (RSA 256/512 share keys) the same key
        for other in [Algorithm::ED25519, Algorithm::ECDSAP256SHA256, Algorithm::ECDSAP384SHA384, Algorithm::RSASHA256, Algorithm::RSASHA512, Algorithm::from_u8(5), Algorithm::from_u8(7), Algorithm::from_u8(1), Algorithm::from_u8(253)] {
            if other == k.alg {
                continue;
            }
            let r = signing_key_from_der(&der, other);
            let both_rsa = matches!(k.alg, Algorithm::RSASHA256 | Algorithm::RSASHA512) && matches!(other, Algorithm::RSASHA256 | Algorithm::RSASHA512);
            stats.push(format!("kl.cross.{}", if r.is_ok() { "loaded" } else { "refused" }));
            if r.is_ok() && !both_rsa {
                fails.push((format!("a {:?} private key loads as {:?}", k.alg, other), String::new()));
            }
        }
    }
    // PKCS#1 RSA key: from_pkcs1, from_key_der(Pkcs1), signing_key_from_der(Pkcs1)
    let p1 = pem_to_der(RSA_PKCS1_PEM);
    for alg in [Algorithm::RSASHA256, Algorithm::RSASHA512] {
        let a = RsaSigningKey::from_pkcs1(&PrivatePkcs1KeyDer::from(p1.clone()), alg).ok().and_then(|k| pubkey(&k));
        let b2 = RsaSigningKey::from_key_der(&PrivateKeyDer::Pkcs1(PrivatePkcs1KeyDer::from(p1.clone())), alg).ok().and_then(|k| pubkey(&k));
        let c = signing_key_from_der(&PrivateKeyDer::Pkcs1(PrivatePkcs1KeyDer::from(p1.clone())), alg).ok().and_then(|k| pubkey(&*k));
        stats.push(format!("kl.pkcs1.{}", if a.is_some() { "loaded" } else { "refused" }));
        if a.is_none() || a != b2 || a != c {
            fails.push((format!("the PKCS#1 RSA test key does not load the same way through from_pkcs1 / from_key_der / signing_key_from_der ({alg:?})"), String::new()));
        }
        if let Ok(k) = RsaSigningKey::from_pkcs1(&PrivatePkcs1KeyDer::from(p1.clone()), alg) {
            let dnskey = DNSKEY::from_key(&k.to_public_key().ok()?);
            let sig = k.sign(&TBS::from(&b"pkcs1"[..])).ok()?;
            if dnskey.verify(b"pkcs1", &sig).is_err() {
                fails.push(("signature of the PKCS#1-loaded RSA key does not verify".into(), String::new()));
            }
        }
        if RsaSigningKey::from_pkcs1(&PrivatePkcs1KeyDer::from(p1.clone()), Algorithm::from_u8(5)).is_ok() {
            fails.push(("from_pkcs1 accepts RSASHA1 for signing".into(), String::new()));
        }
    }
    // the type-specific loaders refuse other algorithms and other DER containers (SEC1) with an error
    {
        use rustls_pki_types::PrivateSec1KeyDer;
        let ks = sign_keys();
        let pk8 = |a: Algorithm| ks.iter().find(|k| k.alg == a).map(|k| k.pkcs8.clone()).unwrap_or_default();
        let sec1 = || PrivateKeyDer::Sec1(PrivateSec1KeyDer::from(vec![0x30u8, 0x03, 0x02, 0x01, 0x01]));
        let mut wrongly_ok: Vec<&str> = vec![];
        for a in [Algorithm::RSASHA256, Algorithm::ED25519, Algorithm::from_u8(5), Algorithm::from_u8(253)] {
            if EcdsaSigningKey::from_pkcs8(&PrivatePkcs8KeyDer::from(pk8(Algorithm::ECDSAP256SHA256)), a).is_ok() {
                wrongly_ok.push("EcdsaSigningKey::from_pkcs8 with a non-ECDSA algorithm");
            }
            if EcdsaSigningKey::generate_pkcs8(a).is_ok() {
                wrongly_ok.push("EcdsaSigningKey::generate_pkcs8 with a non-ECDSA algorithm");
            }
        }
        for a in [Algorithm::ED25519, Algorithm::ECDSAP256SHA256, Algorithm::from_u8(5), Algorithm::from_u8(7), Algorithm::from_u8(253)] {
            if RsaSigningKey::from_pkcs8(&PrivatePkcs8KeyDer::from(RSA_PK8), a).is_ok() {
                wrongly_ok.push("RsaSigningKey::from_pkcs8 with an algorithm it must not sign with");
            }
            if RsaSigningKey::from_pkcs1(&PrivatePkcs1KeyDer::from(p1.clone()), a).is_ok() {
                wrongly_ok.push("RsaSigningKey::from_pkcs1 with an algorithm it must not sign with");
            }
        }
        if EcdsaSigningKey::from_key_der(&sec1(), Algorithm::ECDSAP256SHA256).is_ok() {
            wrongly_ok.push("EcdsaSigningKey::from_key_der(SEC1)");
        }
        if Ed25519SigningKey::from_key_der(&sec1()).is_ok() {
            wrongly_ok.push("Ed25519SigningKey::from_key_der(SEC1)");
        }
        if RsaSigningKey::from_key_der(&sec1(), Algorithm::RSASHA256).is_ok() {
            wrongly_ok.push("RsaSigningKey::from_key_der(SEC1)");
        }
        for a in [Algorithm::ED25519, Algorithm::ECDSAP256SHA256, Algorithm::RSASHA256] {
            if signing_key_from_der(&sec1(), a).is_ok() {
                wrongly_ok.push("signing_key_from_der(SEC1)");
            }
        }
        // freshly generated keys load and sign
        for a in [Algorithm::ECDSAP256SHA256, Algorithm::ECDSAP384SHA384] {
            let ok = EcdsaSigningKey::generate_pkcs8(a).ok().and_then(|d| EcdsaSigningKey::from_pkcs8(&d, a).ok()).and_then(|k| {
                let dnskey = DNSKEY::from_key(&k.to_public_key().ok()?);
                let sig = k.sign(&TBS::from(&b"generated"[..])).ok()?;
                dnskey.verify(b"generated", &sig).ok()
            });
            if ok.is_none() {
                fails.push((format!("a freshly generated {a:?} key does not load / sign / verify"), String::new()));
            }
        }
        let ok = Ed25519SigningKey::generate_pkcs8().ok().and_then(|d| Ed25519SigningKey::from_pkcs8(&d).ok()).and_then(|k| {
            let dnskey = DNSKEY::from_key(&k.to_public_key().ok()?);
            let sig = k.sign(&TBS::from(&b"generated"[..])).ok()?;
            dnskey.verify(b"generated", &sig).ok()
        });
        if ok.is_none() {
            fails.push(("a freshly generated ED25519 key does not load / sign / verify".into(), String::new()));
        }
        stats.push(format!("kl.refusals.{}", if wrongly_ok.is_empty() { "all-refused" } else { "ACCEPTED" }));
        for w in wrongly_ok {
            fails.push((format!("{w} is accepted"), String::new()));
        }
    }
    let k2 = RsaSigningKey::from_pkcs8(&PrivatePkcs8KeyDer::from(RSA_PK8_2), Algorithm::RSASHA256);
    stats.push(format!("kl.second-rsa-key.{}", if k2.is_ok() { "loaded" } else { "refused" }));
    // garbage and truncated DER: errors
    for der in [vec![], vec![0x30, 0x00], RSA_PK8[..100].to_vec(), vec![0xffu8; 64]] {
        for alg in [Algorithm::ED25519, Algorithm::ECDSAP256SHA256, Algorithm::RSASHA256] {
            if signing_key_from_der(&PrivateKeyDer::Pkcs8(PrivatePkcs8KeyDer::from(der.clone())), alg).is_ok() {
                fails.push((format!("garbage DER of {} bytes loads as a {alg:?} key", der.len()), String::new()));
            }
        }
    }
    Some(Out { line: "kl".into(), out: "~".into(), fails, stats, nontrivial: true })
}

pub fn exec(line: &str, rec: &mut Recorder) {
    let t: Vec<&str> = line.split_whitespace().collect();
    if t.is_empty() {
        return;
    }
    let r = catch(|| exec_inner(&t));
    match r {
        Ok(Some(o)) => {
            if o.out == "~" {
                rec.impl_only += 1;
            }
            let idx = rec.case(o.line, o.out);
            rec.stat(&format!("op.{}", t[0]));
            for s in o.stats {
                rec.stat(&s);
            }
            if o.nontrivial {
                rec.nontrivial(idx);
            }
            for (what, class) in o.fails {
                rec.fail(idx, what, &class);
            }
        }
        Ok(None) => rec.stat("skipped.unparsable-case"),
        Err(p) => {
            let idx = rec.case(line.to_string(), format!("panic {p}"));
            rec.fail(idx, format!("panic: {p}"), "");
        }
    }
}

struct Out {
    line: String,
    out: String,
    fails: Vec<(String, String)>,
    stats: Vec<String>,
    nontrivial: bool,
}

fn kind_name(c: &Case) -> String {
    match c.tc {
        T_A => "A".into(),
        T_AAAA => "AAAA".into(),
        T_NS => "NS".into(),
        T_CNAME => "CNAME".into(),
        T_PTR => "PTR".into(),
        T_MX => "MX".into(),
        T_SOA => "SOA".into(),
        T_SRV => "SRV".into(),
        T_TXT => "TXT".into(),
        t => format!("opaque-{t}"),
    }
}

fn exec_inner(t: &[&str]) -> Option<Out> {
    if t[0] == "rdata" {
        let [_, ty, rd] = t else { return None };
        let ty: u16 = ty.parse().ok()?;
        let rd = RD::parse(rd)?;
        let real = rd.to_rdata(ty)?;
        let (k, c) = (real_key(&real), real_canon(&real));
        let mut fails = vec![];
        if c != rd.ref_canon() {
            fails.push((
                format!("canonical RDATA (canonical_form emit) differs from RFC 4034 §6.2: got {:?}", c.as_ref().map(|c| hex(c))),
                String::new(),
            ));
        }
        return Some(Out {
            line: format!("rdata {ty} {}", rd.tok(ty)?),
            out: format!("{} {}", hex(&k), c.as_ref().map(|c| hex(c)).unwrap_or("none".into())),
            fails,
            stats: vec![],
            nontrivial: c.as_ref() != Some(&k),
        });
    }
    if t[0] == "xv" {
        return exec_external_vector(t);
    }
    if t[0] == "kl" {
        return exec_key_loading();
    }
    if t[0] == "wr" {
        return exec_wire(t);
    }
    if t[0] == "bs" {
        return exec_builtin_signer(t);
    }
    if t[0] == "bk" {
        return exec_bad_key(t);
    }
    if !["tbs", "spec", "class", "sv"].contains(&t[0]) {
        return None;
    }
    let c = Case::parse(&t[1..])?;
    let line = format!("{} {}", t[0], c.args()?); // normalised (opaque key/canon recomputed)
    let name = c.name.to_name()?;
    let input = c.input()?;
    let class = DNSClass::from(c.cls);
    let records: Vec<Record> = c.recs.iter().map(|r| r.to_record()).collect::<Option<Vec<_>>>()?;
    let rrset = c.rrset();
    // sort keys of the collected records, by the real code
    let keys: Vec<Vec<u8>> = rrset.iter().map(|r| real_key(&r.rd.to_rdata(r.rtype).unwrap())).collect();
    let dev = c.classes(&keys);
    let expected = c.ref_signed_data();
    let big = expected.as_ref().map(|e| e.len() > 65535).unwrap_or(false);
    let mut fails: Vec<(String, String)> = vec![];
    let mut stats = vec![];
    match t[0] {
        "spec" => Some(Out {
            line,
            out: match &expected {
                Some(b) => format!("some {}", hex(b)),
                None => "none".into(),
            },
            fails,
            stats,
            nontrivial: false,
        }),
        "class" => Some(Out {
            line,
            out: format!("{} {} {}", b(dev.0), b(dev.1), b(dev.2)),
            fails,
            stats,
            nontrivial: false,
        }),
        "tbs" => {
            let got = TBS::from_input(&name, class, &input, records.iter()).map(|t| t.as_ref().to_vec());
            stats.push(format!("type.{}", kind_name(&c)));
            stats.push(format!("rrset.size.{}", rrset.len().min(7)));
            stats.push(format!("noise.records.{}", (c.recs.len() - rrset.len()).min(3)));
            stats.push(format!(
                "labels.{}",
                match (c.labels as usize).cmp(&c.owner_label_count()) {
                    std::cmp::Ordering::Less => "lt",
                    std::cmp::Ordering::Equal => "eq",
                    std::cmp::Ordering::Greater => "gt",
                }
            ));
            if c.name.labels.first().map(|l| l == b"*").unwrap_or(false) {
                stats.push("owner.wildcard".into());
            }
            if !c.name.is_lower() || rrset.iter().any(|r| !r.name.is_lower()) {
                stats.push("owner.mixed-case".into());
            }
            stats.push(format!("hyp.dup={} ttl={} case={}", b(dev.0), b(dev.1), b(dev.2)));
            stats.push(format!("result.{}", if got.is_ok() { "ok" } else { "err" }));
            // RData::cmp is the order of the to_bytes() keys
            for i in 0..rrset.len() {
                for j in 0..rrset.len() {
                    let (a, bb) = (rrset[i].rd.to_rdata(rrset[i].rtype).unwrap(), rrset[j].rd.to_rdata(rrset[j].rtype).unwrap());
                    if a.cmp(&bb) != keys[i].cmp(&keys[j]) {
                        fails.push(("RData::cmp is not the order of the default-encoder bytes".into(), String::new()));
                    }
                }
            }
            if big {
                stats.push("expected.over-64KiB (no expectation)".into());
            } else {
                match (&got, &expected) {
                    (Ok(g), Some(e)) if g == e => {}
                    (Err(_), None) => {}
                    (Ok(g), Some(e)) => {
                        let cl = if is_reordering(&c, g) { class_of(dev) } else { "" };
                        stats.push(format!("deviation.{}", if cl.is_empty() { "other" } else { cl }));
                        fails.push((
                            format!(
                                "TBS::from_input differs from the RFC 4035 §5.3.2 signed data ({} vs {} bytes; looks like regression {}; dup={} ttl-differs={} rdata-key-noncanonical={})",
                                g.len(),
                                e.len(),
                                if cl.is_empty() { "none of the repaired ones" } else { cl },
                                dev.0,
                                dev.1,
                                dev.2
                            ),
                            String::new(),
                        ));
                    }
                    (Ok(_), None) => fails.push(("TBS::from_input accepted an RRSIG whose Labels field exceeds the owner's label count / RDATA without wire form".into(), String::new())),
                    (Err(_), Some(_)) => fails.push(("TBS::from_input failed on a well-formed RRset".into(), String::new())),
                }
            }
            let nontrivial = got.is_ok() && rrset.len() >= 2;
            Some(Out { line, out: res_tok(&got, |g| hex(g)), fails, stats, nontrivial })
        }
        _ => {
            // sv: every supported algorithm
            let mut nontrivial = false;
            if !big {
                for k in sign_keys() {
                    let mut ck = c.clone();
                    ck.alg = u8::from(k.alg);
                    ck.tag = k.tag;
                    let inp = ck.input()?;
                    let expected = ck.ref_signed_data();
                    let got = TBS::from_input(&name, class, &inp, records.iter());
                    // conforming third-party signer: signs the reference bytes
                    if let Some(e) = &expected {
                        let sig = k.key.sign(&TBS::from(&e[..])).expect("sign");
                        let rrsig = RRSIG::from_sig(inp.clone(), sig);
                        let v = k.dnskey.verify_rrsig(&name, class, &rrsig, records.iter());
                        stats.push(format!("sv.third-party.{:?}.{}", k.alg, if v.is_ok() { "verified" } else { "rejected" }));
                        if v.is_err() {
                            let same = got.as_ref().map(|g| g.as_ref() == &e[..]).unwrap_or(false);
                            let cl = match &got {
                                Ok(g) if !same && is_reordering(&ck, g.as_ref()) => class_of(dev),
                                _ => "",
                            };
                            fails.push((
                                format!("RRset signed by a conforming signer ({:?}) does not verify with DNSKEY::verify_rrsig (looks like regression {}; dup={} ttl-differs={} rdata-key-noncanonical={})", k.alg, if cl.is_empty() { "none of the repaired ones" } else { cl }, dev.0, dev.1, dev.2),
                                String::new(),
                            ));
                        } else {
                            nontrivial = true;
                        }
                    } else {
                        let rrsig = RRSIG::from_sig(inp.clone(), vec![0u8; 64]);
                        if k.dnskey.verify_rrsig(&name, class, &rrsig, records.iter()).is_ok() {
                            fails.push(("verify_rrsig accepted an RRSIG that must not be used".into(), String::new()));
                        }
                    }
                    // built-in signer → built-in verifier, records presented in another order
                    if let Ok(tbs) = &got {
                        let sig = k.key.sign(tbs).expect("sign");
                        let rrsig = RRSIG::from_sig(inp.clone(), sig);
                        let v1 = k.dnskey.verify_rrsig(&name, class, &rrsig, records.iter());
                        let v2 = k.dnskey.verify_rrsig(&name, class, &rrsig, records.iter().rev());
                        stats.push(format!("sv.built-in.{:?}.{}", k.alg, if v1.is_ok() && v2.is_ok() { "verified" } else { "rejected" }));
                        if v1.is_err() {
                            fails.push((format!("built-in signature ({:?}) does not verify with the built-in verifier", k.alg), String::new()));
                        }
                        if v2.is_err() {
                            fails.push((format!("built-in signature ({:?}) does not verify when the records are presented in reverse order", k.alg), String::new()));
                        }
                    }
                }
            }
            Some(Out { line, out: "~".into(), fails, stats, nontrivial })
        }
    }
}

/// `xv EXPECT KEY SIGNATURE SIGNEDDATA <case args>` — an external vector (tools/gen_rsa_vectors.py: keys and
/// signatures by openssl, signed data by the Lean specification).  Implementation only.
/// EXPECT = OK: `DNSKEY::verify_rrsig` must accept it, and must reject it with one bit of the signature
/// or of the RRset flipped; the signed data must equal both `TBS::from_input` and the Rust reference.
/// EXPECT = ANY: recorded, nothing demanded about the genuine vector (non-canonical key encodings).
fn exec_external_vector(t: &[&str]) -> Option<Out> {
    let [_, expect, key, sig, tbs, args @ ..] = t else { return None };
    let kf: Vec<&str> = key.split(';').collect();
    let [_owner, flags, alg, pk] = kf.as_slice() else { return None };
    let (flags, alg): (u16, u8) = (flags.parse().ok()?, alg.parse().ok()?);
    let pk = unhex(pk)?;
    let sig = unhex(sig)?;
    let tbs = unhex(tbs)?;
    let c = Case::parse(args)?;
    let name = c.name.to_name()?;
    let input = c.input()?;
    let class = DNSClass::from(c.cls);
    let records: Vec<Record> = c.recs.iter().map(|r| r.to_record()).collect::<Option<Vec<_>>>()?;
    let dnskey = DNSKEY::with_flags(flags, hickory_proto::dnssec::PublicKeyBuf::new(pk.clone(), Algorithm::from_u8(alg)));
    let line = format!("xv {expect} {key} {} {} {}", hex(&sig), hex(&tbs), c.args()?);
    let mut fails: Vec<(String, String)> = vec![];
    let mut stats = vec![];
    let bits = match alg {
        5 | 7 | 8 | 10 => {
            // RFC 3110: exponent length, exponent, modulus
            let (l, off) = if pk.first() == Some(&0) && pk.len() >= 3 { (((pk[1] as usize) << 8) | pk[2] as usize, 3) } else { (*pk.first()? as usize, 1) };
            format!("rsa-{}", (pk.len().saturating_sub(off + l)) * 8)
        }
        13 => "p256".into(),
        14 => "p384".into(),
        _ => "ed25519".into(),
    };
    // the three computations of the signed data agree
    let real = TBS::from_input(&name, class, &input, records.iter()).map(|x| x.as_ref().to_vec());
    if real.as_ref().ok() != Some(&tbs) {
        fails.push(("TBS::from_input differs from the signed data of the external vector (Lean Spec.signedData)".into(), String::new()));
    }
    if c.ref_signed_data().as_ref() != Some(&tbs) {
        fails.push(("the Rust reference encoder differs from the signed data of the external vector (Lean Spec.signedData)".into(), String::new()));
    }
    let verify = |sig: &[u8], recs: &[Record]| dnskey.verify_rrsig(&name, class, &RRSIG::from_sig(input.clone(), sig.to_vec()), recs.iter()).is_ok();
    let genuine = verify(&sig, &records);
    stats.push(format!("xv.{}.alg{alg}.{}", bits, if genuine { "verified" } else { "rejected" }));
    if *expect == "OK" && !genuine {
        fails.push((format!("a genuine third-party (openssl) signature does not verify: algorithm {alg}, key {bits}"), String::new()));
    }
    // one flipped bit in the signature / in the RRset: never accepted (positions derived from the vector)
    let seed = sig.iter().fold(0u64, |a, b| a.wrapping_mul(131).wrapping_add(*b as u64));
    for j in 0..6u64 {
        let mut s2 = sig.clone();
        if s2.is_empty() {
            break;
        }
        let pos = ((seed >> (j * 7)) as usize + j as usize * 37) % (s2.len() * 8);
        s2[pos / 8] ^= 1 << (pos % 8);
        if verify(&s2, &records) {
            fails.push((format!("signature with bit {pos} flipped still verifies (algorithm {alg}, key {bits})"), String::new()));
        }
    }
    if let Some(first) = c.recs.first() {
        let mut c2 = c.clone();
        match &mut c2.recs[0].rd {
            RD::A(o) => o[3] ^= 1,
            RD::Ns(n) => {
                if let Some(l) = n.labels.first_mut() {
                    l[0] ^= 1;
                }
            }
            RD::Txt(ss) => {
                if let Some(x) = ss.first_mut().and_then(|x| x.first_mut()) {
                    *x ^= 1;
                }
            }
            _ => c2.ottl ^= 1,
        }
        let _ = first;
        if let Some(recs2) = c2.recs.iter().map(|r| r.to_record()).collect::<Option<Vec<_>>>() {
            if verify(&sig, &recs2) {
                fails.push((format!("RRset with one bit of a record flipped still verifies (algorithm {alg}, key {bits})"), String::new()));
            }
        }
        let mut inp2 = input.clone();
        inp2.original_ttl ^= 1;
        if dnskey.verify_rrsig(&name, class, &RRSIG::from_sig(inp2, sig.clone()), records.iter()).is_ok() {
            fails.push((format!("RRSIG with one bit of the original TTL flipped still verifies (algorithm {alg}, key {bits})"), String::new()));
        }
    }
    Some(Out { line, out: "~".into(), fails, stats, nontrivial: genuine })
}

// ------------------------------------------------------------------ generator

const WORDS: &[&str] = &["example", "Example", "EXAMPLE", "com", "COM", "net", "Net", "ns", "NS", "ns1", "mail", "Mail", "a", "A", "b", "z", "Z", "www", "_tcp", "x-y", "0", "host"];

fn gen_label(r: &mut Rng) -> Vec<u8> {
    match r.below(12) {
        0 => {
            let n = r.range(1, 5) as usize;
            r.bytes(n)
        }
        1 => vec![*r.pick(&[b'A', b'Z', b'a', b'z', b'@', b'[', b'`', b'{', 0, 255])],
        _ => r.pick(WORDS).as_bytes().to_vec(),
    }
}

pub fn gen_n(r: &mut Rng) -> N {
    let n = match r.below(10) {
        0 => 0,
        1 | 2 => 1,
        3..=6 => 2,
        7 | 8 => 3,
        _ => r.range(4, 6),
    };
    N { labels: (0..n).map(|_| gen_label(r)).collect(), fqdn: !r.chance(1, 25) }
}

pub fn flip_case(r: &mut Rng, n: &N, p: u64) -> N {
    N {
        labels: n
            .labels
            .iter()
            .map(|l| l.iter().map(|b| if b.is_ascii_alphabetic() && r.chance(p, 100) { b ^ 0x20 } else { *b }).collect())
            .collect(),
        fqdn: n.fqdn,
    }
}

pub fn lower_n(n: &N) -> N {
    N { labels: n.lower_labels(), fqdn: n.fqdn }
}

/// a pool of RDATA names with shared suffixes (SOA compression) and case variants
pub fn name_pool(r: &mut Rng) -> Vec<N> {
    let base = gen_n(r);
    let mut v = vec![base.clone()];
    for _ in 0..4 {
        let mut n = base.clone();
        match r.below(4) {
            0 => n.labels.insert(0, gen_label(r)),
            1 => {
                if !n.labels.is_empty() {
                    let i = r.below(n.labels.len() as u64) as usize;
                    n.labels[i] = gen_label(r);
                }
            }
            2 => n = flip_case(r, &n, 50),
            _ => n = gen_n(r),
        }
        n.fqdn = true;
        v.push(n);
    }
    v
}

const OPAQUE_TYPES: &[u16] = &[48, 43, 52, 65280, 10, 13, 47, 61, 44, 99, 64, 65, 65305, 35, 46, 64, 65];

/// Opaque types that embed a domain name: SVCB (64), HTTPS (65), ANAME (65305), NSEC (47) keep its
/// letter case in canonical form; NAPTR (35) and RRSIG (46) are on the RFC 4034 §6.2 list (lower-cased).
pub const NAME_BEARING_OPAQUE: &[u16] = &[64, 65, 65305, 47, 35, 46];

/// an embedded name in mixed case (never all lower case unless it has no letters)
fn mixed_name(r: &mut Rng) -> N {
    let mut n = gen_n(r);
    n.fqdn = true;
    if n.labels.is_empty() && r.chance(3, 4) {
        n.labels.push(b"Target".to_vec());
    }
    let mut m = flip_case(r, &n, 50);
    if m.is_lower() {
        m = N { labels: m.labels.iter().map(|l| l.to_ascii_uppercase()).collect(), fqdn: true };
    }
    m
}

/// RDATA of an opaque type with an embedded mixed-case name
pub fn gen_named_opaque(r: &mut Rng, ty: u16, lower: bool) -> RD {
    // `lower`: the embedded name all lower case (so that a later case change is the only difference)
    let n = if lower { lower_n(&mixed_name(r)) } else { mixed_name(r) };
    let w = wire(&n.labels);
    match ty {
        64 | 65 => {
            // SvcPriority, TargetName, SvcParams (ascending keys)
            let prio = *r.pick(&[0u16, 1, 16]);
            let mut o = prio.to_be_bytes().to_vec();
            o.extend(&w);
            if prio != 0 {
                if r.chance(1, 2) {
                    o.extend([0u8, 1, 0, 3, 2, b'h', b'2']); // alpn=h2
                }
                if r.chance(1, 2) {
                    o.extend([0u8, 3, 0, 2, 0x01, 0xbb]); // port=443
                }
            }
            RD::Op(o)
        }
        65305 => RD::Op(w),
        47 => {
            let mut o = w;
            o.extend([0u8, 1, 0x40]);
            RD::Op(o)
        }
        35 => {
            // order, preference, flags, services, regexp, replacement
            let mut o = vec![0u8, r.below(3) as u8, 0, r.below(3) as u8];
            for s in [&b"U"[..], b"E2U+sip", b""] {
                o.push(s.len() as u8);
                o.extend_from_slice(s);
            }
            let st = o.len();
            o.extend(&w);
            RD::OpL(o, st, w.len())
        }
        _ => {
            // RRSIG as a member of an RRset: type covered … key tag, signer, signature
            let mut o = vec![0u8, 1, 13, 2, 0, 0, 14, 16];
            o.extend(1_700_003_600u32.to_be_bytes());
            o.extend(1_700_000_000u32.to_be_bytes());
            o.extend((r.next() as u16).to_be_bytes());
            let st = o.len();
            o.extend(&w);
            let n = r.range(4, 16) as usize;
            o.extend(r.bytes(n));
            RD::OpL(o, st, w.len())
        }
    }
}

fn gen_opaque_raw(r: &mut Rng, ty: u16) -> Vec<u8> {
    match ty {
        48 => {
            // DNSKEY: flags, protocol 3, algorithm, key
            let mut o = vec![*r.pick(&[0u8, 1]), *r.pick(&[0u8, 1, 0x80, 0x81]), 3, *r.pick(&[8u8, 13, 15])];
            let n = r.range(4, 40) as usize;
            o.extend(r.bytes(n));
            o
        }
        43 => {
            let mut o = r.bytes(2);
            o.extend([*r.pick(&[8u8, 13]), *r.pick(&[1u8, 2])]);
            o.extend(r.bytes(32));
            o
        }
        52 => {
            let mut o = vec![r.below(4) as u8, r.below(2) as u8, r.below(3) as u8];
            let n = r.range(1, 32) as usize;
            o.extend(r.bytes(n));
            o
        }
        13 => {
            let mut o = vec![];
            for _ in 0..2 {
                let s = r.pick(WORDS).as_bytes();
                o.push(s.len() as u8);
                o.extend_from_slice(s);
            }
            o
        }
        47 => {
            // NSEC: next name (case preserved, RFC 6840 §5.1), type bitmap window 0
            let mut n = gen_n(r);
            n.fqdn = true;
            let mut o = wire(&n.labels);
            let len = r.range(1, 6) as usize;
            let mut bm = r.bytes(len);
            if bm[len - 1] == 0 {
                bm[len - 1] = 0x40;
            }
            o.extend([0u8, len as u8]);
            o.extend(bm);
            o
        }
        44 => {
            let mut o = vec![r.below(5) as u8, r.below(3) as u8];
            let n = r.range(1, 32) as usize;
            o.extend(r.bytes(n));
            o
        }
        _ => {
            let n = *r.pick(&[0usize, 1, 2, 5, 17, 40]);
            let small = r.chance(1, 2);
            (0..n).map(|_| if small { *r.pick(&[0u8, 1, 0x41, 0x61, 0xff]) } else { r.byte() }).collect()
        }
    }
}

pub fn gen_rd(r: &mut Rng, tc: u16, pool: &[N], clean: bool) -> RD {
    let mut nm = |r: &mut Rng| {
        let n = r.pick(pool).clone();
        if clean { lower_n(&n) } else if r.chance(1, 2) { flip_case(r, &n, 40) } else { n }
    };
    let small = |r: &mut Rng| r.below(3) as u16 * if r.chance(1, 4) { 256 } else { 1 };
    match tc {
        T_A => RD::A(vec![*r.pick(&[10u8, 192, 0]), r.below(2) as u8, r.below(2) as u8, r.below(4) as u8]),
        T_AAAA => {
            let mut o = vec![0x20, 0x01, 0x0d, 0xb8];
            o.extend((0..12).map(|_| *r.pick(&[0u8, 0, 1, 0xff])));
            RD::Aaaa(o)
        }
        T_NS => RD::Ns(nm(r)),
        T_CNAME => RD::Cname(nm(r)),
        T_PTR => RD::Ptr(nm(r)),
        T_MX => RD::Mx(small(r), nm(r)),
        T_SOA => {
            let big = |r: &mut Rng| *r.pick(&[0u32, 1, 3600, 0x7fff_ffff, 0x8000_0000, 0xffff_ffff]);
            RD::Soa(nm(r), nm(r), big(r), big(r), big(r), big(r), big(r))
        }
        T_SRV => RD::Srv(small(r), small(r), *r.pick(&[53u16, 443]), nm(r)),
        T_TXT => {
            let n = r.below(4) as usize;
            RD::Txt(
                (0..n)
                    .map(|_| match r.below(8) {
                        0 => vec![],
                        1 => {
                            let k = *r.pick(&[255usize, 200]);
                            vec![b'x'; k]
                        }
                        2 if !clean => vec![b'y'; 256],
                        _ => r.pick(WORDS).as_bytes().to_vec(),
                    })
                    .collect(),
            )
        }
        t => {
            for _ in 0..8 {
                let lower = clean && r.chance(1, 2);
                let rd = if NAME_BEARING_OPAQUE.contains(&t) && (t != 47 || r.chance(1, 2)) { gen_named_opaque(r, t, lower) } else { RD::Op(gen_opaque_raw(r, t)) };
                let raw = match &rd {
                    RD::Op(raw) | RD::OpL(raw, ..) => raw.clone(),
                    _ => unreachable!(),
                };
                // keep only RDATA that the real decoder accepts and re-emits unchanged
                if let Some(real) = rd.to_rdata(t) {
                    if real_key(&real) == raw {
                        return rd;
                    }
                }
            }
            RD::Op(vec![])
        }
    }
}

/// RDATA values each of which is a proper prefix of the next (and variants ending in zero octets)
fn prefix_family(r: &mut Rng, tc: u16) -> Vec<RD> {
    if tc == T_TXT {
        let a = r.pick(&["a", "A", "ab", ""]).as_bytes().to_vec();
        let bb = r.pick(&["b", "", "\0", "a"]).as_bytes().to_vec();
        let z: Vec<u8> = vec![0];
        vec![
            RD::Txt(vec![a.clone()]),
            RD::Txt(vec![a.clone(), bb.clone()]),
            RD::Txt(vec![a.clone(), vec![]]),
            RD::Txt(vec![a.clone(), z.clone()]),
            RD::Txt(vec![a.clone(), bb.clone(), b"c".to_vec()]),
            RD::Txt(vec![a.clone(), vec![], vec![]]),
            RD::Txt(vec![]),
        ]
    } else {
        let n = r.range(0, 3) as usize;
        let base: Vec<u8> = (0..n).map(|_| *r.pick(&[0u8, 1, 0x61, 0xff])).collect();
        let mut v = vec![RD::Op(base.clone())];
        let mut cur = base;
        for _ in 0..4 {
            cur.push(*r.pick(&[0u8, 0, 1, 0x61, 0xff]));
            v.push(RD::Op(cur.clone()));
        }
        v
    }
}

fn gen_case(r: &mut Rng) -> Case {
    let tiers = [T_A, T_AAAA, T_NS, T_CNAME, T_PTR, T_MX, T_SOA, T_SRV, T_TXT];
    let tc = if r.chance(1, 5) { *r.pick(OPAQUE_TYPES) } else { *r.pick(&tiers) };
    let clean = r.chance(1, 2);
    let mut name = gen_n(r);
    if r.chance(1, 6) {
        name.labels.insert(0, b"*".to_vec());
    }
    if name.labels.len() > 1 && r.chance(1, 30) {
        name.labels[1] = b"*".to_vec();
    }
    let cls = if r.chance(1, 12) { *r.pick(&[3u16, 4, 254, 255, 2]) } else { 1 };
    let pool = name_pool(r);
    let n = match r.below(10) {
        0 => 1,
        1..=3 => 2,
        4..=6 => 3,
        7 => 4,
        8 => 5,
        _ => 6,
    };
    let base_ttl = *r.pick(&[0u32, 60, 300, 3600, 86400, 0xffff_ffff]);
    let mut recs: Vec<Rec> = vec![];
    let mut tries = 0;
    // prefix-related canonical RDATA ("absence of an octet sorts before a zero octet"): a chain in
    // which each RDATA is a proper prefix of the next, for TXT and for raw (NULL / unknown) types
    let family: Option<Vec<RD>> = if [T_TXT, 10, 65280, 99].contains(&tc) && r.chance(1, 2) {
        Some(prefix_family(r, tc))
    } else {
        None
    };
    while recs.len() < n && tries < 40 {
        tries += 1;
        let rd = match &family {
            Some(f) => r.pick(f).clone(),
            None => gen_rd(r, tc, &pool, clean),
        };
        if clean {
            // clean cases satisfy the three hypotheses: distinct canonical RDATA
            if recs.iter().any(|x| x.rd.ref_canon() == rd.ref_canon()) {
                continue;
            }
        }
        let ttl = if !clean && r.chance(1, 3) { *r.pick(&[0u32, 1, 59, 61, 7200]) } else { base_ttl };
        recs.push(Rec { name: flip_case(r, &name, 30), rtype: tc, cls, ttl, rd });
    }
    if !clean && r.chance(1, 3) && !recs.is_empty() {
        // duplicate: exact copy, or a copy whose RDATA differs in letter case / TTL only
        let mut d = r.pick(&recs).clone();
        match r.below(3) {
            0 => {}
            1 => {
                d.rd = match d.rd {
                    RD::Ns(n) => RD::Ns(flip_case(r, &n, 50)),
                    RD::Cname(n) => RD::Cname(flip_case(r, &n, 50)),
                    RD::Ptr(n) => RD::Ptr(flip_case(r, &n, 50)),
                    RD::Mx(p, n) => RD::Mx(p, flip_case(r, &n, 50)),
                    RD::Srv(a, b2, c, n) => RD::Srv(a, b2, c, flip_case(r, &n, 50)),
                    RD::Soa(m, rn, a, b2, c, d2, e) => RD::Soa(flip_case(r, &m, 50), rn, a, b2, c, d2, e),
                    // lower-cased embedded name: the case variant is a duplicate after canonicalisation
                    RD::OpL(mut raw, st, ln) => {
                        for x in raw[st..st + ln].iter_mut() {
                            if x.is_ascii_alphabetic() && r.chance(1, 2) {
                                *x ^= 0x20;
                            }
                        }
                        RD::OpL(raw, st, ln)
                    }
                    // case-preserving types: the case variant is a different record
                    RD::Op(mut raw) if NAME_BEARING_OPAQUE.contains(&tc) => {
                        let orig = raw.clone();
                        for x in raw.iter_mut().skip(2) {
                            if x.is_ascii_alphabetic() && r.chance(1, 2) {
                                *x ^= 0x20;
                            }
                        }
                        if RD::Op(raw.clone()).to_rdata(tc).map(|rd| real_key(&rd) == raw).unwrap_or(false) { RD::Op(raw) } else { RD::Op(orig) }
                    }
                    x => x,
                }
            }
            _ => d.ttl = d.ttl.wrapping_add(1),
        }
        recs.push(d);
    }
    if family.is_some() && r.chance(1, 2) && !recs.is_empty() {
        // a duplicate of the shortest RDATA, placed after the longer ones (before the shuffle below,
        // which is skipped half of the time so that this very order is presented)
        let shortest = recs.iter().min_by_key(|x| x.rd.ref_canon().map(|c| c.len()).unwrap_or(0)).unwrap().clone();
        recs.sort_by_key(|x| std::cmp::Reverse(x.rd.ref_canon().map(|c| c.len()).unwrap_or(0)));
        recs.push(shortest);
    }
    let keep_order = family.is_some() && r.chance(1, 2);
    // noise: records that must not be collected
    if r.chance(1, 4) {
        let mut x = recs.first().cloned().unwrap_or(Rec { name: name.clone(), rtype: T_A, cls, ttl: 1, rd: RD::A(vec![1, 2, 3, 4]) });
        match r.below(4) {
            0 => x.name.labels.insert(0, b"sub".to_vec()),
            1 => x.cls = if cls == 1 { 3 } else { 1 },
            2 => {
                x.rtype = if tc == T_A { T_AAAA } else { T_A };
                x.rd = gen_rd(r, x.rtype, &pool, true);
            }
            _ => x.name.fqdn = !x.name.fqdn,
        }
        recs.push(x);
    }
    // shuffle
    for i in (1..if keep_order { 0 } else { recs.len() }).rev() {
        let j = r.below(i as u64 + 1) as usize;
        recs.swap(i, j);
    }
    let cnt = {
        let n = name.labels.len();
        if name.labels.first().map(|l| l == b"*").unwrap_or(false) { n - 1 } else { n }
    } as u64;
    let labels = match r.below(20) {
        0..=12 => cnt,
        13..=15 => r.below(cnt + 1),
        16 | 17 => cnt + r.range(1, 3),
        18 => 255,
        _ => r.below(8),
    } as u8;
    let mut signer = gen_n(r);
    signer.fqdn = true;
    if r.chance(1, 2) {
        signer = flip_case(r, &signer, 50);
    }
    Case {
        name,
        cls,
        tc,
        alg: *r.pick(&[8u8, 10, 13, 14, 15, 5, 0, 253, 255]),
        labels,
        ottl: *r.pick(&[0u32, 300, 3600, 86400, 0x8000_0000, 0xffff_ffff]),
        exp: r.next() as u32,
        inc: r.next() as u32,
        tag: r.next() as u16,
        signer,
        recs,
    }
}

pub fn nm(s: &str) -> N {
    N { labels: s.trim_end_matches('.').split('.').filter(|l| !l.is_empty()).map(|l| l.as_bytes().to_vec()).collect(), fqdn: true }
}

/// hand-built cases: the three repaired deviations (regression), SOA compression, > 64 candidate labels, 64 KiB
fn hand_built() -> Vec<Case> {
    let base = |name: &str, tc: u16, recs: Vec<(u32, RD)>| {
        let n = nm(name);
        Case {
            name: n.clone(),
            cls: 1,
            tc,
            alg: 13,
            labels: n.labels.len() as u8,
            ottl: 3600,
            exp: 1_700_003_600,
            inc: 1_700_000_000,
            tag: 12345,
            signer: nm("Example.COM."),
            recs: recs.into_iter().map(|(ttl, rd)| Rec { name: n.clone(), rtype: tc, cls: 1, ttl, rd }).collect(),
        }
    };
    let mut v = vec![
        // RDATA letter case decides the order (Example.net before example.com)
        base("example.com.", T_NS, vec![(3600, RD::Ns(nm("ns.Example.net."))), (3600, RD::Ns(nm("ns.example.com.")))]),
        // duplicate record kept
        base("example.com.", T_NS, vec![(3600, RD::Ns(nm("ns.example.com."))), (3600, RD::Ns(nm("ns.example.com.")))]),
        // TTL looked at before the RDATA
        base("example.com.", T_A, vec![(300, RD::A(vec![10, 0, 0, 2])), (60, RD::A(vec![10, 0, 0, 9]))]),
        // SOA: rname compresses against mname in the sort key only
        base(
            "example.com.",
            T_SOA,
            vec![
                (3600, RD::Soa(nm("ns.example.com."), nm("admin.example.com."), 1, 2, 3, 4, 5)),
                (3600, RD::Soa(nm("ns.example.com."), nm("admin.Example.com."), 1, 2, 3, 4, 5)),
                (3600, RD::Soa(nm("ns.example.com."), nm("admin.example.com.zz."), 1, 2, 3, 4, 5)),
            ],
        ),
    ];
    // mname with 100 labels: only the first 64 suffixes are compression candidates
    let long = N { labels: (0..100).map(|i| vec![b'a' + (i % 26) as u8]).collect(), fqdn: true };
    let deep = N { labels: long.labels[70..].to_vec(), fqdn: true };
    let shallow = N { labels: long.labels[10..].to_vec(), fqdn: true };
    v.push(base(
        "example.com.",
        T_SOA,
        vec![(1, RD::Soa(long.clone(), deep, 1, 2, 3, 4, 5)), (1, RD::Soa(long.clone(), shallow, 1, 2, 3, 4, 5)), (1, RD::Soa(nm("."), nm("."), 0, 0, 0, 0, 0))],
    ));
    // signed data beyond the 65 535-byte encoder buffer
    let big_txt = |c: u8| RD::Txt((0..43).map(|_| vec![c; 255]).collect());
    v.push(base("example.com.", T_TXT, (0..6).map(|i| (5, big_txt(b'a' + i))).collect()));
    v.push(base("example.com.", T_TXT, (0..5).map(|i| (5, big_txt(b'a' + i))).collect()));
    // wildcard owner and Labels field
    for labels in 0..5u8 {
        let mut c = base("*.Sub.example.com.", T_A, vec![(5, RD::A(vec![1, 2, 3, 4])), (5, RD::A(vec![1, 2, 3, 3]))]);
        c.labels = labels;
        v.push(c);
        let mut c = base("a.b.example.com.", T_MX, vec![(5, RD::Mx(10, nm("Mail.example.com."))), (5, RD::Mx(9, nm("mail.example.com.")))]);
        c.labels = labels;
        v.push(c);
    }
    // mixed-case owner (and wildcard owner) with the Labels field below / at / above the label count
    for labels in 0..6u8 {
        let mut c = base("Www.A.Example.COM.", T_A, vec![(5, RD::A(vec![1, 2, 3, 4])), (5, RD::A(vec![1, 2, 3, 3]))]);
        c.labels = labels;
        c.signer = nm("SIGNER.Example.ORG.");
        v.push(c);
        let mut c = base("*.MiXed.Example.", T_TXT, vec![(5, RD::Txt(vec![b"x".to_vec()]))]);
        c.labels = labels;
        v.push(c);
    }
    // prefix-related canonical RDATA, longer first, a duplicate of the shorter one after the longer one
    let t = |ss: &[&str]| RD::Txt(ss.iter().map(|x| x.as_bytes().to_vec()).collect());
    v.push(base("example.com.", T_TXT, vec![(5, t(&["a", "b"])), (5, t(&["a"])), (5, t(&["a", "b"])), (5, t(&["a"]))]));
    v.push(base("example.com.", T_TXT, vec![(5, t(&["a", "b"])), (5, t(&["a"]))]));
    v.push(base("example.com.", T_TXT, vec![(5, t(&["a"])), (5, t(&["a", "b"])), (5, t(&["a", ""])), (5, t(&["a", "\0"]))]));
    v.push(base("example.com.", 65280, vec![(5, RD::Op(vec![1, 0, 0])), (5, RD::Op(vec![1])), (5, RD::Op(vec![1, 0])), (5, RD::Op(vec![])), (5, RD::Op(vec![1]))]));
    v.push(base("example.com.", 10, vec![(5, RD::Op(vec![0x61, 0x62])), (5, RD::Op(vec![0x61])), (5, RD::Op(vec![0x61, 0]))]));
    // root owner, empty RRset
    v.push(base(".", T_NS, vec![(5, RD::Ns(nm("a.root-servers.net."))), (5, RD::Ns(nm("B.root-servers.net.")))]));
    v.push(base("example.com.", T_NS, vec![]));
    v
}

fn emit_case(c: &Case, rec: &mut Recorder, with_rdata: bool) {
    let Some(args) = c.args() else {
        rec.stat("skipped.unbuildable-case");
        return;
    };
    for op in ["tbs", "spec", "class", "sv"] {
        exec(&format!("{op} {args}"), rec);
    }
    // the built-in signer entry point, with a key and a signature duration derived from the case
    let ki = (c.tag as usize) % 5;
    let dur = [0u32, 1, 3600, 86400 * 30, 0x7FFF_FFFF][(c.exp as usize) % 5];
    let mut cs = c.clone();
    cs.inc %= 0x7000_0000;
    if let Some(a) = cs.args() {
        exec(&format!("bs {ki} {dur} {a}"), rec);
    }
    // the RRSIG through the wire
    exec(&format!("wr {ki} {args}"), rec);
    if with_rdata {
        for r in c.rrset().iter().take(3) {
            if let Some(t) = r.rd.tok(r.rtype) {
                exec(&format!("rdata {} {}", r.rtype, t), rec);
            }
        }
    }
}

pub fn run(o: &Opts, rec: &mut Recorder) {
    rec.rule = "RRsets of every modelled type (A, AAAA, NS, CNAME, PTR, MX, SOA, SRV, TXT) and opaque types (DNSKEY, DS, TLSA, NSEC, HINFO, SSHFP, NULL, OPENPGPKEY, unknown), 1-6 records + duplicates + foreign records, shuffled, mixed-case owner and RDATA names, differing TTLs, Labels field =/</> owner labels, wildcard owners, random RRSIG parameters; non-trivial: (tbs) TBS::from_input returned Ok for an RRset of >= 2 collected records, (sv) a conforming third-party signature verified, (rdata) the sort key differs from the canonical RDATA; distinct by case line".into();
    for l in o.pre_lines.clone() {
        exec(&l, rec);
    }
    rec.corpus_cases = rec.cases.len();
    if o.replay_only {
        return;
    }
    exec("kl", rec);
    // malformed public keys of every supported algorithm
    {
        let mut kr = Rng::new(5051);
        for alg in [5u8, 7, 8, 10, 13, 14, 15] {
            for len in [0usize, 1, 2, 3, 4, 31, 32, 33, 63, 64, 65, 95, 96, 97, 128, 131, 259, 260] {
                let mut pk = kr.bytes(len);
                if len >= 3 && kr.chance(1, 2) {
                    pk[0] = *kr.pick(&[0u8, 1, 3, 4, 255]); // RFC 3110 exponent length octet
                }
                exec(&format!("bk {alg} {}", hex(&pk)), rec);
            }
        }
        for k in sign_keys() {
            let pk = k.dnskey.public_key().clone().into_inner();
            for cut in [1usize, 2, pk.len() / 2] {
                exec(&format!("bk {} {}", u8::from(k.alg), hex(&pk[..pk.len() - cut])), rec);
            }
            let mut longer = pk.clone();
            longer.push(0);
            exec(&format!("bk {} {}", u8::from(k.alg), hex(&longer)), rec);
        }
    }
    for c in hand_built() {
        emit_case(&c, rec, true);
    }
    for c in limit_cases() {
        emit_case(&c, rec, true);
    }
    let mut r = Rng::new(o.seed);
    let n = o.n(2500, 60_000);
    for _ in 0..n {
        let c = gen_case(&mut r);
        emit_case(&c, rec, true);
    }
}
